"""What MANIFEST.json claims per property (kept next to the scenario table)."""
COMMON_NOTE = ("Trusted: Lean 4.33 kernel (axioms propext, Classical.choice, Quot.sound only; audited on every run), "
               "tools/extract.py, the Rust harness and the Lean driver (correspondence), LMDB/heed, roaring-rs, rayon, rustc. "
               "The theorems are about the executable Lean model (lean/ArroyModel); the model is tied to /repo on every run by "
               "regenerating Generated.lean from the sources and by replaying implementation traces through the model.")
PENDING_REASON = {}
CLAIMS = {
    "C14": {
        "text": "`available_memory` provably enters the build ONLY through the batch-length oracle (build with any memory value = build "
                "without, C14_any_memory), and C01/C02/C03 are proved for every oracle stream, so the forest and the answers do not depend "
                "on the hint. Termination: every bounded loop of the model provably never runs out of its own fuel (batch loop, "
                "make-tree depth, reify, delete-tree); in the re-split loop a batch larger than the capacity provably yields a split "
                "node (progress, what repair G guarantees) while a fitting batch is provably a fixed point (the repaired livelock); every "
                "round whose batch exceeds the capacity strictly decreases the measure sum(size-1) of the queued buckets, so the loop "
                "(and the whole build) provably never exhausts a fuel above that measure: a run can only fail to finish through a batch "
                "that fits, i.e. the repaired livelock (C14_round_measure, C14_terminates_above_cap, C14_build_terminates_above_cap); the "
                "measure is bounded in closed form by trees x items (C14_loop_measure_bound, C14_build_terminates_explicit). "
                "Real crate: memory in {0, a page, ~items, ample, unset} x item counts around the 200-item minimum x split_after on both "
                "sides of the batch, first and incremental builds, hang detection by a poll limit.",
        "note": COMMON_NOTE + " What stays probabilistic in the real code is inside make_tree (a split search that keeps every item on one side recurses on the same set); the model bounds it by the finite stream of recorded normals.",
        "technique": "Lean 4 theorems (oracle-independence, fuel sufficiency, progress / fixed point) + memory-hint lattice on the real crate with hang detection",
    },
    "C20": {
        "text": "The forest, store and search theorems (C01, C05, C03) carry no hypothesis on vector values: NaN, infinities, zeros, "
                "duplicates are ordinary bit patterns of the model. Proved in addition: the side function is total on every bit pattern "
                "(zero or NaN margins fall to the random oracle), searches on a valid forest never fail and are well-formed for any "
                "query bits, OrderedFloat's order is total on NaNs, an empty side always triggers the random split (all n < 2^53), the "
                "build's only possible fuel failure is the re-split loop. Real crate: six degenerate data families x 7 metrics x n up "
                "to hundreds (1 200 in thorough), every build replayed through the model, every answer checked for well-formedness.",
        "note": COMMON_NOTE + " Bounded build time is observed (poll limit), not proved (probabilistic termination).",
        "technique": "Lean 4 totality theorems + value-independent forest/store/search theorems + degenerate-data differential replay",
    },
    "C01": {
        "text": "Proved by induction over ALL histories ((add|append|overwrite|delete|clear)* build)+ on any indexes, for every oracle "
                "stream (split normals, random sides, batch lengths = every memory hint), every option set, every cancellation "
                "schedule, ids anywhere in u32: a successful build leaves metadata listing exactly the stored items and a valid forest "
                "(every root and child reference resolves, node ids not shared nor reachable twice, no unreferenced tree node, every "
                "tree reaches every item exactly once), and the index invariant holds again, so the statement iterates. The id "
                "generator hypothesis is discharged by C13. The executable checker `Check.forestValid` is proved to accept exactly "
                "such states (completeness: C01_checker_*; soundness: CHK_forestValid_sound) and is evaluated on EVERY implementation dump; single-thread builds are replayed byte-for-byte "
                "through the model, multi-thread builds checked by the predicates.",
        "note": COMMON_NOTE + " Hypotheses: index < 65536, split_after >= 1, n_trees != 0 for the `at least one tree` clause. The recursive "
                "routines are modelled as pure tree-level functions whose polls are charged afterwards (DESIGN.md section 0).",
        "technique": "Lean 4 invariant proof by induction over operation histories (heap/frame/write-back library) + byte-exact trace replay + forest predicates on dumps",
    },
    "C12": {
        "text": "Proved for every dimension and every component bit pattern (signed zeros, NaNs of both signs, infinities): unpack(pack v) "
                "is the sign pattern at the declared dimension with all-(-1) padding, packing depends on signs only; Hamming = number of "
                "differing signs, symmetric, zero iff equal patterns; the built distances are functions of h only (4h, 2h, the closed "
                "cosine formula with the exactly computed norm product), zero (+0.0) for equal patterns for all three metrics at every "
                "dimension, in [0,1] for cosine, symmetric, monotone in h for all three metrics at every dimension (C12_monotone, C12_monotone_cosine: rounding of the soft-float is "
                "proved monotone), strictly up to 2^21 dimensions for cosine (strictness is FALSE at 2^36 dimensions: machine-checked). "
                "Real crate: every conversion path (from_slice, iter, to_vec/SSE) and every quantised distance compared bit for bit with "
                "the model for dims 1..300 (distances up to 450), exhaustive sign patterns for small d; every reported quantised distance "
                "is also checked against the definition 4h/d, 2h/d, h/D64 evaluated exactly, for symmetry and for zero self-distance.",
        "note": COMMON_NOTE + " The NEON conversion paths are not modelled.",
        "technique": "Lean 4 theorems over bit patterns (incl. soft-float sqrt/div exactness lemmas) + bit-exact differential of all conversion paths",
    },
    "C02": {
        "text": "Proved: on any store holding a valid forest (the predicate the build theorem establishes), an unlimited-budget query "
                "returns exactly the min(count, n) stored items nearest under the model's bit-exact metric, sorted by (distance, id), each "
                "once, each with normalized(built) distance, and equals brute force over the stored leaves; the traversal never fails "
                "and its fuel always suffices. The order is OrderedFloat's total order, proved a total preorder on all bit patterns. "
                "Real crate: every unlimited-budget query of the histories is compared bit-for-bit with the model AND with brute force "
                "over the implementation's own stored vectors. The answer is also a theorem about the HISTORY alone (C02_history): after any "
                "history and a successful build the query returns exactly the count best entries of the abstract item map (last write "
                "wins, deletions gone, metric changes re-encoded) scored on the vectors as written; deleted or overwritten vectors are "
                "provably never returned.",
        "note": COMMON_NOTE + " `True distance` = the model's bit-exact metric; its relation to real arithmetic is C11.",
        "technique": "Lean 4 theorems (traversal collects the forest; sorted permutation uniqueness) + brute-force oracle on implementation dumps",
    },
    "C03": {
        "text": "Proved for every count, budget, oversampling and filter, with no hypothesis on the store: at most count results, distinct, "
                "stored, inside the filter, sorted nearest-first on the true scores AND on the reported distances (the per-metric "
                "normalisation is proved monotone on the soft-float: C03_reported_sorted), each with its true normalized distance; budget monotonicity (the "
                "candidate list for a smaller budget is a prefix; no shorter result, no worse rank); filtered unlimited search = exact "
                "search on the filter; default budget = count x trees x oversampling with saturating arithmetic; by_item of an absent id "
                "is none and by_item = by_vector of the stored vector. Real crate: a lattice of counts (0..usize::MAX), budgets, "
                "oversamplings and filters; answers compared bit-for-bit with the model and checked by the well-formedness, exactness "
                "and monotonicity predicates. The same statements are proved against the HISTORY (C03_history_*): results are keys of the "
                "abstract item map inside the filter, with the definitional distance on the vector as written; unknown, deleted and "
                "never-written ids alike yield none.",
        "note": COMMON_NOTE + " by_item = by_vector is proved for all seven metrics (C03Bq for the quantised ones).",
        "technique": "Lean 4 theorems over the traversal model + query-lattice differential with well-formedness/monotonicity predicates",
    },
    "C04": {
        "text": "Proved: routing (RoutedT) is exactly `each item with a decisive margin lies on the side the reader sends its own vector to "
                "first`; if one tree separates x by non-degenerate planes with decisive margins only, by_item(x) with any budget >= 1 "
                "returns x (loop invariant of the traversal over soft-float priorities, including the zero-margin rule for random splits "
                "and NaN margins). RoutedT is preserved by delete / insert / make-tree (tree-level theorems). Real crate: margins are "
                "recomputed by the soft-float kernels on every dump (routed predicate) and every stored item is looked up with budget 1.",
        "note": COMMON_NOTE + " Needs margin symmetry between a stored vector and the normals (proved for equal lengths, C11_symm_dot).",
        "technique": "Lean 4 loop-invariant proof over the traversal + routed/self-lookup predicates on implementation dumps",
    },
    "C07": {
        "text": "Proved for all keys and all indexes (including 65535 and ids 0 / u32::MAX): prefix and range scans select exactly the keys "
                "of their index and kind; every writer operation including the WHOLE build (every helper, any options, any oracle, any "
                "cancel point) and the metric change leaves every key of every other index unchanged, hence their reads, need_build and "
                "open results. History level: the content of an index after any interleaving with other indexes' histories equals the content "
                "after its own history alone (C07_history_projection: adds, deletes, clears, metric changes and builds of the index; the "
                "build reads no key of another index, C07_buildLocal). Only `append` on the index is excluded: there the projection is "
                "false (LMDB append order is database-wide), proved on a witness. Runs with 2-3 indexes compare the full dump (all indexes) with the model after every operation.",
        "note": COMMON_NOTE + " Query answers of the other index follow from the unchanged keys via C02/C03; that corollary is not restated.",
        "technique": "Lean 4 frame theorems (compositional Hoare-style library over the build monad) + multi-index differential replay",
    },
    "C08": {
        "text": "Theorems over the trusted model of the LMDB environment for every interleaving of events: a reader observes exactly the "
                "version committed when it opened, unaffected by later writes/commits; readers only ever see committed versions; an "
                "aborted transaction (after any operations) leaves no trace; a commit publishes exactly the transaction's final state. "
                "Real threads: one writer + 1-8 readers with barrier-controlled and free-running open points; every snapshot dump must "
                "equal the model's committed version inside the admissible commit window and stay identical while held; every committed "
                "version is checked by the forest and search predicates.",
        "note": COMMON_NOTE + " MVCC itself is LMDB's (assumed); thread schedules are sampled, not proved.",
        "technique": "Lean 4 theorems over an MVCC model (all event interleavings) + multi-threaded snapshot validation against model versions",
    },
    "C09": {
        "text": "Theorems over the environment model: a crash at any point of any event sequence loses open transactions only; the committed "
                "version is that of the last commit that returned. Real process: a child is SIGKILLed at every poll of small builds, "
                "between item operations and at random instants inside commit; the reopened environment's dump must equal the model's "
                "last committed (or in-flight, if commit had started) version, satisfy the forest predicates and answer exhaustive queries.",
        "note": COMMON_NOTE + " Durability of a returned commit is LMDB's (assumed); SIGKILL stands for a crash.",
        "technique": "Lean 4 theorems over the environment model + kill-and-reopen runs validated against the model's committed versions",
    },
    "C10": {
        "text": "Transparency theorems for the whole build, for every cancel point: a build that returns Ok under a cancelling callback "
                "returns exactly the fault-free result; an error is the cancellation or the fault-free error; cancelled iff the callback "
                "fires before the fault-free build's last poll (including the swallowed poll in used_tree_node, under the invariant "
                "RootsPresent of built indexes); abort restores, retry equals the fault-free build. Real crate: cancellation swept over "
                "every poll of first and incremental builds with the poll count predicted by the model, LMDB map sizes from too small "
                "to ample, unusable temp directory, dump after abort compared, fd/temp-file ledger over hundreds of builds.",
        "note": COMMON_NOTE + " RootsPresent is proved preserved by builds in the C01 chain when present; the Drop-based resource clause is observed, not proved.",
        "technique": "Lean 4 transparency proof (closure over the build monad) + exhaustive cancellation sweep and fault injection on the real crate",
    },
    "C11": {
        "text": "Proved over any commutative ring, for every length: scalar, SSE-shaped and AVX-shaped kernels compute the same sum with every "
                "index exactly once; bit-for-bit symmetry of all four f32 metrics on the soft-float instance; exact +0 self-distance for "
                "Euclidean/Manhattan on finite vectors; cosine in [0,1]; rounding-error bounds for scalar and SIMD shapes in the standard "
                "model, which the bit-level soft-float arithmetic is proved to satisfy in the normal range, so the bounds hold for the "
                "actual kernels (C11_round_f32_dot_product, _euclidean_distance, _manhattan_distance) and for the REPORTED values: the Euclidean distance after the square root (C11_round_f32_reported_euclidean) and the cosine distance (1-cos)/2 within 1.05(n+5)u, exactly +0.0 when a vector is all zeros (C11_round_f32_cosine, C11_cosine_zero_norm). Every real kernel (dispatching, scalar, SSE, AVX+FMA) is compared BIT FOR BIT with the model's soft-float kernels "
                "for lengths 1..300 x byte offsets 0..3 x value families, and with the exact sum within the bound; every REPORTED distance of "
                "the four metrics is checked against its definition evaluated exactly (sqrt(sum (a-b)^2), sum |a-b|, (1-cos)/2 with 0 for a "
                "vanishing norm, the inner product), for symmetry against the swapped pair and for the self-distance; the distances that "
                "queries report end to end are checked on the c11 histories.",
        "note": COMMON_NOTE + " The soft-float operations are PROVED to satisfy the standard model in the normal range (C11_f32_std_model_on; mul/add/sub/fma/div/sqrt), and the actual dispatching kernels get the rounding bound under a decidable no-overflow/underflow run-time flag (C11_round_f32_dot_product …); that the host FPU equals the soft-float is validated bit-exactly, not proved. Underflow (absolute error) is not covered.",
        "technique": "Lean 4 theorems (Mathlib CommRing / reals for cover and rounding, core for bit-level symmetry) + bit-exact kernel differential",
    },
    "C13": {
        "text": "The id generator is modelled with one step per atomic operation; uniqueness and freshness of every id handed out are "
                "proved for EVERY schedule of ANY number of threads and requests, with DatabaseFull exactly at exhaustion and no counter "
                "wrap before; the sequential generator of the build model is proved to refine it. The build half is a theorem too: the "
                "whole forest chain is proved for an ARBITRARY fresh id supply (C13_build_any_supply), any finite sequence of ids is a "
                "generator state (IdGen.ofSeq), so the build that consumes the ids handed out under any schedule of any number of "
                "requesters, in any arrangement, yields a valid forest (C13_build_every_schedule) - a thread schedule changes only which "
                "fresh ids each task receives. The real ConcurrentNodeIds runs on "
                "instrumented atomics under a controlled scheduler: >10^5 exhaustively/systematically explored schedules must match the "
                "model step for step; multi-threaded builds (1-16 threads, threads made to rendezvous at every instrumented atomic "
                "operation) are checked by the forest predicates.",
        "note": COMMON_NOTE + " Each atomic cell is sequentially consistent in the model; weak-memory effects beyond per-operation atomicity are not modelled. That the rayon tasks of a build share nothing but the id generator (immutable snapshot, private scratch file, writes applied by the single writer) is read off the code and checked by the forest predicates on 2-16 thread builds, not proved.",
        "technique": "Lean 4 invariant proof over all schedules + schedule-controlled replay of the real generator",
    },
    "C15": {
        "text": "target_n_trees is proved to return the requested count, and at least 1 when automatic, for all inputs (binary64 hysteresis "
                "modelled exactly in soft-float); root count = target and bucket capacity are part of the build theorems (C01 chain) and "
                "are evaluated on every implementation dump: trees = requested, >= 1 automatic, exactly 1 / 0 for single-bucket / empty "
                "indexes, and no bucket above a constant capacity. Over histories (C15_history): what Reader::open reports after any history "
                "and a build - the requested count whether the forest had to grow or shrink - and every query with count >= 1 and any "
                "budget >= 1 on a non-empty index returns a result (C15_history_search_nonempty).",
        "note": COMMON_NOTE,
        "technique": "Lean 4 arithmetic theorems + forest theorems + per-dump predicates on the real crate around the capacity boundary",
    },
    "C17": {
        "text": "up04to05 (down s) = s minus version records is proved as a literal equality of databases for every well-formed database "
                "(all indexes, re-tagged children, renamed metric, one mark per pending id); the 0.5->0.6 stamp adds a version record "
                "exactly to indexes with metadata and changes nothing else; unknown kinds raise CannotDecodeKeyMode exactly. Every database "
                "reachable by a history whose builds are cosine is proved well-formed, and downgrade -> upgrade -> stamp of it is proved to "
                "open, to hold a valid forest, to answer unlimited-budget queries exactly and to demand a build exactly where marks were "
                "pending (C17_upgrade_reachable). Real crate: "
                "old-layout databases produced from C01-style histories are upgraded by the real functions and the dumps compared with "
                "the original and with the model.",
        "note": COMMON_NOTE + " The inverse layout change (down) is implemented twice (Rust harness, Lean model) and cross-checked.",
        "technique": "Lean 4 round-trip theorem + differential run of the real upgrade functions on generated old-layout databases",
    },
    "C18": {
        "text": "prepare_changing_distance is characterised exactly for all 49 metric pairs: identity for the same metric; otherwise forest "
                "and metadata gone, same item ids, vectors re-encoded from the f32 view at the declared dimension (bit-identical f32->f32, "
                "sign pattern into quantised, +-1 out of quantised), other indexes / marks / version untouched, need_build, and the old "
                "metric refused after the next build. The metric change is an operation of the history grammar of every history theorem "
                "(C01/C02/C03/C04/C05/C07/C15): after any history, a change of metric, any further operations and a successful build the "
                "reader opens under the new metric with exactly the stored ids, the forest is valid, unlimited-budget search is exact, "
                "the old metric is refused, and the index demands a build until then (C18_build_after_change_reachable, "
                "C18_needs_build_until_built). All pairs are run on the real crate over several index shapes with neighbours.",
        "note": COMMON_NOTE,
        "technique": "Lean 4 characterisation theorems + differential replay over all ordered metric pairs",
    },
    "C05": {
        "text": "Refinement theorems: for every history of add/append/delete/clear over any indexes the model's item store refines the "
                "abstract map id -> last written vector (presence, bit-exact read-back for f32 metrics, sign pattern for quantised ones, "
                "ascending iteration, emptiness, deletion result); the implementation is compared with the model after every single "
                "operation (answers and full decoded dumps) over histories covering all float bit patterns, all metrics, u32-wide ids. "
                "Over the FULL history grammar (builds and metric changes included) the read answers are proved to be those of an abstract "
                "map computed over the operations (C05_history; presence with no side condition at all: C05_history_presence), builds of any "
                "index never change any read answer (C05_build_never_changes_spec), and the same holds inside the writing transaction and "
                "after commit (C05_history_transactions).",
        "note": COMMON_NOTE + " `Building never changes any of this` is the theorem C05_build_preserves (ArroyProofs/Properties/C05Build.lean) "
                "when present, and is compared on every build by the dumps.",
        "technique": "Lean 4 refinement proof (induction over histories) + per-operation differential replay against the real crate",
    },
    "C06": {
        "text": "Reader::open and Writer::need_build are characterised exactly (three checks in order; stale iff a mark exists or "
                "metadata is missing), every effective mutation provably leaves a mark, no-ops provably change nothing, metric names "
                "are pairwise distinct; the implementation's open/need_build answers are compared with the model after every operation, "
                "in the write transaction and from fresh read transactions after commit and abort. Staleness is also characterised as a "
                "function of the HISTORY (C06_history): an abstract status never-built / built-clean / built-dirty computed over the "
                "operations (effective = accepted add/append, delete of a present id, clear, change of metric, successful build) "
                "determines the answer of Reader::open, error kind included, and of need_build, for every history and every index.",
        "note": COMMON_NOTE,
        "technique": "Lean 4 theorems over the store model and over operation histories + per-operation differential replay",
    },
    "C19": {
        "text": "Rejected calls provably return the documented error and no new store; append is proved to fail exactly when some key of the "
                "whole database is >= the new key and otherwise to equal add; absent deletes provably change nothing; the malformed "
                "stream (wrong lengths, bad appends, absent deletes) is replayed against the real crate with the raw dump compared "
                "before/after.",
        "note": COMMON_NOTE,
        "technique": "Lean 4 theorems + differential replay of a malformed-call stream",
    },
    "C16": {
        "text": "Key layout proved for ALL keys (byte order = (index, kind, id) order, round-trip, injectivity, 8 bytes), node-id and "
                "version codecs round-trip, and an obligation tying the layout extracted from the current sources to the reference "
                "layout; every key and value the implementation writes in the explored histories is decoded AND re-encoded by the "
                "reference codec of the model, byte for byte, and every stored vector has the length the layout prescribes for the vector as "
                "written (dimensions on both sides of the 64-component word); raw keys of real operations over the boundary lattice compared; "
                "golden fixtures of all 7 metrics are loaded, read, searched, updated and rebuilt. Every entry of every database reachable by a "
                "history is proved to round-trip through the byte codec, with the dump strictly increasing in byte order (C16_reachable_*).",
        "note": COMMON_NOTE + " Little-endian host assumed for native-endian fields. The roaring serialisation round-trip is a theorem for array and bitmap containers (what roaring-rs 0.10 writes); run containers are not modelled.",
        "technique": "Lean 4 theorems (all keys) + extractor obligation + differential decode/re-encode of every dump",
    },
}
