"""What MANIFEST.json claims per property (kept next to the scenario table)."""
COMMON_NOTE = ("Trusted: Lean 4.33 kernel (axioms propext, Classical.choice, Quot.sound only; audited on every run), "
               "tools/extract.py, the Rust harness and the Lean driver (correspondence), LMDB/heed, roaring-rs, rayon, rustc. "
               "The theorems are about the executable Lean model (lean/ArroyModel); the model is tied to /repo on every run by "
               "regenerating Generated.lean from the sources and by replaying implementation traces through the model.")
PENDING_REASON = {}
CLAIMS = {
    "C16": {
        "text": "Key layout proved for ALL keys (byte order = (index, kind, id) order, round-trip, injectivity, 8 bytes), node-id and "
                "version codecs round-trip, and an obligation tying the layout extracted from the current sources to the reference "
                "layout; every key and value the implementation writes in the explored histories is decoded AND re-encoded by the "
                "reference codec of the model, byte for byte; raw keys of real operations over the boundary lattice compared.",
        "note": COMMON_NOTE + " Little-endian host assumed for native-endian fields. Roaring serialisation round-trip is not yet a theorem "
                "(compared byte-for-byte on every dump instead).",
        "technique": "Lean 4 theorems (all keys) + extractor obligation + differential decode/re-encode of every dump",
    },
}
