"""What MANIFEST.json claims per property (kept next to the scenario table)."""
COMMON_NOTE = ("Trusted: Lean 4.33 kernel (axioms propext, Classical.choice, Quot.sound only; audited on every run), "
               "tools/extract.py, the Rust harness and the Lean driver (correspondence), LMDB/heed, roaring-rs, rayon, rustc. "
               "The theorems are about the executable Lean model (lean/ArroyModel); the model is tied to /repo on every run by "
               "regenerating Generated.lean from the sources and by replaying implementation traces through the model.")
PENDING_REASON = {}
CLAIMS = {
    "C05": {
        "text": "Refinement theorems: for every history of add/append/delete/clear over any indexes the model's item store refines the "
                "abstract map id -> last written vector (presence, bit-exact read-back for f32 metrics, sign pattern for quantised ones, "
                "ascending iteration, emptiness, deletion result); the implementation is compared with the model after every single "
                "operation (answers and full decoded dumps) over histories covering all float bit patterns, all metrics, u32-wide ids.",
        "note": COMMON_NOTE + " `Building never changes any of this` is the theorem C05_build_preserves (ArroyProofs/Properties/C05Build.lean) "
                "when present, and is compared on every build by the dumps.",
        "technique": "Lean 4 refinement proof (induction over histories) + per-operation differential replay against the real crate",
    },
    "C06": {
        "text": "Reader::open and Writer::need_build are characterised exactly (three checks in order; stale iff a mark exists or "
                "metadata is missing), every effective mutation provably leaves a mark, no-ops provably change nothing, metric names "
                "are pairwise distinct; the implementation's open/need_build answers are compared with the model after every operation, "
                "in the write transaction and from fresh read transactions after commit and abort.",
        "note": COMMON_NOTE,
        "technique": "Lean 4 theorems over the store model + per-operation differential replay",
    },
    "C19": {
        "text": "Rejected calls provably return the documented error and no new store; append is proved to fail exactly when some key of the "
                "whole database is >= the new key and otherwise to equal add; absent deletes provably change nothing; the malformed "
                "stream (wrong lengths, bad appends, absent deletes) is replayed against the real crate with the raw dump compared "
                "before/after.",
        "note": COMMON_NOTE,
        "technique": "Lean 4 theorems + differential replay of a malformed-call stream",
    },
    "C16": {
        "text": "Key layout proved for ALL keys (byte order = (index, kind, id) order, round-trip, injectivity, 8 bytes), node-id and "
                "version codecs round-trip, and an obligation tying the layout extracted from the current sources to the reference "
                "layout; every key and value the implementation writes in the explored histories is decoded AND re-encoded by the "
                "reference codec of the model, byte for byte; raw keys of real operations over the boundary lattice compared.",
        "note": COMMON_NOTE + " Little-endian host assumed for native-endian fields. Roaring serialisation round-trip is not yet a theorem "
                "(compared byte-for-byte on every dump instead).",
        "technique": "Lean 4 theorems (all keys) + extractor obligation + differential decode/re-encode of every dump",
    },
}
