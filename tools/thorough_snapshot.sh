#!/bin/bash
# For `vp run --with-repo -- tools/thorough_snapshot.sh C01 C02 ...`: runs the thorough tier of the given checks in a
# snapshot of /verif against the snapshot of /repo ($VP_RUN_REPO), so that edits to /repo (seeded changes being tried)
# do not disturb it. Not a registered command: evidence is only ever written by ./check in /verif against /repo.
cd "$(dirname "$0")/.."
R=${VP_RUN_REPO:-/repo}
sed -i "s#path = \"/repo\"#path = \"$R\"#" harness/Cargo.toml
export VERIF_REPO=$R
./setup.sh > setup.log 2>&1 || { echo "setup failed"; tail -20 setup.log; exit 2; }
for p in "$@"; do
  /usr/bin/time -f "$p %e s" ./check $p --tier thorough 2>&1 | tail -8
done
