#!/bin/bash
# usage: tools/seed_mutant.sh <PROP> <n> [extra props to check...]
# Confirms a sub-agent's mutant in its scratch worktree (tests green with it, demo red with it and green without),
# stores it under seeded/<PROP>-<n>/, then applies it to /repo, runs the check(s), and undoes it.
set -u
P=$1; N=$2; shift 2
WT=/tmp/mut-$P
D=/verif/seeded/$P-$N
mkdir -p $D
cp $WT/mutant_$N.diff $D/patch.diff
cp $WT/tests/mutant_${N}_demo.rs $D/demo.rs
cd $WT
export CARGO_TARGET_DIR=$WT/target CARGO_NET_OFFLINE=true
git checkout -q -- src 2>/dev/null
demo_clean=$(cargo test --offline --test mutant_${N}_demo 2>&1 | grep -E "^test result" | head -1)
git apply mutant_$N.diff || { echo "patch does not apply"; exit 2; }
suite=$(cargo test --offline --lib 2>&1 | grep -E "^test result" | head -1)
demo_mut=$(cargo test --offline --test mutant_${N}_demo 2>&1 | grep -E "^test result" | head -1)
git apply -R mutant_$N.diff
echo "suite with mutant: $suite"; echo "demo with mutant: $demo_mut"; echo "demo without: $demo_clean"
unset CARGO_TARGET_DIR
# now the checks on /repo
cd /repo
git apply $D/patch.diff || { echo "patch does not apply to /repo"; exit 2; }
results=""
for prop in $P "$@"; do
  full=$(cd /verif && ./check $prop 2>&1)
  out=$(echo "$full" | tail -6 | cut -c1-400)
  line=$(echo "$full" | grep -E "^VIOLATION" | head -1)
  echo "--- check $prop with mutant: ${line:-no violation}"
  echo "$out" | tail -4
  results="$results $prop:${line:+VIOLATION}"
done
git -C /repo checkout -- .
python3 - "$P" "$N" "$suite" "$demo_mut" "$demo_clean" "$results" <<'PY'
import json,sys
P,N,suite,dm,dc,res=sys.argv[1:7]
meta={"property":P,"mutant":int(N),"existing_suite_with_change":suite,"demo_with_change":dm,"demo_without_change":dc,
      "checks_run":res.split(),"commands":["cargo test --offline --lib (in scratch worktree, change applied)",
      f"cargo test --offline --test mutant_{N}_demo (with and without the change)","git -C /repo apply patch.diff; ./check <ID>; git -C /repo checkout -- ."]}
try:
    notes=open(f"/tmp/mut-{P}/MUTANTS.md").read()
    meta["notes_from_author"]=notes[:6000]
except Exception: pass
json.dump(meta,open(f"/verif/seeded/{P}-{N}/meta.json","w"),indent=1)
PY
