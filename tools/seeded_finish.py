#!/usr/bin/env python3
"""Merges summaries and the recorded check outcomes (out/seed-*.log) into seeded/<id>/meta.json."""
import json, os, re, sys
ROOT = os.path.dirname(os.path.dirname(os.path.abspath(__file__)))
sys.path.insert(0, os.path.join(ROOT, "tools"))
from seeded_summaries import SUMMARIES
extra = json.load(open(os.path.join(ROOT, "seeded", "also_caught.json"))) if os.path.exists(os.path.join(ROOT, "seeded", "also_caught.json")) else {}
for sid, (summary, needs) in SUMMARIES.items():
    d = os.path.join(ROOT, "seeded", sid)
    mp = os.path.join(d, "meta.json")
    if not os.path.exists(mp):
        continue
    m = json.load(open(mp))
    m["breaks_property"] = sid.split("-")[0]
    m["summary"] = summary
    m["needs"] = needs
    log = os.path.join(ROOT, "out", f"seed-{sid}.log")
    if os.path.exists(log):
        txt = open(log).read()
        res = re.findall(r"--- check (\S+) with mutant: (.*)", txt)
        m["checks_run"] = [f"{p}:{'VIOLATION' if 'VIOLATION' in r else ''}" for p, r in res]
        viol = [r for _, r in res if "VIOLATION" in r]
        if viol:
            m["detection"] = ("model/implementation disagreement or broken obligation (no-failing-input-found)"
                              if "no-failing-input-found" in viol[0] else "property predicate fails on a concrete history (replay file)")
    m["also_caught_by"] = extra.get(sid, [])
    json.dump(m, open(mp, "w"), indent=1)
print("done")
