#!/bin/bash
# For `vp run --with-repo -- tools/seeds_snapshot.sh <tier> <seed>...`: every check at the given seeds, in a snapshot
# (false-alarm hunt on the unchanged tree). Not a registered command.
cd "$(dirname "$0")/.."
R=${VP_RUN_REPO:-/repo}
sed -i "s#path = \"/repo\"#path = \"$R\"#" harness/Cargo.toml
export VERIF_REPO=$R
./setup.sh > setup.log 2>&1 || { echo "setup failed"; tail -20 setup.log; exit 2; }
TIER=$1; shift
for seed in "$@"; do
  export VERIF_SEED=$seed
  echo "=== seed $seed"
  tools/run_all.sh $TIER 4 2>&1 | cut -c1-260
  grep -h "^VIOLATION\|^  PROP\|^  DIFF\|^  broken" out/run-*.log | cut -c1-400
done
