#!/usr/bin/env python3
"""Prints the markdown table of seeded changes (seeded/*/meta.json) for DESIGN.md."""
import json, os, re, sys
root = os.path.join(os.path.dirname(os.path.dirname(os.path.abspath(__file__))), "seeded")
rows = []
for d in sorted(os.listdir(root)):
    mp = os.path.join(root, d, "meta.json")
    if not os.path.exists(mp):
        continue
    m = json.load(open(mp))
    diff = open(os.path.join(root, d, "patch.diff")).read()
    files = sorted(set(re.findall(r"^\+\+\+ b/(\S+)", diff, re.M)))
    what = m.get("summary") or ""
    caught = []
    for r in m.get("checks_run", []):
        prop, _, v = r.partition(":")
        if v:
            caught.append(prop)
    extra = m.get("also_caught_by", [])
    kind = m.get("detection", "")
    rows.append((d, ", ".join(files), what, m.get("needs", ""), ", ".join(caught + extra) or "— (missed)", kind))
print("| seeded | file(s) | change | needs | caught by check | how |")
print("|---|---|---|---|---|---|")
for r in rows:
    print("| " + " | ".join(x.replace("|", "/").replace("\n", " ") for x in r) + " |")
