#!/usr/bin/env python3
"""Regenerates MANIFEST.json from tools/claims.py (what is claimed) and properties.jsonl."""
import json
import os
import sys
ROOT = os.path.dirname(os.path.dirname(os.path.abspath(__file__)))
sys.path.insert(0, os.path.join(ROOT, "tools"))
from claims import CLAIMS, PENDING_REASON  # noqa: E402

props = [json.loads(l) for l in open(os.path.join(ROOT, "properties.jsonl"))]
m = json.load(open(os.path.join(ROOT, "MANIFEST.json")))
checks, na = [], []
for p in props:
    pid = p["id"]
    if pid in CLAIMS:
        c = CLAIMS[pid]
        checks.append({
            "property_id": pid,
            "quick_cmd": f"./check {pid} --tier quick",
            "thorough_cmd": f"./check {pid} --tier thorough",
            "evidence_file": f"evidence/{pid}.json",
            "replay_cmd_template": f"./check {pid} --replay {{path}}",
            "engine": "lean-proofs + correspondence",
            "level_claimed": {"category": "proof", "text": c["text"], "design_ref": c.get("design_ref", "DESIGN.md section 8, " + pid)},
            "level_note": c["note"],
            "technique": c["technique"],
        })
    else:
        na.append({"property_id": pid, "reason": PENDING_REASON.get(pid, "check under construction in this session (not yet claimed); see DESIGN.md section 8")})
m["checks"] = checks
m["not_applicable"] = na
for e in m.get("engines", []):
    e["serves_properties"] = sorted(CLAIMS)
json.dump(m, open(os.path.join(ROOT, "MANIFEST.json"), "w"), indent=1)
print(f"{len(checks)} claimed, {len(na)} not claimed")
