"""Per-property correspondence scenarios (harness invocations), which predicate failures count as
a violation of the property, and the theorems that must be present in its Lean file."""


def hist(profile, cases, tier="quick", extra=None, timeout=1500):
    return {"name": f"hist:{profile}:{cases}",
            "args": ["hist", "--profile", profile, "--tier", tier, "--seed", "{seed}", "--cases", str(cases)] + (extra or []),
            "timeout": timeout}


SCENARIOS = {
    "C16": {
        "theorems": ["C16_layout", "C16_key_len", "C16_key_order", "C16_key_roundtrip", "C16_key_inj",
                     "C16_nodeid_roundtrip", "C16_version_roundtrip"],
        "quick": [{"name": "keys", "args": ["keys", "--seed", "{seed}"]}, hist("c16", 25, extra=["--threads", "1"])],
        "thorough": [{"name": "keys", "args": ["keys", "--seed", "{seed}", "--tier", "thorough"]}, hist("c16", 300, "thorough", extra=["--threads", "1"])],
        "nontrivial": "builds_splits",
        "counts": ["C16"],
        "assumptions": ["little-endian host for the native-endian fields (f32 components, roots, quantised words)"],
    },
}
