"""Per-property correspondence scenarios (harness invocations), which predicate failures count as
a violation of the property, and the theorems that must be present in its Lean file."""


def hist(profile, cases, tier="quick", extra=None, timeout=1500):
    return {"name": f"hist:{profile}:{cases}",
            "args": ["hist", "--profile", profile, "--tier", tier, "--seed", "{seed}", "--cases", str(cases)] + (extra or []),
            "timeout": timeout}


T1 = ["--threads", "1"]

SCENARIOS = {
    "C05": {
        "theorems": ["C05_add", "C05_append", "C05_del", "C05_clear", "C05_contains", "C05_vector", "C05_readback_f32",
                     "C05_iter", "C05_isEmpty", "C05_refines", "C05_bq_readback_given_roundtrip"],
        "quick": [hist("c05", 60, extra=T1)],
        "thorough": [hist("c05", 1500, "thorough", extra=T1), hist("c05", 200, "thorough")],
        "counts": ["C05"],
    },
    "C06": {
        "theorems": ["C06_open_char", "C06_needBuild_char", "C06_marks", "C06_noop", "C06_clear", "C06_frame",
                     "C06_names_distinct", "C06_wrong_metric"],
        "quick": [hist("c06", 60, extra=T1)],
        "thorough": [hist("c06", 1500, "thorough", extra=T1), hist("c06", 200, "thorough")],
        "counts": ["C06"],
    },
    "C19": {
        "theorems": ["C19_dim_add", "C19_dim_append", "C19_dim_query", "C19_append", "C19_del_absent", "C19_needBuild_unchanged"],
        "quick": [hist("c19", 60, extra=T1)],
        "thorough": [hist("c19", 1000, "thorough", extra=T1)],
        "counts": ["C19"],
    },
    "C16": {
        "theorems": ["C16_layout", "C16_key_len", "C16_key_order", "C16_key_roundtrip", "C16_key_inj",
                     "C16_nodeid_roundtrip", "C16_version_roundtrip"],
        "quick": [{"name": "keys", "args": ["keys", "--seed", "{seed}"]}, hist("c16", 25, extra=["--threads", "1"])],
        "thorough": [{"name": "keys", "args": ["keys", "--seed", "{seed}", "--tier", "thorough"]}, hist("c16", 300, "thorough", extra=["--threads", "1"])],
        "nontrivial": "builds_splits",
        "counts": ["C16"],
        "assumptions": ["little-endian host for the native-endian fields (f32 components, roots, quantised words)"],
    },
}
