"""Per-property correspondence scenarios (harness invocations), which predicate failures count as
a violation of the property, and the theorems that must be present in its Lean file."""


def hist(profile, cases, tier="quick", extra=None, timeout=1500):
    return {"name": f"hist:{profile}:{cases}" + (":choices" if extra and "--choices" in extra else ""),
            "args": ["hist", "--profile", profile, "--tier", tier, "--seed", "{seed}", "--cases", str(cases)] + (extra or []),
            "timeout": timeout}


T1 = ["--threads", "1"]
# also record the items drawn by every split search: the driver then checks a sample of the recorded normals
# against the model's `Split.createSplit` (200 soft-float two-means iterations each: keep the case counts small)
CH = ["--threads", "1", "--choices"]
import os as _os
_FX = _os.path.join(_os.path.dirname(_os.path.dirname(_os.path.abspath(__file__))), "fixtures")
FIXTURES = [{"name": "fixture:" + m, "args": ["fixture-load", _os.path.join(_FX, f"golden-{m}.fixture")]}
            for m in ["euclidean", "manhattan", "cosine", "dot", "bqeuclidean", "bqmanhattan", "bqcosine"]]

SCENARIOS = {
    "C01": {
        "modules": ["C01", "C01Checker", "C01Examples", "Unconditional", "Reachable", "Checkers"],
        "theorems": ["C01_reader_reachable", "C01_forest", "C01_invariant", "C01_checker_accepts", "C01_build", "C01_build_any", "C01_history",
                     "C01_checker_sound", "C01_inv_add", "C01_inv_append", "C01_inv_del", "C01_inv_clear"],
        "quick": [hist("c01", 150, extra=T1), hist("c01", 30), hist("c14", 12, extra=T1)],
        "thorough": [hist("c01", 480, "thorough", extra=T1), hist("c01", 120, "thorough"), hist("c14", 20, "thorough", extra=T1)],
        "counts": ["C01"],
    },
    "C04": {
        "modules": ["C04", "C04Build", "C04Split", "Unconditional", "Reachable"],
        "theorems": ["C04_createSplit_length", "C04_createSplit_length_bq", "C04_normal_lengths_reachable", "C04_selfLookup_reachable_split", "C04_selfLookup_reachable_given_lengths", "C04_selfLookup_reachable_bq", "C04_stored_length_reachable", "C04_routed_all_histories", "C04_routed", "C04_checker", "C04_selfLookup", "C04_selfLookup_symm", "C04_selfLookup_by_item", "C04_routed_meaning", "C04_readerFirst_spec",
                     "C04_side_eq_readerFirst"],
        "quick": [hist("c04", 120, extra=T1), hist("c04", 10, extra=CH)],
        "thorough": [hist("c04", 480, "thorough", extra=T1), hist("c04", 120, "thorough"), hist("c04", 30, "thorough", extra=CH)],
        "counts": ["C04"],
    },
    "C05": {
        "modules": ["C05", "C05Build", "Reachable", "C05History"],
        "theorems": ["C05_history", "C05_history_presence", "C05_history_reader", "C05_build_never_changes_spec", "C05_overwrite_last_wins", "C05_delete_reports_presence", "C05_history_transactions", "C05_bq_readback", "C05_build_preserves", "C05_add", "C05_append", "C05_del", "C05_clear", "C05_contains", "C05_vector", "C05_readback_f32",
                     "C05_iter", "C05_isEmpty", "C05_refines", "C05_bq_readback_given_roundtrip"],
        "quick": [hist("c05", 120, extra=T1)],
        "thorough": [hist("c05", 600, "thorough", extra=T1), hist("c05", 80, "thorough")],
        "counts": ["C05"],
    },
    "C06": {
        "modules": ["C06", "C06Build", "C06History"],
        "theorems": ["C06_history", "C06_history_open", "C06_opens_right_after_build", "C06_noop_history", "C06_status_agrees", "C06_build_clears_marks", "C06_open_char", "C06_needBuild_char", "C06_marks", "C06_noop", "C06_clear", "C06_frame",
                     "C06_names_distinct", "C06_wrong_metric"],
        "quick": [hist("c06", 150, extra=T1)],
        "thorough": [hist("c06", 600, "thorough", extra=T1), hist("c06", 80, "thorough")],
        "counts": ["C06"],
    },
    "C02": {
        "modules": ["C02", "Reachable", "C02History"],
        "theorems": ["C02_history", "C02_history_by_vector", "C02_history_by_item", "C02_history_deleted_never_returned", "C02_history_count", "C02_history_overwritten", "C02_exact_reachable", "C02_bruteforce_reachable", "C02_exact", "C02_exact_usizeMax", "C02_exact_saturated", "C02_spec", "C02_unique", "C02_exact_bruteforce",
                     "C02_by_vector", "C02_by_item"],
        "quick": [hist("c02", 120, extra=T1), hist("c02", 20), hist("c14", 8, extra=T1)],
        "thorough": [hist("c02", 480, "thorough", extra=T1), hist("c02", 120, "thorough")],
        "counts": ["C02", "C01", "C11", "C12"],
    },
    "C03": {
        "modules": ["C03", "Reachable", "C03Bq", "C03Sorted", "Checkers", "C03History"],
        "theorems": ["C03_history_wellformed", "C03_history_filter_exact", "C03_history_monotone", "C03_history_by_item", "C03_reported_sorted", "C03_reported_sorted_scores", "C03_by_item_eq_by_vector_bq", "C03_by_item_eq_by_vector_reachable", "C03_total_reachable", "C03_filter_exact_reachable", "C03_monotone_reachable", "C03_wellformed", "C03_total", "C03_filter_exact", "C03_default_budget", "C03_by_item_absent",
                     "C03_by_item_present", "C03_by_item_eq_by_vector", "C03_prefix", "C03_monotone", "C03_budget_le"],
        "quick": [hist("c03", 100, extra=T1)],
        "counts": ["C03", "C11", "C12"],
        "thorough": [hist("c03", 400, "thorough", extra=T1), hist("c03", 80, "thorough")],
    },
    "C07": {
        "modules": ["C07", "C07Nns", "C07History", "C07BuildLocal"],
        "theorems": ["C07_history_projection", "C07_buildLocal", "C07_readlocal_build_full", "C07_history_projection_nobuild", "C07_history_projection_partial", "C07_history_answers_nobuild", "C07_history_append_partial", "C07_local_step", "C07_frame_step", "C07_answers_nns", "C07_answers_build_nns", "C07_answers_nns_reachable", "C07_fuel_mono", "C07_prefix_index", "C07_prefix_kind", "C07_range", "C07_frame_add", "C07_frame_append", "C07_frame_del",
                     "C07_frame_clear", "C07_frame_prepare", "C07_frame_build", "C07_answers", "C07_dump_build"],
        "quick": [hist("c07", 120, extra=T1), hist("c07", 20), hist("c18", 30, extra=T1)],
        "thorough": [hist("c07", 480, "thorough", extra=T1), hist("c07", 120, "thorough")],
        "counts": ["C07"],
    },
    "C08": {
        "modules": ["C08", "Reachable"],
        "theorems": ["C08_built_reachable", "C08_versions_reachable", "C08_snapshot", "C08_reader_sees_committed", "C08_abort", "C08_commit"],
        "quick": [{"name": "threads", "args": ["threads", "--seed", "{seed}"]},
                  {"name": "faults:sweep", "args": ["faults", "--seed", "{seed}", "--part", "sweep"]}, hist("c06", 25, extra=T1)],
        "thorough": [{"name": "threads", "args": ["threads", "--seed", "{seed}", "--tier", "thorough"], "timeout": 3000}],
        "counts": ["C08", "C01", "C02", "C10", "C06"],
        "assumptions": ["MVCC and the single-writer lock are LMDB's; thread interleavings are sampled (barrier-controlled and free-running), not proved"],
    },
    "C09": {
        "modules": ["C09", "Reachable"],
        "theorems": ["C09_recovered_reachable", "C09_crash", "C09_uncommitted_lost", "C09_committed_kept", "C09_restart"],
        "quick": [{"name": "crash", "args": ["crash", "--seed", "{seed}"]}, hist("c06", 25, extra=T1)],
        "thorough": [{"name": "crash", "args": ["crash", "--seed", "{seed}", "--tier", "thorough"], "timeout": 3000}],
        "counts": ["C09", "C01", "C02", "C06"],
        "assumptions": ["durability of a returned commit is LMDB's; a process kill (SIGKILL) stands for a crash, power loss is out of reach"],
    },
    "C10": {
        "modules": ["C10", "C10Reach", "C10InPlace", "Unconditional"],
        "theorems": ["C10_inplace_build", "C10_inplace_build_ok", "C10_inplace_build_cancelled", "C10_inplace_build_eq", "C10_inplace_delete", "C10_inplace_insert", "C10_inplace_make", "C10_transparent_ok_all", "C10_transparent_err_all", "C10_roots_present", "C10_transparent_ok", "C10_transparent_err", "C10_cancel_iff", "C10_cancel_late", "C10_abort", "C10_retry",
                     "C10_cancel_abort_retry"],
        "quick": [{"name": "faults", "args": ["faults", "--seed", "{seed}"]}, hist("c10", 30, extra=T1)],
        "thorough": [{"name": "faults", "args": ["faults", "--seed", "{seed}", "--tier", "thorough"], "timeout": 3000},
                     hist("c10", 160, "thorough", extra=T1)],
        "counts": ["C10", "C01"],
        "assumptions": ["the no-temp-file / no-descriptor clause rests on Rust's Drop; it is observed on the real process (fdcheck), not proved"],
    },
    "C11": {
        "modules": ["C11", "C11Real", "C11Reported", "C11Reported2", "C11Oracle", "C11OracleCosine"],
        "theorems": ["C11_withinTolerance_of_bound", "C11_oracle_accepts_dot", "C11_oracle_accepts_euclid", "C11_definitionOracle_accepts_euclidean", "C11_definitionOracle_accepts_manhattan", "C11_definitionOracle_accepts_dot", "C11_definitionOracle_accepts_cosine", "C11_round_f32_reported_manhattan", "C11_round_f32_reported_dot", "C11_reported_symm", "C11_reported_self_zero", "C11_round_f32_reported_euclidean", "C11_round_f32_cosine", "C11_round_f32_cosine_chk", "C11_cosine_zero_norm", "C11_cosine_range_real", "C11_f32_std_model_on", "C11_round_f32_dot_product", "C11_round_f32_euclidean_distance", "C11_round_f32_manhattan_distance",
                     "C11_mul_std", "C11_add_std", "C11_fma_std", "C11_div_std", "C11_sqrt_std", "C11_cover_dot_scalar", "C11_cover_dot_sse", "C11_cover_dot_avx", "C11_cover_euclid_scalar", "C11_cover_euclid_sse",
                     "C11_cover_euclid_avx", "C11_dispatch", "C11_symm", "C11_self_zero_euclid", "C11_self_zero_manhattan",
                     "C11_cosine_range", "C11_round", "C11_round_simd"],
        "quick": [{"name": "kernels", "args": ["kernels", "--seed", "{seed}"]}, hist("c11", 40, extra=T1)],
        "thorough": [{"name": "kernels", "args": ["kernels", "--seed", "{seed}", "--tier", "thorough"], "timeout": 3000},
                     hist("c11", 200, "thorough", extra=T1)],
        # end to end: the distances a query reports (C03/C02 predicates on the answers of the c11 histories)
        "counts": ["C11", "C03", "C02"],
        "nontrivial": "any",
        "rule": "records = one kernel or distance evaluation each (every kernel x lengths 1..300 x byte offsets x value families); each is "
                "compared bit for bit with the soft-float kernels of the model and, for finite operands, with the exact sum within the "
                "summation error bound",
        "assumptions": ["the rounding-error theorems are relative to the standard model of floating-point arithmetic (no overflow/underflow)",
                        "the NEON paths are not modelled (no aarch64 host)"],
    },
    "C12": {
        "modules": ["C12", "C12Mono"],
        "theorems": ["C12_monotone_cosine", "C12_strict_monotone_cosine", "C12_orders_neighbours_cosine", "C12_orders_neighbours_dist", "C12_roundtrip", "C12_padding", "C12_sign_only", "C12_hamming", "C12_hamming_symm", "C12_hamming_zero_iff",
                     "C12_euclid", "C12_manhattan", "C12_dot", "C12_cosine", "C12_zero", "C12_zero_cosine", "C12_depends_only_on_h",
                     "C12_symm", "C12_monotone", "C12_norm_product_exact", "C12_cosine_nonneg", "C12_old_formula_defect"],
        "quick": [{"name": "bq", "args": ["bq", "--seed", "{seed}"]}, {"name": "kernels", "args": ["kernels", "--seed", "{seed}", "--max-len", "130"]},
                  hist("c12", 30, extra=T1)],
        "thorough": [{"name": "bq", "args": ["bq", "--seed", "{seed}", "--tier", "thorough"], "timeout": 3000},
                     {"name": "kernels", "args": ["kernels", "--seed", "{seed}", "--tier", "thorough"], "timeout": 3000},
                     hist("c12", 240, "thorough", extra=T1)],
        "counts": ["C12", "C05"],
        "nontrivial": "any",
    },
    "C13": {
        "modules": ["C13", "C13Build"],
        "theorems": ["C13_build_any_supply", "C13_build_every_schedule", "C13_build_every_schedule_max", "C13_ofSeq_fresh", "C13_checker_any_supply", "C13_unique", "C13_unique_log", "C13_full", "C13_full_step", "C13_counter", "C13_sequential", "C13_fresh_supply",
                     "C13_fresh_gen"],
        "quick": [{"name": "ids", "args": ["ids", "--seed", "{seed}"]}, hist("c13", 60)],
        "thorough": [{"name": "ids", "args": ["ids", "--seed", "{seed}", "--tier", "thorough"], "timeout": 3000},
                     hist("c13", 200, "thorough")],
        "counts": ["C13", "C01"],
        "assumptions": ["each atomic cell is sequentially consistent in the model (Relaxed orderings beyond per-operation atomicity are not modelled)"],
    },
    "C14": {
        "modules": ["C14", "C14Fair", "C14FairBuild", "C14Bound", "Unconditional", "Reachable"],
        "theorems": ["C14_loop_measure_bound", "C14_build_terminates_explicit", "C14_build_terminates_ntrees", "C14_build_terminates_default", "C14_fair_round_decreases", "C14_round_above_cap_decreases", "C14_round_measure", "C14_terminates_above_cap", "C14_fair_terminates", "C14_fuel_needs_small_batch", "C14_fuel_needs_unfair_round", "C14_build_terminates_above_cap", "C14_build_terminates_fair", "C14_any_memory_forest", "C14_any_memory", "C14_insert_terminates", "C14_makeT_fuel", "C14_resplit_makes_node", "C14_livelock_before_fix",
                     "C14_build_fuel_forest", "C14_reify_total", "C14_deleteTree_total"],
        "quick": [hist("c14", 125, extra=T1, timeout=900), hist("c14inc", 12, extra=T1, timeout=900), hist("c14first", 20, extra=T1, timeout=900)],   # 125 = the whole grid items x split_after x memory
        "thorough": [hist("c14", 175, "thorough", extra=T1, timeout=3400), hist("c14", 40, "thorough", timeout=3400),
                     hist("c14inc", 50, "thorough", extra=T1, timeout=3400), hist("c14first", 80, "thorough", extra=T1, timeout=3400)],
        "counts": ["C14", "C01", "C02"],
        "assumptions": ["termination of the re-split loop is probabilistic in the real code (a random split may keep all items on one side); "
                        "proved: progress when the batch exceeds the capacity, the livelock fixed point otherwise; observed: poll-limit hang detection"],
    },
    "C15": {
        "modules": ["C15", "C15Build", "Unconditional", "C15History"],
        "theorems": ["C15_history", "C15_history_search_nonempty", "C15_history_capacity", "C15_history_single", "C15_capacity_all_histories", "C15_root_count", "C15_single", "C15_capacity", "C15_requested", "C15_auto", "C15_auto_cases", "C15_cap"],
        "quick": [hist("c15", 200, extra=T1), {"name": "faults:sweep", "args": ["faults", "--seed", "{seed}", "--part", "sweep"]}],
        "thorough": [hist("c15", 600, "thorough", extra=T1), hist("c15", 120, "thorough")],
        "counts": ["C15", "C10"],
    },
    "C17": {
        "modules": ["C17", "C17Reachable"],
        "theorems": ["C17_upgrade_reachable", "C17_reachable_wellFormed", "C17_reachable_wellFormed_iff", "C17_up_down", "C17_up_down_eq", "C17_stamp", "C17_remap_inverse", "C17_updated_marks", "C17_up_down_open",
                     "C17_cannot_decode_key"],
        "quick": [{"name": "upgrade", "args": ["upgrade", "--seed", "{seed}"]}],
        "thorough": [{"name": "upgrade", "args": ["upgrade", "--seed", "{seed}", "--tier", "thorough"], "timeout": 3000}],
        "counts": ["C17", "C01", "C06"],
    },
    "C18": {
        "modules": ["C18", "C18Build"],
        "theorems": ["C18_build_after_change_reachable", "C18_build_right_after_change_reachable", "C18_needs_build_after_change", "C18_needs_build_until_built", "C18_change_keeps_reachable", "C18_routed_after_change_reachable", "C18_same", "C18_change", "C18_f32_to_f32", "C18_to_bq", "C18_from_bq", "C18_old_metric_refused",
                     "C18_old_metric_refused_after_build"],
        "quick": [hist("c18", 98, extra=T1)],
        "thorough": [hist("c18", 392, "thorough", extra=T1)],
        "counts": ["C18", "C01", "C02"],
    },
    "C20": {
        "modules": ["C20", "C04Split", "Unconditional", "Reachable"],
        "theorems": ["C20_createSplit_total", "C20_createSplit_bounded", "C20_degenerate_forest", "C20_side_total", "C20_sideSplit_total", "C20_search_total", "C20_search_wellformed", "C20_order_total",
                     "C20_readback_any_bits", "C20_empty_side_random", "C20_build_fuel"],
        "quick": [hist("c20", 84, extra=T1, timeout=1500), hist("c20", 7, extra=CH, timeout=1500)],
        "thorough": [hist("c20", 210, "thorough", extra=T1, timeout=3400), hist("c20", 30, "thorough", timeout=3400),
                     hist("c20", 20, "thorough", extra=CH, timeout=3400)],
        "counts": ["C20", "C01", "C03", "C05"],
        "assumptions": ["bounded build time on degenerate data is observed (poll limit), termination of the re-split loop being probabilistic"],
    },
    "C19": {
        "modules": ["C19", "C19History"],
        "theorems": ["C19_append_accepted_iff", "C19_rejected_history", "C19_rejected_item_calls", "C19_query_dim_history", "C19_dim_add", "C19_dim_append", "C19_dim_query", "C19_append", "C19_del_absent", "C19_needBuild_unchanged"],
        "quick": [hist("c19", 150, extra=T1)],
        "thorough": [hist("c19", 400, "thorough", extra=T1)],
        "counts": ["C19"],
    },
    "C16": {
        "modules": ["C16", "C16Codec", "C16Reachable"],
        "theorems": ["C16_reachable_keys", "C16_reachable_values", "C16_reachable_dump", "C16_roaring_roundtrip", "C16_val_roundtrip", "C16_node_roundtrip", "C16_meta_roundtrip", "C16_vec_roundtrip",
                     "C16_roaring_size", "C16_roaring_offsets", "C16_layout", "C16_key_len", "C16_key_order", "C16_key_roundtrip", "C16_key_inj",
                     "C16_nodeid_roundtrip", "C16_version_roundtrip"],
        "quick": [{"name": "keys", "args": ["keys", "--seed", "{seed}"]}, hist("c16", 60, extra=["--threads", "1"])] + FIXTURES,
        "thorough": [{"name": "keys", "args": ["keys", "--seed", "{seed}", "--tier", "thorough"]}, hist("c16", 120, "thorough", extra=["--threads", "1"])] + FIXTURES,
        "nontrivial": "builds_splits",
        "counts": ["C16"],
        "assumptions": ["little-endian host for the native-endian fields (f32 components, roots, quantised words)"],
    },
}
