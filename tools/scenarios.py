"""Per-property correspondence scenarios (harness invocations), which predicate failures count as
a violation of the property, and the theorems that must be present in its Lean file."""


def hist(profile, cases, tier="quick", extra=None, timeout=1500):
    return {"name": f"hist:{profile}:{cases}",
            "args": ["hist", "--profile", profile, "--tier", tier, "--seed", "{seed}", "--cases", str(cases)] + (extra or []),
            "timeout": timeout}


T1 = ["--threads", "1"]

SCENARIOS = {
    "C05": {
        "theorems": ["C05_add", "C05_append", "C05_del", "C05_clear", "C05_contains", "C05_vector", "C05_readback_f32",
                     "C05_iter", "C05_isEmpty", "C05_refines", "C05_bq_readback_given_roundtrip"],
        "quick": [hist("c05", 60, extra=T1)],
        "thorough": [hist("c05", 1500, "thorough", extra=T1), hist("c05", 200, "thorough")],
        "counts": ["C05"],
    },
    "C06": {
        "theorems": ["C06_open_char", "C06_needBuild_char", "C06_marks", "C06_noop", "C06_clear", "C06_frame",
                     "C06_names_distinct", "C06_wrong_metric"],
        "quick": [hist("c06", 60, extra=T1)],
        "thorough": [hist("c06", 1500, "thorough", extra=T1), hist("c06", 200, "thorough")],
        "counts": ["C06"],
    },
    "C02": {
        "theorems": ["C02_exact", "C02_exact_usizeMax", "C02_exact_saturated", "C02_spec", "C02_unique", "C02_exact_bruteforce",
                     "C02_by_vector", "C02_by_item"],
        "quick": [hist("c02", 50, extra=T1), hist("c02", 10)],
        "thorough": [hist("c02", 1200, "thorough", extra=T1), hist("c02", 300, "thorough")],
        "counts": ["C02", "C01"],
    },
    "C03": {
        "theorems": ["C03_wellformed", "C03_total", "C03_filter_exact", "C03_default_budget", "C03_by_item_absent",
                     "C03_by_item_present", "C03_by_item_eq_by_vector", "C03_prefix", "C03_monotone", "C03_budget_le"],
        "quick": [hist("c03", 50, extra=T1)],
        "thorough": [hist("c03", 1000, "thorough", extra=T1), hist("c03", 200, "thorough")],
        "counts": ["C03"],
    },
    "C07": {
        "theorems": ["C07_prefix_index", "C07_prefix_kind", "C07_range", "C07_frame_add", "C07_frame_append", "C07_frame_del",
                     "C07_frame_clear", "C07_frame_prepare", "C07_frame_build", "C07_answers", "C07_dump_build"],
        "quick": [hist("c07", 50, extra=T1), hist("c07", 10)],
        "thorough": [hist("c07", 1200, "thorough", extra=T1), hist("c07", 300, "thorough")],
        "counts": ["C07"],
    },
    "C19": {
        "theorems": ["C19_dim_add", "C19_dim_append", "C19_dim_query", "C19_append", "C19_del_absent", "C19_needBuild_unchanged"],
        "quick": [hist("c19", 60, extra=T1)],
        "thorough": [hist("c19", 1000, "thorough", extra=T1)],
        "counts": ["C19"],
    },
    "C16": {
        "theorems": ["C16_layout", "C16_key_len", "C16_key_order", "C16_key_roundtrip", "C16_key_inj",
                     "C16_nodeid_roundtrip", "C16_version_roundtrip"],
        "quick": [{"name": "keys", "args": ["keys", "--seed", "{seed}"]}, hist("c16", 25, extra=["--threads", "1"])],
        "thorough": [{"name": "keys", "args": ["keys", "--seed", "{seed}", "--tier", "thorough"]}, hist("c16", 300, "thorough", extra=["--threads", "1"])],
        "nontrivial": "builds_splits",
        "counts": ["C16"],
        "assumptions": ["little-endian host for the native-endian fields (f32 components, roots, quantised words)"],
    },
}
