#!/usr/bin/env python3
"""Writes fixtures/corpus/<PID>-<name>.replay: the minimal histories of the defects found and repaired in the pinned
tree (DESIGN.md section 7, known-findings.txt). `./check <PID>` replays every file whose name starts with `<PID>-`
BEFORE its generated cases, so a repaired defect that comes back is reported on its own history."""
import os, struct, random
ROOT = os.path.dirname(os.path.dirname(os.path.abspath(__file__)))
OUT = os.path.join(ROOT, "fixtures", "corpus")
os.makedirs(OUT, exist_ok=True)

def bits(x):
    return "%08x" % struct.unpack("<I", struct.pack("<f", x))[0]

def vec(v):
    return ",".join(bits(x) if isinstance(x, float) else x for x in v) if v else "-"

def build(w, ntrees="-", split="-", mem="-", seed=7):
    return f"build {w} ntrees={ntrees} split={split} mem={mem} cancel=- threads=1 seed={seed}"

def write(name, lines, note):
    with open(os.path.join(OUT, name + ".replay"), "w") as f:
        f.write(f"# {note}\ncase 0 seed=1 mapsize=268435456\nnote corpus {name}\n")
        f.write("\n".join(lines) + "\nendcase\n")

rnd = random.Random(20260929)
def pts(n, d):
    return [[round(rnd.uniform(-1, 1), 3) for _ in range(d)] for _ in range(n)]

# A (C01): an insertion next to a single-item child lost the kind of the rewritten child
w = "0 euclidean 2"
p = pts(4, 2)
write("C01-defect-A", ["begin"] + [f"add {w} {i} {vec(p[i])}" for i in range(3)] + [build(w, 1, 1), "dump",
      f"add {w} 3 {vec(p[3])}", build(w, 1, 1), "dump", "commit", f"open {w}", f"ritemids {w}",
      f"nns {w} count=10 k=18446744073709551615 over=- cand=- by=vec:{vec(p[3])}"],
      "defect A: add 0,1,2; build(1,1); add 3; build(1,1) -> item 3 in no tree")
# B (C15/C01): delete_tree read the leaf of a deleted item child
for pid in ("C15", "C01"):
    write(f"{pid}-defect-B", ["begin"] + [f"add {w} {i} {vec(p[i])}" for i in range(3)] + [build(w, 2, 1), "dump",
          f"del {w} 0", build(w, 1, 1), "dump", "commit", f"open {w}"],
          "defect B: add 0,1,2; build(2,1); del 0; build(1,1) -> MissingKey Item(0)")
# C (C15/C02): dimension 1, automatic tree count = 0
w1 = "0 euclidean 1"
q = pts(3, 1)
for pid in ("C15", "C02"):
    write(f"{pid}-defect-C", ["begin"] + [f"add {w1} {i} {vec(q[i])}" for i in range(3)] + [build(w1), "dump", "commit",
          f"open {w1}", f"nns {w1} count=3 k=18446744073709551615 over=- cand=- by=vec:{vec(q[0])}"],
          "defect C: dims 1: add 0,1,2; build(auto) -> 0 trees, every search empty")
# D (C03): count * n_trees overflowed
p6 = pts(6, 2)
write("C03-defect-D", ["begin"] + [f"add {w} {i} {vec(p6[i])}" for i in range(6)] + [build(w, 2, 2), "dump", "commit", f"open {w}",
      f"nns {w} count=9223372036854775808 k=- over=- cand=- by=vec:{vec(p6[0])}",
      f"nns {w} count=18446744073709551615 k=- over=- cand=- by=vec:{vec(p6[1])}",
      f"nns {w} count=9223372036854775808 k=- over=3 cand=- by=item:2"],
      "defect D: 2 trees, nns(count = 2^63) -> overflow panic / wrapped budget")
# E (C05): ItemIter did not truncate quantised vectors
wb = "0 bqeuclidean 3"
write("C05-defect-E", ["begin", f"add {wb} 0 {vec([0.5, -0.25, 1.0])}", f"iter {wb}", f"get {wb} 0", build(wb), "commit", f"riter {wb}", f"rget {wb} 0"],
      "defect E: bqeuclidean dims 3: add 0 v; iter -> 64 components instead of 3")
# F (C18): prepare_changing_distance re-encoded the padded vector
write("C18-defect-F", ["begin"] + [f"add {wb} {i} {vec(x)}" for i, x in enumerate(pts(5, 3))] + [build(wb), "dump", f"prepare {wb} cosine", "dump",
      f"iter 0 cosine 3", f"add 0 cosine 3 100 {vec([0.1, 0.2, 0.3])}", build("0 cosine 3"), "dump", "commit", "open 0 cosine 3", f"open {wb}"],
      "defect F: bqeuclidean dims 3 -> cosine: 64-float leaves, next build panicked")
# G (C14): re-split batch fitted in one descendant: livelock
w4 = "0 euclidean 4"
p400 = pts(400, 4)
write("C14-defect-G", ["note polllimit=2000000", "begin"] + [f"add {w4} {i} {vec(p400[i])}" for i in range(400)] + [build(w4, 1, 300, 0), "dump", "commit", f"open {w4}",
      f"nns {w4} count=400 k=18446744073709551615 over=- cand=- by=vec:{vec(p400[0])}"],
      "defect G: dims 4, 400 items, split_after 300, available_memory 0 -> build never terminates")
# H (C20): manhattan reported a NaN score as 0.0
wm = "0 manhattan 3"
pm = pts(5, 3)
write("C20-defect-H", ["begin"] + [f"add {wm} {i} {vec(pm[i])}" for i in range(5)] + [f"add {wm} 5 {vec(['7fc00000', bits(0.5), bits(0.5)])}", build(wm, 2, 2), "dump", "commit", f"open {wm}",
      f"nns {wm} count=10 k=18446744073709551615 over=- cand=- by=vec:{vec(pm[0])}", f"nns {wm} count=10 k=- over=- cand=- by=item:5"],
      "defect H: manhattan with a NaN component stored: the NaN score was reported as distance 0.0")
# J (C12): bqcosine self distance negative for 65..128 dimensions
for d in (65, 100, 128):
    wc = f"0 bqcosine {d}"
    pj = pts(4, d)
    write(f"C12-defect-J-{d}", ["begin"] + [f"add {wc} {i} {vec(pj[i])}" for i in range(4)] + [build(wc), "dump", "commit", f"open {wc}"] +
          [f"nns {wc} count=4 k=- over=- cand=- by=item:{i}" for i in range(4)],
          f"defect J: bqcosine dims {d}: distance of an item to itself was -5.96e-8")
print(sorted(os.listdir(OUT)))
