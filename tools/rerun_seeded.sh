#!/bin/bash
# usage: tools/rerun_seeded.sh <seeded-id>[:PROP,PROP...] ...   — applies each seeded change to /repo, runs the check(s)
# of its property (or of the listed ones), undoes it, and prints one line per (change, check).
cd /verif
for spec in "$@"; do
  id=${spec%%:*}; props=${spec#*:}
  [ "$props" = "$spec" ] && props=${id%%-*}
  git -C /repo checkout -q -- . ; git -C /repo apply /verif/seeded/$id/patch.diff || { echo "$id: patch does not apply"; continue; }
  for p in ${props//,/ }; do
    full=$(./check $p 2>&1)
    line=$(echo "$full" | grep -E "^VIOLATION" | head -1)
    detail=$(echo "$full" | grep -E "^  " | head -2 | cut -c1-300 | tr '\n' ' ')
    echo "RESULT $id check=$p ${line:-no-violation} :: $detail"
  done
  git -C /repo checkout -q -- .
done
