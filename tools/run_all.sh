#!/bin/bash
# runs every claimed check (tier from $1, default quick) in parallel and prints one line per property
cd "$(dirname "$0")/.."
TIER=${1:-quick}
mkdir -p out
python3 -c "
import json
for c in json.load(open('MANIFEST.json'))['checks']: print(c['property_id'])" | xargs -P ${2:-6} -I{} bash -c "./check {} --tier $TIER > out/run-{}.log 2>&1; echo \"{} rc=\$? \$(grep -c '^VIOLATION' out/run-{}.log) violations; \$(tail -1 out/run-{}.log | cut -c1-200)\""
