#!/bin/bash
# sequential runner: processes lines "P N [extra...]" appended to /tmp/mq/queue
touch /tmp/mq/queue /tmp/mq/done
while true; do
  while pgrep -f rerun_seeded.sh >/dev/null; do sleep 10; done
  line=$(comm -23 <(sort -u /tmp/mq/queue) <(sort -u /tmp/mq/done) | head -1)
  if [ -z "$line" ]; then sleep 15; continue; fi
  echo "=== $(date +%T) start $line" >> /tmp/mq/log
  /verif/tools/seed_mutant.sh $line >> /tmp/mq/log 2>&1
  echo "=== $(date +%T) end $line" >> /tmp/mq/log
  echo "$line" >> /tmp/mq/done
done
