//! Scenario `crash` (C09): a child process runs a history and is killed with SIGKILL at a
//! chosen point; the parent reopens the environment and observes it.
//!
//! `harness crash --cases N` picks N histories (profile `c09`: a few committed, built
//! versions, then the *final transaction*: updates, builds, `note committing`, `commit`).
//! Each history is first run un-killed in a scratch environment of the parent to learn the
//! number of update ops (K) and of cancellation polls (P) of its final transaction. Then one
//! child (`harness crash-child ...`, the same binary, same seed, hence the same ops) is run
//! per kill point; each child is its own `case` of the output:
//!
//! * `poll:<n>` inside the cancellation callback, at the n-th poll of the final transaction
//!   (every n in 0..P when P <= `--max-polls`, evenly spread otherwise);
//! * `op:<k>`   right after the k-th update op of the final transaction (`--op-points`);
//! * `commit:<us>` the parent waits for `note committing`, sleeps <us> microseconds (0-3000,
//!   also 0) and kills: before, inside or after the commit (`--commit-points`).
//!
//! The child writes its trace with one `write` per record (no buffering) to a file; at its
//! kill point it writes `note killpoint` and sleeps for ever; when it gets to the end of the
//! history it writes `note child-finished` and sleeps for ever. The parent polls the file,
//! kills, waits, copies the child's trace (dropping a torn last line), and appends
//!
//! ```text
//! note crash kill=<spec> ...
//! expect-recovered
//! dump ... enddump                  the reopened environment
//! leftover <path>                   files other than data.mdb / lock.mdb in the environment
//!                                   directory, any file in the child's temporary directory
//!                                   (arroy is pointed at it with `set_tmpdir`, and TMPDIR)
//! open / ritemids / nns k=usize::MAX ...  on every index
//! endcase
//! ```
//!
//! The `commit` record of a child is written after `commit` returned: when it is there, the
//! recovered state must be the new version; when only `note committing` is there, it may be
//! either.

use std::fs::File;
use std::io::{Read, Seek, SeekFrom, Write};
use std::path::{Path, PathBuf};
use std::process::{Command, Stdio};
use std::sync::atomic::{AtomicBool, AtomicUsize, Ordering};
use std::sync::{Arc, Mutex};
use std::time::{Duration, Instant};

use crate::exec::*;
use crate::gen::{self, Overrides, Profile};
use crate::profiles::{self, Tier};
use crate::util::*;

#[derive(Clone, Copy, Debug, PartialEq, Eq)]
pub enum Kill {
    None,
    Poll(usize),
    Op(usize),
    /// microseconds after `note committing`
    Commit(u64),
}

impl Kill {
    fn spec(&self) -> String {
        match self {
            Kill::None => "none".into(),
            Kill::Poll(n) => format!("poll:{n}"),
            Kill::Op(k) => format!("op:{k}"),
            Kill::Commit(us) => format!("commit:{us}"),
        }
    }

    fn parse(s: &str) -> Option<Kill> {
        if s == "none" {
            return Some(Kill::None);
        }
        let (kind, n) = s.split_once(':')?;
        match kind {
            "poll" => n.parse().ok().map(Kill::Poll),
            "op" => n.parse().ok().map(Kill::Op),
            "commit" => n.parse().ok().map(Kill::Commit),
            _ => None,
        }
    }
}

static KILL_FILE: Mutex<Option<File>> = Mutex::new(None);

/// Announces the kill point and waits to be killed.
fn killpoint() -> ! {
    if let Some(f) = KILL_FILE.lock().unwrap_or_else(|e| e.into_inner()).as_mut() {
        let _ = f.write_all(b"note killpoint\n");
        let _ = f.flush();
    }
    loop {
        std::thread::sleep(Duration::from_secs(1));
    }
}

#[derive(Default)]
struct Counters {
    in_final: AtomicBool,
    ops: AtomicUsize,
    polls: AtomicUsize,
}

/// Runs the history on `env`, counting the ops / polls of the final transaction and
/// stopping (for ever) at the kill point, if any.
fn run_history(
    p: &Profile,
    r: Prng,
    histcase: u64,
    env: &CaseEnv,
    out: &mut dyn Write,
    kill: Kill,
) -> (Vec<W>, usize, usize, bool) {
    let counters = Arc::new(Counters::default());
    let mut ws = Vec::new();
    let panicked;
    {
        let mut ex = Executor::new(env, out);
        ex.tmpdir = Some(env.tmp_path.clone());
        let c = counters.clone();
        ex.op_hook = Some(Box::new(move |ev| match ev {
            HookEvent::After(Op::Note(text), _) if text == "final-txn" => {
                c.in_final.store(true, Ordering::SeqCst);
            }
            HookEvent::After(Op::Add(..) | Op::Append(..) | Op::Del(..) | Op::Clear(..), _)
                if c.in_final.load(Ordering::SeqCst) =>
            {
                let k = c.ops.fetch_add(1, Ordering::SeqCst) + 1;
                if kill == Kill::Op(k) {
                    killpoint();
                }
            }
            _ => {}
        }));
        let c = counters.clone();
        ex.poll_hook = Some(Arc::new(move |_| {
            if c.in_final.load(Ordering::SeqCst) {
                let n = c.polls.fetch_add(1, Ordering::SeqCst);
                if kill == Kill::Poll(n) {
                    killpoint();
                }
            }
        }));
        let stats = gen::drive(p, r, histcase, &Overrides::default(), &mut ex, &mut |w| ws = w.to_vec());
        panicked = stats.panicked;
    }
    (ws, counters.ops.load(Ordering::SeqCst), counters.polls.load(Ordering::SeqCst), panicked)
}

/// `harness crash-child <profile> <tier> <history seed> <case number> <history case> <root> <trace> <kill>`
pub fn child_main(args: &[String]) -> Result<(), String> {
    if args.len() != 8 {
        return Err("crash-child: expected 8 arguments (this is an internal command)".into());
    }
    let tier = Tier::parse(&args[1]).ok_or("bad tier")?;
    let p = profiles::profile(&args[0], tier).ok_or("bad profile")?;
    let seed: u64 = args[2].parse().map_err(|_| "bad seed")?;
    let case: u64 = args[3].parse().map_err(|_| "bad case number")?;
    let histcase: u64 = args[4].parse().map_err(|_| "bad history case")?;
    let root = PathBuf::from(&args[5]);
    let kill = Kill::parse(&args[7]).ok_or("bad kill spec")?;
    let mut file = File::create(&args[6]).map_err(|e| format!("{}: {e}", args[6]))?;
    *KILL_FILE.lock().unwrap() = Some(file.try_clone().map_err(|e| e.to_string())?);
    let (r, mapsize) = gen::plan(&p, seed, &Overrides::default());
    let env = CaseEnv::create_in(&root, mapsize)?;
    let header = format!("case {case} seed={seed} mapsize={mapsize}\n{}\n", host_line());
    file.write_all(header.as_bytes()).map_err(|e| e.to_string())?;
    run_history(&p, r, histcase, &env, &mut file, kill);
    let _ = file.write_all(b"note child-finished\n");
    loop {
        std::thread::sleep(Duration::from_secs(1));
    }
}

/// Reads what was appended to `path` since `offset` into `buf`.
fn read_more(path: &Path, offset: &mut u64, buf: &mut Vec<u8>) {
    if let Ok(mut f) = File::open(path) {
        if f.seek(SeekFrom::Start(*offset)).is_ok() {
            let before = buf.len();
            if f.read_to_end(buf).is_ok() {
                *offset += (buf.len() - before) as u64;
            }
        }
    }
}

fn contains_line(buf: &[u8], line: &[u8]) -> bool {
    // `line` includes its newline; it must start at the beginning of a line
    buf.windows(line.len())
        .enumerate()
        .any(|(i, w)| w == line && (i == 0 || buf[i - 1] == b'\n'))
}

fn leftovers(ex: &mut Executor, env: &CaseEnv) {
    let mut found = Vec::new();
    if let Ok(dir) = std::fs::read_dir(&env.env_path) {
        for entry in dir.flatten() {
            let name = entry.file_name();
            if name != "data.mdb" && name != "lock.mdb" {
                found.push(format!("db/{}", name.to_string_lossy()));
            }
        }
    }
    fn walk(dir: &Path, prefix: &str, found: &mut Vec<String>) {
        if let Ok(rd) = std::fs::read_dir(dir) {
            for entry in rd.flatten() {
                let name = format!("{prefix}/{}", entry.file_name().to_string_lossy());
                if entry.path().is_dir() {
                    walk(&entry.path(), &name, found);
                }
                found.push(name);
            }
        }
    }
    walk(&env.tmp_path, "tmp", &mut found);
    found.sort();
    for f in found {
        ex.raw_line(&format!("leftover {f}"));
    }
}

pub struct CrashOpts {
    pub profile: String,
    pub tier: Tier,
    pub seed: u64,
    pub cases: u64,
    pub first_case: u64,
    pub max_polls: usize,
    pub op_points: usize,
    pub commit_points: usize,
}

pub struct CrashStats {
    pub histories: usize,
    pub children: usize,
    pub killed_at_point: usize,
    pub finished_first: usize,
}

fn spread(total: usize, max: usize) -> Vec<usize> {
    // the numbers 0..total, all of them or `max` evenly spread ones (first and last included)
    if total <= max || max < 2 {
        return (0..total).collect();
    }
    let mut v: Vec<usize> = (0..max).map(|i| i * (total - 1) / (max - 1)).collect();
    v.dedup();
    v
}

pub fn run(o: &CrashOpts, out: &mut dyn Write) -> Result<CrashStats, String> {
    let p = profiles::profile(&o.profile, o.tier).ok_or_else(|| format!("unknown profile {}", o.profile))?;
    if !p.crash_mode {
        return Err(format!("profile {} is not a crash profile (crash_mode)", o.profile));
    }
    let exe = std::env::current_exe().map_err(|e| e.to_string())?;
    let tier = if o.tier == Tier::Quick { "quick" } else { "thorough" };
    let mut stats = CrashStats { histories: 0, children: 0, killed_at_point: 0, finished_first: 0 };
    let mut case_number = 0u64;
    for h in o.first_case..o.first_case + o.cases {
        let hseed = case_seed(o.seed, h);
        // scratch run
        let (r, mapsize) = gen::plan(&p, hseed, &Overrides::default());
        let scratch = CaseEnv::new(mapsize)?;
        let (ws, k_ops, n_polls, panicked) =
            run_history(&p, r, h, &scratch, &mut std::io::sink(), Kill::None);
        drop(scratch);
        stats.histories += 1;
        let mut pr = Prng::new(hseed ^ 0x6b69_6c6c);
        let mut kills: Vec<Kill> = Vec::new();
        if !panicked {
            kills.extend(spread(n_polls, o.max_polls).into_iter().map(Kill::Poll));
            kills.extend(spread(k_ops, o.op_points).into_iter().map(|k| Kill::Op(k + 1)));
            for i in 0..o.commit_points {
                kills.push(Kill::Commit(if i == 0 { 0 } else { pr.range(0, 3000) }));
            }
        } else {
            kills.push(Kill::None);
        }
        let _ = writeln!(
            out,
            "# crash history {h} seed={hseed}: final transaction has {k_ops} update ops, {n_polls} polls; {} kill points",
            kills.len()
        );
        for kill in kills {
            let root = tempfile::tempdir().map_err(|e| format!("tempdir: {e}"))?;
            let trace = root.path().join("trace.txt");
            let tmp = root.path().join("tmp");
            std::fs::create_dir_all(&tmp).map_err(|e| e.to_string())?;
            let mut child = Command::new(&exe)
                .arg("crash-child")
                .arg(&o.profile)
                .arg(tier)
                .arg(hseed.to_string())
                .arg(case_number.to_string())
                .arg(h.to_string())
                .arg(root.path())
                .arg(&trace)
                .arg(kill.spec())
                .env("TMPDIR", &tmp)
                .stdin(Stdio::null())
                .stdout(Stdio::null())
                .spawn()
                .map_err(|e| format!("spawning the child: {e}"))?;
            let started = Instant::now();
            let mut offset = 0u64;
            let mut buf: Vec<u8> = Vec::new();
            let mut how = "timeout";
            let mut committing_seen: Option<Instant> = None;
            loop {
                read_more(&trace, &mut offset, &mut buf);
                if contains_line(&buf, b"note killpoint\n") {
                    how = "killpoint";
                    break;
                }
                if let Kill::Commit(us) = kill {
                    if committing_seen.is_none() && contains_line(&buf, b"note committing\n") {
                        committing_seen = Some(Instant::now());
                    }
                    if let Some(t) = committing_seen {
                        if t.elapsed() >= Duration::from_micros(us) {
                            how = "delay";
                            break;
                        }
                        std::hint::spin_loop();
                        continue;
                    }
                }
                if contains_line(&buf, b"note child-finished\n") {
                    how = "finished";
                    break;
                }
                if let Ok(Some(_)) = child.try_wait() {
                    how = "exited";
                    break;
                }
                if started.elapsed() > Duration::from_secs(60) {
                    break;
                }
                if matches!(kill, Kill::Commit(_)) {
                    std::thread::yield_now();
                } else {
                    std::thread::sleep(Duration::from_micros(200));
                }
            }
            let _ = child.kill();
            let _ = child.wait();
            stats.children += 1;
            match how {
                "killpoint" | "delay" => stats.killed_at_point += 1,
                "finished" => stats.finished_first += 1,
                _ => {}
            }
            // the child's trace, without a torn last line
            let mut text = std::fs::read(&trace).unwrap_or_default();
            match text.iter().rposition(|b| *b == b'\n') {
                Some(i) => text.truncate(i + 1),
                None => text.clear(),
            }
            if text.is_empty() {
                text = format!("case {case_number} seed={hseed} mapsize={mapsize}\n{}\n", host_line()).into_bytes();
            }
            out.write_all(&text).map_err(|e| e.to_string())?;
            let _ = writeln!(out, "note crash history={h} kill={} stopped={how}", kill.spec());
            // the recovered environment
            match CaseEnv::reopen_in(root.path(), mapsize) {
                Ok(env) => {
                    let mut ex = Executor::new(&env, out);
                    ex.exec(&Op::ExpectRecovered);
                    ex.exec(&Op::Dump);
                    leftovers(&mut ex, &env);
                    for w in &ws {
                        ex.exec(&Op::Open(*w));
                        ex.exec(&Op::NeedBuild(*w));
                        ex.exec(&Op::RItemIds(*w));
                        let ids = ex.last_res.strip_prefix("ok ").and_then(|s| parse_ids(s).ok()).unwrap_or_default();
                        for q in 0..3 {
                            let by = if q == 0 || ids.is_empty() {
                                By::Vec((0..w.dims).map(|_| pr.unit()).collect())
                            } else {
                                By::Item(*pr.pick(&ids))
                            };
                            let count = *pr.pick(&[1usize, 3, ids.len() + 1]);
                            ex.exec(&Op::Nns(
                                *w,
                                NnsOpts { count, k: Some(usize::MAX), over: None, cand: None, by },
                            ));
                        }
                    }
                    ex.finish();
                }
                Err(e) => {
                    let _ = writeln!(out, "note crash: cannot reopen the environment: {}", one_line(&e));
                    let _ = writeln!(out, "expect-recovered");
                }
            }
            let _ = writeln!(out, "endcase");
            case_number += 1;
        }
    }
    Ok(stats)
}
