//! Test harness of the arroy verification framework: executes operations against the real
//! crate (feature `verif-hooks`) and writes traces in the format of /verif/PROTOCOL.md.

mod bq;
mod crash;
mod exec;
mod faults;
mod fixture;
mod gen;
mod ids;
mod kernels;
mod keys;
mod profiles;
mod replay;
mod threads;
mod upgrade;
mod util;

use std::fs::File;
use std::io::{BufRead, BufReader, BufWriter, Write};
use std::process::ExitCode;
use std::time::Instant;

use profiles::Tier;

const HELP: &str = "\
harness <scenario> [options]

scenarios
  hist      generated histories (profile driven)          -> case / op / ev / res / dump records
  replay <tracefile>   re-execute the op lines of a trace -> a fresh trace
  kernels   distance kernels x lengths x offsets x value families -> kern / dist records
  bq        binary quantisation of vectors                -> bq records
  keys      raw keys written by real operations           -> keyseen records
  ids       schedule-controlled runs of ConcurrentNodeIds (C13)  -> ids records
  threads   one writer + 1..8 readers on one environment (C08)   -> history + snapshot records
  crash     kill a child process at chosen points, reopen (C09)  -> child trace + expect-recovered ...
  faults    cancellation sweep / map sizes / bad temp dir / fd ledger (C10)
  fixture-gen --metric M     write a golden fixture (C16)
  fixture-load <fixture>     load a fixture with rawput, re-ask the recorded questions, update, rebuild
  upgrade   v0.4 layout -> upgrade04to05 -> upgrade05to06 (C17)
  profiles  list the profile names

common options
  --out FILE          write the trace to FILE (default: stdout)
  --seed N            the one seed everything random derives from (default 1; also VERIF_SEED)
  --tier quick|thorough   (default quick)
  -q, --quiet         no summary on stderr

hist
  --profile NAME      base, c01 ... c20 (default c01)
  --cases N           number of cases (default: the profile's)
  --first-case N      number of the first case (default 0)
  --only-case N       generate only case N (same ops as in the full run)
  --threads N         force the thread count of every build
  --mapsize BYTES     force the LMDB map size
  --poll-limit N      builds are cancelled by the harness after N polls (hang detection)
  --choices           also write the items drawn by every split search (`ev chosen <id>`, 202 per attempt);
                      always on for `replay`

replay
  --only-case N       replay only case N of the trace

kernels
  --max-len N         lengths 1..=N (default 300)
  --rounds N          repeat with fresh values (default 1 quick, 20 thorough)

bq
  --max-dim N         dimensions 1..=N (default 300)
  --exhaustive D      all 2^d sign patterns for d <= D (default 12 quick, 16 thorough)
  --per-dim N         random vectors per dimension (default 50 quick, 1000 thorough)

keys
  --random N          random (index, item) probes after the boundary lattice (default 2000 / 10000)

ids
  --max-schedules N   per configuration: exhaustive when it has at most N schedules, else N sampled
                      ones (default 3000 quick, 40000 thorough)

threads   (--profile c08, --cases N, --first-case, --only-case as for hist)
  --max-snapshots N   snapshot records per case (default 200 quick, 1000 thorough)

crash     (--profile c09; --cases N = number of histories, default 4 quick / 40 thorough)
  --max-polls N       kill points inside the cancellation callback per history (default 40 / 400)
  --op-points N       kill points between update ops per history (default 8 / 30)
  --commit-points N   kills 0..3 ms after `note committing` per history (default 8 / 30)

faults
  --part sweep|mapsize|mapsweep|tmpdir|fdcheck|all   (default all)
  --cases N           cases (sweep, tmpdir) / histories (mapsize: x 12 map sizes) of the part
  --builds N          builds of the fdcheck ledger (default 300 quick, 3000 thorough)

fixture-gen
  --metric M          euclidean manhattan cosine dot bqeuclidean bqmanhattan bqcosine

upgrade   (--profile c17, --cases N, --first-case, --only-case as for hist)
";

#[derive(Default)]
struct Args {
    scenario: String,
    positional: Vec<String>,
    out: Option<String>,
    seed: Option<u64>,
    tier: Option<Tier>,
    quiet: bool,
    profile: Option<String>,
    cases: Option<u64>,
    first_case: u64,
    only_case: Option<u64>,
    threads: Option<usize>,
    mapsize: Option<usize>,
    poll_limit: Option<usize>,
    max_len: Option<usize>,
    rounds: Option<usize>,
    max_dim: Option<usize>,
    exhaustive: Option<usize>,
    per_dim: Option<usize>,
    random: Option<usize>,
    max_schedules: Option<usize>,
    max_snapshots: Option<usize>,
    max_polls: Option<usize>,
    op_points: Option<usize>,
    commit_points: Option<usize>,
    part: Option<String>,
    builds: Option<usize>,
    metric: Option<String>,
}

fn parse_args() -> Result<Args, String> {
    let mut args = Args::default();
    let mut it = std::env::args().skip(1);
    fn value<T: std::str::FromStr>(
        it: &mut impl Iterator<Item = String>,
        flag: &str,
    ) -> Result<T, String> {
        let v = it.next().ok_or_else(|| format!("{flag} needs a value"))?;
        v.parse::<T>().map_err(|_| format!("bad value for {flag}: {v}"))
    }
    while let Some(a) = it.next() {
        match a.as_str() {
            "-h" | "--help" | "help" => {
                print!("{HELP}");
                std::process::exit(0);
            }
            "--out" => args.out = Some(value(&mut it, "--out")?),
            "--seed" => args.seed = Some(value(&mut it, "--seed")?),
            "--tier" => {
                let t: String = value(&mut it, "--tier")?;
                args.tier = Some(Tier::parse(&t).ok_or_else(|| format!("unknown tier {t}"))?);
            }
            "-q" | "--quiet" => args.quiet = true,
            "--choices" => exec::CHOICES.store(true, std::sync::atomic::Ordering::Relaxed),
            "--profile" => args.profile = Some(value(&mut it, "--profile")?),
            "--cases" => args.cases = Some(value(&mut it, "--cases")?),
            "--first-case" => args.first_case = value(&mut it, "--first-case")?,
            "--only-case" => args.only_case = Some(value(&mut it, "--only-case")?),
            "--threads" => args.threads = Some(value(&mut it, "--threads")?),
            "--mapsize" => args.mapsize = Some(value(&mut it, "--mapsize")?),
            "--poll-limit" => args.poll_limit = Some(value(&mut it, "--poll-limit")?),
            "--max-len" => args.max_len = Some(value(&mut it, "--max-len")?),
            "--rounds" => args.rounds = Some(value(&mut it, "--rounds")?),
            "--max-dim" => args.max_dim = Some(value(&mut it, "--max-dim")?),
            "--exhaustive" => args.exhaustive = Some(value(&mut it, "--exhaustive")?),
            "--per-dim" => args.per_dim = Some(value(&mut it, "--per-dim")?),
            "--random" => args.random = Some(value(&mut it, "--random")?),
            "--max-snapshots" => args.max_snapshots = Some(value(&mut it, "--max-snapshots")?),
            "--max-polls" => args.max_polls = Some(value(&mut it, "--max-polls")?),
            "--op-points" => args.op_points = Some(value(&mut it, "--op-points")?),
            "--commit-points" => args.commit_points = Some(value(&mut it, "--commit-points")?),
            "--metric" => args.metric = Some(value(&mut it, "--metric")?),
            "--part" => args.part = Some(value(&mut it, "--part")?),
            "--builds" => args.builds = Some(value(&mut it, "--builds")?),
            "--max-schedules" => args.max_schedules = Some(value(&mut it, "--max-schedules")?),
            flag if flag.starts_with("--") => return Err(format!("unknown option {flag}")),
            _ if args.scenario.is_empty() => args.scenario = a,
            _ => args.positional.push(a),
        }
    }
    if args.scenario.is_empty() {
        return Err("missing scenario".into());
    }
    Ok(args)
}

fn open_out(path: &Option<String>) -> Result<Box<dyn Write>, String> {
    Ok(match path {
        Some(p) if p != "-" => Box::new(BufWriter::with_capacity(
            1 << 20,
            File::create(p).map_err(|e| format!("{p}: {e}"))?,
        )),
        _ => Box::new(BufWriter::with_capacity(1 << 20, std::io::stdout().lock())),
    })
}

fn real_main() -> Result<(), String> {
    let args = parse_args()?;
    let seed = args
        .seed
        .or_else(|| std::env::var("VERIF_SEED").ok().and_then(|s| s.parse().ok()))
        .unwrap_or(1);
    let tier = args.tier.unwrap_or(Tier::Quick);
    let quick = tier == Tier::Quick;
    exec::install_panic_hook();
    let started = Instant::now();
    match args.scenario.as_str() {
        "profiles" => {
            for n in profiles::NAMES {
                println!("{n}");
            }
            Ok(())
        }
        "hist" => {
            let name = args.profile.clone().unwrap_or_else(|| "c01".to_string());
            let profile = profiles::profile(&name, tier)
                .ok_or_else(|| format!("unknown profile {name} (see `harness profiles`)"))?;
            let mut out = open_out(&args.out)?;
            let overrides = gen::Overrides {
                mapsize: args.mapsize,
                poll_limit: args.poll_limit,
                threads: args.threads,
            };
            let cases = args.cases.unwrap_or(profile.default_cases);
            let range: Vec<u64> = match args.only_case {
                Some(n) => vec![n],
                None => (args.first_case..args.first_case + cases).collect(),
            };
            let _ = writeln!(
                out,
                "# harness hist --profile {name} --tier {} --seed {seed} --cases {cases} --first-case {}",
                if quick { "quick" } else { "thorough" },
                args.first_case
            );
            let (mut steps, mut ok, mut err, mut panics) = (0usize, 0usize, 0usize, 0usize);
            for n in &range {
                let s = gen::run_case(&profile, *n, util::case_seed(seed, *n), &overrides, &mut *out)?;
                steps += s.steps;
                ok += s.builds_ok;
                err += s.builds_err;
                panics += s.panicked as usize;
            }
            out.flush().map_err(|e| e.to_string())?;
            if !args.quiet {
                eprintln!(
                    "hist {name}: {} cases, {steps} ops, builds ok={ok} failed={err}, panicked cases={panics}, {:.1}s",
                    range.len(),
                    started.elapsed().as_secs_f64()
                );
            }
            Ok(())
        }
        "replay" => {
            exec::CHOICES.store(true, std::sync::atomic::Ordering::Relaxed);
            let path = args.positional.first().ok_or("replay needs a trace file")?;
            let mut input: Box<dyn BufRead> = if path == "-" {
                Box::new(BufReader::new(std::io::stdin()))
            } else {
                Box::new(BufReader::with_capacity(
                    1 << 20,
                    File::open(path).map_err(|e| format!("{path}: {e}"))?,
                ))
            };
            let mut out = open_out(&args.out)?;
            let _ = writeln!(out, "# harness replay {path}");
            let stats = replay::replay(&mut *input, &mut *out, args.only_case)?;
            out.flush().map_err(|e| e.to_string())?;
            if !args.quiet {
                eprintln!(
                    "replay: {} cases, {} ops, panicked cases={}, {:.1}s",
                    stats.cases,
                    stats.steps,
                    stats.panics,
                    started.elapsed().as_secs_f64()
                );
            }
            Ok(())
        }
        "kernels" => {
            let mut out = open_out(&args.out)?;
            let rounds = args.rounds.unwrap_or(if quick { 1 } else { 20 });
            let _ = writeln!(out, "# harness kernels --seed {seed} --rounds {rounds}");
            // the quantised metrics go up to 450 components whatever --max-len says (8 words: every block size of
            // a word-wise kernel, with a remainder)
            kernels::run(seed, tier, args.max_len.unwrap_or(300), 450, rounds, &mut *out)?;
            out.flush().map_err(|e| e.to_string())
        }
        "bq" => {
            let mut out = open_out(&args.out)?;
            let _ = writeln!(out, "# harness bq --seed {seed}");
            bq::run(
                seed,
                args.max_dim.unwrap_or(300),
                args.exhaustive.unwrap_or(if quick { 12 } else { 16 }),
                args.per_dim.unwrap_or(if quick { 50 } else { 1000 }),
                &mut *out,
            )?;
            out.flush().map_err(|e| e.to_string())
        }
        "keys" => {
            let mut out = open_out(&args.out)?;
            let _ = writeln!(out, "# harness keys --seed {seed}");
            keys::run(seed, args.random.unwrap_or(if quick { 2000 } else { 10000 }), &mut *out)?;
            out.flush().map_err(|e| e.to_string())
        }
        "threads" => {
            let name = args.profile.clone().unwrap_or_else(|| "c08".to_string());
            let profile = profiles::profile(&name, tier)
                .ok_or_else(|| format!("unknown profile {name} (see `harness profiles`)"))?;
            let mut out = open_out(&args.out)?;
            let overrides = gen::Overrides {
                mapsize: args.mapsize,
                poll_limit: args.poll_limit,
                threads: args.threads,
            };
            let cases = args.cases.unwrap_or(profile.default_cases);
            let range: Vec<u64> = match args.only_case {
                Some(n) => vec![n],
                None => (args.first_case..args.first_case + cases).collect(),
            };
            let max_snapshots = args.max_snapshots.unwrap_or(if quick { 200 } else { 1000 });
            let _ = writeln!(out, "# harness threads --profile {name} --seed {seed} --cases {cases}");
            let (mut steps, mut snaps, mut commits, mut panics) = (0, 0, 0, 0);
            for n in &range {
                let s = threads::run_case(
                    &profile,
                    *n,
                    util::case_seed(seed, *n),
                    &overrides,
                    max_snapshots,
                    &mut *out,
                )?;
                steps += s.steps;
                snaps += s.snapshots;
                commits += s.commits;
                panics += s.panicked as usize;
            }
            out.flush().map_err(|e| e.to_string())?;
            if !args.quiet {
                eprintln!(
                    "threads {name}: {} cases, {steps} ops, {commits} commits, {snaps} snapshot records, panicked cases={panics}, {:.1}s",
                    range.len(),
                    started.elapsed().as_secs_f64()
                );
            }
            Ok(())
        }
        "crash-child" => crash::child_main(&args.positional),
        "crash" => {
            let mut out = open_out(&args.out)?;
            let opts = crash::CrashOpts {
                profile: args.profile.clone().unwrap_or_else(|| "c09".to_string()),
                tier,
                seed,
                cases: args.cases.unwrap_or(if quick { 4 } else { 40 }),
                first_case: args.first_case,
                max_polls: args.max_polls.unwrap_or(if quick { 40 } else { 400 }),
                op_points: args.op_points.unwrap_or(if quick { 8 } else { 30 }),
                commit_points: args.commit_points.unwrap_or(if quick { 8 } else { 30 }),
            };
            let _ = writeln!(out, "# harness crash --profile {} --seed {seed} --cases {}", opts.profile, opts.cases);
            let stats = crash::run(&opts, &mut *out)?;
            out.flush().map_err(|e| e.to_string())?;
            if !args.quiet {
                eprintln!(
                    "crash: {} histories, {} children ({} killed at their point, {} had finished), {:.1}s",
                    stats.histories,
                    stats.children,
                    stats.killed_at_point,
                    stats.finished_first,
                    started.elapsed().as_secs_f64()
                );
            }
            Ok(())
        }
        "faults" => {
            let mut out = open_out(&args.out)?;
            let opts = faults::FaultOpts {
                part: args.part.clone().unwrap_or_else(|| "all".to_string()),
                tier,
                seed,
                cases: args.cases,
                builds: args.builds,
            };
            let _ = writeln!(out, "# harness faults --part {} --seed {seed}", opts.part);
            let cases = faults::run(&opts, &mut *out)?;
            out.flush().map_err(|e| e.to_string())?;
            if !args.quiet {
                eprintln!("faults {}: {cases} cases, {:.1}s", opts.part, started.elapsed().as_secs_f64());
            }
            Ok(())
        }
        "fixture-gen" => {
            let name = args.metric.clone().ok_or("fixture-gen needs --metric")?;
            let metric = util::Metric::parse(&name).ok_or_else(|| format!("unknown metric {name}"))?;
            let mut out = open_out(&args.out)?;
            fixture::generate(metric, &mut *out)?;
            out.flush().map_err(|e| e.to_string())
        }
        "fixture-load" => {
            let path = args.positional.first().ok_or("fixture-load needs a fixture file")?;
            let mut input =
                BufReader::new(File::open(path).map_err(|e| format!("{path}: {e}"))?);
            let mut out = open_out(&args.out)?;
            let _ = writeln!(out, "# harness fixture-load {path}");
            let mismatches = fixture::load(&mut input, &mut *out)?;
            out.flush().map_err(|e| e.to_string())?;
            if !args.quiet {
                eprintln!("fixture-load {path}: {mismatches} recorded answers differ");
            }
            Ok(())
        }
        "upgrade" => {
            let name = args.profile.clone().unwrap_or_else(|| "c17".to_string());
            let profile = profiles::profile(&name, tier)
                .ok_or_else(|| format!("unknown profile {name} (see `harness profiles`)"))?;
            let mut out = open_out(&args.out)?;
            let cases = args.cases.unwrap_or(profile.default_cases);
            let range: Vec<u64> = match args.only_case {
                Some(n) => vec![n],
                None => (args.first_case..args.first_case + cases).collect(),
            };
            let _ = writeln!(out, "# harness upgrade --profile {name} --seed {seed} --cases {cases}");
            let mut panics = 0;
            for n in &range {
                panics += upgrade::run_case(&profile, *n, util::case_seed(seed, *n), &mut *out)? as usize;
            }
            out.flush().map_err(|e| e.to_string())?;
            if !args.quiet {
                eprintln!(
                    "upgrade {name}: {} cases, panicked cases={panics}, {:.1}s",
                    range.len(),
                    started.elapsed().as_secs_f64()
                );
            }
            Ok(())
        }
        "ids" => {
            let mut out = open_out(&args.out)?;
            let cap = args.max_schedules.unwrap_or(if quick { 3000 } else { 40000 });
            let _ = writeln!(out, "# harness ids --seed {seed} --max-schedules {cap}");
            let stats = ids::run(seed, tier, cap, &mut *out)?;
            out.flush().map_err(|e| e.to_string())?;
            if !args.quiet {
                eprintln!(
                    "ids: {} configurations ({} exhaustive), {} schedules, {:.1}s",
                    stats.configs,
                    stats.exhaustive,
                    stats.schedules,
                    started.elapsed().as_secs_f64()
                );
            }
            Ok(())
        }
        other => Err(format!("unknown scenario {other}\n\n{HELP}")),
    }
}

fn main() -> ExitCode {
    match real_main() {
        Ok(()) => ExitCode::SUCCESS,
        Err(e) => {
            eprintln!("harness: {e}");
            ExitCode::from(2)
        }
    }
}
