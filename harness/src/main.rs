fn main(){}
