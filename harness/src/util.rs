//! Small shared helpers: the generator PRNG, the metric names, the hex/vec/ids token
//! formats of /verif/PROTOCOL.md.

use std::fmt::Write as _;

/// splitmix64: the only source of randomness of the generators (stable whatever the
/// version of `rand`).
#[derive(Clone, Debug)]
pub struct Prng(u64);

impl Prng {
    pub fn new(seed: u64) -> Prng {
        Prng(seed)
    }

    pub fn next_u64(&mut self) -> u64 {
        self.0 = self.0.wrapping_add(0x9e37_79b9_7f4a_7c15);
        let mut z = self.0;
        z = (z ^ (z >> 30)).wrapping_mul(0xbf58_476d_1ce4_e5b9);
        z = (z ^ (z >> 27)).wrapping_mul(0x94d0_49bb_1331_11eb);
        z ^ (z >> 31)
    }

    pub fn next_u32(&mut self) -> u32 {
        (self.next_u64() >> 32) as u32
    }

    /// Uniform in `0..n` (`n > 0`).
    pub fn below(&mut self, n: u64) -> u64 {
        debug_assert!(n > 0);
        ((self.next_u64() as u128 * n as u128) >> 64) as u64
    }

    /// Uniform in `lo..=hi`.
    pub fn range(&mut self, lo: u64, hi: u64) -> u64 {
        debug_assert!(lo <= hi);
        if lo == 0 && hi == u64::MAX {
            return self.next_u64();
        }
        lo + self.below(hi - lo + 1)
    }

    pub fn urange(&mut self, lo: usize, hi: usize) -> usize {
        self.range(lo as u64, hi as u64) as usize
    }

    /// True with probability `p` (0.0 ..= 1.0).
    pub fn chance(&mut self, p: f64) -> bool {
        if p <= 0.0 {
            // still consume nothing: keeps streams of profiles with a knob at 0 cheap
            return false;
        }
        (self.next_u64() >> 11) as f64 / ((1u64 << 53) as f64) < p
    }

    pub fn pick<'a, T>(&mut self, xs: &'a [T]) -> &'a T {
        &xs[self.below(xs.len() as u64) as usize]
    }

    /// Picks according to integer weights (entries of weight 0 are never picked).
    pub fn weighted<'a, T>(&mut self, xs: &'a [(u32, T)]) -> &'a T {
        let total: u64 = xs.iter().map(|(w, _)| *w as u64).sum();
        assert!(total > 0, "weighted choice over an empty / all-zero table");
        let mut r = self.below(total);
        for (w, x) in xs {
            if r < *w as u64 {
                return x;
            }
            r -= *w as u64;
        }
        unreachable!()
    }

    /// Uniform f32 in [-1, 1].
    pub fn unit(&mut self) -> f32 {
        let u = (self.next_u64() >> 40) as f32 / (1u32 << 24) as f32; // [0,1)
        u * 2.0 - 1.0
    }

    pub fn shuffle<T>(&mut self, xs: &mut [T]) {
        for i in (1..xs.len()).rev() {
            let j = self.below(i as u64 + 1) as usize;
            xs.swap(i, j);
        }
    }
}

/// Per-case seed derived from the run seed and the case number.
pub fn case_seed(seed: u64, case: u64) -> u64 {
    let mut p = Prng::new(seed ^ case.wrapping_mul(0xd605_bbb5_8c8a_bbc9).rotate_left(17));
    p.next_u64();
    p.next_u64()
}

#[derive(Clone, Copy, Debug, PartialEq, Eq, Hash, PartialOrd, Ord)]
pub enum Metric {
    Euclidean,
    Manhattan,
    Cosine,
    Dot,
    BqEuclidean,
    BqManhattan,
    BqCosine,
}

impl Metric {
    pub const ALL: [Metric; 7] = [
        Metric::Euclidean,
        Metric::Manhattan,
        Metric::Cosine,
        Metric::Dot,
        Metric::BqEuclidean,
        Metric::BqManhattan,
        Metric::BqCosine,
    ];
    #[allow(dead_code)]
    pub const F32: [Metric; 4] = [Metric::Euclidean, Metric::Manhattan, Metric::Cosine, Metric::Dot];
    pub const BQ: [Metric; 3] = [Metric::BqEuclidean, Metric::BqManhattan, Metric::BqCosine];

    pub fn name(self) -> &'static str {
        match self {
            Metric::Euclidean => "euclidean",
            Metric::Manhattan => "manhattan",
            Metric::Cosine => "cosine",
            Metric::Dot => "dot",
            Metric::BqEuclidean => "bqeuclidean",
            Metric::BqManhattan => "bqmanhattan",
            Metric::BqCosine => "bqcosine",
        }
    }

    pub fn parse(s: &str) -> Option<Metric> {
        Metric::ALL.iter().copied().find(|m| m.name() == s)
    }

    #[allow(dead_code)]
    pub fn is_bq(self) -> bool {
        matches!(self, Metric::BqEuclidean | Metric::BqManhattan | Metric::BqCosine)
    }
}

/// Dispatches a block over the arroy distance type of a `Metric`.
#[macro_export]
macro_rules! with_metric {
    ($m:expr, $D:ident => $body:expr) => {
        match $m {
            $crate::util::Metric::Euclidean => {
                type $D = arroy::distances::Euclidean;
                $body
            }
            $crate::util::Metric::Manhattan => {
                type $D = arroy::distances::Manhattan;
                $body
            }
            $crate::util::Metric::Cosine => {
                type $D = arroy::distances::Cosine;
                $body
            }
            $crate::util::Metric::Dot => {
                type $D = arroy::distances::DotProduct;
                $body
            }
            $crate::util::Metric::BqEuclidean => {
                type $D = arroy::distances::BinaryQuantizedEuclidean;
                $body
            }
            $crate::util::Metric::BqManhattan => {
                type $D = arroy::distances::BinaryQuantizedManhattan;
                $body
            }
            $crate::util::Metric::BqCosine => {
                type $D = arroy::distances::BinaryQuantizedCosine;
                $body
            }
        }
    };
}

const HEX: &[u8; 16] = b"0123456789abcdef";

pub fn push_hex(out: &mut String, bytes: &[u8]) {
    if bytes.is_empty() {
        out.push('-');
        return;
    }
    out.reserve(bytes.len() * 2);
    for b in bytes {
        out.push(HEX[(b >> 4) as usize] as char);
        out.push(HEX[(b & 15) as usize] as char);
    }
}

pub fn push_bits(out: &mut String, bits: u32) {
    for shift in (0..8).rev() {
        out.push(HEX[((bits >> (shift * 4)) & 15) as usize] as char);
    }
}

pub fn push_vec(out: &mut String, v: &[f32]) {
    if v.is_empty() {
        out.push('-');
        return;
    }
    out.reserve(v.len() * 9);
    for (i, x) in v.iter().enumerate() {
        if i > 0 {
            out.push(',');
        }
        push_bits(out, x.to_bits());
    }
}

pub fn push_ids(out: &mut String, ids: &[u32]) {
    if ids.is_empty() {
        out.push('-');
        return;
    }
    for (i, x) in ids.iter().enumerate() {
        if i > 0 {
            out.push(',');
        }
        let _ = write!(out, "{x}");
    }
}

pub fn push_opt(out: &mut String, v: Option<usize>) {
    match v {
        Some(v) => {
            let _ = write!(out, "{v}");
        }
        None => out.push('-'),
    }
}

pub fn parse_hex(s: &str) -> Result<Vec<u8>, String> {
    if s == "-" {
        return Ok(Vec::new());
    }
    let b = s.as_bytes();
    if b.len() % 2 != 0 {
        return Err(format!("odd hex length: {s}"));
    }
    let nib = |c: u8| -> Result<u8, String> {
        match c {
            b'0'..=b'9' => Ok(c - b'0'),
            b'a'..=b'f' => Ok(c - b'a' + 10),
            b'A'..=b'F' => Ok(c - b'A' + 10),
            _ => Err(format!("bad hex digit in {s}")),
        }
    };
    let mut out = Vec::with_capacity(b.len() / 2);
    for pair in b.chunks_exact(2) {
        out.push(nib(pair[0])? << 4 | nib(pair[1])?);
    }
    Ok(out)
}

pub fn parse_vec(s: &str) -> Result<Vec<f32>, String> {
    if s == "-" {
        return Ok(Vec::new());
    }
    s.split(',')
        .map(|t| {
            if t.len() != 8 {
                return Err(format!("bad f32 bit pattern `{t}`"));
            }
            u32::from_str_radix(t, 16).map(f32::from_bits).map_err(|e| format!("{t}: {e}"))
        })
        .collect()
}

pub fn parse_ids(s: &str) -> Result<Vec<u32>, String> {
    if s == "-" {
        return Ok(Vec::new());
    }
    s.split(',').map(|t| t.parse::<u32>().map_err(|e| format!("{t}: {e}"))).collect()
}

pub fn parse_opt(s: &str) -> Result<Option<usize>, String> {
    if s == "-" {
        Ok(None)
    } else {
        s.parse::<usize>().map(Some).map_err(|e| format!("{s}: {e}"))
    }
}

/// One line, no control characters: used for error and panic texts.
pub fn one_line(s: &str) -> String {
    let mut out = String::with_capacity(s.len());
    for c in s.chars() {
        match c {
            '\n' | '\r' | '\t' => out.push(' '),
            c if c.is_control() => out.push('?'),
            c => out.push(c),
        }
    }
    out.trim().to_string()
}

/// The `host` line: what the dispatching kernels can select on this machine.
pub fn host_line() -> String {
    #[cfg(target_arch = "x86_64")]
    let (avx, fma, sse) = (
        is_x86_feature_detected!("avx") as u8,
        is_x86_feature_detected!("fma") as u8,
        is_x86_feature_detected!("sse") as u8,
    );
    #[cfg(not(target_arch = "x86_64"))]
    let (avx, fma, sse) = (0u8, 0u8, 0u8);
    format!("host avx={avx} fma={fma} sse={sse} page={}", page_size::get())
}
