//! Scenario `keys` (C16 / C07): the raw keys the real operations write.
//!
//! arroy's key type is private, so keys are observed, not encoded: items, updated marks,
//! tree nodes, metadata and version records are created by real operations on index `i`
//! and the raw keys found in the database are printed as
//!
//! ```text
//! keyseen <hexkey> <index> <what> <id>       what in item updated tree metadata version
//! ```
//!
//! (inside one `case 0 ... endcase`; no `res` line). `<id>` is the id as the API knows it:
//! the item id given to `add_item` for `item` / `updated`; 0 for `metadata`, 1 for
//! `version` (the record numbers of `Key::metadata` / `Key::version`), 0 for `tree` (the
//! single bucket written when everything fits in one descendant: its id is fixed by
//! `clear_db_and_create_a_single_leaf`).
//!
//! How a new key is attributed: `add_item(id)` in an empty transaction creates exactly two
//! keys, the one with an empty value is the updated mark, the other one the item. A build of
//! an empty index creates exactly the metadata and version records (the version value is
//! three u32: 12 bytes); a build of a two-item index then adds exactly one tree key and
//! removes the marks. Every transaction is aborted, so each probe starts from an empty
//! database.

use std::collections::BTreeMap;
use std::io::Write;

use arroy::distances::Euclidean;
use arroy::Writer;
use heed::types::Bytes;
use rand::rngs::StdRng;
use rand::SeedableRng;

use crate::exec::CaseEnv;
use crate::util::*;

pub const INDEXES: [u16; 5] = [0, 1, 255, 256, 65535];
pub const ITEMS: [u32; 8] = [0, 1, 255, 256, 65536, 1 << 24, 1 << 31, u32::MAX];

fn snapshot(env: &CaseEnv, rtxn: &heed::RoTxn) -> Result<BTreeMap<Vec<u8>, Vec<u8>>, String> {
    let db = env.db.remap_types::<Bytes, Bytes>();
    let mut map = BTreeMap::new();
    for entry in db.iter(rtxn).map_err(|e| e.to_string())? {
        let (k, v) = entry.map_err(|e| e.to_string())?;
        map.insert(k.to_vec(), v.to_vec());
    }
    Ok(map)
}

fn seen(buf: &mut String, key: &[u8], index: u16, what: &str, id: u32) {
    buf.push_str("keyseen ");
    push_hex(buf, key);
    buf.push_str(&format!(" {index} {what} {id}\n"));
}

fn probe_item(env: &CaseEnv, buf: &mut String, index: u16, id: u32) -> Result<(), String> {
    let mut wtxn = env.env.write_txn().map_err(|e| e.to_string())?;
    let writer = Writer::<Euclidean>::new(env.db, index, 2);
    writer.add_item(&mut wtxn, id, &[1.0, -2.0]).map_err(|e| e.to_string())?;
    let after = snapshot(env, &wtxn)?;
    if after.len() != 2 {
        buf.push_str(&format!("note keys: add_item({index},{id}) created {} keys\n", after.len()));
    }
    for (k, v) in &after {
        seen(buf, k, index, if v.is_empty() { "updated" } else { "item" }, id);
    }
    wtxn.abort();
    Ok(())
}

fn probe_build(env: &CaseEnv, buf: &mut String, index: u16) -> Result<(), String> {
    let mut wtxn = env.env.write_txn().map_err(|e| e.to_string())?;
    let writer = Writer::<Euclidean>::new(env.db, index, 2);
    let mut rng = StdRng::seed_from_u64(index as u64);
    // 1. empty index: metadata + version
    writer.builder(&mut rng).n_trees(1).build(&mut wtxn).map_err(|e| e.to_string())?;
    let empty_build = snapshot(env, &wtxn)?;
    for (k, v) in &empty_build {
        if v.len() == 12 {
            seen(buf, k, index, "version", 1);
        } else {
            seen(buf, k, index, "metadata", 0);
        }
    }
    // 2. two items: one bucket
    writer.add_item(&mut wtxn, 0, &[1.0, -2.0]).map_err(|e| e.to_string())?;
    writer.add_item(&mut wtxn, 1, &[-1.0, 2.0]).map_err(|e| e.to_string())?;
    let before = snapshot(env, &wtxn)?;
    writer.builder(&mut rng).n_trees(1).build(&mut wtxn).map_err(|e| e.to_string())?;
    let after = snapshot(env, &wtxn)?;
    for k in after.keys() {
        if !before.contains_key(k) {
            seen(buf, k, index, "tree", 0);
        }
    }
    wtxn.abort();
    Ok(())
}

pub fn run(seed: u64, random: usize, out: &mut dyn Write) -> Result<(), String> {
    let mut r = Prng::new(seed);
    let env = CaseEnv::new(64 * 1024 * 1024)?;
    let w = |out: &mut dyn Write, s: &str| out.write_all(s.as_bytes()).map_err(|e| e.to_string());
    w(out, &format!("case 0 seed={seed} mapsize={}\n{}\n", env.mapsize, host_line()))?;
    let mut buf = String::new();
    for index in INDEXES {
        for id in ITEMS {
            probe_item(&env, &mut buf, index, id)?;
        }
        probe_build(&env, &mut buf, index)?;
        w(out, &buf)?;
        buf.clear();
    }
    for k in 0..random {
        let index = r.next_u32() as u16;
        let id = match k % 4 {
            0 => r.below(1 << 16) as u32,
            _ => r.next_u32(),
        };
        probe_item(&env, &mut buf, index, id)?;
        if k % 16 == 0 {
            probe_build(&env, &mut buf, index)?;
        }
        if buf.len() > 1 << 16 {
            w(out, &buf)?;
            buf.clear();
        }
    }
    w(out, &buf)?;
    w(out, "endcase\n")
}
