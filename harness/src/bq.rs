//! Scenario `bq` (C12): binary quantisation of vectors.
//!
//! Records (inside one `case 0 ... endcase`, after the `host` line):
//!
//! ```text
//! bq <vec>
//! res <hex: the packed bytes> <vec: what .iter() yields> <vec: what .to_vec() yields>
//! ```
//!
//! with `UnalignedVector::<<BinaryQuantizedCosine as Distance>::VectorCodec>::from_slice(vec)`.
//! Both read-backs have the padded length (a multiple of 64 elements).
//!
//! Dimensions 1..=max_dim. For d <= `exhaustive` (12 quick, 16 thorough) all 2^d sign
//! patterns (magnitudes drawn from the special values), beyond that `per_dim` random vectors
//! per dimension. Components come from {+0, -0, +-1.5, +-NaN with payloads, +-inf,
//! subnormals, generic values}.

use std::io::Write;

use arroy::distances::BinaryQuantizedCosine;
use arroy::internals::UnalignedVector;
use arroy::Distance;

use crate::util::*;

type Codec = <BinaryQuantizedCosine as Distance>::VectorCodec;

const POSITIVE: [u32; 10] = [
    0x0000_0000, // +0
    0x3fc0_0000, // 1.5
    0x7fc0_0000, // NaN
    0x7fc1_2345, // NaN with a payload
    0x7f80_0001, // signalling NaN
    0x7f80_0000, // +inf
    0x0000_0001, // smallest subnormal
    0x007f_ffff, // largest subnormal
    0x7f7f_ffff, // MAX
    0x0080_0000, // MIN_POSITIVE
];

fn component(r: &mut Prng, negative: bool) -> f32 {
    let mag = if r.chance(0.2) { r.next_u32() & 0x7fff_ffff } else { *r.pick(&POSITIVE) };
    f32::from_bits(mag | if negative { 0x8000_0000 } else { 0 })
}

fn record(buf: &mut String, v: &[f32]) {
    let vector = UnalignedVector::<Codec>::from_slice(v);
    let iterated: Vec<f32> = vector.iter().collect();
    let collected: Vec<f32> = vector.to_vec();
    let packed: Vec<u8> = vector.into_owned();
    buf.push_str("bq ");
    push_vec(buf, v);
    buf.push_str("\nres ");
    push_hex(buf, &packed);
    buf.push(' ');
    push_vec(buf, &iterated);
    buf.push(' ');
    push_vec(buf, &collected);
    buf.push('\n');
}

pub fn run(
    seed: u64,
    max_dim: usize,
    exhaustive: usize,
    per_dim: usize,
    out: &mut dyn Write,
) -> Result<(), String> {
    let mut r = Prng::new(seed);
    let w = |out: &mut dyn Write, s: &str| out.write_all(s.as_bytes()).map_err(|e| e.to_string());
    w(out, &format!("case 0 seed={seed} mapsize=0\n{}\n", host_line()))?;
    let mut buf = String::with_capacity(1 << 20);
    for d in 1..=max_dim {
        if d <= exhaustive {
            for pattern in 0u64..(1u64 << d) {
                let v: Vec<f32> =
                    (0..d).map(|i| component(&mut r, pattern >> i & 1 == 1)).collect();
                record(&mut buf, &v);
            }
        }
        if d > exhaustive || d >= 8 {
            for k in 0..per_dim {
                let v: Vec<f32> = match k % 5 {
                    // only zeros of both signs
                    0 => (0..d).map(|_| if r.chance(0.5) { -0.0f32 } else { 0.0 }).collect(),
                    // generic values
                    1 => (0..d).map(|_| r.unit()).collect(),
                    // arbitrary bit patterns
                    2 => (0..d).map(|_| f32::from_bits(r.next_u32())).collect(),
                    _ => (0..d).map(|_| {
                        let neg = r.chance(0.5);
                        component(&mut r, neg)
                    })
                    .collect(),
                };
                record(&mut buf, &v);
            }
        }
        w(out, &buf)?;
        buf.clear();
    }
    w(out, "endcase\n")
}
