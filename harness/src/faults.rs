//! Scenario `faults` (C10): cancellation sweep, map-full, unusable temporary directory,
//! resource ledger. `harness faults [--part sweep|mapsize|tmpdir|fdcheck|all]`.
//!
//! * **sweep** — per case a committed state (empty, or a built index) and a transaction T of
//!   updates (insertions, and for the built index also deletions and overwrites):
//!   `begin T build(cancel=-) dump abort dump` gives P, the polls of the complete build; then
//!   for n in 0..=P (quick: the first and last 20 and 150 evenly spread; thorough: all)
//!   `begin T build(cancel=n, same seed) abort dump`; finally the retry
//!   `begin T build(cancel=-) dump commit dump`. threads=1 everywhere.
//!   Then the *memory-limited large cases* (one index, dims 4-8, 450-700 items, 1-2 trees,
//!   split_after 8-20, `mem=` 2-8 pages, so the re-split loop runs several batches of >= 200
//!   items): the updates are committed first in their own transaction, the sweep is only
//!   `begin build(cancel=n) abort dump`, over ~120 points spread over the whole build plus its
//!   last 30 polls (thorough: every 3rd). Three flavours: items committed and never built; a
//!   built index with 50 deletions + 300 insertions committed but not built; the first one in
//!   the greatest map (steps of 4 pages) in which the build still answers `MDB_MAP_FULL` (the sweep
//!   then covers the polls up to the failure).
//! * **mapsize** — the same generated history (profile `c10map`) under 12 map sizes from
//!   64 KiB to 256 MiB, one case each; the first `MDB_MAP_FULL` is followed by `abort`,
//!   `dump` and the end of the case.
//! * **mapsweep** — one committed set of items (400-900, dims 3-6) and one build (`ntrees` 4-10, `split_after`
//!   20-100: most of the writes are new roots, re-split buckets and the metadata) under EVERY map size, page by
//!   page, from the smallest in which the items can be committed to two pages above the smallest in which the
//!   build succeeds; a second flavour sweeps an incremental build (50 deletions + 300 insertions on a built
//!   index). One case per size (`note faults mapsweep …`): the build must answer `ok` or `MDB_MAP_FULL`.
//! * **tmpdir** — `build ... tmpdir=missing` / `tmpdir=readonly` (the harness calls
//!   `set_tmpdir` with a directory that does not exist / a mode 0555 directory) must answer
//!   `res err io ...`; then `abort dump` and the retry `begin T build dump commit dump`. When
//!   the read-only directory is writable anyway (running as root) that half is skipped with a
//!   note.
//! * **fdcheck** — N builds (successful, cancelled and failing ones mixed) with arroy pointed
//!   at a private temporary directory; the record
//!   `fdcheck builds=<n> fd_before=<n> fd_after=<n> tmpfiles=<n>` gives the number of entries
//!   of /proc/self/fd before and after, and the number of files left in that directory.

use std::collections::BTreeMap;
use std::io::Write;

use crate::exec::*;
use crate::gen::{self, Overrides};
use crate::profiles::{self, Tier};
use crate::util::*;

struct Mini {
    r: Prng,
    w: W,
    items: BTreeMap<u32, Vec<f32>>,
    next_id: u32,
}

impl Mini {
    fn new(seed: u64, k: u64) -> Mini {
        let mut r = Prng::new(seed);
        let metric = Metric::ALL[(k % 7) as usize];
        let dims = r.urange(2, 6);
        let index = *r.pick(&[0u16, 0, 1, 65535]);
        Mini { r, w: W { index, metric, dims }, items: BTreeMap::new(), next_id: 0 }
    }

    fn vector(&mut self) -> Vec<f32> {
        let r = &mut self.r;
        match r.below(10) {
            0 => (0..self.w.dims).map(|_| *r.pick(&[0.0f32, 1.0, -1.0])).collect(),
            1 if !self.items.is_empty() => {
                let k = r.below(self.items.len() as u64) as usize;
                self.items.values().nth(k).unwrap().clone()
            }
            _ => (0..self.w.dims).map(|_| r.unit()).collect(),
        }
    }

    fn fresh_id(&mut self) -> u32 {
        if self.r.chance(0.15) {
            let id = self.r.next_u32();
            if !self.items.contains_key(&id) {
                return id;
            }
        }
        while self.items.contains_key(&self.next_id) {
            self.next_id += 1;
        }
        self.next_id
    }

    fn adds(&mut self, n: usize) -> Vec<Op> {
        (0..n)
            .map(|_| {
                let id = self.fresh_id();
                let v = self.vector();
                self.items.insert(id, v.clone());
                Op::Add(self.w, id, v)
            })
            .collect()
    }

    /// Deletions and overwrites of present items (the shadow follows).
    fn churn(&mut self, dels: usize, overwrites: usize) -> Vec<Op> {
        let mut ops = Vec::new();
        for _ in 0..dels {
            if self.items.is_empty() {
                break;
            }
            let k = self.r.below(self.items.len() as u64) as usize;
            let id = *self.items.keys().nth(k).unwrap();
            self.items.remove(&id);
            ops.push(Op::Del(self.w, id));
        }
        for _ in 0..overwrites {
            if self.items.is_empty() {
                break;
            }
            let k = self.r.below(self.items.len() as u64) as usize;
            let id = *self.items.keys().nth(k).unwrap();
            let v = self.vector();
            self.items.insert(id, v.clone());
            ops.push(Op::Add(self.w, id, v));
        }
        ops
    }

    fn build_opts(&mut self) -> BuildOpts {
        let r = &mut self.r;
        BuildOpts {
            ntrees: if r.chance(0.3) { None } else { Some(r.urange(1, 4)) },
            // small buckets: the build must go through the tree-making path
            split: if r.chance(0.2) { None } else { Some(r.urange(1, 8)) },
            mem: None,
            cancel: None,
            threads: 1,
            seed: r.next_u64(),
            tmpdir: None,
        }
    }
}

fn run_ops(ex: &mut Executor, ops: &[Op]) -> bool {
    for op in ops {
        if ex.exec(op) == Outcome::Panic {
            return false;
        }
    }
    true
}

macro_rules! go {
    ($ex:expr, $op:expr) => {
        if $ex.exec(&$op) == Outcome::Panic {
            return Ok(());
        }
    };
}

fn header(out: &mut dyn Write, case: u64, seed: u64, mapsize: usize) {
    let _ = writeln!(out, "case {case} seed={seed} mapsize={mapsize}");
    let _ = writeln!(out, "{}", host_line());
}

/// A committed, built index of `n0` items (nothing when `n0 == 0`).
fn setup(ex: &mut Executor, m: &mut Mini, n0: usize) -> bool {
    if n0 == 0 {
        return true;
    }
    let ops = m.adds(n0);
    let opts = m.build_opts();
    ex.exec(&Op::Begin) != Outcome::Panic
        && run_ops(ex, &ops)
        && ex.exec(&Op::Build(m.w, opts)) != Outcome::Panic
        && ex.exec(&Op::Dump) != Outcome::Panic
        && ex.exec(&Op::Commit) != Outcome::Panic
        && ex.exec(&Op::Dump) != Outcome::Panic
}

fn sweep_points(polls: usize, tier: Tier) -> Vec<usize> {
    let all: Vec<usize> = (0..=polls).collect();
    if tier == Tier::Thorough || all.len() <= 190 {
        return all;
    }
    let mut v: Vec<usize> = (0..20).collect();
    v.extend((0..150).map(|i| 20 + i * (polls - 40) / 149));
    v.extend(polls - 19..=polls);
    v.sort_unstable();
    v.dedup();
    v
}

fn sweep_case(case: u64, k: u64, seed: u64, tier: Tier, out: &mut dyn Write) -> Result<(), String> {
    let mapsize = DEFAULT_MAPSIZE;
    let env = CaseEnv::new(mapsize)?;
    header(out, case, seed, mapsize);
    let mut m = Mini::new(seed, k);
    // flavours in turn: first build, incremental, shrink
    let incremental = k % 3 != 0;
    // every third incremental case is a pure SHRINK: a built forest of 5-9 trees, no pending update, a rebuild that asks
    // for 1-3 trees (the polls of the tree removal are then the only ones between the scans and the metadata)
    let shrink = k % 3 == 2;
    let big = tier == Tier::Thorough && case % 5 == 4;
    {
        let mut ex = Executor::new(&env, out);
        go!(ex, Op::Note(format!(
            "faults sweep {} index={} metric={} dims={}",
            if incremental { "incremental" } else { "first-build" },
            m.w.index,
            m.w.metric.name(),
            m.w.dims
        )));
        let t: Vec<Op>;
        let mut shrink_opts: Option<BuildOpts> = None;
        if shrink {
            let n0 = m.r.urange(30, 120);
            let ops = m.adds(n0);
            let mut first = m.build_opts();
            first.ntrees = Some(m.r.urange(5, 9));
            first.split = Some(m.r.urange(1, 4));
            let ok = ex.exec(&Op::Begin) != Outcome::Panic
                && run_ops(&mut ex, &ops)
                && ex.exec(&Op::Build(m.w, first.clone())) != Outcome::Panic
                && ex.exec(&Op::Dump) != Outcome::Panic
                && ex.exec(&Op::Commit) != Outcome::Panic
                && ex.exec(&Op::Dump) != Outcome::Panic;
            if !ok {
                return Ok(());
            }
            shrink_opts = Some(BuildOpts { ntrees: Some(m.r.urange(1, 3)), seed: m.r.next_u64(), ..first });
            t = Vec::new();
        } else if incremental {
            let n0 = if big { m.r.urange(300, 800) } else { m.r.urange(30, 120) };
            if !setup(&mut ex, &mut m, n0) {
                return Ok(());
            }
            let dels = m.r.urange(3, 25);
            let overwrites = m.r.urange(0, 6);
            let adds = m.r.urange(5, 40);
            let mut ops = m.churn(dels, overwrites);
            ops.extend(m.adds(adds));
            t = ops;
        } else {
            let n = if big { m.r.urange(300, 800) } else { m.r.urange(25, 110) };
            t = m.adds(n);
        }
        let opts = shrink_opts.unwrap_or_else(|| m.build_opts());
        // the complete build
        go!(ex, Op::Begin);
        if !run_ops(&mut ex, &t) {
            return Ok(());
        }
        go!(ex, Op::Build(m.w, opts.clone()));
        let polls = ex.last_polls;
        go!(ex, Op::Dump);
        go!(ex, Op::Abort);
        go!(ex, Op::Dump);
        // the sweep
        for n in sweep_points(polls, tier) {
            go!(ex, Op::Begin);
            if !run_ops(&mut ex, &t) {
                return Ok(());
            }
            go!(ex, Op::Build(m.w, BuildOpts { cancel: Some(n), ..opts.clone() }));
            // a build that answers Ok under a firing callback is a state the caller would commit: the
            // predicates judge it before the abort
            if ex.last_res.starts_with("ok") {
                go!(ex, Op::Dump);
            }
            go!(ex, Op::Abort);
            go!(ex, Op::Dump);
        }
        // the retry
        go!(ex, Op::Begin);
        if !run_ops(&mut ex, &t) {
            return Ok(());
        }
        go!(ex, Op::Build(m.w, opts));
        go!(ex, Op::Dump);
        go!(ex, Op::Commit);
        go!(ex, Op::Dump);
        go!(ex, Op::Open(m.w));
        go!(ex, Op::RItemIds(m.w));
        ex.finish();
    }
    Ok(())
}

#[derive(Clone, Copy, Debug, PartialEq, Eq)]
enum MemFlavour {
    /// items committed, never built
    FirstBuild,
    /// a built index, then 50 deletions and 300 insertions committed but not built
    Incremental,
    /// FirstBuild in a map so small that the build runs into MDB_MAP_FULL
    TinyMap,
}

/// quick: ~120 points spread over the whole build plus the last 30 polls; thorough: every 3rd.
fn mem_sweep_points(polls: usize, tier: Tier) -> Vec<usize> {
    let mut v: Vec<usize> = if tier == Tier::Thorough {
        (0..=polls).step_by(3).collect()
    } else {
        (0..120).map(|i| i * polls / 119).collect()
    };
    v.extend(polls.saturating_sub(29)..=polls);
    v.sort_unstable();
    v.dedup();
    v
}

struct MemPlan {
    m: Mini,
    setup: Vec<Op>,
    setup_build: Option<BuildOpts>,
    pending: Vec<Op>,
    opts: BuildOpts,
}

/// The memory-limited large case: one index, dims 4-8, 450-700 items, 1-2 trees, small
/// buckets, a memory hint of a few pages: the re-split loop runs several batches of >= 200
/// items and the nested insertion pass is exercised.
fn mem_plan(seed: u64, flavour: MemFlavour) -> MemPlan {
    let mut m = Mini::new(seed, seed % 7);
    m.w.dims = m.r.urange(4, 8);
    let mut setup = Vec::new();
    let mut setup_build = None;
    let pending;
    if flavour == MemFlavour::Incremental {
        let n0 = m.r.urange(400, 600);
        setup = m.adds(n0);
        setup_build = Some(BuildOpts {
            ntrees: Some(m.r.urange(1, 2)),
            split: Some(m.r.urange(8, 20)),
            mem: None,
            cancel: None,
            threads: 1,
            seed: m.r.next_u64(),
            tmpdir: None,
        });
        let mut ops = m.churn(50, 0);
        ops.extend(m.adds(300));
        pending = ops;
    } else {
        let n = m.r.urange(450, 700);
        pending = m.adds(n);
    }
    let opts = BuildOpts {
        ntrees: Some(m.r.urange(1, 2)),
        split: Some(m.r.urange(8, 20)),
        mem: Some(4096 * m.r.urange(2, 8)),
        cancel: None,
        threads: 1,
        seed: m.r.next_u64(),
        tmpdir: None,
    };
    MemPlan { m, setup, setup_build, pending, opts }
}

/// Commits the setup (built) and the pending updates (not built). Returns false on a panic
/// or when something did not fit.
fn mem_prepare(ex: &mut Executor, plan: &MemPlan, dumps: bool) -> bool {
    let all_ok = |ex: &mut Executor, ops: &[Op]| ops.iter().all(|op| ex.exec(op) == Outcome::Ok);
    if let Some(b) = &plan.setup_build {
        if ex.exec(&Op::Begin) != Outcome::Ok
            || !all_ok(ex, &plan.setup)
            || ex.exec(&Op::Build(plan.m.w, b.clone())) != Outcome::Ok
            || ex.exec(&Op::Commit) != Outcome::Ok
        {
            return false;
        }
    }
    if ex.exec(&Op::Begin) != Outcome::Ok
        || !all_ok(ex, &plan.pending)
        || ex.exec(&Op::Commit) != Outcome::Ok
    {
        return false;
    }
    !dumps || ex.exec(&Op::Dump) == Outcome::Ok
}

fn mem_sweep_case(
    case: u64,
    seed: u64,
    tier: Tier,
    flavour: MemFlavour,
    out: &mut dyn Write,
) -> Result<(), String> {
    let plan = mem_plan(seed, flavour);
    let w = plan.m.w;
    // the tiny map: the greatest size (in steps of 4 pages) in which the items can be committed
    // but the build still runs into MDB_MAP_FULL
    let mut mapsize = DEFAULT_MAPSIZE;
    if flavour == MemFlavour::TinyMap {
        let mut found = None;
        for pages in (16..=256).step_by(4) {
            let size = pages * 4096;
            let env = CaseEnv::new(size)?;
            let mut sink = std::io::sink();
            let mut ex = Executor::new(&env, &mut sink);
            if !mem_prepare(&mut ex, &plan, false) {
                continue;
            }
            ex.exec(&Op::Begin);
            ex.exec(&Op::Build(w, plan.opts.clone()));
            let full = ex.last_res.starts_with("err mapfull");
            ex.finish();
            if full {
                // keep the greatest such size: the failure then comes late in the build
                found = Some(size);
            } else {
                break;
            }
        }
        match found {
            Some(size) => mapsize = size,
            None => {
                header(out, case, seed, mapsize);
                let _ = writeln!(out, "note faults mem-sweep TinyMap: no map size makes the build run into MDB_MAP_FULL");
                return Ok(());
            }
        }
    }
    let env = CaseEnv::new(mapsize)?;
    header(out, case, seed, mapsize);
    let mut ex = Executor::new(&env, out);
    go!(ex, Op::Note(format!(
        "faults mem-sweep {flavour:?} index={} metric={} dims={} pending_ops={}",
        w.index,
        w.metric.name(),
        w.dims,
        plan.pending.len()
    )));
    if !mem_prepare(&mut ex, &plan, true) {
        return Ok(());
    }
    // the reference build
    go!(ex, Op::Begin);
    go!(ex, Op::Build(w, plan.opts.clone()));
    let polls = ex.last_polls;
    let reference_ok = ex.last_res.starts_with("ok");
    if reference_ok {
        go!(ex, Op::Dump);
    }
    go!(ex, Op::Abort);
    go!(ex, Op::Dump);
    // the sweep over the whole build
    for n in mem_sweep_points(polls, tier) {
        go!(ex, Op::Begin);
        go!(ex, Op::Build(w, BuildOpts { cancel: Some(n), ..plan.opts.clone() }));
        if ex.last_res.starts_with("ok") {
            go!(ex, Op::Dump);
        }
        go!(ex, Op::Abort);
        go!(ex, Op::Dump);
    }
    if reference_ok {
        go!(ex, Op::Begin);
        go!(ex, Op::Build(w, plan.opts.clone()));
        go!(ex, Op::Dump);
        go!(ex, Op::Commit);
        go!(ex, Op::Dump);
        go!(ex, Op::Open(w));
        go!(ex, Op::RItemIds(w));
    }
    ex.finish();
    Ok(())
}

/// Every map size between "the items fit" and "the build fits", page by page.
fn map_sweep(case: &mut u64, seed: u64, incremental: bool, out: &mut dyn Write) -> Result<(), String> {
    let mut m = Mini::new(seed, seed % 7);
    m.w.dims = m.r.urange(3, 6);
    let mut setup = Vec::new();
    let mut setup_build = None;
    let pending;
    if incremental {
        let n0 = m.r.urange(300, 500);
        setup = m.adds(n0);
        setup_build = Some(BuildOpts {
            ntrees: Some(m.r.urange(2, 5)),
            split: Some(m.r.urange(8, 40)),
            mem: None,
            cancel: None,
            threads: 1,
            seed: m.r.next_u64(),
            tmpdir: None,
        });
        let mut ops = m.churn(50, 0);
        ops.extend(m.adds(300));
        pending = ops;
    } else {
        let n = m.r.urange(400, 900);
        pending = m.adds(n);
    }
    let opts = BuildOpts {
        ntrees: Some(m.r.urange(4, 10)),
        split: Some(m.r.urange(20, 100)),
        mem: None,
        cancel: None,
        threads: 1,
        seed: m.r.next_u64(),
        tmpdir: None,
    };
    let plan = MemPlan { m, setup, setup_build, pending, opts };
    let w = plan.m.w;
    // the range: [first size in which everything but the build fits, first size in which the build fits + 2]
    let mut lo = None;
    let mut hi = None;
    for pages in 8..=2048usize {
        let env = CaseEnv::new(pages * 4096)?;
        let mut sink = std::io::sink();
        let mut ex = Executor::new(&env, &mut sink);
        if !mem_prepare(&mut ex, &plan, false) {
            continue;
        }
        if lo.is_none() {
            lo = Some(pages);
        }
        ex.exec(&Op::Begin);
        ex.exec(&Op::Build(w, plan.opts.clone()));
        let ok = ex.last_res.starts_with("ok");
        ex.finish();
        if ok {
            hi = Some(pages);
            break;
        }
    }
    let (Some(lo), Some(hi)) = (lo, hi) else {
        header(out, *case, seed, DEFAULT_MAPSIZE);
        let _ = writeln!(out, "note faults mapsweep: no map size found");
        let _ = writeln!(out, "endcase");
        *case += 1;
        return Ok(());
    };
    for pages in lo..=hi + 2 {
        let env = CaseEnv::new(pages * 4096)?;
        header(out, *case, seed, pages * 4096);
        *case += 1;
        let mut ex = Executor::new(&env, &mut *out);
        if ex.exec(&Op::Note(format!(
            "faults mapsweep pages={pages} range={lo}..{} incremental={incremental} index={} metric={} dims={}",
            hi + 2,
            w.index,
            w.metric.name(),
            w.dims
        ))) != Outcome::Panic
            && mem_prepare(&mut ex, &plan, false)
            && ex.exec(&Op::Begin) != Outcome::Panic
            && ex.exec(&Op::Build(w, plan.opts.clone())) != Outcome::Panic
        {
            if ex.last_res.starts_with("ok") {
                let _ = ex.exec(&Op::Dump);
            }
            let _ = ex.exec(&Op::Abort) != Outcome::Panic && ex.exec(&Op::Dump) != Outcome::Panic;
        }
        ex.finish();
        drop(ex);
        let _ = writeln!(out, "endcase");
    }
    Ok(())
}

pub const MAP_SIZES: [usize; 12] = [
    64 << 10,
    96 << 10,
    128 << 10,
    192 << 10,
    256 << 10,
    384 << 10,
    512 << 10,
    768 << 10,
    1 << 20,
    2 << 20,
    8 << 20,
    256 << 20,
];

fn tmpdir_case(case: u64, seed: u64, out: &mut dyn Write) -> Result<(), String> {
    let mapsize = DEFAULT_MAPSIZE;
    let env = CaseEnv::new(mapsize)?;
    header(out, case, seed, mapsize);
    let mut m = Mini::new(seed, case);
    let readonly_works = !readonly_dir_is_writable(&env);
    let mut ex = Executor::new(&env, out);
    go!(ex, Op::Note(format!(
        "faults tmpdir index={} metric={} dims={}",
        m.w.index,
        m.w.metric.name(),
        m.w.dims
    )));
    if !readonly_works {
        go!(ex, Op::Note(
            "tmpdir=readonly skipped: files can be created in a mode 0555 directory (running as root)".into()
        ));
    }
    let n0 = if case % 2 == 0 { 0 } else { m.r.urange(30, 80) };
    if !setup(&mut ex, &mut m, n0) {
        return Ok(());
    }
    let mut faults = vec![TmpFault::Missing];
    if readonly_works {
        faults.push(TmpFault::ReadOnly);
    }
    for fault in faults {
        let dels = if n0 > 0 { m.r.urange(2, 10) } else { 0 };
        let mut t = m.churn(dels, 2);
        let adds = m.r.urange(25, 60);
        t.extend(m.adds(adds));
        let opts = m.build_opts();
        go!(ex, Op::Begin);
        if !run_ops(&mut ex, &t) {
            return Ok(());
        }
        go!(ex, Op::Build(m.w, BuildOpts { tmpdir: Some(fault), ..opts.clone() }));
        go!(ex, Op::Abort);
        go!(ex, Op::Dump);
        go!(ex, Op::Begin);
        if !run_ops(&mut ex, &t) {
            return Ok(());
        }
        go!(ex, Op::Build(m.w, opts));
        go!(ex, Op::Dump);
        go!(ex, Op::Commit);
        go!(ex, Op::Dump);
        go!(ex, Op::Open(m.w));
    }
    ex.finish();
    Ok(())
}

fn count_fds() -> usize {
    std::fs::read_dir("/proc/self/fd").map(|d| d.count()).unwrap_or(0)
}

fn count_files(dir: &std::path::Path) -> usize {
    std::fs::read_dir(dir).map(|d| d.count()).unwrap_or(0)
}

fn fdcheck_case(case: u64, seed: u64, builds: usize, out: &mut dyn Write) -> Result<(), String> {
    let mapsize = DEFAULT_MAPSIZE;
    let env = CaseEnv::new(mapsize)?;
    header(out, case, seed, mapsize);
    let mut m = Mini::new(seed, case);
    let mut sink = std::io::sink();
    let (mut ok, mut cancelled, mut failed) = (0usize, 0usize, 0usize);
    let (before, after, tmpfiles);
    {
        let mut ex = Executor::new(&env, &mut sink);
        ex.tmpdir = Some(env.tmp_path.clone());
        // warm up: the thread pool, the first temporary file, the lazily opened things
        if !setup(&mut ex, &mut m, 40) {
            return Err("fdcheck: the warm-up build panicked".into());
        }
        before = count_fds();
        for i in 0..builds {
            let adds = m.r.urange(3, 25);
            let dels = m.r.urange(0, 12);
            let snapshot = (m.items.clone(), m.next_id);
            let mut t = m.churn(dels, 1);
            t.extend(m.adds(adds));
            let mut opts = m.build_opts();
            match i % 4 {
                1 => opts.cancel = Some(m.r.urange(0, ex.last_polls.max(4))),
                3 => opts.tmpdir = Some(TmpFault::Missing),
                _ => {}
            }
            if ex.exec(&Op::Begin) == Outcome::Panic || !run_ops(&mut ex, &t) {
                return Err("fdcheck: an op panicked".into());
            }
            match ex.exec(&Op::Build(m.w, opts)) {
                Outcome::Ok => {
                    ok += 1;
                    ex.exec(&Op::Commit);
                }
                Outcome::Err => {
                    if ex.last_res.starts_with("err cancelled") {
                        cancelled += 1;
                    } else {
                        failed += 1;
                    }
                    ex.exec(&Op::Abort);
                    m.items = snapshot.0;
                    m.next_id = snapshot.1;
                }
                Outcome::Panic => return Err(format!("fdcheck: a build panicked: {}", ex.last_res)),
            }
        }
        ex.finish();
        after = count_fds();
        tmpfiles = count_files(&env.tmp_path);
    }
    let _ = writeln!(out, "note fdcheck builds ok={ok} cancelled={cancelled} failed={failed}");
    let _ = writeln!(out, "fdcheck builds={builds} fd_before={before} fd_after={after} tmpfiles={tmpfiles}");
    Ok(())
}

pub struct FaultOpts {
    pub part: String,
    pub tier: Tier,
    pub seed: u64,
    pub cases: Option<u64>,
    pub builds: Option<usize>,
}

pub fn run(o: &FaultOpts, out: &mut dyn Write) -> Result<u64, String> {
    let quick = o.tier == Tier::Quick;
    let all = o.part == "all";
    let mut case = 0u64;
    if !["all", "sweep", "mapsize", "mapsweep", "tmpdir", "fdcheck"].contains(&o.part.as_str()) {
        return Err(format!("unknown --part {}", o.part));
    }
    if all || o.part == "sweep" {
        let n = o.cases.unwrap_or(if quick { 6 } else { 60 });
        for k in 0..n {
            sweep_case(case, k, case_seed(o.seed ^ 0x7377_6565_70, k), o.tier, out)?;
            let _ = writeln!(out, "endcase");
            case += 1;
        }
        // the memory-limited large cases
        let rounds = if quick { 1 } else { 4 };
        for k in 0..rounds {
            for flavour in [MemFlavour::FirstBuild, MemFlavour::Incremental, MemFlavour::TinyMap] {
                mem_sweep_case(case, case_seed(o.seed ^ 0x6d65_6d73, k * 3 + flavour as u64), o.tier, flavour, out)?;
                let _ = writeln!(out, "endcase");
                case += 1;
            }
        }
    }
    if all || o.part == "mapsize" {
        let p = profiles::profile("c10map", o.tier).unwrap();
        let n = o.cases.unwrap_or(if quick { 1 } else { 8 });
        for k in 0..n {
            let seed = case_seed(o.seed ^ 0x6d61_7073, k);
            for size in MAP_SIZES {
                let overrides = Overrides { mapsize: Some(size), ..Overrides::default() };
                gen::run_case(&p, case, seed, &overrides, out)?;
                case += 1;
            }
        }
    }
    if all || o.part == "mapsweep" {
        let n = o.cases.unwrap_or(if quick { 1 } else { 6 });
        for k in 0..n {
            map_sweep(&mut case, case_seed(o.seed ^ 0x6d73_7770, 2 * k), false, out)?;
            map_sweep(&mut case, case_seed(o.seed ^ 0x6d73_7770, 2 * k + 1), true, out)?;
        }
    }
    if all || o.part == "tmpdir" {
        let n = o.cases.unwrap_or(if quick { 3 } else { 14 });
        for k in 0..n {
            tmpdir_case(case, case_seed(o.seed ^ 0x746d_70, k), out)?;
            let _ = writeln!(out, "endcase");
            case += 1;
        }
    }
    if all || o.part == "fdcheck" {
        let builds = o.builds.unwrap_or(if quick { 300 } else { 3000 });
        fdcheck_case(case, case_seed(o.seed ^ 0x6664, 0), builds, out)?;
        let _ = writeln!(out, "endcase");
        case += 1;
    }
    Ok(case)
}
