//! Scenario `upgrade` (C17): a current cosine database is turned into the v0.4 layout, loaded
//! into a fresh environment and upgraded by the real `arroy::upgrade` functions.
//!
//! Per case: a history of profile `c17` (cosine only, 1-3 indexes, small buckets, some indexes
//! left with pending updates) is run in a scratch environment (its records are not written);
//! its committed raw pairs are the *original*. The case then is
//!
//! ```text
//! case / host
//! index <i> cosine <dims>          for every index
//! expect-after-upgrade
//! kv ...                           the original dump
//! endexpect
//! begin  rawput ... (the v0.4 pairs)  commit
//! begin  upgrade04to05  dump  commit  dump
//! begin  upgrade05to06 cosine  dump  commit  dump
//! open / needbuild / ritemids / nns k=usize::MAX per index; where updates were pending also
//! begin build commit open
//! endcase
//! ```
//!
//! `down` (current layout -> v0.4), on the raw pairs; keys are `index:u16 BE, kind:u8,
//! id:u32 BE, 0`:
//! * item pairs (kind 3) -> kind 0, value unchanged;
//! * tree pairs (kind 2) -> kind 1; in a split node (value tag 2) the two child kind bytes at
//!   offsets 1 and 6 of the value are renumbered the same way (3 -> 0, 2 -> 1);
//! * the updated marks (kind 1) of an index -> one pair (index, kind 2, id 1) whose value is the
//!   roaring serialisation of their ids; no pair when there is no mark;
//! * metadata (kind 0, id 0) -> (index, kind 2, id 0), the metric name replaced by `angular`;
//! * version records (kind 0, id 1) are dropped;
//! * the pairs are sorted again by key bytes.

use std::collections::BTreeMap;
use std::io::Write;

use heed::types::Bytes;
use roaring::RoaringBitmap;

use crate::exec::*;
use crate::gen::{self, Overrides, Profile};
use crate::util::*;

type Pairs = Vec<(Vec<u8>, Vec<u8>)>;

fn old_kind(kind: u8) -> u8 {
    match kind {
        3 => 0, // item
        2 => 1, // tree
        0 => 2, // metadata
        other => other,
    }
}

pub fn down(pairs: &Pairs) -> Result<Pairs, String> {
    let mut out: Pairs = Vec::new();
    let mut marks: BTreeMap<[u8; 2], RoaringBitmap> = BTreeMap::new();
    for (k, v) in pairs {
        if k.len() != 8 {
            return Err(format!("a key of {} bytes", k.len()));
        }
        let index = [k[0], k[1]];
        let id = u32::from_be_bytes([k[3], k[4], k[5], k[6]]);
        let key = |kind: u8, id: u32| -> Vec<u8> {
            let mut key = vec![index[0], index[1], kind];
            key.extend_from_slice(&id.to_be_bytes());
            key.push(0);
            key
        };
        match k[2] {
            3 => out.push((key(0, id), v.clone())),
            2 => {
                let mut v = v.clone();
                if v.first() == Some(&2) && v.len() >= 11 {
                    v[1] = old_kind(v[1]);
                    v[6] = old_kind(v[6]);
                }
                out.push((key(1, id), v));
            }
            1 => {
                marks.entry(index).or_default().insert(id);
            }
            0 if id == 0 => {
                let nul = v.iter().position(|b| *b == 0).ok_or("metadata without a name")?;
                let mut value = b"angular\0".to_vec();
                value.extend_from_slice(&v[nul + 1..]);
                out.push((key(2, 0), value));
            }
            0 => {} // version
            other => return Err(format!("a key of kind {other}")),
        }
    }
    for (index, ids) in marks {
        let mut value = Vec::with_capacity(ids.serialized_size());
        ids.serialize_into(&mut value).map_err(|e| e.to_string())?;
        let mut key = vec![index[0], index[1], 2];
        key.extend_from_slice(&1u32.to_be_bytes());
        key.push(0);
        out.push((key, value));
    }
    out.sort();
    Ok(out)
}

pub fn run_case(p: &Profile, case: u64, seed: u64, out: &mut dyn Write) -> Result<bool, String> {
    let overrides = Overrides::default();
    let (r, mapsize) = gen::plan(p, seed, &overrides);
    // the original
    let scratch = CaseEnv::new(mapsize)?;
    let mut ws: Vec<W> = Vec::new();
    {
        let mut sink = std::io::sink();
        let mut ex = Executor::new(&scratch, &mut sink);
        gen::drive(p, r, case, &overrides, &mut ex, &mut |w| ws = w.to_vec());
    }
    // shapes the history seldom ends in: SEVERAL indexes with pending updates at the moment of the upgrade (additions
    // and deletions, also on an index that was built while empty), committed without a build
    {
        let mut stored: BTreeMap<u16, Vec<u32>> = BTreeMap::new();
        {
            let rtxn = scratch.env.read_txn().map_err(|e| e.to_string())?;
            for entry in scratch.db.remap_types::<Bytes, Bytes>().iter(&rtxn).map_err(|e| e.to_string())? {
                let (k, _) = entry.map_err(|e| e.to_string())?;
                if k.len() == 8 && k[2] == 3 {
                    stored.entry(u16::from_be_bytes([k[0], k[1]])).or_default().push(u32::from_be_bytes([k[3], k[4], k[5], k[6]]));
                }
            }
        }
        let mut pr = Prng::new(seed ^ 0x70656e64);
        let mut sink = std::io::sink();
        let mut ex = Executor::new(&scratch, &mut sink);
        let mut alive = ex.exec(&Op::Begin) != Outcome::Panic;
        for w in &ws {
            if !alive {
                break;
            }
            let ids = stored.get(&w.index).cloned().unwrap_or_default();
            let shape = pr.below(4);
            if shape == 1 || shape == 3 {
                for _ in 0..pr.urange(1, 3) {
                    let id = if pr.chance(0.5) { pr.next_u32() } else { pr.below(64) as u32 };
                    let v: Vec<f32> = (0..w.dims).map(|_| pr.unit()).collect();
                    alive &= ex.exec(&Op::Add(*w, id, v)) != Outcome::Panic;
                }
            }
            if (shape == 2 || shape == 3) && !ids.is_empty() {
                for _ in 0..pr.urange(1, 2) {
                    let id = ids[pr.below(ids.len() as u64) as usize];
                    alive &= ex.exec(&Op::Del(*w, id)) != Outcome::Panic;
                }
            }
        }
        if alive {
            ex.exec(&Op::Commit);
        }
        ex.finish();
    }
    let mut original: Pairs = Vec::new();
    {
        let rtxn = scratch.env.read_txn().map_err(|e| e.to_string())?;
        for entry in scratch.db.remap_types::<Bytes, Bytes>().iter(&rtxn).map_err(|e| e.to_string())? {
            let (k, v) = entry.map_err(|e| e.to_string())?;
            original.push((k.to_vec(), v.to_vec()));
        }
    }
    drop(scratch);
    let old = down(&original)?;

    let env = CaseEnv::new(mapsize)?;
    let _ = writeln!(out, "case {case} seed={seed} mapsize={mapsize}");
    let _ = writeln!(out, "{}", host_line());
    let mut r = Prng::new(seed ^ 0x7570_6772);
    let mut ex = Executor::new(&env, out);
    macro_rules! go {
        ($op:expr) => {
            if ex.exec(&$op) == Outcome::Panic {
                ex.finish();
                drop(ex);
                let _ = writeln!(out, "endcase");
                return Ok(true);
            }
        };
    }
    for w in &ws {
        go!(Op::Index(*w));
    }
    let mut block = String::from("expect-after-upgrade\n");
    for (k, v) in &original {
        block.push_str("kv ");
        push_hex(&mut block, k);
        block.push(' ');
        push_hex(&mut block, v);
        block.push('\n');
    }
    block.push_str("endexpect");
    ex.raw_line(&block);
    go!(Op::Begin);
    for (k, v) in &old {
        go!(Op::RawPut(k.clone(), v.clone()));
    }
    go!(Op::Commit);
    go!(Op::Begin);
    go!(Op::Upgrade04to05);
    go!(Op::Dump);
    go!(Op::Commit);
    go!(Op::Dump);
    go!(Op::Begin);
    go!(Op::Upgrade05to06(Metric::Cosine));
    go!(Op::Dump);
    go!(Op::Commit);
    go!(Op::Dump);
    for w in &ws {
        go!(Op::Open(*w));
        go!(Op::NeedBuild(*w));
        let pending = ex.last_res == "ok 1";
        go!(Op::Iter(*w));
        let ids: Vec<u32> = ex
            .last_res
            .split(' ')
            .skip(1)
            .filter_map(|t| t.split(':').next().and_then(|i| i.parse().ok()))
            .collect();
        if pending {
            go!(Op::Begin);
            go!(Op::Build(
                *w,
                BuildOpts {
                    ntrees: None,
                    split: Some(2),
                    mem: None,
                    cancel: None,
                    threads: 1,
                    seed: r.next_u64(),
                    tmpdir: None,
                }
            ));
            go!(Op::Commit);
            go!(Op::Dump);
            go!(Op::Open(*w));
        }
        go!(Op::RItemIds(*w));
        for q in 0..3 {
            let by = if q == 0 || ids.is_empty() {
                By::Vec((0..w.dims).map(|_| r.unit()).collect())
            } else {
                By::Item(*r.pick(&ids))
            };
            let count = *r.pick(&[1usize, 3, ids.len() + 1]);
            go!(Op::Nns(*w, NnsOpts { count, k: Some(usize::MAX), over: None, cand: None, by }));
        }
    }
    ex.finish();
    drop(ex);
    let _ = writeln!(out, "endcase");
    Ok(false)
}
