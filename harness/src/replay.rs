//! `harness replay <tracefile>`: re-executes the op lines of an existing trace against the
//! current build of /repo and writes a fresh trace. `res`, `ev`, `kv`, `enddump`, `host`
//! lines and comments of the input are ignored; `note` lines are kept (and
//! `note polllimit=<n>` is honoured by the executor).
//!
//! Ops found outside `case ... endcase` are run in an implicit case 0.

use std::io::{BufRead, Write};

use crate::exec::*;
use crate::util::host_line;

struct Header {
    number: u64,
    seed: u64,
    mapsize: usize,
}

fn parse_case(line: &str) -> Result<Header, String> {
    let mut h = Header { number: 0, seed: 0, mapsize: DEFAULT_MAPSIZE };
    let mut toks = line.split(' ').skip(1);
    if let Some(n) = toks.next() {
        h.number = n.parse().map_err(|e| format!("case number {n}: {e}"))?;
    }
    for t in toks {
        if let Some(v) = t.strip_prefix("seed=") {
            h.seed = v.parse().map_err(|e| format!("{t}: {e}"))?;
        } else if let Some(v) = t.strip_prefix("mapsize=") {
            h.mapsize = v.parse().map_err(|e| format!("{t}: {e}"))?;
        }
    }
    Ok(h)
}

pub struct ReplayStats {
    pub cases: usize,
    pub steps: usize,
    pub panics: usize,
}

pub fn replay(
    input: &mut dyn BufRead,
    out: &mut dyn Write,
    only_case: Option<u64>,
) -> Result<ReplayStats, String> {
    let mut stats = ReplayStats { cases: 0, steps: 0, panics: 0 };
    // the ops of the current case are collected first: the executor borrows the
    // environment, and the environment needs the header
    let mut header: Option<Header> = None;
    let mut ops: Vec<Op> = Vec::new();
    let mut line = String::new();
    let mut lineno = 0usize;
    loop {
        line.clear();
        let n = input.read_line(&mut line).map_err(|e| format!("reading the trace: {e}"))?;
        lineno += 1;
        let eof = n == 0;
        let text = line.trim_end_matches(['\n', '\r']);
        let head = text.split(' ').next().unwrap_or("");
        if eof || head == "case" || head == "endcase" {
            if header.is_some() || !ops.is_empty() {
                let h = header.take().unwrap_or(Header { number: 0, seed: 0, mapsize: DEFAULT_MAPSIZE });
                if only_case.map_or(true, |c| c == h.number) {
                    run_case(&h, &ops, out, &mut stats)?;
                }
                ops.clear();
            }
            if eof {
                break;
            }
            if head == "case" {
                header = Some(parse_case(text).map_err(|e| format!("line {lineno}: {e}"))?);
            }
            continue;
        }
        if text.is_empty() || text.starts_with('#') {
            continue;
        }
        match Op::parse(text) {
            Ok(Some(op)) => ops.push(op),
            Ok(None) => {}
            Err(e) => return Err(format!("line {lineno}: {e}: {text}")),
        }
    }
    Ok(stats)
}

fn run_case(h: &Header, ops: &[Op], out: &mut dyn Write, stats: &mut ReplayStats) -> Result<(), String> {
    let env = CaseEnv::new(h.mapsize)?;
    let _ = writeln!(out, "case {} seed={} mapsize={}", h.number, h.seed, h.mapsize);
    let _ = writeln!(out, "{}", host_line());
    {
        let mut ex = Executor::new(&env, out);
        for op in ops {
            if ex.exec(op) == Outcome::Panic {
                break;
            }
        }
        ex.finish();
        stats.steps += ex.steps;
        stats.panics += ex.dead as usize;
    }
    stats.cases += 1;
    let _ = writeln!(out, "endcase");
    Ok(())
}
