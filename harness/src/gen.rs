//! Online history generator. A `Profile` (pure data, see `profiles.rs`) drives it; it keeps
//! a shadow of which ids are stored per index (updated from the executor's answers) so it
//! can aim at present / absent ids, valid / invalid appends, capacity boundaries...
//!
//! Shape of a case:  `begin ((updates | reads)* [commit begin] build* checks* [commit|abort] )+ ... dump`
//! Everything random comes from one `Prng` seeded with the per-case seed.

use std::collections::BTreeMap;
use std::io::Write;

use crate::exec::*;
use crate::util::*;

// ---------------------------------------------------------------------------------------
// distributions (plain data)

#[derive(Clone, Debug)]
pub enum IntDist {
    Const(u64),
    /// inclusive
    Range(u64, u64),
    OneOf(Vec<u64>),
    Mix(Vec<(u32, IntDist)>),
}

impl IntDist {
    pub fn sample(&self, r: &mut Prng) -> u64 {
        match self {
            IntDist::Const(c) => *c,
            IntDist::Range(lo, hi) => r.range(*lo, *hi),
            IntDist::OneOf(xs) => *r.pick(xs),
            IntDist::Mix(xs) => {
                let d = r.weighted(xs).clone();
                d.sample(r)
            }
        }
    }
}

/// weight, `None` = leave the option unset
pub type OptDist = Vec<(u32, Option<IntDist>)>;

fn sample_opt(d: &OptDist, r: &mut Prng) -> Option<usize> {
    let e = r.weighted(d).clone();
    e.map(|d| d.sample(r) as usize)
}

#[derive(Clone, Copy, Debug, PartialEq, Eq)]
pub enum IdStyle {
    /// small ids in `0..dense_span`: many collisions
    Dense,
    /// uniformly random u32
    Sparse,
    /// the boundary values and their neighbours
    Boundary,
}

#[derive(Clone, Copy, Debug, PartialEq, Eq)]
pub enum Family {
    /// uniform in [-1, 1]
    Generic,
    /// copies of a few vectors
    Duplicates,
    /// multiples of one vector
    Collinear,
    /// coordinates in {0, +1, -1}
    Ternary,
    /// huge / tiny magnitudes, subnormals
    HugeTiny,
    /// generic with NaN / +-inf components
    NanInf,
    /// all-zero vectors (+0 and -0)
    Zero,
    /// arbitrary bit patterns
    Bits,
    /// a tight cluster away from the origin with about one outlier in a hundred: every split search separates a
    /// handful of items from all the others (imbalance between the "retry" and the "give up" thresholds and beyond)
    Cluster,
}

#[derive(Clone, Copy, Debug, PartialEq, Eq)]
pub enum MemChoice {
    Unset,
    Zero,
    Page,
    /// about the size of the stored items
    Items,
    /// a fraction of the size of the stored items
    HalfItems,
    Huge,
}

#[derive(Clone, Debug)]
pub struct OpMix {
    pub add: u32,
    pub overwrite: u32,
    pub append_ok: u32,
    pub append_bad: u32,
    pub del_present: u32,
    pub del_absent: u32,
    pub clear: u32,
    pub wrong_dim: u32,
}

#[derive(Clone, Debug)]
pub struct AfterRound {
    pub keep: u32,
    pub commit: u32,
    pub abort: u32,
}

#[derive(Clone, Debug)]
pub struct Profile {
    pub name: String,
    pub default_cases: u64,
    pub mapsize: IntDist,
    pub poll_limit: Option<usize>,

    pub metrics: Vec<(u32, Metric)>,
    pub dims: IntDist,
    pub n_indexes: IntDist,
    /// forced index sets (those of the sampled size are eligible), else random indexes
    pub index_sets: Vec<(u32, Vec<u16>)>,
    pub p_random_indexes: f64,
    /// probability that all the indexes of a case share metric and dimensions
    pub p_same_config: f64,

    pub rounds: IntDist,
    /// number of update ops per index in the first round / in the later rounds
    pub first_items: IntDist,
    pub updates: IntDist,
    /// what the later rounds do, in order (round 1 is the first entry); rounds beyond the list are mixed
    /// probability that a later round of an index swaps items: as many deletions of stored ids as additions of
    /// new ids, nothing else (the item COUNT stays the same across the build)
    pub p_swap_round: f64,
    pub round_kinds: Vec<RoundKind>,
    /// when not empty: `round_kinds` is drawn per case from these (weight, plan) pairs
    pub round_plans: Vec<(u32, Vec<RoundKind>)>,
    /// probability that the count of the first round is taken around the bucket capacity
    pub p_cap_boundary: f64,
    /// probability of a round deleting everything (empty -> non-empty -> empty)
    pub p_wipe_round: f64,

    pub id_styles: Vec<(u32, IdStyle)>,
    /// probability that one op uses another id style than the case's
    pub p_id_mix: f64,
    /// dense ids are drawn in `0 .. dense_span_factor * expected items + 4`
    pub dense_span_factor: f64,
    /// added to every id of the dense style (item ids in the range of the tree-node ids a build hands out)
    pub dense_offset: u32,
    pub families: Vec<(u32, Family)>,
    pub p_family_mix: f64,

    pub first_ops: OpMix,
    pub later_ops: OpMix,
    /// probability of a rejected call (wrong length, bad append, absent delete, bad query)
    /// before each update op
    pub malformed_rate: f64,

    pub ntrees: OptDist,
    pub split: OptDist,
    pub mem: Vec<(u32, MemChoice)>,
    /// per case: the distribution the thread count of each build is drawn from
    pub threads: Vec<(u32, IntDist)>,
    pub p_cancel: f64,
    /// after a failed / cancelled build: probability of retrying in the same transaction
    /// (otherwise the transaction is aborted)
    pub p_retry_in_txn: f64,
    /// probability of building every index at the end of a round (else only the modified ones)
    pub p_build_all: f64,
    /// probability of leaving a modified index unbuilt at the end of a round
    pub p_skip_build: f64,
    /// probability of a second build right after a successful one (no-op rebuild, other options)
    pub p_rebuild: f64,
    /// probability of `commit begin` between the updates and the builds
    pub p_commit_before_build: f64,
    pub after_round: AfterRound,
    /// probability of a metric change (`prepare`) of an index at the start of a later round
    pub p_prepare: f64,
    /// probability that an index whose metric was just changed gets NO update op in that round
    /// (the rebuild then runs without any pending mark)
    pub p_quiet_after_prepare: f64,
    /// probability that a metric change is followed at once by `clear` on the same index
    pub p_clear_after_prepare: f64,
    /// after a failed / cancelled build: probability of changing the metric in the same transaction
    /// (which wipes whatever the build left) and building again, instead of aborting
    pub p_prepare_after_failed: f64,
    pub prepare_targets: Vec<(u32, Metric)>,

    /// number of nns queries after each successful build
    pub queries: IntDist,
    /// among them, the fraction with an unlimited budget (k = usize::MAX)
    pub p_exhaustive: f64,
    /// look every stored item up by item with budget 1 after each build (at most this many)
    pub self_lookups: usize,
    /// probability of a read op after each update op, and how many
    pub read_rate: f64,
    pub reads_burst: IntDist,
    /// probability that a read goes through a writer/reader of another metric or dimension
    pub p_wrong_w: f64,
    /// `open` + `needbuild` on the touched index after every op
    pub check_every_op: bool,
    pub dump_every_op: bool,
    /// full read-back (iter, ritemids, get of every id when small) after builds and at the end
    pub full_readback: bool,
    /// shuffle the update ops of the different indexes together
    pub interleave: bool,
    /// systematic enumeration of some knobs by case number (instead of sampling them)
    pub grid: Option<Grid>,
    /// probability (per case) of a `prepare` on an index that holds NO item while a
    /// higher-numbered index with items, pending marks, trees and metadata exists (the case
    /// then has at least 2 indexes): never filled / built but empty / emptied with the
    /// deletions pending. Always followed by `dump`.
    pub empty_prepare: f64,
    /// single-op probes: probability (in %) of a probe block on an index that is built and
    /// clean, right after a round's commit (see `probe_block`)
    pub probes: u32,
    /// all the probe ops in every block (thorough) instead of a random 6-8 of them
    pub probes_all: bool,
    /// the first MDB_MAP_FULL ends the case (after `abort`, `dump`)
    pub end_on_mapfull: bool,
    /// `crash` scenario: `note final-txn` opens the last round, which always ends with
    /// `note committing`, `commit`, `dump`, and the case stops there
    pub crash_mode: bool,
}

/// The cross product of the non-empty lists is walked by case number (with a stride
/// co-prime to its size, so that a prefix of the cases is already spread out).
#[derive(Clone, Debug, Default)]
pub struct Grid {
    pub metrics: Vec<Metric>,
    pub families: Vec<Family>,
    pub first_items: Vec<u64>,
    pub splits: Vec<u64>,
    pub mems: Vec<MemChoice>,
    pub targets: Vec<Metric>,
}

#[derive(Clone, Debug, Default)]
struct Forced {
    metric: Option<Metric>,
    family: Option<Family>,
    first_items: Option<u64>,
    split: Option<u64>,
    mem: Option<MemChoice>,
    target: Option<Metric>,
}

impl Grid {
    fn cell(&self, case: u64) -> Forced {
        let sizes = [
            self.metrics.len(),
            self.families.len(),
            self.first_items.len(),
            self.splits.len(),
            self.mems.len(),
            self.targets.len(),
        ];
        let total: u64 = sizes.iter().map(|s| (*s).max(1) as u64).product();
        let mut c = (case % total).wrapping_mul(7919) % total;
        let mut take = |n: usize| -> Option<usize> {
            if n == 0 {
                return None;
            }
            let k = (c % n as u64) as usize;
            c /= n as u64;
            Some(k)
        };
        Forced {
            metric: take(sizes[0]).map(|k| self.metrics[k]),
            family: take(sizes[1]).map(|k| self.families[k]),
            first_items: take(sizes[2]).map(|k| self.first_items[k]),
            split: take(sizes[3]).map(|k| self.splits[k]),
            mem: take(sizes[4]).map(|k| self.mems[k]),
            target: take(sizes[5]).map(|k| self.targets[k]),
        }
    }
}

pub const BOUNDARY_IDS: [u32; 10] =
    [0, 1, 255, 256, 65535, 65536, 1 << 24, 1 << 31, u32::MAX - 1, u32::MAX];

// ---------------------------------------------------------------------------------------
// shadow state

#[derive(Clone, Debug)]
struct IndexState {
    index: u16,
    metric: Metric,
    dims: usize,
    items: BTreeMap<u32, Vec<f32>>,
    /// modified since its last successful build (or never built)
    dirty: bool,
    /// may have keys in the database (items, marks, metadata)
    has_keys: bool,
    built_once: bool,
    family: Family,
    id_style: IdStyle,
    dense_span: u64,
    pool: Vec<Vec<f32>>,
    base: Vec<f32>,
    /// the `split_after` of the last build (for the capacity boundary)
    last_split: Option<usize>,
}

impl IndexState {
    fn w(&self) -> W {
        W { index: self.index, metric: self.metric, dims: self.dims }
    }
}

#[derive(Clone, Copy, Debug, PartialEq, Eq)]
enum EmptyShape {
    NeverFilled,
    BuiltEmpty,
    EmptiedPending,
}

#[derive(Default, Debug, Clone)]
pub struct CaseStats {
    pub steps: usize,
    pub builds_ok: usize,
    pub builds_err: usize,
    pub panicked: bool,
}

/// A later round forced to a shape (profiles that need a particular history: shrink, then grow).
#[derive(Clone, Debug)]
pub enum RoundKind {
    /// the op mix of the profile
    Mixed,
    /// only deletions of present items: between the two fractions of them
    Shrink(f64, f64),
    /// only additions of new items
    Grow(IntDist),
    /// only additions of new items, all within 1e-3 of one of the stored vectors: they all go down the same
    /// path of every tree and over-fill one bucket
    GrowClustered(IntDist),
}

struct Gen<'p> {
    /// the op kind every update op of this round must have (see `RoundKind`)
    forced_kind: Option<u8>,
    /// the centre the vectors of this round are clustered around (see `RoundKind::GrowClustered`)
    cluster: Option<Vec<f32>>,
    /// the plan of the later rounds of this case
    kinds: Vec<RoundKind>,
    p: &'p Profile,
    r: Prng,
    idx: Vec<IndexState>,
    committed: Vec<IndexState>,
    threads: IntDist,
    est_polls: usize,
    stats: CaseStats,
    forced: Forced,
    /// the index (position in `idx`) of the pending empty-index `prepare`, and its shape
    empty_target: Option<(usize, EmptyShape)>,
    /// the open transaction answered MDB_MAP_FULL / MDB_BAD_TXN: only an abort helps
    txn_broken: bool,
    /// how many times that happened in this case
    broken_count: usize,
}

/// Draws the case-level choice that must be known before the environment exists: the map
/// size. Returns the generator state to continue with.
pub fn plan(p: &Profile, seed: u64, overrides: &Overrides) -> (Prng, usize) {
    let mut r = Prng::new(seed);
    let mapsize = overrides.mapsize.unwrap_or_else(|| p.mapsize.sample(&mut r) as usize);
    // LMDB wants a multiple of the page size
    let page = page_size::get();
    let mapsize = mapsize.div_ceil(page).max(2) * page;
    (r, mapsize)
}

/// Generates and executes the history of one case on `ex` (everything between the `host`
/// line and `endcase`). `on_ready` is told the indexes of the case before the first op.
pub fn drive(
    p: &Profile,
    r: Prng,
    case: u64,
    overrides: &Overrides,
    ex: &mut Executor,
    on_ready: &mut dyn FnMut(&[W]),
) -> CaseStats {
    let mut g = Gen::new(p, r, overrides, case);
    if let Some(limit) = overrides.poll_limit.or(p.poll_limit) {
        ex.exec(&Op::Note(format!("polllimit={limit}")));
    }
    ex.exec(&Op::Note(format!("profile={}", p.name)));
    g.describe(ex);
    let ws: Vec<W> = g.idx.iter().map(|st| st.w()).collect();
    on_ready(&ws);
    g.run(ex);
    ex.finish();
    g.stats.steps = ex.steps;
    g.stats.panicked = ex.dead;
    g.stats
}

pub fn run_case(
    p: &Profile,
    case: u64,
    seed: u64,
    overrides: &Overrides,
    out: &mut dyn Write,
) -> Result<CaseStats, String> {
    let (r, mapsize) = plan(p, seed, overrides);
    let env = CaseEnv::new(mapsize)?;
    let _ = writeln!(out, "case {case} seed={seed} mapsize={mapsize}");
    let _ = writeln!(out, "{}", host_line());
    let stats = {
        let mut ex = Executor::new(&env, out);
        drive(p, r, case, overrides, &mut ex, &mut |_| {})
    };
    let _ = writeln!(out, "endcase");
    Ok(stats)
}

/// Command-line overrides of profile knobs.
#[derive(Default, Clone, Debug)]
pub struct Overrides {
    pub mapsize: Option<usize>,
    pub poll_limit: Option<usize>,
    pub threads: Option<usize>,
}

macro_rules! bail_if_dead {
    ($o:expr) => {
        if $o == Outcome::Panic {
            return false;
        }
    };
}

impl<'p> Gen<'p> {
    fn new(p: &'p Profile, mut r: Prng, overrides: &Overrides, case: u64) -> Gen<'p> {
        let forced = p.grid.as_ref().map(|g| g.cell(case)).unwrap_or_default();
        let mut n = p.n_indexes.sample(&mut r).clamp(1, 8) as usize;
        let empty_shape = if r.chance(p.empty_prepare) {
            if n < 2 {
                n = if r.chance(0.5) { 2 } else { 3 };
            }
            Some(*r.pick(&[EmptyShape::NeverFilled, EmptyShape::BuiltEmpty, EmptyShape::EmptiedPending]))
        } else {
            None
        };
        // index numbers
        let eligible: Vec<(u32, Vec<u16>)> =
            p.index_sets.iter().filter(|(_, s)| s.len() == n).cloned().collect();
        let indexes: Vec<u16> = if eligible.is_empty() || r.chance(p.p_random_indexes) {
            let mut v: Vec<u16> = Vec::new();
            while v.len() < n {
                let i = r.next_u32() as u16;
                if !v.contains(&i) {
                    v.push(i);
                }
            }
            v.sort_unstable();
            v
        } else {
            r.weighted(&eligible).clone()
        };
        let same = r.chance(p.p_same_config);
        let style0 = *r.weighted(&p.id_styles);
        let family0 = forced.family.unwrap_or(*r.weighted(&p.families));
        let metric0 = forced.metric.unwrap_or(*r.weighted(&p.metrics));
        let dims0 = p.dims.sample(&mut r).max(1) as usize;
        let mut idx = Vec::new();
        for (k, index) in indexes.iter().enumerate() {
            let (metric, dims) = if same || k == 0 {
                (metric0, dims0)
            } else {
                (*r.weighted(&p.metrics), p.dims.sample(&mut r).max(1) as usize)
            };
            let family = if k == 0 || forced.family.is_some() || !r.chance(0.3) {
                family0
            } else {
                *r.weighted(&p.families)
            };
            let npool = r.urange(1, 4);
            let pool = (0..npool).map(|_| (0..dims).map(|_| r.unit()).collect()).collect();
            let base = (0..dims).map(|_| r.unit()).collect();
            idx.push(IndexState {
                index: *index,
                metric,
                dims,
                items: BTreeMap::new(),
                dirty: true,
                has_keys: false,
                built_once: false,
                family,
                id_style: style0,
                dense_span: 8,
                pool,
                base,
                last_split: None,
            });
        }
        let threads = match overrides.threads {
            Some(t) => IntDist::Const(t as u64),
            None => r.weighted(&p.threads).clone(),
        };
        let mut g = Gen {
            p,
            r,
            committed: idx.clone(),
            idx,
            threads,
            est_polls: 0,
            stats: CaseStats::default(),
            forced,
            empty_target: None,
            forced_kind: None,
            cluster: None,
            kinds: Vec::new(),
            txn_broken: false,
            broken_count: 0,
        };
        if let Some(shape) = empty_shape {
            // an index below the greatest one: the middle one more often when there are three
            let len = g.idx.len();
            let t = if len >= 3 && g.r.chance(0.6) { len - 2 } else { g.r.below(len as u64 - 1) as usize };
            g.empty_target = Some((t, shape));
        }
        g
    }

    fn describe(&mut self, ex: &mut Executor) {
        for st in &self.idx {
            ex.exec(&Op::Note(format!(
                "index {} metric={} dims={} family={:?} ids={:?}",
                st.index,
                st.metric.name(),
                st.dims,
                st.family,
                st.id_style
            )));
        }
    }

    // ---------------------------------------------------------------- values

    fn gen_vec_family(&mut self, i: usize, family: Family, dims: usize) -> Vec<f32> {
        let r = &mut self.r;
        match family {
            Family::Generic => (0..dims).map(|_| r.unit()).collect(),
            Family::Duplicates => {
                let v = r.pick(&self.idx[i].pool).clone();
                fit(v, dims)
            }
            Family::Collinear => {
                let t = match r.below(4) {
                    0 => r.range(0, 6) as f32 - 3.0,
                    1 => r.unit() * 1e-3,
                    _ => r.unit() * 4.0,
                };
                let v: Vec<f32> = self.idx[i].base.iter().map(|x| x * t).collect();
                fit(v, dims)
            }
            Family::Ternary => (0..dims).map(|_| *r.pick(&[0.0f32, 1.0, -1.0, 0.0])).collect(),
            Family::HugeTiny => (0..dims)
                .map(|_| {
                    let sign = if r.chance(0.5) { -1.0f32 } else { 1.0 };
                    let mag = match r.below(8) {
                        0 => f32::MAX,
                        1 => f32::MIN_POSITIVE,
                        2 => f32::from_bits(r.range(1, 0x007f_ffff) as u32), // subnormal
                        3 => f32::from_bits(r.range(0x7e00_0000, 0x7f7f_ffff) as u32), // huge
                        4 => f32::from_bits(r.range(0x0080_0000, 0x0200_0000) as u32), // tiny normal
                        5 => 1.0e19 * (1.0 + r.unit().abs()), // squares overflow
                        6 => 1.0e-23 * (1.0 + r.unit().abs()), // squares underflow
                        _ => r.unit().abs(),
                    };
                    sign * mag
                })
                .collect(),
            Family::NanInf => (0..dims)
                .map(|_| {
                    if r.chance(0.25) {
                        f32::from_bits(*r.pick(&[
                            0x7fc0_0000u32,
                            0xffc0_0000,
                            0x7f80_0001,
                            0x7fff_ffff,
                            0xff80_0001,
                            0x7f80_0000,
                            0xff80_0000,
                        ]))
                    } else {
                        r.unit()
                    }
                })
                .collect(),
            Family::Cluster => {
                let base = &self.idx[i].base;
                let v: Vec<f32> = if r.chance(0.012) {
                    base.iter().map(|x| -3.0 * x + r.unit()).collect()
                } else {
                    base.iter().map(|x| 6.0 * x + 1.0e-3 * r.unit()).collect()
                };
                fit(v, dims)
            }
            Family::Zero => {
                let neg = r.chance(0.3);
                (0..dims).map(|_| if neg && r.chance(0.5) { -0.0f32 } else { 0.0 }).collect()
            }
            Family::Bits => (0..dims)
                .map(|_| match r.below(6) {
                    0 => f32::from_bits(*r.pick(&[
                        0u32,
                        0x8000_0000,
                        1,
                        0x8000_0001,
                        0x007f_ffff,
                        0x0080_0000,
                        0x7f7f_ffff,
                        0x7f80_0000,
                        0xff80_0000,
                        0x7fc0_0000,
                        0xffc0_0001,
                        0x7f80_0001,
                        0x3f80_0000,
                        0xbf80_0000,
                    ])),
                    _ => f32::from_bits(r.next_u32()),
                })
                .collect(),
        }
    }

    fn gen_vec(&mut self, i: usize) -> Vec<f32> {
        if let Some(c) = &self.cluster {
            let c = c.clone();
            return c.iter().map(|x| x + self.r.unit() * 1e-3).collect();
        }
        let family = if self.r.chance(self.p.p_family_mix) {
            *self.r.weighted(&self.p.families)
        } else {
            self.idx[i].family
        };
        let dims = self.idx[i].dims;
        self.gen_vec_family(i, family, dims)
    }

    fn raw_id(&mut self, i: usize) -> u32 {
        let style = if self.r.chance(self.p.p_id_mix) {
            *self.r.weighted(&self.p.id_styles)
        } else {
            self.idx[i].id_style
        };
        let r = &mut self.r;
        match style {
            IdStyle::Dense => self.p.dense_offset + r.below(self.idx[i].dense_span.max(2)) as u32,
            IdStyle::Sparse => r.next_u32(),
            IdStyle::Boundary => {
                if r.chance(0.6) {
                    let b = *r.pick(&BOUNDARY_IDS);
                    match r.below(5) {
                        0 => b.wrapping_add(1),
                        1 => b.wrapping_sub(1),
                        2 => b.wrapping_add(2),
                        _ => b,
                    }
                } else if r.chance(0.5) {
                    r.below(self.idx[i].dense_span.max(2)) as u32
                } else {
                    r.next_u32()
                }
            }
        }
    }

    fn absent_id(&mut self, i: usize) -> u32 {
        for _ in 0..16 {
            let id = self.raw_id(i);
            if !self.idx[i].items.contains_key(&id) {
                return id;
            }
        }
        // dense and full: look further
        for _ in 0..64 {
            let id = self.r.next_u32();
            if !self.idx[i].items.contains_key(&id) {
                return id;
            }
        }
        self.r.next_u32()
    }

    fn present_id(&mut self, i: usize) -> Option<u32> {
        let n = self.idx[i].items.len();
        if n == 0 {
            return None;
        }
        let k = self.r.below(n as u64) as usize;
        // near the ends more often: cheap and hits first/last item of buckets
        let k = match self.r.below(8) {
            0 => 0,
            1 => n - 1,
            _ => k,
        };
        self.idx[i].items.keys().nth(k).copied()
    }

    fn capacity(&self, i: usize) -> usize {
        self.idx[i].last_split.unwrap_or(self.idx[i].dims)
    }

    // ---------------------------------------------------------------- executing

    /// Executes an op, applies its effect to the shadow, runs the per-op observers.
    fn step(&mut self, ex: &mut Executor, op: Op) -> Outcome {
        let o = ex.exec(&op);
        if o == Outcome::Panic {
            return o;
        }
        if o == Outcome::Err
            && (ex.last_res.starts_with("err mapfull") || ex.last_res.contains("MDB_BAD_TXN"))
        {
            self.txn_broken = true;
        }
        let mut touched: Option<usize> = None;
        let is_write;
        match &op {
            Op::Add(w, id, v) | Op::Append(w, id, v) => {
                is_write = true;
                if let Some(i) = self.find(w.index) {
                    touched = Some(i);
                    if o == Outcome::Ok {
                        let st = &mut self.idx[i];
                        st.items.insert(*id, v.clone());
                        st.dirty = true;
                        st.has_keys = true;
                    }
                }
            }
            Op::Del(w, id) => {
                is_write = true;
                if let Some(i) = self.find(w.index) {
                    touched = Some(i);
                    if o == Outcome::Ok && self.idx[i].items.remove(id).is_some() {
                        self.idx[i].dirty = true;
                    }
                }
            }
            Op::Clear(w) => {
                is_write = true;
                if let Some(i) = self.find(w.index) {
                    touched = Some(i);
                    if o == Outcome::Ok {
                        let st = &mut self.idx[i];
                        st.items.clear();
                        st.dirty = true;
                        st.has_keys = false;
                        st.built_once = false;
                    }
                }
            }
            Op::Prepare(w, m) => {
                is_write = true;
                if let Some(i) = self.find(w.index) {
                    touched = Some(i);
                    if o == Outcome::Ok && *m != self.idx[i].metric {
                        let st = &mut self.idx[i];
                        st.metric = *m;
                        st.dirty = true;
                        st.built_once = false;
                    }
                }
            }
            Op::Build(w, _) => {
                is_write = true;
                touched = self.find(w.index);
            }
            _ => is_write = false,
        }
        if is_write {
            if self.p.dump_every_op && !matches!(op, Op::Build(..)) {
                if ex.exec(&Op::Dump) == Outcome::Panic {
                    return Outcome::Panic;
                }
            }
            if self.p.check_every_op {
                if let Some(i) = touched {
                    let w = self.idx[i].w();
                    if ex.exec(&Op::Open(w)) == Outcome::Panic
                        || ex.exec(&Op::NeedBuild(w)) == Outcome::Panic
                    {
                        return Outcome::Panic;
                    }
                }
            }
        }
        o
    }

    fn commit(&mut self, ex: &mut Executor) -> Outcome {
        let o = ex.exec(&Op::Commit);
        match o {
            Outcome::Ok => self.committed = self.idx.clone(),
            // a failed commit is an abort
            Outcome::Err => self.idx = self.committed.clone(),
            Outcome::Panic => {}
        }
        self.txn_broken = false;
        o
    }

    fn abort(&mut self, ex: &mut Executor) -> Outcome {
        let o = ex.exec(&Op::Abort);
        if o != Outcome::Panic {
            self.idx = self.committed.clone();
        }
        self.txn_broken = false;
        o
    }

    /// After MDB_MAP_FULL the transaction is unusable: abort it and open a new one.
    fn recover(&mut self, ex: &mut Executor) -> bool {
        if !self.txn_broken {
            return true;
        }
        self.broken_count += 1;
        bail_if_dead!(self.abort(ex));
        bail_if_dead!(ex.exec(&Op::Dump));
        if self.p.end_on_mapfull {
            ex.exec(&Op::Note("the map is full: ending the case".into()));
            return false;
        }
        bail_if_dead!(ex.exec(&Op::Begin));
        true
    }

    fn find(&self, index: u16) -> Option<usize> {
        self.idx.iter().position(|s| s.index == index)
    }

    // ---------------------------------------------------------------- updates

    fn update_op(&mut self, ex: &mut Executor, i: usize, first: bool) -> bool {
        if self.r.chance(self.p.malformed_rate) {
            bail_if_dead!(self.malformed(ex, i));
        }
        let mix = if first { &self.p.first_ops } else { &self.p.later_ops };
        let table = [
            (mix.add, 0u8),
            (mix.overwrite, 1),
            (mix.append_ok, 2),
            (mix.append_bad, 3),
            (mix.del_present, 4),
            (mix.del_absent, 5),
            (mix.clear, 6),
            (mix.wrong_dim, 7),
        ];
        let kind = match self.forced_kind {
            Some(k) if !first => k,
            _ => *self.r.weighted(&table),
        };
        let w = self.idx[i].w();
        let op = match kind {
            0 => {
                let id = self.absent_id(i);
                Op::Add(w, id, self.gen_vec(i))
            }
            1 => match self.present_id(i) {
                Some(id) => {
                    // sometimes the very same vector: an overwrite that changes nothing
                    let v = if self.r.chance(0.2) {
                        self.idx[i].items[&id].clone()
                    } else {
                        self.gen_vec(i)
                    };
                    Op::Add(w, id, v)
                }
                None => {
                    let id = self.absent_id(i);
                    Op::Add(w, id, self.gen_vec(i))
                }
            },
            2 => {
                // aimed at being valid: the index with the greatest number that has keys,
                // an id above its greatest one
                let top = (0..self.idx.len())
                    .filter(|k| self.idx[*k].has_keys)
                    .max_by_key(|k| self.idx[*k].index)
                    .unwrap_or(i);
                let top = if self.idx[top].index < self.idx[i].index { i } else { top };
                let max = self.idx[top].items.keys().next_back().copied();
                let id = match max {
                    None => self.raw_id(top),
                    Some(u32::MAX) => u32::MAX,
                    Some(m) => {
                        let room = (u32::MAX - m) as u64;
                        let step = match self.r.below(4) {
                            0 => 1,
                            1 => self.r.range(1, room.min(16)),
                            2 => room,
                            _ => self.r.range(1, room.min(100_000)),
                        };
                        m + step as u32
                    }
                };
                let w = self.idx[top].w();
                Op::Append(w, id, self.gen_vec(top))
            }
            3 => {
                // aimed at being rejected: at or below the greatest id, or in an index
                // below another one that has keys
                let id = match self.idx[i].items.keys().next_back().copied() {
                    Some(m) => match self.r.below(3) {
                        0 => m,
                        1 => m.saturating_sub(1),
                        _ => self.r.range(0, m as u64) as u32,
                    },
                    None => self.raw_id(i),
                };
                Op::Append(w, id, self.gen_vec(i))
            }
            4 => match self.present_id(i) {
                Some(id) => Op::Del(w, id),
                None => Op::Del(w, self.absent_id(i)),
            },
            5 => Op::Del(w, self.absent_id(i)),
            6 => Op::Clear(w),
            _ => {
                let id = if self.r.chance(0.5) { self.present_id(i) } else { None };
                let id = id.unwrap_or_else(|| self.absent_id(i));
                let len = self.wrong_len(i);
                let fam = self.idx[i].family;
                let v = self.gen_vec_family(i, fam, len);
                if self.r.chance(0.3) {
                    Op::Append(w, id, v)
                } else {
                    Op::Add(w, id, v)
                }
            }
        };
        bail_if_dead!(self.step(ex, op));
        if !self.recover(ex) {
            return false;
        }
        if self.r.chance(self.p.read_rate) {
            let n = self.p.reads_burst.sample(&mut self.r);
            for _ in 0..n {
                let k = self.r.below(self.idx.len() as u64) as usize;
                let k = if self.r.chance(0.7) { i } else { k };
                bail_if_dead!(self.read_op(ex, k));
            }
        }
        true
    }

    fn wrong_len(&mut self, i: usize) -> usize {
        let d = self.idx[i].dims;
        let l = match self.r.below(6) {
            0 => 0,
            1 => d - 1,
            2 => d + 1,
            3 => 4 * d,
            // the padded length of a binary-quantised vector
            4 => d.div_ceil(64) * 64,
            _ => self.r.urange(0, 2 * d + 2),
        };
        if l == d {
            d + 1
        } else {
            l
        }
    }

    /// One rejected call (C19): it must change nothing.
    fn malformed(&mut self, ex: &mut Executor, i: usize) -> Outcome {
        let w = self.idx[i].w();
        let fam = self.idx[i].family;
        let op = match self.r.below(7) {
            0 | 1 => {
                let len = self.wrong_len(i);
                let id = self.present_id(i).filter(|_| self.r.chance(0.5));
                let id = id.unwrap_or_else(|| self.absent_id(i));
                Op::Add(w, id, self.gen_vec_family(i, fam, len))
            }
            2 => {
                let len = self.wrong_len(i);
                let id = self.absent_id(i);
                Op::Append(w, id, self.gen_vec_family(i, fam, len))
            }
            3 => {
                // append at / below the greatest key of the whole database
                let id = match self.idx[i].items.keys().next_back().copied() {
                    Some(m) => *self.r.pick(&[m, m.saturating_sub(1), 0]),
                    None => 0,
                };
                Op::Append(w, id, self.gen_vec(i))
            }
            4 => Op::Del(w, self.absent_id(i)),
            5 => {
                let len = self.wrong_len(i);
                // the length is refused whatever the other options are: no candidates, an empty set, ids that are
                // not stored, stored ids
                let cand = match self.r.below(5) {
                    0 => Some(vec![]),
                    1 => Some((0..self.r.urange(1, 4)).map(|_| self.absent_id(i)).collect()),
                    2 => Some(self.idx[i].items.keys().copied().take(self.r.urange(1, 5)).collect()),
                    _ => None,
                };
                let count = *self.r.pick(&[0usize, 1, 3, 50]);
                let k = if self.r.chance(0.3) { Some(self.r.urange(1, 40)) } else { None };
                Op::Nns(
                    w,
                    NnsOpts {
                        count,
                        k,
                        over: None,
                        cand,
                        by: By::Vec(self.gen_vec_family(i, fam, len)),
                    },
                )
            }
            _ => Op::Nns(
                w,
                NnsOpts {
                    count: 3,
                    k: None,
                    over: None,
                    cand: None,
                    by: By::Item(self.absent_id(i)),
                },
            ),
        };
        self.step(ex, op)
    }

    // ---------------------------------------------------------------- reads

    /// The `W` of a read: sometimes deliberately another dimension, and -- only for the ops
    /// that never decode an item with it (`any_metric`) -- another metric.
    fn read_w(&mut self, i: usize, any_metric: bool) -> W {
        let mut w = self.idx[i].w();
        if self.r.chance(self.p.p_wrong_w) {
            if any_metric && self.r.chance(0.6) {
                w.metric = *self.r.pick(&Metric::ALL);
            } else {
                w.dims = match self.r.below(3) {
                    0 => w.dims + 1,
                    1 => w.dims.saturating_sub(1).max(1),
                    _ => w.dims * 2,
                };
            }
        }
        w
    }

    fn some_id(&mut self, i: usize) -> u32 {
        if self.r.chance(0.7) {
            if let Some(id) = self.present_id(i) {
                return id;
            }
        }
        self.absent_id(i)
    }

    fn read_op(&mut self, ex: &mut Executor, i: usize) -> Outcome {
        let small = self.idx[i].items.len() <= 64;
        let kind = self.r.below(14);
        // the reader ops check the metric name first, need_build / contains_item never
        // decode a value: those can go through any metric. The writer's get / iter /
        // is_empty decode the items with the writer's codec: same metric only.
        let any_metric = !matches!(kind, 4 | 6 | 7);
        let w = self.read_w(i, any_metric);
        let op = match kind {
            0 | 1 => Op::NeedBuild(w),
            2 | 3 => Op::Open(w),
            4 => Op::Get(w, self.some_id(i)),
            5 => Op::Contains(w, self.some_id(i)),
            6 => Op::IsEmpty(w),
            7 if small => Op::Iter(w),
            7 => Op::Get(w, self.some_id(i)),
            8 => Op::RGet(w, self.some_id(i)),
            9 => Op::RContains(w, self.some_id(i)),
            10 => Op::RIsEmpty(w),
            11 if small => Op::RIter(w),
            11 => Op::RGet(w, self.some_id(i)),
            12 => Op::RItemIds(w),
            _ => {
                let mut op = self.gen_nns(i, false);
                if let Op::Nns(ow, _) = &mut op {
                    ow.metric = w.metric;
                }
                op
            }
        };
        ex.exec(&op)
    }

    fn gen_nns(&mut self, i: usize, exhaustive: bool) -> Op {
        let w = self.idx[i].w();
        let n = self.idx[i].items.len();
        let counts = [
            (2u32, 0usize),
            (3, 1),
            (3, 3),
            (4, n),
            (2, n + 5),
            (1, n.saturating_sub(1)),
            (1, n + 1),
            (1, 1usize << 63),
            (1, usize::MAX),
            (2, self.r.urange(1, n + 2)),
        ];
        let count = *self.r.weighted(&counts);
        let k = if exhaustive {
            Some(usize::MAX)
        } else {
            let ks = [
                (5u32, None),
                (2, Some(1usize)),
                (2, Some(2)),
                (2, Some(10)),
                (2, Some(usize::MAX)),
                (2, Some(self.r.urange(1, 4 * n + 4))),
            ];
            *self.r.weighted(&ks)
        };
        let over = *self.r.weighted(&[(6u32, None), (2, Some(1usize)), (2, Some(3))]);
        let cand = match *self.r.weighted(&[(6u32, 0u8), (1, 1), (2, 2), (1, 3), (1, 4)]) {
            0 => None,
            1 => Some(Vec::new()),
            2 => {
                let keep = *self.r.pick(&[0.1, 0.5, 0.9]);
                let ids: Vec<u32> = self.idx[i].items.keys().copied().collect();
                Some(ids.into_iter().filter(|_| self.r.chance(keep)).collect())
            }
            3 => {
                let mut ids: Vec<u32> = (0..self.r.urange(1, 6)).map(|_| self.absent_id(i)).collect();
                ids.sort_unstable();
                ids.dedup();
                Some(ids)
            }
            _ => {
                let mut ids: Vec<u32> = self.idx[i].items.keys().copied().collect();
                for _ in 0..self.r.urange(1, 6) {
                    ids.push(self.absent_id(i));
                }
                ids.sort_unstable();
                ids.dedup();
                Some(ids)
            }
        };
        let by = match *self.r.weighted(&[(4u32, 0u8), (3, 1), (1, 2), (4, 3), (1, 4)]) {
            0 => By::Vec(self.gen_vec(i)),
            1 | 2 if n > 0 => {
                let id = self.present_id(i).unwrap();
                let mut v = fit(self.idx[i].items[&id].clone(), self.idx[i].dims);
                if self.r.chance(0.4) {
                    for x in v.iter_mut() {
                        *x += self.r.unit() * 1e-3;
                    }
                }
                By::Vec(v)
            }
            1 | 2 => By::Vec(self.gen_vec(i)),
            3 => match self.present_id(i) {
                Some(id) => By::Item(id),
                None => By::Item(self.absent_id(i)),
            },
            _ => By::Item(self.absent_id(i)),
        };
        Op::Nns(w, NnsOpts { count, k, over, cand, by })
    }

    // ---------------------------------------------------------------- builds

    fn build_opts(&mut self, i: usize, allow_cancel: bool) -> BuildOpts {
        let p = self.p;
        let n = self.idx[i].items.len();
        let dims = self.idx[i].dims;
        let ntrees = sample_opt(&p.ntrees, &mut self.r);
        let split = sample_opt(&p.split, &mut self.r).map(|s| s.max(1));
        let split = self.forced.split.map(|s| s as usize).or(split);
        let item_bytes = n.saturating_mul(dims * 4 + 16);
        let mem_choice = *self.r.weighted(&p.mem);
        let mem = match self.forced.mem.unwrap_or(mem_choice) {
            MemChoice::Unset => None,
            MemChoice::Zero => Some(0),
            MemChoice::Page => Some(4096),
            MemChoice::Items => Some(item_bytes.max(1)),
            MemChoice::HalfItems => Some((item_bytes / 2).max(1)),
            MemChoice::Huge => Some(*self.r.pick(&[1usize << 40, usize::MAX / 2, usize::MAX])),
        };
        let threads = self.threads.sample(&mut self.r).max(1) as usize;
        let cancel = if allow_cancel && self.r.chance(p.p_cancel) {
            let guess = if self.est_polls > 0 { self.est_polls } else { 4 * n + 12 };
            Some(match self.r.below(6) {
                0 => 0,
                1 => self.r.urange(0, 8),
                _ => self.r.urange(0, guess + 2),
            })
        } else {
            None
        };
        BuildOpts { ntrees, split, mem, cancel, threads, seed: self.r.next_u64(), tmpdir: None }
    }

    /// Builds index `i`; on failure aborts (or retries). Returns false when the case is over.
    fn build(&mut self, ex: &mut Executor, i: usize) -> bool {
        let mut attempts = 0;
        loop {
            attempts += 1;
            let opts = self.build_opts(i, attempts == 1);
            let split = opts.split;
            let w = self.idx[i].w();
            let o = self.step(ex, Op::Build(w, opts));
            bail_if_dead!(o);
            if o == Outcome::Ok {
                bail_if_dead!(ex.exec(&Op::Dump));
                self.stats.builds_ok += 1;
                self.est_polls = ex.last_polls;
                let st = &mut self.idx[i];
                st.dirty = false;
                st.built_once = true;
                st.has_keys = true;
                st.last_split = split;
                return self.after_build(ex, i);
            }
            self.stats.builds_err += 1;
            // The crate's contract: after a failed or cancelled build the transaction must be
            // aborted. Only profiles that ask for it look at (and retry in) what is left.
            if attempts < 3 && !self.txn_broken && self.r.chance(self.p.p_retry_in_txn) {
                bail_if_dead!(ex.exec(&Op::Dump));
                bail_if_dead!(ex.exec(&Op::NeedBuild(w)));
                bail_if_dead!(ex.exec(&Op::Open(w)));
                continue;
            }
            if attempts < 3 && !self.txn_broken && self.r.chance(self.p.p_prepare_after_failed) {
                // a metric change wipes the forest and the metadata, so what the failed build left does not
                // matter: the one continuation besides an abort that the crate's contract defines
                let others: Vec<Metric> = Metric::ALL.iter().copied().filter(|m| *m != w.metric).collect();
                let m = self.forced.target.filter(|m| *m != w.metric).unwrap_or(*self.r.pick(&others));
                bail_if_dead!(ex.exec(&Op::Dump));
                bail_if_dead!(self.step(ex, Op::Prepare(w, m)));
                bail_if_dead!(ex.exec(&Op::Dump));
                bail_if_dead!(ex.exec(&Op::NeedBuild(self.idx[i].w())));
                continue;
            }
            let was_broken = self.txn_broken;
            if was_broken {
                self.broken_count += 1;
            }
            bail_if_dead!(self.abort(ex));
            bail_if_dead!(ex.exec(&Op::Dump));
            if was_broken && self.p.end_on_mapfull {
                ex.exec(&Op::Note("the map is full: ending the case".into()));
                return false;
            }
            bail_if_dead!(ex.exec(&Op::Begin));
            return true;
        }
    }

    fn after_build(&mut self, ex: &mut Executor, i: usize) -> bool {
        let w = self.idx[i].w();
        bail_if_dead!(ex.exec(&Op::Open(w)));
        bail_if_dead!(ex.exec(&Op::NeedBuild(w)));
        bail_if_dead!(ex.exec(&Op::RItemIds(w)));
        if self.p.full_readback {
            bail_if_dead!(self.readback(ex, i));
        }
        let nq = self.p.queries.sample(&mut self.r);
        for _ in 0..nq {
            let exhaustive = self.r.chance(self.p.p_exhaustive);
            let op = self.gen_nns(i, exhaustive);
            bail_if_dead!(ex.exec(&op));
        }
        if self.p.self_lookups > 0 {
            let ids: Vec<u32> =
                self.idx[i].items.keys().copied().take(self.p.self_lookups).collect();
            for id in ids {
                let op = Op::Nns(
                    w,
                    NnsOpts { count: 1, k: Some(1), over: None, cand: None, by: By::Item(id) },
                );
                bail_if_dead!(ex.exec(&op));
            }
        }
        true
    }

    fn readback(&mut self, ex: &mut Executor, i: usize) -> Outcome {
        let w = self.idx[i].w();
        let n = self.idx[i].items.len();
        let mut ops = vec![Op::IsEmpty(w), Op::RIsEmpty(w)];
        if n <= 256 {
            ops.push(Op::Iter(w));
            ops.push(Op::RIter(w));
        }
        for _ in 0..n.min(4) {
            let id = self.some_id(i);
            ops.push(Op::Get(w, id));
            ops.push(Op::RGet(w, id));
            ops.push(Op::Contains(w, id));
            ops.push(Op::RContains(w, id));
        }
        for op in ops {
            if ex.exec(&op) == Outcome::Panic {
                return Outcome::Panic;
            }
        }
        Outcome::Ok
    }

    /// The observations made from a fresh read transaction (after a commit / an abort).
    fn outside_checks(&mut self, ex: &mut Executor) -> bool {
        for i in 0..self.idx.len() {
            let w = self.idx[i].w();
            bail_if_dead!(ex.exec(&Op::Open(w)));
            bail_if_dead!(ex.exec(&Op::NeedBuild(w)));
            if self.p.full_readback {
                bail_if_dead!(self.readback(ex, i));
            }
            if !self.idx[i].dirty && self.idx[i].built_once {
                let nq = self.p.queries.sample(&mut self.r).min(3);
                for _ in 0..nq {
                    let op = self.gen_nns(i, false);
                    bail_if_dead!(ex.exec(&op));
                }
            }
        }
        true
    }

    // ---------------------------------------------------------------- prepare on an empty index

    /// If the case has a pending empty-index `prepare` and the conditions hold now (inside a
    /// write transaction, after the updates of a later round): a higher-numbered index is
    /// built and holds items. Makes the target empty in the wanted way, makes sure the higher
    /// index has pending marks, changes the metric of the target, dumps, observes.
    fn empty_prepare(&mut self, ex: &mut Executor) -> bool {
        let Some((t, shape)) = self.empty_target else { return true };
        let target_index = self.idx[t].index;
        let higher = (0..self.idx.len()).find(|h| {
            self.idx[*h].index > target_index && self.idx[*h].built_once && !self.idx[*h].items.is_empty()
        });
        let Some(h) = higher else { return true };
        if shape != EmptyShape::NeverFilled && !self.idx[t].built_once {
            return true;
        }
        self.empty_target = None;
        let w = self.idx[t].w();
        bail_if_dead!(ex.exec(&Op::Note(format!(
            "prepare on the empty index {target_index} ({shape:?}), index {} is above it",
            self.idx[h].index
        ))));
        if shape != EmptyShape::NeverFilled {
            let ids: Vec<u32> = self.idx[t].items.keys().copied().collect();
            for id in ids {
                bail_if_dead!(self.step(ex, Op::Del(w, id)));
                if self.txn_broken {
                    return self.recover(ex);
                }
            }
            if shape == EmptyShape::BuiltEmpty {
                if !self.build(ex, t) {
                    return false;
                }
                if self.idx[t].dirty {
                    // the build failed and the transaction was aborted: give up
                    return true;
                }
            }
        }
        if !self.idx[h].dirty {
            let wh = self.idx[h].w();
            let id = self.absent_id(h);
            let v = self.gen_vec(h);
            bail_if_dead!(self.step(ex, Op::Add(wh, id, v)));
        }
        let others: Vec<Metric> = Metric::ALL.iter().copied().filter(|m| *m != w.metric).collect();
        let m = self.forced.target.filter(|m| *m != w.metric).unwrap_or(*self.r.pick(&others));
        bail_if_dead!(ex.exec(&Op::Dump));
        bail_if_dead!(self.step(ex, Op::Prepare(w, m)));
        bail_if_dead!(ex.exec(&Op::Dump));
        for i in 0..self.idx.len() {
            let wi = self.idx[i].w();
            bail_if_dead!(ex.exec(&Op::NeedBuild(wi)));
            bail_if_dead!(ex.exec(&Op::Open(wi)));
            bail_if_dead!(ex.exec(&Op::IsEmpty(wi)));
        }
        self.recover(ex)
    }

    // ---------------------------------------------------------------- probes

    /// The probe ops for index `i` (built, no pending change), each with the id it touches.
    fn probe_ops(&mut self, i: usize) -> Vec<(Op, Option<u32>)> {
        let w = self.idx[i].w();
        let dims = self.idx[i].dims;
        let smallest = self.idx[i].items.keys().next().copied();
        let largest = self.idx[i].items.keys().next_back().copied();
        let special = [0u32, 1, u32::MAX, u32::MAX - 1];
        // stored candidates: u32::MAX counts three times when it is stored
        let mut stored: Vec<u32> = Vec::new();
        stored.extend(smallest);
        stored.extend(largest);
        stored.extend(self.present_id(i));
        for id in special {
            if self.idx[i].items.contains_key(&id) {
                stored.push(id);
                if id == u32::MAX {
                    stored.push(id);
                    stored.push(id);
                }
            }
        }
        let mut absent: Vec<u32> = special
            .iter()
            .copied()
            .filter(|id| !self.idx[i].items.contains_key(id))
            .collect();
        absent.push(self.absent_id(i));
        absent.push(self.absent_id(i));
        let mut ops: Vec<(Op, Option<u32>)> = Vec::new();
        // add of an absent id
        let id = *self.r.pick(&absent);
        ops.push((Op::Add(w, id, self.gen_vec(i)), Some(id)));
        if !stored.is_empty() {
            // overwrite with the same vector, with another vector
            let id = *self.r.pick(&stored);
            let same = fit(self.idx[i].items[&id].clone(), dims);
            ops.push((Op::Add(w, id, same), Some(id)));
            let id = *self.r.pick(&stored);
            ops.push((Op::Add(w, id, self.gen_vec(i)), Some(id)));
            // delete of a stored id
            let id = *self.r.pick(&stored);
            ops.push((Op::Del(w, id), Some(id)));
        }
        // delete of an absent id
        let id = *self.r.pick(&absent);
        ops.push((Op::Del(w, id), Some(id)));
        // appends
        let higher_index_has_keys = self
            .idx
            .iter()
            .any(|st| st.index > self.idx[i].index && st.has_keys);
        let mut rejected: Vec<u32> = Vec::new();
        if let Some(max) = largest {
            rejected.push(max);
            rejected.push(self.r.range(0, max as u64) as u32);
            if max == u32::MAX {
                rejected.push(u32::MAX);
                rejected.push(u32::MAX);
            }
            rejected.extend(smallest);
        }
        if higher_index_has_keys {
            rejected.push(*self.r.pick(&absent));
            rejected.push(u32::MAX);
        }
        if !rejected.is_empty() {
            let id = *self.r.pick(&rejected);
            ops.push((Op::Append(w, id, self.gen_vec(i)), Some(id)));
        }
        if !higher_index_has_keys {
            let id = match largest {
                None => Some(*self.r.pick(&absent)),
                Some(u32::MAX) => None,
                Some(max) => Some(match self.r.below(3) {
                    0 => max + 1,
                    1 => u32::MAX,
                    _ => self.r.range(max as u64 + 1, u32::MAX as u64) as u32,
                }),
            };
            if let Some(id) = id {
                ops.push((Op::Append(w, id, self.gen_vec(i)), Some(id)));
            }
        }
        // wrong dimensions
        let fam = self.idx[i].family;
        let id = if self.r.chance(0.5) && !stored.is_empty() { *self.r.pick(&stored) } else { *self.r.pick(&absent) };
        ops.push((Op::Add(w, id, Vec::new()), Some(id)));
        let id = if self.r.chance(0.5) && !stored.is_empty() { *self.r.pick(&stored) } else { *self.r.pick(&absent) };
        ops.push((Op::Add(w, id, self.gen_vec_family(i, fam, dims + 1)), Some(id)));
        ops.push((Op::Clear(w), None));
        ops
    }

    /// Single-op probes on index `i`, which is built and has no pending change; no write
    /// transaction is open. Each probe is `begin, <op>, needbuild, open, contains/get of the
    /// touched id, dump, abort, dump` -- the abort makes the index built-and-clean again -- and
    /// one probe in four commits instead (`commit, dump, needbuild, open` from a fresh read
    /// transaction), then restores the clean state with `begin, build, commit, dump`.
    fn probe_block(&mut self, ex: &mut Executor, i: usize) -> bool {
        bail_if_dead!(ex.exec(&Op::Note(format!("probes index {}", self.idx[i].index))));
        let mut ops = self.probe_ops(i);
        if !self.p.probes_all {
            self.r.shuffle(&mut ops);
            let keep = self.r.urange(6, 8);
            ops.truncate(keep);
        }
        for (op, touched) in ops {
            if self.idx[i].dirty || !self.idx[i].built_once {
                // a previous committed probe could not be rebuilt: stop probing
                break;
            }
            let w = self.idx[i].w();
            let committed = self.r.below(4) == 0;
            bail_if_dead!(ex.exec(&Op::Begin));
            bail_if_dead!(self.step(ex, op));
            if self.txn_broken {
                return self.recover_outside(ex);
            }
            bail_if_dead!(ex.exec(&Op::NeedBuild(w)));
            bail_if_dead!(ex.exec(&Op::Open(w)));
            if let Some(id) = touched {
                bail_if_dead!(ex.exec(&Op::Contains(w, id)));
                bail_if_dead!(ex.exec(&Op::Get(w, id)));
            }
            bail_if_dead!(ex.exec(&Op::Dump));
            if !committed {
                bail_if_dead!(self.abort(ex));
                bail_if_dead!(ex.exec(&Op::Dump));
                continue;
            }
            bail_if_dead!(self.commit(ex));
            bail_if_dead!(ex.exec(&Op::Dump));
            bail_if_dead!(ex.exec(&Op::NeedBuild(w)));
            bail_if_dead!(ex.exec(&Op::Open(w)));
            if let Some(id) = touched {
                bail_if_dead!(ex.exec(&Op::RContains(w, id)));
            }
            // back to a built, clean index
            bail_if_dead!(ex.exec(&Op::Begin));
            if !self.build(ex, i) {
                return false;
            }
            if self.txn_broken {
                return self.recover_outside(ex);
            }
            bail_if_dead!(self.commit(ex));
            bail_if_dead!(ex.exec(&Op::Dump));
        }
        true
    }

    /// Like `recover`, but leaves no transaction open.
    fn recover_outside(&mut self, ex: &mut Executor) -> bool {
        self.broken_count += 1;
        bail_if_dead!(self.abort(ex));
        bail_if_dead!(ex.exec(&Op::Dump));
        !self.p.end_on_mapfull
    }

    // ---------------------------------------------------------------- the case

    fn run(&mut self, ex: &mut Executor) -> bool {
        let p = self.p;
        let min_rounds = if p.crash_mode {
            2
        } else if self.empty_target.is_some() {
            3
        } else {
            1
        };
        self.kinds = if p.round_plans.is_empty() {
            p.round_kinds.clone()
        } else {
            self.r.weighted(&p.round_plans).clone()
        };
        let rounds = p.rounds.sample(&mut self.r).max(min_rounds).max(self.kinds.len() as u64 + 1);
        if !self.kinds.is_empty() {
            ex.exec(&Op::Note(format!("round plan {:?}", self.kinds)));
        }
        bail_if_dead!(ex.exec(&Op::Begin));
        for round in 0..rounds {
            if self.broken_count >= 3 {
                ex.exec(&Op::Note("the map is full: ending the case".into()));
                break;
            }
            let first = round == 0;
            let last_of_crash = p.crash_mode && round + 1 == rounds;
            if last_of_crash {
                bail_if_dead!(ex.exec(&Op::Note("final-txn".into())));
            }
            // metric changes
            let mut quiet = vec![false; self.idx.len()];
            if !first {
                // in any order: a higher index may be mid-change (items only, no metadata) when a lower one changes
                let mut order: Vec<usize> = (0..self.idx.len()).collect();
                if p.p_prepare > 0.0 {
                    self.r.shuffle(&mut order);
                }
                for i in order {
                    if self.r.chance(p.p_prepare) {
                        quiet[i] = self.r.chance(p.p_quiet_after_prepare);
                        let m = *self.r.weighted(&p.prepare_targets);
                        let m = self.forced.target.unwrap_or(m);
                        let w = self.idx[i].w();
                        bail_if_dead!(self.step(ex, Op::Prepare(w, m)));
                        bail_if_dead!(ex.exec(&Op::Dump));
                        bail_if_dead!(self.readback(ex, i));
                        if p.p_clear_after_prepare > 0.0 && self.r.chance(p.p_clear_after_prepare) {
                            let w = self.idx[i].w();
                            bail_if_dead!(self.step(ex, Op::Clear(w)));
                            bail_if_dead!(ex.exec(&Op::Dump));
                            bail_if_dead!(self.readback(ex, i));
                        }
                    }
                }
            }
            // how many update ops per index
            let mut plan: Vec<usize> = Vec::new();
            for i in 0..self.idx.len() {
                if quiet[i] {
                    continue;
                }
                let wipe = !first && !self.idx[i].items.is_empty() && self.r.chance(p.p_wipe_round);
                if wipe {
                    if self.r.chance(0.3) {
                        let w = self.idx[i].w();
                        bail_if_dead!(self.step(ex, Op::Clear(w)));
                    } else {
                        let ids: Vec<u32> = self.idx[i].items.keys().copied().collect();
                        let w = self.idx[i].w();
                        for id in ids {
                            if self.txn_broken {
                                break;
                            }
                            bail_if_dead!(self.step(ex, Op::Del(w, id)));
                        }
                    }
                    continue;
                }
                if !first && p.p_swap_round > 0.0 && self.idx[i].items.len() >= 2 && self.r.chance(p.p_swap_round) {
                    let n = self.idx[i].items.len();
                    let k = 1 + self.r.below((n / 2).min(4) as u64) as usize;
                    let w = self.idx[i].w();
                    bail_if_dead!(ex.exec(&Op::Note(format!("swap round: {k} deletions, {k} additions"))));
                    for _ in 0..k {
                        if let Some(id) = self.present_id(i) {
                            bail_if_dead!(self.step(ex, Op::Del(w, id)));
                        }
                    }
                    for _ in 0..2 * k {
                        if self.idx[i].items.len() >= n || self.txn_broken {
                            break;
                        }
                        let id = self.absent_id(i);
                        let v = self.gen_vec(i);
                        bail_if_dead!(self.step(ex, Op::Add(w, id, v)));
                    }
                    continue;
                }
                let mut k = if first { &p.first_items } else { &p.updates }.sample(&mut self.r) as usize;
                if !first {
                    match self.kinds.get(round as usize - 1).cloned() {
                        Some(RoundKind::Shrink(lo, hi)) => {
                            let f = lo + (hi - lo) * (self.r.below(1000) as f64 / 1000.0);
                            k = (self.idx[i].items.len() as f64 * f) as usize;
                            self.forced_kind = Some(4);
                        }
                        Some(RoundKind::Grow(d)) => {
                            k = d.sample(&mut self.r) as usize;
                            self.forced_kind = Some(0);
                        }
                        Some(RoundKind::GrowClustered(d)) => {
                            k = d.sample(&mut self.r) as usize;
                            self.forced_kind = Some(0);
                            let dims = self.idx[i].dims;
                            let centre = match self.present_id(i) {
                                Some(id) => self.idx[i].items[&id].clone(),
                                None => (0..dims).map(|_| self.r.unit()).collect(),
                            };
                            self.cluster = Some(centre);
                        }
                        _ => {}
                    }
                }
                if first && self.idx[i].family == Family::Cluster {
                    // a node of more than a hundred items is what the imbalance thresholds need
                    k = k.max(110 + self.r.below(160) as usize);
                }
                let forced_count = if first { self.forced.first_items } else { None };
                if let Some(n) = forced_count {
                    k = n as usize;
                } else if self.r.chance(p.p_cap_boundary) {
                    let cap = self.capacity(i);
                    let have = self.idx[i].items.len();
                    let target = *self.r.pick(&[
                        cap.saturating_sub(1),
                        cap,
                        cap + 1,
                        cap + 2,
                        2 * cap,
                        2 * cap + 1,
                        1,
                        2,
                    ]);
                    if target > have {
                        k = (target - have).min(5000);
                    }
                }
                if first {
                    self.idx[i].dense_span =
                        ((k as f64 * p.dense_span_factor) as u64 + 4).min(u32::MAX as u64);
                }
                match self.empty_target {
                    Some((t, EmptyShape::NeverFilled)) if t == i => k = 0,
                    // the other indexes of such a case must hold something
                    Some((t, _)) if first && t != i => k = k.max(4),
                    _ => {}
                }
                for _ in 0..k {
                    plan.push(i);
                }
            }
            if !self.recover(ex) {
                return false;
            }
            if first && p.probes > 0 {
                // histories where u32::MAX (and 0) are stored items, whatever the id style
                for i in 0..self.idx.len() {
                    if self.r.chance(0.4) {
                        let w = self.idx[i].w();
                        let v = self.gen_vec(i);
                        bail_if_dead!(self.step(ex, Op::Add(w, u32::MAX, v)));
                        if self.r.chance(0.5) {
                            let v = self.gen_vec(i);
                            bail_if_dead!(self.step(ex, Op::Add(w, 0, v)));
                        }
                    }
                }
                if !self.recover(ex) {
                    return false;
                }
            }
            if p.interleave {
                self.r.shuffle(&mut plan);
            }
            for i in plan {
                if !self.update_op(ex, i, first) {
                    return false;
                }
            }
            self.forced_kind = None;
            self.cluster = None;
            if !first && !self.empty_prepare(ex) {
                return false;
            }
            if !last_of_crash && self.r.chance(p.p_commit_before_build) {
                bail_if_dead!(self.commit(ex));
                bail_if_dead!(ex.exec(&Op::Dump));
                if !self.outside_checks(ex) {
                    return false;
                }
                bail_if_dead!(ex.exec(&Op::Begin));
            }
            // builds
            let all = self.r.chance(p.p_build_all);
            let mut order: Vec<usize> = (0..self.idx.len()).collect();
            self.r.shuffle(&mut order);
            for i in order {
                if !(all || self.idx[i].dirty) || self.r.chance(p.p_skip_build) {
                    continue;
                }
                if matches!(self.empty_target, Some((t, EmptyShape::NeverFilled)) if t == i) {
                    // never filled also means never built, until its metric was changed
                    continue;
                }
                if !self.build(ex, i) {
                    return false;
                }
                if !self.idx[i].dirty && self.r.chance(p.p_rebuild) && !self.build(ex, i) {
                    return false;
                }
            }
            if last_of_crash {
                bail_if_dead!(ex.exec(&Op::Note("committing".into())));
                bail_if_dead!(self.commit(ex));
                bail_if_dead!(ex.exec(&Op::Dump));
                return true;
            }
            // transaction placement
            let ar = &p.after_round;
            match *self.r.weighted(&[(ar.keep, 0u8), (ar.commit, 1), (ar.abort, 2)]) {
                0 => {}
                1 => {
                    bail_if_dead!(self.commit(ex));
                    bail_if_dead!(ex.exec(&Op::Dump));
                    if !self.outside_checks(ex) {
                        return false;
                    }
                    if p.probes > 0 {
                        for i in 0..self.idx.len() {
                            let clean = !self.idx[i].dirty && self.idx[i].built_once;
                            if clean && self.r.chance(p.probes as f64 / 100.0) && !self.probe_block(ex, i) {
                                return false;
                            }
                        }
                    }
                    bail_if_dead!(ex.exec(&Op::Begin));
                    // the same observations again, now inside the next transaction
                    if p.check_every_op {
                        for i in 0..self.idx.len() {
                            let w = self.idx[i].w();
                            bail_if_dead!(ex.exec(&Op::Open(w)));
                            bail_if_dead!(ex.exec(&Op::NeedBuild(w)));
                        }
                    }
                }
                _ => {
                    bail_if_dead!(self.abort(ex));
                    bail_if_dead!(ex.exec(&Op::Dump));
                    if !self.outside_checks(ex) {
                        return false;
                    }
                    bail_if_dead!(ex.exec(&Op::Begin));
                }
            }
        }
        // end of the case
        if ex.in_txn() {
            if self.r.chance(0.9) {
                bail_if_dead!(self.commit(ex));
            } else {
                bail_if_dead!(self.abort(ex));
            }
        }
        bail_if_dead!(ex.exec(&Op::Dump));
        if !self.outside_checks(ex) {
            return false;
        }
        for i in 0..self.idx.len() {
            let w = self.idx[i].w();
            bail_if_dead!(ex.exec(&Op::RItemIds(w)));
        }
        bail_if_dead!(ex.exec(&Op::Dump));
        true
    }
}

fn fit(mut v: Vec<f32>, dims: usize) -> Vec<f32> {
    v.resize(dims, 0.5);
    v
}

