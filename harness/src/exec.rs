//! The executor: runs the operations of /verif/PROTOCOL.md against the real arroy API and
//! writes the trace (op line, `ev` lines, `res` line, dumps).
//!
//! Deviations from / precisions of PROTOCOL.md (also listed in README.md):
//! * `nns ... cand=`: `-` is "no candidates given", the literal `empty` is the empty bitmap
//!   (`<ids>` would print both as `-`).
//! * every op can answer `res panic <text>` (the case then ends) and the error kinds of
//!   `build` (`cancelled dbfull mapfull io missingkey heed other`) can show up for any op,
//!   as `res err <kind> [<text>]`.
//! * a write op without an open write transaction (or `begin` with one open) answers
//!   `res err other notxn` / `res err other txnopen` and does nothing.
//! * `note polllimit=<n>` (a note, hence ignored by the driver) sets the poll limit of the
//!   following builds in this case: once the cancellation callback has been called `n` times
//!   it answers `true` whatever `cancel=` says, and a `note polllimit-hit` line is written
//!   before the `res` line. This is the hang detection of C14; replays honour it.

use std::collections::HashMap;
use std::fmt::Write as _;
use std::io::Write;
use std::num::NonZeroUsize;
use std::path::{Path, PathBuf};
use std::panic::{catch_unwind, AssertUnwindSafe};
use std::sync::atomic::{AtomicBool, AtomicUsize, Ordering};
use std::sync::{Arc, Mutex};

use arroy::distances::{Cosine, Euclidean};
use arroy::internals::NodeCodec;
use arroy::verif::Event;
use arroy::{Distance, Reader, Writer};
use heed::types::Bytes;
use heed::{MdbError, RoTxn, RwTxn};
use rand::rngs::StdRng;
use rand::{RngCore, SeedableRng};
use roaring::RoaringBitmap;

use crate::util::*;
use crate::with_metric;

pub const DEFAULT_MAPSIZE: usize = 256 * 1024 * 1024;
pub const DEFAULT_POLL_LIMIT: usize = 20_000_000;

/// The writer/reader an op goes through.
#[derive(Clone, Copy, Debug, PartialEq, Eq)]
pub struct W {
    pub index: u16,
    pub metric: Metric,
    pub dims: usize,
}

#[derive(Clone, Debug)]
pub enum By {
    Vec(Vec<f32>),
    Item(u32),
}

#[derive(Clone, Debug)]
pub struct BuildOpts {
    pub ntrees: Option<usize>,
    pub split: Option<usize>,
    pub mem: Option<usize>,
    pub cancel: Option<usize>,
    pub threads: usize,
    pub seed: u64,
    /// `tmpdir=missing|readonly`: point arroy at an unusable temporary directory first
    pub tmpdir: Option<TmpFault>,
}

#[derive(Clone, Copy, Debug, PartialEq, Eq)]
pub enum TmpFault {
    Missing,
    ReadOnly,
}

#[derive(Clone, Debug)]
pub struct NnsOpts {
    pub count: usize,
    pub k: Option<usize>,
    pub over: Option<usize>,
    pub cand: Option<Vec<u32>>,
    pub by: By,
}

#[derive(Clone, Debug)]
pub enum Op {
    Begin,
    Commit,
    Abort,
    Add(W, u32, Vec<f32>),
    Append(W, u32, Vec<f32>),
    Del(W, u32),
    Clear(W),
    Prepare(W, Metric),
    Build(W, BuildOpts),
    NeedBuild(W),
    Open(W),
    Get(W, u32),
    Contains(W, u32),
    IsEmpty(W),
    Iter(W),
    RGet(W, u32),
    RContains(W, u32),
    RIsEmpty(W),
    RIter(W),
    RItemIds(W),
    Nns(W, NnsOpts),
    RawPut(Vec<u8>, Vec<u8>),
    RawDel(Vec<u8>),
    Upgrade04to05,
    Upgrade05to06(Metric),
    Dump,
    Note(String),
    ExpectRecovered,
    /// `index <index> <metric> <dims>`: declares how the raw pairs of an index are decoded
    Index(W),
}

fn push_w(out: &mut String, w: &W) {
    let _ = write!(out, " {} {} {}", w.index, w.metric.name(), w.dims);
}

impl Op {
    /// The op line, exactly as PROTOCOL.md spells it.
    pub fn write_line(&self, out: &mut String) {
        let simple = |out: &mut String, name: &str, w: &W| {
            out.push_str(name);
            push_w(out, w);
        };
        let with_id = |out: &mut String, name: &str, w: &W, id: u32| {
            out.push_str(name);
            push_w(out, w);
            let _ = write!(out, " {id}");
        };
        match self {
            Op::Begin => out.push_str("begin"),
            Op::Commit => out.push_str("commit"),
            Op::Abort => out.push_str("abort"),
            Op::Add(w, id, v) => {
                with_id(out, "add", w, *id);
                out.push(' ');
                push_vec(out, v);
            }
            Op::Append(w, id, v) => {
                with_id(out, "append", w, *id);
                out.push(' ');
                push_vec(out, v);
            }
            Op::Del(w, id) => with_id(out, "del", w, *id),
            Op::Clear(w) => simple(out, "clear", w),
            Op::Prepare(w, m) => {
                simple(out, "prepare", w);
                out.push(' ');
                out.push_str(m.name());
            }
            Op::Build(w, o) => {
                simple(out, "build", w);
                out.push_str(" ntrees=");
                push_opt(out, o.ntrees);
                out.push_str(" split=");
                push_opt(out, o.split);
                out.push_str(" mem=");
                push_opt(out, o.mem);
                out.push_str(" cancel=");
                push_opt(out, o.cancel);
                let _ = write!(out, " threads={} seed={}", o.threads, o.seed);
                match o.tmpdir {
                    None => {}
                    Some(TmpFault::Missing) => out.push_str(" tmpdir=missing"),
                    Some(TmpFault::ReadOnly) => out.push_str(" tmpdir=readonly"),
                }
            }
            Op::NeedBuild(w) => simple(out, "needbuild", w),
            Op::Open(w) => simple(out, "open", w),
            Op::Get(w, id) => with_id(out, "get", w, *id),
            Op::Contains(w, id) => with_id(out, "contains", w, *id),
            Op::IsEmpty(w) => simple(out, "isempty", w),
            Op::Iter(w) => simple(out, "iter", w),
            Op::RGet(w, id) => with_id(out, "rget", w, *id),
            Op::RContains(w, id) => with_id(out, "rcontains", w, *id),
            Op::RIsEmpty(w) => simple(out, "risempty", w),
            Op::RIter(w) => simple(out, "riter", w),
            Op::RItemIds(w) => simple(out, "ritemids", w),
            Op::Nns(w, o) => {
                simple(out, "nns", w);
                let _ = write!(out, " count={} k=", o.count);
                push_opt(out, o.k);
                out.push_str(" over=");
                push_opt(out, o.over);
                out.push_str(" cand=");
                match &o.cand {
                    None => out.push('-'),
                    Some(ids) if ids.is_empty() => out.push_str("empty"),
                    Some(ids) => push_ids(out, ids),
                }
                match &o.by {
                    By::Vec(v) => {
                        out.push_str(" by=vec:");
                        push_vec(out, v);
                    }
                    By::Item(id) => {
                        let _ = write!(out, " by=item:{id}");
                    }
                }
            }
            Op::RawPut(k, v) => {
                out.push_str("rawput ");
                push_hex(out, k);
                out.push(' ');
                push_hex(out, v);
            }
            Op::RawDel(k) => {
                out.push_str("rawdel ");
                push_hex(out, k);
            }
            Op::Upgrade04to05 => out.push_str("upgrade04to05"),
            Op::Upgrade05to06(m) => {
                out.push_str("upgrade05to06 ");
                out.push_str(m.name());
            }
            Op::Dump => out.push_str("dump"),
            Op::Note(t) => {
                out.push_str("note ");
                out.push_str(t);
            }
            Op::ExpectRecovered => out.push_str("expect-recovered"),
            Op::Index(w) => simple(out, "index", w),
        }
    }

    /// Parses an op line. `Ok(None)` for lines that are not ops (res, ev, kv, ...).
    pub fn parse(line: &str) -> Result<Option<Op>, String> {
        let line = line.trim_end();
        let mut toks = line.split(' ');
        let head = toks.next().unwrap_or("");
        let rest: Vec<&str> = toks.collect();
        fn w_of(rest: &[&str]) -> Result<W, String> {
            if rest.len() < 3 {
                return Err("missing <index> <metric> <dims>".into());
            }
            Ok(W {
                index: rest[0].parse().map_err(|e| format!("index {}: {e}", rest[0]))?,
                metric: Metric::parse(rest[1]).ok_or_else(|| format!("metric {}", rest[1]))?,
                dims: rest[2].parse().map_err(|e| format!("dims {}: {e}", rest[2]))?,
            })
        }
        fn arg<'a>(rest: &[&'a str], i: usize) -> Result<&'a str, String> {
            rest.get(i).copied().ok_or_else(|| format!("missing argument {i}"))
        }
        fn id_of(rest: &[&str], i: usize) -> Result<u32, String> {
            let t = arg(rest, i)?;
            t.parse().map_err(|e| format!("id {t}: {e}"))
        }
        fn kv<'a>(rest: &[&'a str], i: usize, key: &str) -> Result<&'a str, String> {
            let t = arg(rest, i)?;
            t.strip_prefix(key)
                .and_then(|t| t.strip_prefix('='))
                .ok_or_else(|| format!("expected {key}=..., found {t}"))
        }
        let op = match head {
            "begin" => Op::Begin,
            "commit" => Op::Commit,
            "abort" => Op::Abort,
            "dump" => Op::Dump,
            "expect-recovered" => Op::ExpectRecovered,
            "index" => Op::Index(w_of(&rest)?),
            "note" => Op::Note(line.strip_prefix("note").unwrap().trim_start().to_string()),
            "add" => Op::Add(w_of(&rest)?, id_of(&rest, 3)?, parse_vec(arg(&rest, 4)?)?),
            "append" => Op::Append(w_of(&rest)?, id_of(&rest, 3)?, parse_vec(arg(&rest, 4)?)?),
            "del" => Op::Del(w_of(&rest)?, id_of(&rest, 3)?),
            "clear" => Op::Clear(w_of(&rest)?),
            "prepare" => {
                let m = arg(&rest, 3)?;
                Op::Prepare(w_of(&rest)?, Metric::parse(m).ok_or_else(|| format!("metric {m}"))?)
            }
            "build" => Op::Build(
                w_of(&rest)?,
                BuildOpts {
                    ntrees: parse_opt(kv(&rest, 3, "ntrees")?)?,
                    split: parse_opt(kv(&rest, 4, "split")?)?,
                    mem: parse_opt(kv(&rest, 5, "mem")?)?,
                    cancel: parse_opt(kv(&rest, 6, "cancel")?)?,
                    threads: kv(&rest, 7, "threads")?.parse().map_err(|e| format!("threads: {e}"))?,
                    seed: kv(&rest, 8, "seed")?.parse().map_err(|e| format!("seed: {e}"))?,
                    tmpdir: match rest.get(9).copied() {
                        None => None,
                        Some("tmpdir=missing") => Some(TmpFault::Missing),
                        Some("tmpdir=readonly") => Some(TmpFault::ReadOnly),
                        Some(t) => return Err(format!("unexpected build argument {t}")),
                    },
                },
            ),
            "needbuild" => Op::NeedBuild(w_of(&rest)?),
            "open" => Op::Open(w_of(&rest)?),
            "get" => Op::Get(w_of(&rest)?, id_of(&rest, 3)?),
            "contains" => Op::Contains(w_of(&rest)?, id_of(&rest, 3)?),
            "isempty" => Op::IsEmpty(w_of(&rest)?),
            "iter" => Op::Iter(w_of(&rest)?),
            "rget" => Op::RGet(w_of(&rest)?, id_of(&rest, 3)?),
            "rcontains" => Op::RContains(w_of(&rest)?, id_of(&rest, 3)?),
            "risempty" => Op::RIsEmpty(w_of(&rest)?),
            "riter" => Op::RIter(w_of(&rest)?),
            "ritemids" => Op::RItemIds(w_of(&rest)?),
            "nns" => {
                let cand = kv(&rest, 6, "cand")?;
                let by = kv(&rest, 7, "by")?;
                Op::Nns(
                    w_of(&rest)?,
                    NnsOpts {
                        count: kv(&rest, 3, "count")?.parse().map_err(|e| format!("count: {e}"))?,
                        k: parse_opt(kv(&rest, 4, "k")?)?,
                        over: parse_opt(kv(&rest, 5, "over")?)?,
                        cand: match cand {
                            "-" => None,
                            "empty" => Some(Vec::new()),
                            ids => Some(parse_ids(ids)?),
                        },
                        by: if let Some(v) = by.strip_prefix("vec:") {
                            By::Vec(parse_vec(v)?)
                        } else if let Some(i) = by.strip_prefix("item:") {
                            By::Item(i.parse().map_err(|e| format!("by=item: {e}"))?)
                        } else {
                            return Err(format!("bad by= {by}"));
                        },
                    },
                )
            }
            "rawput" => Op::RawPut(parse_hex(arg(&rest, 0)?)?, parse_hex(arg(&rest, 1)?)?),
            "rawdel" => Op::RawDel(parse_hex(arg(&rest, 0)?)?),
            "upgrade04to05" => Op::Upgrade04to05,
            "upgrade05to06" => {
                let m = arg(&rest, 0)?;
                Op::Upgrade05to06(Metric::parse(m).ok_or_else(|| format!("metric {m}"))?)
            }
            _ => return Ok(None),
        };
        Ok(Some(op))
    }
}

/// The recording RNG given to the builds (see PROTOCOL.md, "Events").
/// Write the items drawn by the split searches (`--choices`).
pub static CHOICES: std::sync::atomic::AtomicBool = std::sync::atomic::AtomicBool::new(false);

pub struct RecRng(StdRng);

impl RngCore for RecRng {
    fn next_u32(&mut self) -> u32 {
        let v = self.0.next_u32();
        arroy::verif::emit(Event::Ext(0, v as u64));
        v
    }

    fn next_u64(&mut self) -> u64 {
        let v = self.0.next_u64();
        arroy::verif::emit(Event::Ext(1, v));
        v
    }

    fn fill_bytes(&mut self, dest: &mut [u8]) {
        self.0.fill_bytes(dest);
        arroy::verif::emit(Event::Ext(2, dest.len() as u64));
    }

    fn try_fill_bytes(&mut self, dest: &mut [u8]) -> Result<(), rand::Error> {
        let r = self.0.try_fill_bytes(dest);
        arroy::verif::emit(Event::Ext(2, dest.len() as u64));
        r
    }
}

impl SeedableRng for RecRng {
    type Seed = <StdRng as SeedableRng>::Seed;

    fn from_seed(seed: Self::Seed) -> Self {
        RecRng(StdRng::from_seed(seed))
    }

    fn seed_from_u64(state: u64) -> Self {
        RecRng(StdRng::seed_from_u64(state))
    }
}

// ---------------------------------------------------------------------------------------
// panics

static IN_OP: AtomicBool = AtomicBool::new(false);
static PANIC_MSG: Mutex<Option<String>> = Mutex::new(None);

/// While an op runs, panics are recorded (first message + location) instead of printed.
pub fn install_panic_hook() {
    let default = std::panic::take_hook();
    std::panic::set_hook(Box::new(move |info| {
        if !IN_OP.load(Ordering::SeqCst) {
            default(info);
            return;
        }
        let payload = info.payload();
        let msg = if let Some(s) = payload.downcast_ref::<&str>() {
            (*s).to_string()
        } else if let Some(s) = payload.downcast_ref::<String>() {
            s.clone()
        } else {
            "<non-string panic payload>".to_string()
        };
        let text = match info.location() {
            Some(l) => format!("{msg} @ {}:{}", l.file(), l.line()),
            None => msg,
        };
        let mut slot = PANIC_MSG.lock().unwrap_or_else(|e| e.into_inner());
        if slot.is_none() {
            *slot = Some(text);
        }
    }));
}

fn take_panic_text(payload: Box<dyn std::any::Any + Send>) -> String {
    let recorded = PANIC_MSG.lock().unwrap_or_else(|e| e.into_inner()).take();
    let text = recorded.unwrap_or_else(|| {
        if let Some(s) = payload.downcast_ref::<&str>() {
            (*s).to_string()
        } else if let Some(s) = payload.downcast_ref::<String>() {
            s.clone()
        } else {
            "<non-string panic payload>".to_string()
        }
    });
    one_line(&text)
}

// ---------------------------------------------------------------------------------------
// thread pools

fn pool(threads: usize) -> Arc<rayon::ThreadPool> {
    static POOLS: Mutex<Option<HashMap<usize, Arc<rayon::ThreadPool>>>> = Mutex::new(None);
    let mut pools = POOLS.lock().unwrap_or_else(|e| e.into_inner());
    pools
        .get_or_insert_with(HashMap::new)
        .entry(threads)
        .or_insert_with(|| {
            Arc::new(
                rayon::ThreadPoolBuilder::new()
                    .num_threads(threads)
                    .thread_name(move |i| format!("build-{threads}-{i}"))
                    .build()
                    .expect("cannot create the rayon pool"),
            )
        })
        .clone()
}

// ---------------------------------------------------------------------------------------
// errors

/// `(kind, payload or text)` of an arroy error; the payload is empty when there is none.
fn classify(e: &arroy::Error) -> (&'static str, String) {
    use arroy::Error as E;
    match e {
        E::InvalidVecDimension { expected, received } => ("dim", format!("{expected} {received}")),
        E::InvalidItemAppend => ("append", String::new()),
        E::MissingMetadata(i) => ("missingmeta", i.to_string()),
        E::UnmatchingDistance { expected, received } => {
            ("unmatching", format!("{} {}", expected.replace(' ', "_"), received.replace(' ', "_")))
        }
        E::NeedBuild(i) => ("needbuild", i.to_string()),
        E::BuildCancelled => ("cancelled", String::new()),
        E::DatabaseFull => ("dbfull", one_line(&e.to_string())),
        E::Heed(heed::Error::Mdb(MdbError::MapFull)) => ("mapfull", one_line(&e.to_string())),
        E::Heed(heed::Error::Io(_)) | E::Io(_) => ("io", one_line(&e.to_string())),
        E::MissingKey { .. } => ("missingkey", one_line(&e.to_string())),
        E::Heed(_) => ("heed", one_line(&e.to_string())),
        other => ("other", one_line(&other.to_string())),
    }
}

pub fn err_res(e: &arroy::Error) -> String {
    let (kind, rest) = classify(e);
    match kind {
        // the kinds whose text is redundant
        "dbfull" | "mapfull" => format!("err {kind}"),
        _ if rest.is_empty() => format!("err {kind}"),
        _ => format!("err {kind} {rest}"),
    }
}

fn build_err_res(e: &arroy::Error, polls: usize) -> String {
    let (kind, rest) = classify(e);
    match kind {
        "cancelled" => format!("err cancelled polls={polls}"),
        "dbfull" | "mapfull" | "io" | "missingkey" | "heed" => {
            format!("err {kind} polls={polls} {rest}")
        }
        _ => format!("err other polls={polls} {}", one_line(&e.to_string())),
    }
}

/// The error of an op: arroy's, or the harness' own refusal (`res err other <text>`).
pub enum OpErr {
    Arroy(arroy::Error),
    Other(&'static str),
}

impl From<arroy::Error> for OpErr {
    fn from(e: arroy::Error) -> OpErr {
        OpErr::Arroy(e)
    }
}

impl From<heed::Error> for OpErr {
    fn from(e: heed::Error) -> OpErr {
        OpErr::Arroy(e.into())
    }
}

fn other(text: &'static str) -> OpErr {
    OpErr::Other(text)
}

fn op_err_res(e: &OpErr) -> String {
    match e {
        OpErr::Arroy(e) => err_res(e),
        OpErr::Other(text) => format!("err other {text}"),
    }
}

// ---------------------------------------------------------------------------------------
// the environment of a case

/// An LMDB environment with the single unnamed database (created and committed when the
/// environment is fresh). Layout of a harness-owned case directory: `<root>/db` (the
/// environment), `<root>/tmp` (arroy's temporary files when `Executor::tmpdir` is set),
/// `<root>/ro` (a read-only directory for the `tmpdir=readonly` fault).
pub struct CaseEnv {
    pub env: heed::Env,
    pub db: arroy::Database<Euclidean>,
    pub mapsize: usize,
    pub env_path: PathBuf,
    pub tmp_path: PathBuf,
    pub root_path: PathBuf,
    _root: Option<tempfile::TempDir>,
}

impl CaseEnv {
    /// A fresh environment in a fresh temporary directory (removed on drop).
    pub fn new(mapsize: usize) -> Result<CaseEnv, String> {
        let root = tempfile::tempdir().map_err(|e| format!("tempdir: {e}"))?;
        let mut case = Self::create_in(root.path(), mapsize)?;
        case._root = Some(root);
        Ok(case)
    }

    /// A fresh environment under `root` (which the caller owns).
    pub fn create_in(root: &Path, mapsize: usize) -> Result<CaseEnv, String> {
        let env_path = root.join("db");
        let tmp_path = root.join("tmp");
        std::fs::create_dir_all(&env_path).map_err(|e| format!("{}: {e}", env_path.display()))?;
        std::fs::create_dir_all(&tmp_path).map_err(|e| format!("{}: {e}", tmp_path.display()))?;
        let env = unsafe { heed::EnvOpenOptions::new().map_size(mapsize).open(&env_path) }
            .map_err(|e| format!("opening the environment: {e}"))?;
        let mut wtxn = env.write_txn().map_err(|e| format!("write_txn: {e}"))?;
        let db: arroy::Database<Euclidean> =
            env.create_database(&mut wtxn, None).map_err(|e| format!("create_database: {e}"))?;
        wtxn.commit().map_err(|e| format!("commit: {e}"))?;
        Ok(CaseEnv { env, db, mapsize, env_path, tmp_path, root_path: root.to_path_buf(), _root: None })
    }

    /// Reopens the environment of `create_in(root, ..)` (after a crash) without writing.
    pub fn reopen_in(root: &Path, mapsize: usize) -> Result<CaseEnv, String> {
        let env_path = root.join("db");
        let tmp_path = root.join("tmp");
        let env = unsafe { heed::EnvOpenOptions::new().map_size(mapsize).open(&env_path) }
            .map_err(|e| format!("reopening the environment: {e}"))?;
        let rtxn = env.read_txn().map_err(|e| format!("read_txn: {e}"))?;
        let db: arroy::Database<Euclidean> = env
            .open_database(&rtxn, None)
            .map_err(|e| format!("open_database: {e}"))?
            .ok_or("the unnamed database does not exist")?;
        drop(rtxn);
        Ok(CaseEnv { env, db, mapsize, env_path, tmp_path, root_path: root.to_path_buf(), _root: None })
    }
}

/// What a scenario can observe / do around the ops of an executor.
pub enum HookEvent<'x> {
    Before(&'x Op),
    After(&'x Op, Outcome),
}

pub type OpHook<'w> = Box<dyn FnMut(HookEvent<'_>) + 'w>;
/// Called by the cancellation callback of the builds with the number of the call (from 0).
pub type PollHook = Arc<dyn Fn(usize) + Send + Sync>;

/// What the generator needs to know about the answer of an op.
#[derive(Clone, Copy, Debug, PartialEq, Eq)]
pub enum Outcome {
    Ok,
    Err,
    Panic,
}

pub struct Executor<'a, 'w> {
    case: &'a CaseEnv,
    wtxn: Option<RwTxn<'a>>,
    out: &'w mut dyn Write,
    line: String,
    pub poll_limit: usize,
    /// Set once an op has panicked: the case is over.
    pub dead: bool,
    /// Number of ops executed (for statistics).
    pub steps: usize,
    /// The text after `res ` of the last op.
    pub last_res: String,
    /// Polls of the last build.
    pub last_polls: usize,
    /// When set, the builds call `Writer::set_tmpdir` with it.
    pub tmpdir: Option<PathBuf>,
    pub op_hook: Option<OpHook<'w>>,
    pub poll_hook: Option<PollHook>,
    /// One long-lived `Writer` per (index, metric, dimension), kept across transactions (also aborted ones) as an
    /// application would: state hidden in a `Writer` must not outlive the transaction that made it.
    writers: std::collections::HashMap<(u16, u8, usize), Box<dyn std::any::Any>>,
}

type OpResult = Result<String, OpErr>;

impl<'a, 'w> Executor<'a, 'w> {
    pub fn new(case: &'a CaseEnv, out: &'w mut dyn Write) -> Executor<'a, 'w> {
        Executor {
            case,
            wtxn: None,
            out,
            line: String::with_capacity(4096),
            poll_limit: DEFAULT_POLL_LIMIT,
            dead: false,
            writers: std::collections::HashMap::new(),
            steps: 0,
            last_res: String::new(),
            last_polls: 0,
            tmpdir: None,
            op_hook: None,
            poll_hook: None,
        }
    }

    pub fn in_txn(&self) -> bool {
        self.wtxn.is_some()
    }

    pub fn raw_line(&mut self, text: &str) {
        let mut line = std::mem::take(&mut self.line);
        line.clear();
        line.push_str(text);
        line.push('\n');
        let _ = self.out.write_all(line.as_bytes());
        line.clear();
        self.line = line;
    }


    /// Aborts the open transaction, if any, without writing anything (end of a case).
    pub fn finish(&mut self) {
        if let Some(txn) = self.wtxn.take() {
            txn.abort();
        }
    }

    fn db<D: Distance>(&self) -> arroy::Database<D> {
        self.case.db.remap_data_type::<NodeCodec<D>>()
    }

    fn with_rtxn<R>(&self, f: impl FnOnce(&RoTxn) -> Result<R, OpErr>) -> Result<R, OpErr> {
        match &self.wtxn {
            Some(wtxn) => {
                let rtxn: &RoTxn<heed::WithoutTls> = wtxn;
                f(rtxn)
            }
            None => {
                let rtxn = self.case.env.read_txn()?;
                f(&rtxn)
            }
        }
    }

    fn wtxn(&mut self) -> Result<&mut RwTxn<'a>, OpErr> {
        self.wtxn.as_mut().ok_or_else(|| other("notxn"))
    }

    /// Executes one op and writes its records. Returns what happened.
    pub fn exec(&mut self, op: &Op) -> Outcome {
        if self.dead {
            return Outcome::Panic;
        }
        if let Some(hook) = self.op_hook.as_mut() {
            hook(HookEvent::Before(op));
        }
        let outcome = self.exec_inner(op);
        if let Some(hook) = self.op_hook.as_mut() {
            hook(HookEvent::After(op, outcome));
        }
        outcome
    }

    fn write_op_line(&mut self, op: &Op) {
        let mut line = std::mem::take(&mut self.line);
        line.clear();
        op.write_line(&mut line);
        line.push('\n');
        let _ = self.out.write_all(line.as_bytes());
        line.clear();
        self.line = line;
    }

    fn exec_inner(&mut self, op: &Op) -> Outcome {
        self.steps += 1;
        // the `commit` record is written once the call has returned (see `crash`)
        if !matches!(op, Op::Commit) {
            self.write_op_line(op);
        }

        match op {
            // records without a `res` line
            Op::Note(text) => {
                if let Some(n) = text.strip_prefix("polllimit=") {
                    if let Ok(n) = n.trim().parse::<usize>() {
                        self.poll_limit = n;
                    }
                }
                return Outcome::Ok;
            }
            Op::ExpectRecovered | Op::Index(_) => return Outcome::Ok,
            Op::Begin | Op::Commit | Op::Abort => {
                // PROTOCOL.md gives no `res` line to the transaction records; a failure
                // (e.g. MDB_MAP_FULL at commit) is reported as a note + res line anyway.
                IN_OP.store(true, Ordering::SeqCst);
                let r = catch_unwind(AssertUnwindSafe(|| self.txn_op(op)));
                IN_OP.store(false, Ordering::SeqCst);
                if matches!(op, Op::Commit) {
                    self.write_op_line(op);
                }
                return match r {
                    Ok(Ok(())) => Outcome::Ok,
                    Ok(Err(e)) => {
                        let text = format!("res {}", op_err_res(&e));
                        self.last_res = text[4..].to_string();
                        self.raw_line(&text);
                        Outcome::Err
                    }
                    Err(payload) => self.panicked(payload),
                };
            }
            Op::Dump => {
                IN_OP.store(true, Ordering::SeqCst);
                let r = catch_unwind(AssertUnwindSafe(|| self.dump()));
                IN_OP.store(false, Ordering::SeqCst);
                return match r {
                    Ok(Ok(())) => {
                        self.raw_line("enddump");
                        Outcome::Ok
                    }
                    Ok(Err(e)) => {
                        let text = format!("note dump failed: {}", op_err_res(&e));
                        self.raw_line(&text);
                        self.raw_line("enddump");
                        Outcome::Err
                    }
                    Err(payload) => {
                        self.raw_line("enddump");
                        self.panicked(payload)
                    }
                };
            }
            _ => {}
        }

        IN_OP.store(true, Ordering::SeqCst);
        let result = catch_unwind(AssertUnwindSafe(|| match op {
            Op::Build(w, opts) => {
                let (res, events, limit_hit) =
                    with_metric!(w.metric, D => self.build::<D>(w, opts));
                (res, Some((events, opts.threads)), limit_hit)
            }
            _ => (self.run(op).map_err(Ok), None, false),
        }));
        IN_OP.store(false, Ordering::SeqCst);

        match result {
            Ok((res, events, limit_hit)) => {
                if let Some((events, threads)) = events {
                    self.write_events(&events, threads);
                }
                if limit_hit {
                    self.raw_line("note polllimit-hit");
                }
                match res {
                    Ok(text) => {
                        self.finish_res(&text);
                        Outcome::Ok
                    }
                    Err(Ok(e)) => {
                        let text = op_err_res(&e);
                        self.finish_res(&text);
                        Outcome::Err
                    }
                    // a build: the text is already complete, or it panicked
                    Err(Err(BuildFailure::Err(text))) => {
                        self.finish_res(&text);
                        Outcome::Err
                    }
                    Err(Err(BuildFailure::Panic(payload))) => self.panicked(payload),
                }
            }
            Err(payload) => self.panicked(payload),
        }
    }

    fn finish_res(&mut self, text: &str) {
        self.last_res.clear();
        self.last_res.push_str(text);
        let mut line = std::mem::take(&mut self.line);
        line.clear();
        line.push_str("res ");
        line.push_str(text);
        line.push('\n');
        let _ = self.out.write_all(line.as_bytes());
        line.clear();
        self.line = line;
    }

    fn panicked(&mut self, payload: Box<dyn std::any::Any + Send>) -> Outcome {
        let text = format!("panic {}", take_panic_text(payload));
        self.finish_res(&text);
        self.dead = true;
        // the transaction (if any) is dropped, i.e. aborted
        self.wtxn = None;
        Outcome::Panic
    }

    fn txn_op(&mut self, op: &Op) -> Result<(), OpErr> {
        match op {
            Op::Begin => {
                if self.wtxn.is_some() {
                    return Err(other("txnopen"));
                }
                self.wtxn = Some(self.case.env.write_txn()?);
            }
            Op::Commit => match self.wtxn.take() {
                Some(txn) => txn.commit()?,
                None => return Err(other("notxn")),
            },
            Op::Abort => match self.wtxn.take() {
                Some(txn) => txn.abort(),
                None => return Err(other("notxn")),
            },
            _ => unreachable!(),
        }
        Ok(())
    }

    fn dump(&mut self) -> Result<(), OpErr> {
        let db = self.case.db.remap_types::<Bytes, Bytes>();
        let mut buf = String::with_capacity(1 << 16);
        self.with_rtxn(|rtxn| {
            for entry in db.iter(rtxn)? {
                let (k, v) = entry?;
                buf.push_str("kv ");
                push_hex(&mut buf, k);
                buf.push(' ');
                push_hex(&mut buf, v);
                buf.push('\n');
            }
            Ok(())
        })?;
        let _ = self.out.write_all(buf.as_bytes());
        Ok(())
    }

    fn write_events(&mut self, events: &[Event], threads: usize) {
        if threads > 1 {
            self.raw_line("ev unordered");
            return;
        }
        let mut buf = String::with_capacity(events.len() * 4);
        // the draws made between `splitstart` and `normal` belong to the split search (two-means): they are
        // not oracles of the model and are 94 % of a trace, so they are left out unless asked for
        let full = std::env::var_os("HARNESS_FULL_EVENTS").is_some();
        let choices = CHOICES.load(std::sync::atomic::Ordering::Relaxed);
        let mut in_split = false;
        for ev in events {
            match ev {
                Event::SplitStart => in_split = true,
                Event::Normal(_) => in_split = false,
                _ => {}
            }
            if in_split && !full && matches!(ev, Event::Ext(..)) {
                continue;
            }
            match ev {
                Event::Ext(0, v) => {
                    let _ = writeln!(buf, "ev draw {v}");
                }
                Event::Ext(1, v) => {
                    let _ = writeln!(buf, "ev draw64 {v}");
                }
                Event::Ext(2, v) => {
                    let _ = writeln!(buf, "ev fill {v}");
                }
                Event::Ext(k, v) => {
                    let _ = writeln!(buf, "ev ext {k} {v}");
                }
                Event::SplitStart => buf.push_str("ev splitstart\n"),
                Event::Normal(bytes) => {
                    buf.push_str("ev normal ");
                    push_hex(&mut buf, bytes);
                    buf.push('\n');
                }
                Event::Batch(k) => {
                    let _ = writeln!(buf, "ev batch {k}");
                }
                Event::Chosen(id) => {
                    if choices {
                        let _ = writeln!(buf, "ev chosen {id}");
                    }
                }
            }
        }
        let _ = self.out.write_all(buf.as_bytes());
    }

    /// Every op but the transaction records, dumps and builds.
    fn run(&mut self, op: &Op) -> OpResult {
        match op {
            Op::Add(w, ..)
            | Op::Append(w, ..)
            | Op::Del(w, ..)
            | Op::Clear(w)
            | Op::Prepare(w, ..)
            | Op::NeedBuild(w)
            | Op::Open(w)
            | Op::Get(w, ..)
            | Op::Contains(w, ..)
            | Op::IsEmpty(w)
            | Op::Iter(w)
            | Op::RGet(w, ..)
            | Op::RContains(w, ..)
            | Op::RIsEmpty(w)
            | Op::RIter(w)
            | Op::RItemIds(w)
            | Op::Nns(w, ..) => with_metric!(w.metric, D => self.run_w::<D>(w, op)),
            Op::RawPut(k, v) => {
                let db = self.case.db.remap_types::<Bytes, Bytes>();
                db.put(self.wtxn()?, k, v)?;
                Ok("ok".into())
            }
            Op::RawDel(k) => {
                let db = self.case.db.remap_types::<Bytes, Bytes>();
                let existed = db.delete(self.wtxn()?, k)?;
                Ok(format!("ok {}", existed as u8))
            }
            Op::Upgrade04to05 => {
                let db = self.db::<Cosine>();
                let rtxn = self.case.env.read_txn()?;
                arroy::upgrade::cosine_from_0_4_to_0_5(&rtxn, db, self.wtxn()?, db)?;
                Ok("ok".into())
            }
            Op::Upgrade05to06(m) => with_metric!(*m, D => {
                let db = self.db::<D>();
                let rtxn = self.case.env.read_txn()?;
                arroy::upgrade::from_0_5_to_0_6::<D>(&rtxn, db, self.wtxn()?, db)?;
                Ok("ok".into())
            }),
            Op::Begin
            | Op::Commit
            | Op::Abort
            | Op::Dump
            | Op::Note(_)
            | Op::ExpectRecovered
            | Op::Index(_)
            | Op::Build(..) => unreachable!(),
        }
    }

    fn take_writer<D: Distance + 'static>(&mut self, w: &W) -> Writer<D> {
        let key = (w.index, w.metric as u8, w.dims);
        match self.writers.remove(&key).and_then(|b| b.downcast::<Writer<D>>().ok()) {
            Some(b) => *b,
            None => Writer::<D>::new(self.db::<D>(), w.index, w.dims),
        }
    }

    fn put_writer<D: Distance + 'static>(&mut self, index: u16, metric: Metric, dims: usize, writer: Writer<D>) {
        self.writers.insert((index, metric as u8, dims), Box::new(writer));
    }

    fn run_w<D: Distance + 'static>(&mut self, w: &W, op: &Op) -> OpResult {
        let writer = self.take_writer::<D>(w);
        if let Op::Prepare(_, new) = op {
            // consumes the writer; the one it returns is the long-lived writer of the new metric
            let (index, dims, new) = (w.index, w.dims, *new);
            with_metric!(new, ND => {
                let changed: Writer<ND> = writer.prepare_changing_distance::<ND>(self.wtxn()?)?;
                self.put_writer::<ND>(index, new, dims, changed);
            });
            return Ok("ok".into());
        }
        let r = self.run_w_with::<D>(w, op, &writer);
        self.put_writer::<D>(w.index, w.metric, w.dims, writer);
        r
    }

    fn run_w_with<D: Distance + 'static>(&mut self, w: &W, op: &Op, writer: &Writer<D>) -> OpResult {
        let db = self.db::<D>();
        let index = w.index;
        match op {
            Op::Add(_, id, v) => {
                writer.add_item(self.wtxn()?, *id, v)?;
                Ok("ok".into())
            }
            Op::Append(_, id, v) => {
                writer.append_item(self.wtxn()?, *id, v)?;
                Ok("ok".into())
            }
            Op::Del(_, id) => {
                let existed = writer.del_item(self.wtxn()?, *id)?;
                Ok(format!("ok {}", existed as u8))
            }
            Op::Clear(_) => {
                writer.clear(self.wtxn()?)?;
                Ok("ok".into())
            }
            Op::Prepare(..) => unreachable!(),
            Op::NeedBuild(_) => {
                let b = self.with_rtxn(|rtxn| Ok(writer.need_build(rtxn)?))?;
                Ok(format!("ok {}", b as u8))
            }
            Op::Get(_, id) => self.with_rtxn(|rtxn| Ok(fmt_get(writer.item_vector(rtxn, *id)?))),
            Op::Contains(_, id) => {
                let b = self.with_rtxn(|rtxn| Ok(writer.contains_item(rtxn, *id)?))?;
                Ok(format!("ok {}", b as u8))
            }
            Op::IsEmpty(_) => {
                let b = self.with_rtxn(|rtxn| Ok(writer.is_empty(rtxn)?))?;
                Ok(format!("ok {}", b as u8))
            }
            Op::Iter(_) => self.with_rtxn(|rtxn| {
                let mut out = String::from("ok");
                for entry in writer.iter(rtxn)? {
                    let (id, v) = entry?;
                    let _ = write!(out, " {id}:");
                    push_vec(&mut out, &v);
                }
                Ok(out)
            }),
            Op::Open(_) => self.with_rtxn(|rtxn| {
                let reader = Reader::<D>::open(rtxn, index, db)?;
                Ok(format!(
                    "ok ntrees={} nitems={} dims={}",
                    reader.n_trees(),
                    reader.n_items(),
                    reader.dimensions()
                ))
            }),
            Op::RGet(_, id) => self.with_rtxn(|rtxn| {
                let reader = Reader::<D>::open(rtxn, index, db)?;
                Ok(fmt_get(reader.item_vector(rtxn, *id)?))
            }),
            Op::RContains(_, id) => self.with_rtxn(|rtxn| {
                let reader = Reader::<D>::open(rtxn, index, db)?;
                Ok(format!("ok {}", reader.contains_item(rtxn, *id)? as u8))
            }),
            Op::RIsEmpty(_) => self.with_rtxn(|rtxn| {
                let reader = Reader::<D>::open(rtxn, index, db)?;
                Ok(format!("ok {}", reader.is_empty(rtxn)? as u8))
            }),
            Op::RIter(_) => self.with_rtxn(|rtxn| {
                let reader = Reader::<D>::open(rtxn, index, db)?;
                let mut out = String::from("ok");
                for entry in reader.iter(rtxn)? {
                    let (id, v) = entry?;
                    let _ = write!(out, " {id}:");
                    push_vec(&mut out, &v);
                }
                Ok(out)
            }),
            Op::RItemIds(_) => self.with_rtxn(|rtxn| {
                let reader = Reader::<D>::open(rtxn, index, db)?;
                let ids: Vec<u32> = reader.item_ids().iter().collect();
                let mut out = String::from("ok ");
                push_ids(&mut out, &ids);
                Ok(out)
            }),
            Op::Nns(_, o) => self.with_rtxn(|rtxn| {
                let candidates: Option<RoaringBitmap> =
                    o.cand.as_ref().map(|ids| ids.iter().copied().collect());
                let k = match o.k {
                    Some(k) => Some(NonZeroUsize::new(k).ok_or_else(|| other("k=0"))?),
                    None => None,
                };
                let over = match o.over {
                    Some(k) => Some(NonZeroUsize::new(k).ok_or_else(|| other("over=0"))?),
                    None => None,
                };
                let reader = Reader::<D>::open(rtxn, index, db)?;
                let mut query = reader.nns(o.count);
                if let Some(k) = k {
                    query.search_k(k);
                }
                if let Some(over) = over {
                    query.oversampling(over);
                }
                if let Some(candidates) = candidates.as_ref() {
                    query.candidates(candidates);
                }
                let answer = match &o.by {
                    By::Vec(v) => {
                        // the builder is kept and re-run, as the crate's documentation does: a first query with another
                        // vector (three times as long) must leave nothing behind in the builder
                        let decoy: Vec<f32> = v.iter().map(|x| x * 3.0 + 0.25).collect();
                        let _ = query.by_vector(rtxn, &decoy);
                        Some(query.by_vector(rtxn, v)?)
                    }
                    By::Item(id) => query.by_item(rtxn, *id)?,
                };
                Ok(match answer {
                    None => "ok none".to_string(),
                    Some(nns) => {
                        let mut out = String::from("ok");
                        for (id, dist) in nns {
                            let _ = write!(out, " {id}:");
                            push_bits(&mut out, dist.to_bits());
                        }
                        out
                    }
                })
            }),
            _ => unreachable!(),
        }
    }

    /// Returns the `res` text (or the failure), the recorded events, and whether the poll
    /// limit was hit.
    fn build<D: Distance + 'static>(
        &mut self,
        w: &W,
        o: &BuildOpts,
    ) -> (Result<String, Result<OpErr, BuildFailure>>, Vec<Event>, bool) {
        let db = self.db::<D>();
        let poll_limit = self.poll_limit;
        let wtxn = match self.wtxn.as_mut() {
            Some(wtxn) => wtxn,
            None => return (Err(Ok(other("notxn"))), Vec::new(), false),
        };
        // a build with an injected temp-directory fault gets its own writer (`set_tmpdir` cannot be undone)
        let cached_key = (w.index, w.metric as u8, w.dims);
        let reuse = o.tmpdir.is_none() && self.tmpdir.is_none();
        let mut writer = match (reuse, self.writers.remove(&cached_key).and_then(|b| b.downcast::<Writer<D>>().ok())) {
            (true, Some(b)) => *b,
            _ => Writer::<D>::new(db, w.index, w.dims),
        };
        match o.tmpdir {
            Some(TmpFault::Missing) => writer.set_tmpdir(self.case.root_path.join("missing").join("tmp")),
            Some(TmpFault::ReadOnly) => writer.set_tmpdir(readonly_dir(self.case)),
            None => {
                if let Some(dir) = self.tmpdir.as_ref() {
                    writer.set_tmpdir(dir.clone());
                }
            }
        }
        let poll_hook = self.poll_hook.clone();
        let calls = AtomicUsize::new(0);
        let limit_hit = AtomicBool::new(false);
        let cancel_at = o.cancel;
        let cancel = || {
            let n = calls.fetch_add(1, Ordering::SeqCst);
            if let Some(hook) = poll_hook.as_ref() {
                hook(n);
            }
            if n >= poll_limit {
                limit_hit.store(true, Ordering::SeqCst);
                return true;
            }
            cancel_at.is_some_and(|c| n >= c)
        };
        let threads = o.threads.max(1);
        let pool = pool(threads);
        let mut rng = RecRng::seed_from_u64(o.seed);
        // the write transaction is only ever used by one thread at a time: `install` blocks
        // this thread while the pool runs the build.
        let wtxn = SendPtr(wtxn as *mut RwTxn<'a>);

        // several threads: at every instrumented atomic operation of the id generator a thread waits (up to 150 us) for
        // another thread to reach one too, then both go on together — the narrow windows between two atomic operations
        // of one requester are then actually visited by another one; a random yield on top
        if threads > 1 {
            arroy::verif::atomic::set_yield_hook(Some(std::sync::Arc::new(|_op| {
                use std::sync::atomic::AtomicU64;
                static ARRIVALS: AtomicU64 = AtomicU64::new(0);
                static JITTER: AtomicU64 = AtomicU64::new(0x9E37_79B9_7F4A_7C15);
                let n = ARRIVALS.fetch_add(1, Ordering::SeqCst);
                if n % 2 == 0 {
                    let t0 = std::time::Instant::now();
                    loop {
                        if ARRIVALS.load(Ordering::SeqCst) >= n + 2 {
                            break;
                        }
                        if t0.elapsed() > std::time::Duration::from_micros(150) {
                            // nobody came: close the pair alone
                            ARRIVALS.fetch_add(1, Ordering::SeqCst);
                            break;
                        }
                        std::hint::spin_loop();
                    }
                }
                let x = JITTER.fetch_add(0x9E37_79B9_7F4A_7C15, Ordering::Relaxed);
                let h = (x ^ (x >> 29)).wrapping_mul(0xBF58_476D_1CE4_E5B9);
                if h >> 62 == 0 {
                    std::thread::yield_now();
                }
            })));
        }
        arroy::verif::start_recording();
        let result = catch_unwind(AssertUnwindSafe(|| {
            pool.install(|| {
                let wtxn = wtxn;
                let wtxn: &mut RwTxn = unsafe { &mut *wtxn.0 };
                let mut builder = writer.builder(&mut rng);
                if let Some(n) = o.ntrees {
                    builder.n_trees(n);
                }
                if let Some(n) = o.split {
                    builder.split_after(n);
                }
                if let Some(n) = o.mem {
                    builder.available_memory(n);
                }
                builder.cancel(&cancel);
                builder.build(wtxn)
            })
        }));
        let events = arroy::verif::take_events();
        if threads > 1 {
            arroy::verif::atomic::set_yield_hook(None);
        }
        let polls = calls.load(Ordering::SeqCst);
        self.last_polls = polls;
        let hit = limit_hit.load(Ordering::SeqCst);
        if reuse && result.is_ok() {
            // the builder borrowed the writer: it is the long-lived writer again (not after a panic)
            self.writers.insert(cached_key, Box::new(writer));
        }
        let res = match result {
            Ok(Ok(())) => Ok(format!("ok polls={polls}")),
            Ok(Err(e)) => Err(Err(BuildFailure::Err(build_err_res(&e, polls)))),
            Err(payload) => Err(Err(BuildFailure::Panic(payload))),
        };
        (res, events, hit)
    }
}

/// The directory of the `tmpdir=readonly` fault: `<root>/ro`, mode 0555.
pub fn readonly_dir(case: &CaseEnv) -> PathBuf {
    use std::os::unix::fs::PermissionsExt;
    let dir = case.root_path.join("ro");
    let _ = std::fs::create_dir_all(&dir);
    let _ = std::fs::set_permissions(&dir, std::fs::Permissions::from_mode(0o555));
    dir
}

/// Whether a file can be created in the read-only directory anyway (running as root).
pub fn readonly_dir_is_writable(case: &CaseEnv) -> bool {
    let probe = readonly_dir(case).join("probe");
    match std::fs::File::create(&probe) {
        Ok(_) => {
            let _ = std::fs::remove_file(&probe);
            true
        }
        Err(_) => false,
    }
}

pub enum BuildFailure {
    Err(String),
    Panic(Box<dyn std::any::Any + Send>),
}

#[derive(Clone, Copy)]
struct SendPtr<T>(*mut T);
unsafe impl<T> Send for SendPtr<T> {}
unsafe impl<T> Sync for SendPtr<T> {}

fn fmt_get(v: Option<Vec<f32>>) -> String {
    match v {
        None => "ok none".to_string(),
        Some(v) => {
            let mut out = String::from("ok ");
            push_vec(&mut out, &v);
            out
        }
    }
}
