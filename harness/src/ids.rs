//! Scenario `ids` (C13): schedule-controlled runs of the real `arroy::ConcurrentNodeIds`.
//!
//! `arroy::verif::atomic::set_yield_hook` installs a function that every instrumented
//! atomic calls BEFORE it operates. Requester threads (one per `threads=`, each calling
//! `next()` `reqs=` times) block in that hook until the scheduler grants them a step; a
//! grant lets exactly one atomic operation of one thread proceed, and the scheduler waits
//! until that thread has reached its next yield point (or has finished all its requests)
//! before it grants the next step: the atomic operations are totally ordered by `sched`.
//!
//! Records, one `case` per configuration (`note ids config ... mode=exhaustive|sampled`):
//!
//! ```text
//! ids used=<ids> threads=<n> reqs=<r> sched=<t,t,t,...>
//! res <t>:<opname>[:<result>] ...        one entry per step; result = id=<n> | full on the
//!                                        step that completes a request
//! ```
//!
//! Exploration: stateless depth-first search over the choice points (the sets of threads
//! waiting at a yield point). When a configuration has more than `--max-schedules`
//! schedules it is *sampled* instead: all schedules with at most 3 preemptions (a
//! preemption = switching away from a thread that could have continued), at most half of
//! the cap, then uniformly random choices at every step up to the cap.

use std::cell::Cell;
use std::fmt::Write as _;
use std::io::Write;
use std::sync::atomic::{AtomicUsize, Ordering};
use std::sync::{Arc, Mutex};

use arroy::verif::atomic::set_yield_hook;
use arroy::ConcurrentNodeIds;
use roaring::RoaringBitmap;

use crate::profiles::Tier;
use crate::util::*;

const MAX_THREADS: usize = 4;

thread_local! {
    static REQUESTER: Cell<Option<usize>> = const { Cell::new(None) };
}

#[derive(Clone, Copy, PartialEq, Eq, Debug)]
enum St {
    Idle,
    Running,
    AtYield(&'static str),
    Done,
}

#[derive(Clone, Copy, Debug)]
enum Answer {
    Id(u32),
    Full,
    Other,
}

struct Job {
    ids: Arc<ConcurrentNodeIds>,
    reqs: usize,
}

struct State {
    status: [St; MAX_THREADS],
    log: Vec<(usize, &'static str, Option<Answer>)>,
    last_step: [Option<usize>; MAX_THREADS],
    job: [Option<Job>; MAX_THREADS],
    shutdown: bool,
}

const NONE: usize = usize::MAX;

/// The hand-over of a step spins on two atomics (a futex round trip per atomic operation
/// would dominate the run time); only the start of a schedule parks / unparks.
struct Shared {
    m: Mutex<State>,
    /// the thread granted the next step, or NONE
    turn: AtomicUsize,
    /// number of requester threads that are neither at a yield point nor finished
    pending: AtomicUsize,
}

fn spin_until(cond: impl Fn() -> bool) {
    let mut i = 0u32;
    while !cond() {
        i = i.wrapping_add(1);
        if i < 20_000 {
            std::hint::spin_loop();
        } else {
            std::thread::yield_now();
        }
    }
}

fn yield_point(sh: &Shared, op: &'static str) {
    let Some(t) = REQUESTER.with(|r| r.get()) else { return };
    sh.m.lock().unwrap().status[t] = St::AtYield(op);
    sh.pending.fetch_sub(1, Ordering::AcqRel);
    spin_until(|| sh.turn.load(Ordering::Acquire) == t);
    sh.turn.store(NONE, Ordering::Release);
    let mut g = sh.m.lock().unwrap();
    g.status[t] = St::Running;
    let step = g.log.len();
    g.log.push((t, op, None));
    g.last_step[t] = Some(step);
}

fn worker(sh: Arc<Shared>, t: usize) {
    REQUESTER.with(|r| r.set(Some(t)));
    loop {
        let job = loop {
            {
                let mut g = sh.m.lock().unwrap();
                if g.shutdown {
                    return;
                }
                if let Some(job) = g.job[t].take() {
                    break job;
                }
            }
            std::thread::park();
        };
        for _ in 0..job.reqs {
            let answer = match job.ids.next() {
                Ok(id) => Answer::Id(id),
                Err(arroy::Error::DatabaseFull) => Answer::Full,
                Err(_) => Answer::Other,
            };
            let mut g = sh.m.lock().unwrap();
            if let Some(step) = g.last_step[t] {
                g.log[step].2 = Some(answer);
            }
        }
        drop(job);
        sh.m.lock().unwrap().status[t] = St::Done;
        sh.pending.fetch_sub(1, Ordering::AcqRel);
    }
}

struct Run {
    sched: Vec<u8>,
    /// bit t set = thread t was waiting at a yield point at that step
    masks: Vec<u8>,
    log: Vec<(usize, &'static str, Option<Answer>)>,
}

struct Explorer {
    sh: Arc<Shared>,
    handles: Vec<std::thread::JoinHandle<()>>,
}

impl Explorer {
    fn new() -> Explorer {
        let sh = Arc::new(Shared {
            m: Mutex::new(State {
                status: [St::Idle; MAX_THREADS],
                log: Vec::new(),
                last_step: [None; MAX_THREADS],
                job: [None, None, None, None],
                shutdown: false,
            }),
            turn: AtomicUsize::new(NONE),
            pending: AtomicUsize::new(0),
        });
        let hook_sh = sh.clone();
        set_yield_hook(Some(Arc::new(move |op| yield_point(&hook_sh, op))));
        let handles = (0..MAX_THREADS)
            .map(|t| {
                let sh = sh.clone();
                std::thread::Builder::new()
                    .name(format!("requester-{t}"))
                    .spawn(move || worker(sh, t))
                    .expect("cannot spawn a requester thread")
            })
            .collect();
        Explorer { sh, handles }
    }

    /// Runs one schedule; `choose(step, candidates)` picks among the candidates, which are
    /// ordered: the thread of the previous step first (if it can continue), then ascending.
    fn run(
        &self,
        used: &RoaringBitmap,
        threads: usize,
        reqs: usize,
        choose: &mut dyn FnMut(usize, &[u8]) -> u8,
    ) -> Run {
        let ids = Arc::new(ConcurrentNodeIds::new(used.clone()));
        let sh = &*self.sh;
        sh.turn.store(NONE, Ordering::Release);
        sh.pending.store(threads, Ordering::Release);
        {
            let mut g = sh.m.lock().unwrap();
            g.log.clear();
            for t in 0..MAX_THREADS {
                g.last_step[t] = None;
                if t < threads {
                    g.status[t] = St::Running;
                    g.job[t] = Some(Job { ids: ids.clone(), reqs });
                } else {
                    g.status[t] = St::Idle;
                }
            }
        }
        for handle in &self.handles[..threads] {
            handle.thread().unpark();
        }
        let mut run = Run { sched: Vec::new(), masks: Vec::new(), log: Vec::new() };
        let mut candidates: Vec<u8> = Vec::with_capacity(MAX_THREADS);
        loop {
            spin_until(|| sh.pending.load(Ordering::Acquire) == 0);
            let mut mask = 0u8;
            {
                let g = sh.m.lock().unwrap();
                for t in 0..threads {
                    if matches!(g.status[t], St::AtYield(_)) {
                        mask |= 1 << t;
                    }
                }
            }
            if mask == 0 {
                break;
            }
            ordered_candidates(mask, run.sched.last().copied(), &mut candidates);
            let t = choose(run.sched.len(), &candidates);
            debug_assert!(mask & (1 << t) != 0);
            run.sched.push(t);
            run.masks.push(mask);
            sh.pending.fetch_add(1, Ordering::AcqRel);
            sh.turn.store(t as usize, Ordering::Release);
        }
        run.log = std::mem::take(&mut sh.m.lock().unwrap().log);
        run
    }
}

impl Drop for Explorer {
    fn drop(&mut self) {
        self.sh.m.lock().unwrap().shutdown = true;
        for h in self.handles.drain(..) {
            h.thread().unpark();
            let _ = h.join();
        }
        set_yield_hook(None);
    }
}

fn ordered_candidates(mask: u8, prev: Option<u8>, out: &mut Vec<u8>) {
    out.clear();
    if let Some(p) = prev {
        if mask & (1 << p) != 0 {
            out.push(p);
        }
    }
    for t in 0..MAX_THREADS as u8 {
        if mask & (1 << t) != 0 && Some(t) != prev {
            out.push(t);
        }
    }
}

/// Choosing `t` at a step whose previous thread `prev` could have continued.
fn is_preemption(mask: u8, prev: Option<u8>, t: u8) -> bool {
    match prev {
        Some(p) => p != t && mask & (1 << p) != 0,
        None => false,
    }
}

fn write_record(buf: &mut String, used: &[u32], threads: usize, reqs: usize, run: &Run) {
    buf.push_str("ids used=");
    push_ids(buf, used);
    let _ = write!(buf, " threads={threads} reqs={reqs} sched=");
    if run.sched.is_empty() {
        buf.push('-');
    }
    for (i, t) in run.sched.iter().enumerate() {
        if i > 0 {
            buf.push(',');
        }
        let _ = write!(buf, "{t}");
    }
    buf.push_str("\nres");
    for (t, op, answer) in &run.log {
        let _ = write!(buf, " {t}:{op}");
        match answer {
            None => {}
            Some(Answer::Id(id)) => {
                let _ = write!(buf, ":id={id}");
            }
            Some(Answer::Full) => buf.push_str(":full"),
            Some(Answer::Other) => buf.push_str(":error"),
        }
    }
    buf.push('\n');
}

/// Depth-first enumeration of the schedules with at most `max_preemptions` preemptions,
/// stopping after `cap` schedules. Returns (number of schedules written, complete?).
#[allow(clippy::too_many_arguments)]
fn dfs(
    ex: &Explorer,
    used_bitmap: &RoaringBitmap,
    used: &[u32],
    threads: usize,
    reqs: usize,
    max_preemptions: usize,
    cap: usize,
    buf: &mut String,
) -> (usize, bool) {
    let mut prefix: Vec<u8> = Vec::new();
    let mut count = 0usize;
    let mut candidates = Vec::with_capacity(MAX_THREADS);
    loop {
        if count >= cap {
            return (count, false);
        }
        let run = ex.run(used_bitmap, threads, reqs, &mut |step, cands| {
            if step < prefix.len() {
                prefix[step]
            } else {
                cands[0]
            }
        });
        write_record(buf, used, threads, reqs, &run);
        count += 1;
        // preemptions before each step
        let mut pre = Vec::with_capacity(run.sched.len() + 1);
        let mut acc = 0usize;
        for d in 0..run.sched.len() {
            pre.push(acc);
            let prev = if d > 0 { Some(run.sched[d - 1]) } else { None };
            if is_preemption(run.masks[d], prev, run.sched[d]) {
                acc += 1;
            }
        }
        // backtrack to the deepest step with an untried, admissible alternative
        let mut d = run.sched.len();
        let next = loop {
            if d == 0 {
                break None;
            }
            d -= 1;
            let prev = if d > 0 { Some(run.sched[d - 1]) } else { None };
            ordered_candidates(run.masks[d], prev, &mut candidates);
            let rank = candidates.iter().position(|t| *t == run.sched[d]).unwrap();
            let alt = candidates[rank + 1..].iter().copied().find(|t| {
                pre[d] + is_preemption(run.masks[d], prev, *t) as usize <= max_preemptions
            });
            if let Some(alt) = alt {
                break Some((d, alt));
            }
        };
        match next {
            None => return (count, true),
            Some((d, alt)) => {
                prefix.clear();
                prefix.extend_from_slice(&run.sched[..d]);
                prefix.push(alt);
            }
        }
    }
}

pub struct Config {
    pub used: Vec<u32>,
    pub threads: usize,
    pub reqs: usize,
    /// try the exhaustive enumeration first
    pub exhaustive: bool,
}

pub fn configs(tier: Tier) -> Vec<Config> {
    let mut out = Vec::new();
    let mut subsets: Vec<Vec<u32>> = Vec::new();
    for mask in 0u32..32 {
        subsets.push((0..5).filter(|b| mask & (1 << b) != 0).collect());
    }
    for (threads, reqs) in [(2, 1), (2, 2), (3, 1)] {
        for used in &subsets {
            out.push(Config { used: used.clone(), threads, reqs, exhaustive: true });
        }
    }
    // near the exhaustion of the recycled ids: 0,1,3,4,6,7,8 then the counter (10, 11, ...)
    for (threads, reqs) in [(2, 4), (3, 3), (4, 2)] {
        out.push(Config { used: vec![2, 5, 9], threads, reqs, exhaustive: false });
    }
    // a hole far from the end, and a used set that is not a prefix
    for (threads, reqs) in [(2, 2), (3, 1)] {
        out.push(Config { used: vec![0, 1, 2, 3, 5], threads, reqs, exhaustive: true });
        out.push(Config { used: vec![7], threads, reqs, exhaustive: true });
        out.push(Config { used: vec![1, 1000], threads, reqs, exhaustive: true });
    }
    if tier == Tier::Thorough {
        for (threads, reqs) in [(2, 3), (3, 2), (3, 3)] {
            for used in &subsets {
                out.push(Config { used: used.clone(), threads, reqs, exhaustive: false });
            }
        }
    }
    out
}

pub struct IdsStats {
    pub configs: usize,
    pub schedules: usize,
    pub exhaustive: usize,
}

pub fn run(
    seed: u64,
    tier: Tier,
    max_schedules: usize,
    out: &mut dyn Write,
) -> Result<IdsStats, String> {
    let mut r = Prng::new(seed);
    let ex = Explorer::new();
    let mut stats = IdsStats { configs: 0, schedules: 0, exhaustive: 0 };
    let mut buf = String::with_capacity(1 << 22);
    let w = |out: &mut dyn Write, s: &str| out.write_all(s.as_bytes()).map_err(|e| e.to_string());
    for (case, cfg) in configs(tier).into_iter().enumerate() {
        let used_bitmap: RoaringBitmap = cfg.used.iter().copied().collect();
        let header = |mode: &str, n: usize| {
            let mut h = format!("case {case} seed={seed} mapsize=0\n{}\nnote ids config used=", host_line());
            push_ids(&mut h, &cfg.used);
            let _ = writeln!(h, " threads={} reqs={} mode={mode} schedules={n}", cfg.threads, cfg.reqs);
            h
        };
        buf.clear();
        let mut done = false;
        if cfg.exhaustive {
            let (n, complete) =
                dfs(&ex, &used_bitmap, &cfg.used, cfg.threads, cfg.reqs, usize::MAX, max_schedules + 1, &mut buf);
            if complete {
                w(out, &header("exhaustive", n))?;
                w(out, &buf)?;
                stats.schedules += n;
                stats.exhaustive += 1;
                done = true;
            }
        }
        if !done {
            buf.clear();
            let (bounded, _) =
                dfs(&ex, &used_bitmap, &cfg.used, cfg.threads, cfg.reqs, 3, max_schedules / 2, &mut buf);
            let mut n = bounded;
            while n < max_schedules {
                let run = ex.run(&used_bitmap, cfg.threads, cfg.reqs, &mut |_, cands| *r.pick(cands));
                write_record(&mut buf, &cfg.used, cfg.threads, cfg.reqs, &run);
                n += 1;
            }
            w(out, &header("sampled", n))?;
            w(out, &buf)?;
            stats.schedules += n;
        }
        w(out, "endcase\n")?;
        stats.configs += 1;
    }
    Ok(stats)
}
