//! Scenario `kernels` (C11): every distance kernel on every length / byte offset / value
//! family, and the per-metric distances.
//!
//! Records (inside one `case 0 ... endcase`, after the `host` line):
//!
//! ```text
//! kern <name> <vecA> <vecB>          name in dot euclid dot_scalar euclid_scalar dot_sse euclid_sse dot_avx euclid_avx
//! res <8 hex digits: bits of the f32 result>
//! dist <metric> <dims> <vecA> <vecB>
//! res <bits of D::built_distance(p, q)> <bits of D::normalized_distance(built, dims)>
//! ```
//!
//! `kern`: the operands are handed to `arroy::verif::kernels::*` as the native-endian bytes
//! of the f32s, starting `off` bytes into a byte buffer (`off` in 0..=3, written in the
//! preceding `note kern len=<n> offA=<a> offB=<b> family=<f>` line), so the kernels see
//! unaligned data. Kernels the host does not have (`None`) are skipped.
//! `dist`: both leaves are `Leaf { header: D::new_header(&v), vector: v }` with
//! `v = UnalignedVector::<D::VectorCodec>::from_slice(..)`.
//!
//! quick tier: every length 1..=max_len; for each length every offset is used at least
//! once and every family at least once (3 000 pairs for max_len = 300); thorough tier: the
//! full product lengths x offsets x families, `--rounds` times with different values.

use std::io::Write;

use arroy::internals::{Leaf, UnalignedVector};
use arroy::Distance;

use crate::profiles::Tier;
use crate::util::*;
use crate::with_metric;

#[derive(Clone, Copy, Debug, PartialEq, Eq)]
pub enum KFamily {
    Generic,
    /// near-equal large values: the differences / the alternating products cancel
    Cancel,
    /// tiny and subnormal values: products underflow
    Tiny,
    /// huge values: squares overflow or nearly so
    Huge,
    /// signed zeros with a few other values
    Zeros,
    /// generic with a few NaN / inf
    NanInf,
}

pub const KFAMILIES: [KFamily; 6] =
    [KFamily::Generic, KFamily::Cancel, KFamily::Tiny, KFamily::Huge, KFamily::Zeros, KFamily::NanInf];

pub fn gen_pair(r: &mut Prng, fam: KFamily, len: usize) -> (Vec<f32>, Vec<f32>) {
    let mut a = Vec::with_capacity(len);
    let mut b = Vec::with_capacity(len);
    for i in 0..len {
        let (x, y) = match fam {
            KFamily::Generic => (r.unit(), r.unit()),
            KFamily::Cancel => {
                let base = (1.0 + r.unit().abs()) * *r.pick(&[1.0f32, 1.0e3, 1.0e6, 16777216.0]);
                let x = if i % 2 == 0 { base } else { -base };
                // y within a few ulps of |x|: x - y cancels, x*y alternates in sign
                let delta = r.range(0, 6) as i64 - 3;
                let y = f32::from_bits((base.to_bits() as i64 + delta) as u32);
                (x, y)
            }
            KFamily::Tiny => {
                let t = |r: &mut Prng| -> f32 {
                    let sign = if r.chance(0.5) { 0x8000_0000u32 } else { 0 };
                    let bits = match r.below(4) {
                        0 => r.range(1, 0x007f_ffff) as u32,           // subnormal
                        1 => r.range(0x0080_0000, 0x0100_0000) as u32, // smallest normals
                        2 => r.range(0x1f00_0000, 0x2080_0000) as u32, // ~1e-20: squares are subnormal
                        _ => r.range(0x0080_0000, 0x2000_0000) as u32,
                    };
                    f32::from_bits(sign | bits)
                };
                (t(r), t(r))
            }
            KFamily::Huge => {
                let t = |r: &mut Prng| -> f32 {
                    let sign = if r.chance(0.5) { 0x8000_0000u32 } else { 0 };
                    let bits = match r.below(4) {
                        0 => 0x7f7f_ffff,                              // f32::MAX
                        1 => r.range(0x5f00_0000, 0x5f80_0000) as u32, // ~1e19: squares around MAX
                        2 => r.range(0x7e00_0000, 0x7f7f_ffff) as u32,
                        _ => r.range(0x5d00_0000, 0x6000_0000) as u32,
                    };
                    f32::from_bits(sign | bits)
                };
                (t(r), t(r))
            }
            KFamily::Zeros => {
                let t = |r: &mut Prng| -> f32 {
                    match r.below(6) {
                        0 => r.unit(),
                        1 | 2 => -0.0,
                        _ => 0.0,
                    }
                };
                (t(r), t(r))
            }
            KFamily::NanInf => {
                let t = |r: &mut Prng| -> f32 {
                    if r.chance(0.08) {
                        f32::from_bits(*r.pick(&[
                            0x7fc0_0000u32,
                            0xffc0_0000,
                            0x7f80_0001,
                            0x7fc1_2345,
                            0x7f80_0000,
                            0xff80_0000,
                        ]))
                    } else {
                        r.unit()
                    }
                };
                (t(r), t(r))
            }
        };
        a.push(x);
        b.push(y);
    }
    (a, b)
}

/// The f32s as bytes, `off` bytes into a buffer: the returned range is unaligned for
/// `off % 4 != 0`.
fn unaligned(v: &[f32], off: usize) -> (Vec<u8>, std::ops::Range<usize>) {
    // over-allocate so that whatever the allocation's own alignment, `off` is relative
    // to a 16-byte boundary
    let mut buf = vec![0xa5u8; v.len() * 4 + off + 32];
    let base = buf.as_ptr() as usize;
    let start = ((base + 15) & !15) - base + off;
    for (i, x) in v.iter().enumerate() {
        buf[start + 4 * i..start + 4 * i + 4].copy_from_slice(&x.to_ne_bytes());
    }
    (buf, start..start + 4 * v.len())
}

fn kern_records(out: &mut String, a: &[f32], b: &[f32], off_a: usize, off_b: usize) {
    use arroy::verif::kernels as k;
    let (buf_a, ra) = unaligned(a, off_a);
    let (buf_b, rb) = unaligned(b, off_b);
    let (ua, ub) = (&buf_a[ra], &buf_b[rb]);
    let mut va = String::new();
    push_vec(&mut va, a);
    let mut vb = String::new();
    push_vec(&mut vb, b);
    let mut rec = |name: &str, value: Option<f32>| {
        if let Some(value) = value {
            out.push_str("kern ");
            out.push_str(name);
            out.push(' ');
            out.push_str(&va);
            out.push(' ');
            out.push_str(&vb);
            out.push_str("\nres ");
            push_bits(out, value.to_bits());
            out.push('\n');
        }
    };
    rec("dot", Some(k::dot(ua, ub)));
    rec("euclid", Some(k::euclid(ua, ub)));
    rec("dot_scalar", Some(k::dot_scalar(ua, ub)));
    rec("euclid_scalar", Some(k::euclid_scalar(ua, ub)));
    #[cfg(target_arch = "x86_64")]
    {
        rec("dot_sse", k::dot_sse(ua, ub));
        rec("euclid_sse", k::euclid_sse(ua, ub));
        rec("dot_avx", k::dot_avx(ua, ub));
        rec("euclid_avx", k::euclid_avx(ua, ub));
    }
}

fn dist_of<D: Distance>(a: &[f32], b: &[f32]) -> (f32, f32) {
    let va = UnalignedVector::<D::VectorCodec>::from_slice(a);
    let vb = UnalignedVector::<D::VectorCodec>::from_slice(b);
    let p: Leaf<D> = Leaf { header: D::new_header(&va), vector: va };
    let q: Leaf<D> = Leaf { header: D::new_header(&vb), vector: vb };
    let built = D::built_distance(&p, &q);
    (built, D::normalized_distance(built, a.len()))
}

fn bq_dist_records(out: &mut String, a: &[f32], b: &[f32]) {
    let mut va = String::new();
    push_vec(&mut va, a);
    let mut vb = String::new();
    push_vec(&mut vb, b);
    for m in Metric::BQ {
        let (built, norm) = with_metric!(m, D => dist_of::<D>(a, b));
        out.push_str(&format!("dist {} {} {} {}\nres ", m.name(), a.len(), va, vb));
        push_bits(out, built.to_bits());
        out.push(' ');
        push_bits(out, norm.to_bits());
        out.push('\n');
    }
}

fn dist_records(out: &mut String, a: &[f32], b: &[f32]) {
    let mut va = String::new();
    push_vec(&mut va, a);
    let mut vb = String::new();
    push_vec(&mut vb, b);
    for m in Metric::ALL {
        let (built, norm) = with_metric!(m, D => dist_of::<D>(a, b));
        out.push_str("dist ");
        out.push_str(m.name());
        out.push_str(&format!(" {} ", a.len()));
        out.push_str(&va);
        out.push(' ');
        out.push_str(&vb);
        out.push_str("\nres ");
        push_bits(out, built.to_bits());
        out.push(' ');
        push_bits(out, norm.to_bits());
        out.push('\n');
    }
}

pub fn run(
    seed: u64,
    tier: Tier,
    max_len: usize,
    bq_max_len: usize,
    rounds: usize,
    out: &mut dyn Write,
) -> Result<(), String> {
    let mut r = Prng::new(seed);
    let w = |out: &mut dyn Write, s: &str| out.write_all(s.as_bytes()).map_err(|e| e.to_string());
    w(out, &format!("case 0 seed={seed} mapsize=0\n{}\n", host_line()))?;
    let mut buf = String::with_capacity(1 << 20);
    for round in 0..rounds.max(1) {
        for len in 1..=max_len {
            let mut combos: Vec<(usize, KFamily)> = Vec::new();
            match tier {
                Tier::Thorough => {
                    for off in 0..4 {
                        for fam in KFAMILIES {
                            combos.push((off, fam));
                        }
                    }
                }
                Tier::Quick => {
                    for off in 0..4 {
                        combos.push((off, KFAMILIES[(len + off + round) % 6]));
                    }
                    for (f, fam) in KFAMILIES.iter().enumerate() {
                        combos.push(((len + f + round) % 4, *fam));
                    }
                }
            }
            for (off, fam) in combos {
                let (a, b) = gen_pair(&mut r, fam, len);
                // B is not at the same offset as A every other length
                let off_b = if len % 2 == 0 { off } else { (off + 1 + len / 2) % 4 };
                buf.push_str(&format!("note kern len={len} offA={off} offB={off_b} family={fam:?}\n"));
                kern_records(&mut buf, &a, &b, off, off_b);
            }
            w(out, &buf)?;
            buf.clear();
        }
        // the distances of the seven metrics
        let dims: Vec<usize> = (1..=max_len)
            .filter(|d| {
                *d <= 40 || d % 16 <= 1 || d % 16 == 15 || *d == max_len || (tier == Tier::Thorough)
            })
            .collect();
        for d in dims {
            for fam in KFAMILIES {
                let (a, b) = gen_pair(&mut r, fam, d);
                dist_records(&mut buf, &a, &b);
                // the same pair the other way round: the driver checks the symmetry of the reported values
                dist_records(&mut buf, &b, &a);
                // a vector against itself, and against its opposite
                if fam == KFamily::Generic || fam == KFamily::Huge || fam == KFamily::Zeros || fam == KFamily::Cancel {
                    dist_records(&mut buf, &a, &a);
                    let neg: Vec<f32> = a.iter().map(|x| -x).collect();
                    dist_records(&mut buf, &a, &neg);
                }
            }
            w(out, &buf)?;
            buf.clear();
        }
    }
    // the quantised metrics at EVERY dimension 1..=max_len (all remainders modulo 8 and 64, every word count):
    // a pair, the swapped pair, and a vector against itself
    for round in 0..rounds.max(1) {
        for d in 1..=bq_max_len {
            let fam = if (d + round) % 3 == 0 { KFamily::Zeros } else { KFamily::Generic };
            let (a, b) = gen_pair(&mut r, fam, d);
            for (x, y) in [(&a, &b), (&b, &a), (&a, &a)] {
                bq_dist_records(&mut buf, x, y);
            }
            w(out, &buf)?;
            buf.clear();
        }
    }
    w(out, "endcase\n")
}
