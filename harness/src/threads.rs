//! Scenario `threads` (C08): one writer, several readers on the same environment.
//!
//! The writer (this thread) executes a generated history (profile `c08`: every transaction
//! ends with the builds of all its indexes, so every committed version is built; 10-30
//! commits; some aborted transactions) and writes the usual records, with a `dump` after
//! every commit and every abort. Meanwhile 1-8 reader threads repeatedly open a read
//! transaction and observe through it; their observations are buffered and written after
//! the writer's last record, before `endcase`:
//!
//! ```text
//! snapshot rid=<reader txn number> lo=<n> hi=<n> index=<i> open=<ok ntrees=.. nitems=.. dims=..|err ...>
//! kv <hexkey> <hexvalue> ...
//! endsnapshot
//! ```
//!
//! * `lo` = number of commits that had RETURNED before the read transaction was opened,
//! * `hi` = number of commits that had been STARTED once it was open (the writer bumps one
//!   counter right before calling commit and another right after it returned; a failed commit
//!   takes its start back). The version `v` seen by the transaction (number of commits it
//!   contains) therefore satisfies `lo <= v <= hi`. (PROTOCOL.md says "completed" for both;
//!   with the completed counter alone the sound upper bound would be `hi + 1`.)
//! * several records with the same `rid` = the same read transaction observed again later
//!   (after a random sleep / yield): they must be identical.
//!
//! Barrier readers: at random points (after an op inside a write transaction, or inside the
//! cancellation callback of a build) the writer asks for a reader and waits until one has
//! opened its transaction: those snapshots are taken in the middle of write transactions and
//! of builds. The other readers run freely.

use std::io::Write;
use std::panic::{catch_unwind, AssertUnwindSafe};
use std::sync::atomic::{AtomicBool, AtomicI64, AtomicU64, AtomicUsize, Ordering};
use std::sync::{Arc, Condvar, Mutex};
use std::time::Duration;

use arroy::internals::NodeCodec;
use arroy::{Distance, Reader};
use heed::types::Bytes;

use crate::exec::*;
use crate::gen::{self, Overrides, Profile};
use crate::util::*;
use crate::with_metric;

#[derive(Default)]
struct Bar {
    requests: u64,
    taken: u64,
    served: u64,
}

struct Shared {
    commits_started: AtomicUsize,
    commits_done: AtomicUsize,
    stop: AtomicBool,
    rid: AtomicUsize,
    /// remaining number of snapshot records of the case
    budget: AtomicI64,
    ws: Mutex<Vec<W>>,
    bar: Mutex<Bar>,
    bar_cv: Condvar,
    barrier_readers: usize,
    records: Mutex<Vec<(usize, usize, String)>>,
    /// cheap shared randomness for the poll hook
    lcg: AtomicU64,
    rendezvous_in_build: AtomicUsize,
}

impl Shared {
    fn coin(&self, one_in: u64) -> bool {
        let x = self.lcg.fetch_add(0x9e37_79b9_7f4a_7c15, Ordering::Relaxed);
        let mut z = x;
        z = (z ^ (z >> 30)).wrapping_mul(0xbf58_476d_1ce4_e5b9);
        z = (z ^ (z >> 27)).wrapping_mul(0x94d0_49bb_1331_11eb);
        (z ^ (z >> 31)) % one_in == 0
    }

    /// The writer asks for a barrier reader and waits until it has opened its transaction.
    fn rendezvous(&self) {
        if self.barrier_readers == 0 {
            return;
        }
        let mut bar = self.bar.lock().unwrap();
        bar.requests += 1;
        let ticket = bar.requests;
        self.bar_cv.notify_all();
        while bar.served < ticket && !self.stop.load(Ordering::SeqCst) {
            let (b, timeout) = self.bar_cv.wait_timeout(bar, Duration::from_secs(2)).unwrap();
            bar = b;
            if timeout.timed_out() {
                break;
            }
        }
    }
}

fn open_text<D: Distance>(env: &CaseEnv, rtxn: &heed::RoTxn, index: u16) -> String {
    let db = env.db.remap_data_type::<NodeCodec<D>>();
    match Reader::<D>::open(rtxn, index, db) {
        Ok(r) => format!("ok ntrees={} nitems={} dims={}", r.n_trees(), r.n_items(), r.dimensions()),
        Err(e) => err_res(&e),
    }
}

/// One observation through `rtxn`: the `snapshot` record.
fn observe(env: &CaseEnv, rtxn: &heed::RoTxn, rid: usize, lo: usize, hi: usize, w: W) -> String {
    let text = catch_unwind(AssertUnwindSafe(|| {
        let open = with_metric!(w.metric, D => open_text::<D>(env, rtxn, w.index));
        let mut rec = format!("snapshot rid={rid} lo={lo} hi={hi} index={} open={open}\n", w.index);
        match env.db.remap_types::<Bytes, Bytes>().iter(rtxn) {
            Ok(iter) => {
                for entry in iter {
                    match entry {
                        Ok((k, v)) => {
                            rec.push_str("kv ");
                            push_hex(&mut rec, k);
                            rec.push(' ');
                            push_hex(&mut rec, v);
                            rec.push('\n');
                        }
                        Err(e) => {
                            rec.push_str(&format!("note snapshot read error: {}\n", one_line(&e.to_string())));
                            break;
                        }
                    }
                }
            }
            Err(e) => rec.push_str(&format!("note snapshot read error: {}\n", one_line(&e.to_string()))),
        }
        rec.push_str("endsnapshot\n");
        rec
    }));
    text.unwrap_or_else(|_| {
        format!("snapshot rid={rid} lo={lo} hi={hi} index={} open=panic\nendsnapshot\n", w.index)
    })
}

fn reader(env: &CaseEnv, sh: &Shared, number: usize, barrier: bool, seed: u64) {
    let mut r = Prng::new(seed ^ (number as u64 + 1).wrapping_mul(0xa076_1d64_78bd_642f));
    loop {
        let mut ticket = None;
        if barrier {
            let mut bar = sh.bar.lock().unwrap();
            while bar.requests <= bar.taken && !sh.stop.load(Ordering::SeqCst) {
                bar = sh.bar_cv.wait_timeout(bar, Duration::from_millis(50)).unwrap().0;
            }
            if sh.stop.load(Ordering::SeqCst) {
                return;
            }
            bar.taken += 1;
            ticket = Some(bar.taken);
        } else {
            if sh.stop.load(Ordering::SeqCst) {
                return;
            }
            match r.below(4) {
                0 => std::thread::yield_now(),
                _ => std::thread::sleep(Duration::from_micros(r.range(0, 3000))),
            }
        }
        let lo = sh.commits_done.load(Ordering::SeqCst);
        let rtxn = env.env.read_txn();
        let hi = sh.commits_started.load(Ordering::SeqCst);
        if let Some(ticket) = ticket {
            let mut bar = sh.bar.lock().unwrap();
            bar.served = bar.served.max(ticket);
            sh.bar_cv.notify_all();
        }
        let Ok(rtxn) = rtxn else { continue };
        let w = {
            let ws = sh.ws.lock().unwrap();
            if ws.is_empty() {
                continue;
            }
            *r.pick(&ws)
        };
        if sh.budget.fetch_sub(1, Ordering::SeqCst) <= 0 {
            continue;
        }
        let rid = sh.rid.fetch_add(1, Ordering::SeqCst);
        let first = observe(env, &rtxn, rid, lo, hi, w);
        sh.records.lock().unwrap().push((rid, 0, first));
        if r.chance(0.5) && sh.budget.fetch_sub(1, Ordering::SeqCst) > 0 {
            match r.below(3) {
                0 => std::thread::yield_now(),
                _ => std::thread::sleep(Duration::from_micros(r.range(0, 4000))),
            }
            let second = observe(env, &rtxn, rid, lo, hi, w);
            sh.records.lock().unwrap().push((rid, 1, second));
        }
    }
}

pub struct ThreadsStats {
    pub steps: usize,
    pub snapshots: usize,
    pub commits: usize,
    pub panicked: bool,
}

pub fn run_case(
    p: &Profile,
    case: u64,
    seed: u64,
    overrides: &Overrides,
    max_snapshots: usize,
    out: &mut dyn Write,
) -> Result<ThreadsStats, String> {
    let (r, mapsize) = gen::plan(p, seed, overrides);
    let env = CaseEnv::new(mapsize)?;
    let mut cr = Prng::new(seed ^ 0x7468_7265_6164_7321);
    let readers = cr.urange(1, 8);
    let barrier_readers = if readers == 1 { cr.urange(0, 1) } else { cr.urange(1, readers / 2) };
    let sh = Arc::new(Shared {
        commits_started: AtomicUsize::new(0),
        commits_done: AtomicUsize::new(0),
        stop: AtomicBool::new(false),
        rid: AtomicUsize::new(0),
        budget: AtomicI64::new(max_snapshots as i64),
        ws: Mutex::new(Vec::new()),
        bar: Mutex::new(Bar::default()),
        bar_cv: Condvar::new(),
        barrier_readers,
        records: Mutex::new(Vec::new()),
        lcg: AtomicU64::new(cr.next_u64()),
        rendezvous_in_build: AtomicUsize::new(0),
    });
    let _ = writeln!(out, "case {case} seed={seed} mapsize={mapsize}");
    let _ = writeln!(out, "{}", host_line());
    let _ = writeln!(out, "note threads readers={readers} barrier={barrier_readers}");
    let stats = std::thread::scope(|scope| {
        for n in 0..readers {
            let (env, sh) = (&env, &*sh);
            scope.spawn(move || reader(env, sh, n, n < barrier_readers, seed));
        }
        let mut ex = Executor::new(&env, out);
        let hook_sh = sh.clone();
        let mut in_txn = false;
        let mut hr = Prng::new(cr.next_u64());
        ex.op_hook = Some(Box::new(move |ev| match ev {
            HookEvent::Before(Op::Commit) => {
                hook_sh.commits_started.fetch_add(1, Ordering::SeqCst);
            }
            HookEvent::Before(Op::Build(..)) => {
                hook_sh.rendezvous_in_build.store(0, Ordering::SeqCst);
            }
            HookEvent::After(Op::Commit, o) => {
                in_txn = false;
                if o == Outcome::Ok {
                    hook_sh.commits_done.fetch_add(1, Ordering::SeqCst);
                } else {
                    hook_sh.commits_started.fetch_sub(1, Ordering::SeqCst);
                }
            }
            HookEvent::After(Op::Begin, Outcome::Ok) => in_txn = true,
            HookEvent::After(Op::Abort, _) => in_txn = false,
            HookEvent::After(
                Op::Add(..) | Op::Append(..) | Op::Del(..) | Op::Clear(..) | Op::Build(..),
                _,
            ) if in_txn && hr.chance(0.12) => hook_sh.rendezvous(),
            _ => {}
        }));
        let poll_sh = sh.clone();
        ex.poll_hook = Some(Arc::new(move |_n| {
            if poll_sh.coin(48) && poll_sh.rendezvous_in_build.fetch_add(1, Ordering::SeqCst) < 2 {
                poll_sh.rendezvous();
            }
        }));
        let ready_sh = sh.clone();
        let stats = gen::drive(p, r, case, overrides, &mut ex, &mut |ws| {
            *ready_sh.ws.lock().unwrap() = ws.to_vec();
        });
        drop(ex);
        sh.stop.store(true, Ordering::SeqCst);
        sh.bar_cv.notify_all();
        stats
    });
    let mut records = std::mem::take(&mut *sh.records.lock().unwrap());
    records.sort_by_key(|(rid, seq, _)| (*rid, *seq));
    for (_, _, text) in &records {
        let _ = out.write_all(text.as_bytes());
    }
    let _ = writeln!(out, "endcase");
    Ok(ThreadsStats {
        steps: stats.steps,
        snapshots: records.len(),
        commits: sh.commits_done.load(Ordering::SeqCst),
        panicked: stats.panicked,
    })
}
