//! The named profiles `c01` ... `c20` (one per property of /verif/DESIGN.md, section 8,
//! "Bounds and cost"). Pure data: tune here.

use crate::gen::IntDist::{Const, Mix, OneOf, Range};
use crate::gen::*;
use crate::util::Metric;

#[derive(Clone, Copy, Debug, PartialEq, Eq)]
pub enum Tier {
    Quick,
    Thorough,
}

impl Tier {
    pub fn parse(s: &str) -> Option<Tier> {
        match s {
            "quick" => Some(Tier::Quick),
            "thorough" => Some(Tier::Thorough),
            _ => None,
        }
    }
}

pub const NAMES: [&str; 24] = [
    "c10map", "base", "c01", "c02", "c03", "c04", "c05", "c06", "c07", "c08", "c09", "c10", "c11", "c12",
    "c13", "c14", "c14inc", "c14first", "c15", "c16", "c17", "c18", "c19", "c20",
];

fn all_metrics() -> Vec<(u32, Metric)> {
    Metric::ALL.iter().map(|m| (1, *m)).collect()
}

const MIB: u64 = 1024 * 1024;

/// The generic history profile every other one is derived from.
pub fn base(tier: Tier) -> Profile {
    let q = tier == Tier::Quick;
    Profile {
        name: "base".into(),
        default_cases: if q { 300 } else { 5000 },
        mapsize: Const(256 * MIB),
        poll_limit: None,

        metrics: all_metrics(),
        dims: if q {
            Range(1, 8)
        } else {
            Mix(vec![(4, Range(1, 8)), (2, Range(9, 40)), (1, Range(41, 130))])
        },
        n_indexes: Mix(vec![(6, Const(1)), (2, Const(2)), (1, Const(3))]),
        index_sets: vec![
            (5, vec![0]),
            (1, vec![1]),
            (1, vec![255]),
            (1, vec![256]),
            (1, vec![65535]),
            (3, vec![0, 1]),
            (3, vec![0, 65535]),
            (3, vec![65534, 65535]),
            (1, vec![255, 256]),
            (2, vec![0, 1, 2]),
            (2, vec![0, 1, 65535]),
            (2, vec![0, 65534, 65535]),
        ],
        p_random_indexes: 0.15,
        p_same_config: 0.5,

        rounds: if q { Range(1, 6) } else { Range(1, 8) },
        first_items: if q {
            Mix(vec![(1, Range(0, 3)), (5, Range(0, 60))])
        } else {
            Mix(vec![(1, Range(0, 3)), (6, Range(0, 60)), (3, Range(60, 400)), (1, Range(400, 900))])
        },
        updates: if q { Range(0, 20) } else { Mix(vec![(5, Range(0, 20)), (2, Range(20, 200))]) },
        p_cap_boundary: 0.25,
        p_wipe_round: 0.05,

        id_styles: vec![(5, IdStyle::Dense), (2, IdStyle::Sparse), (2, IdStyle::Boundary)],
        p_id_mix: 0.1,
        dense_span_factor: 1.5,
        dense_offset: 0,
        families: vec![
            (8, Family::Generic),
            (2, Family::Duplicates),
            (1, Family::Collinear),
            (2, Family::Ternary),
            (1, Family::HugeTiny),
            (1, Family::NanInf),
            (1, Family::Zero),
        ],
        p_family_mix: 0.1,

        first_ops: OpMix {
            add: 60,
            overwrite: 6,
            append_ok: 6,
            append_bad: 2,
            del_present: 6,
            del_absent: 2,
            clear: 0,
            wrong_dim: 1,
        },
        later_ops: OpMix {
            add: 30,
            overwrite: 15,
            append_ok: 5,
            append_bad: 2,
            del_present: 30,
            del_absent: 4,
            clear: 1,
            wrong_dim: 1,
        },
        malformed_rate: 0.01,

        ntrees: vec![(3, None), (4, Some(Range(1, 5))), (2, Some(Range(6, 20)))],
        split: vec![(4, None), (3, Some(Range(1, 8))), (2, Some(Range(9, 50)))],
        mem: vec![
            (6, MemChoice::Unset),
            (1, MemChoice::Zero),
            (1, MemChoice::Page),
            (1, MemChoice::Items),
            (1, MemChoice::HalfItems),
            (1, MemChoice::Huge),
        ],
        threads: vec![(1, Const(1))],
        p_cancel: 0.0,
        p_retry_in_txn: 0.0,
        p_build_all: 0.3,
        p_skip_build: 0.05,
        p_rebuild: 0.1,
        p_commit_before_build: 0.1,
        after_round: AfterRound { keep: 4, commit: 4, abort: 1 },
        p_swap_round: 0.0,
        round_kinds: Vec::new(),
        round_plans: Vec::new(),
        p_prepare: 0.0,
        p_quiet_after_prepare: 0.0,
        p_prepare_after_failed: 0.0,
        p_clear_after_prepare: 0.0,
        prepare_targets: all_metrics(),

        queries: Range(1, 4),
        p_exhaustive: 0.4,
        self_lookups: 0,
        read_rate: 0.1,
        reads_burst: Range(1, 2),
        p_wrong_w: 0.05,
        check_every_op: false,
        dump_every_op: false,
        full_readback: false,
        interleave: true,
        grid: None,
        empty_prepare: 0.0,
        probes: 0,
        probes_all: !q,
        end_on_mapfull: false,
        crash_mode: false,
    }
}

/// Small histories, for the profiles that observe a lot after every op.
fn small(p: &mut Profile, tier: Tier) {
    let q = tier == Tier::Quick;
    p.first_items = if q { Range(0, 24) } else { Mix(vec![(4, Range(0, 24)), (1, Range(25, 120))]) };
    p.updates = Range(0, 12);
    p.rounds = if q { Range(1, 4) } else { Range(1, 8) };
}

pub fn profile(name: &str, tier: Tier) -> Option<Profile> {
    let q = tier == Tier::Quick;
    let mut p = base(tier);
    p.name = name.to_string();
    match name {
        "base" => {}
        // every tree covers exactly the live items
        "c01" => {
            p.default_cases = if q { 350 } else { 5000 };
            p.threads = if q {
                vec![(6, Const(1)), (1, Range(2, 8))]
            } else {
                vec![(3, Const(1)), (2, Range(2, 16))]
            };
            p.probes = 10;
            p.p_swap_round = 0.1;
        }
        // unlimited budget = exact neighbours
        "c02" => {
            p.queries = if q { Range(3, 4) } else { Range(18, 22) };
            p.p_exhaustive = 0.9;
            p.threads = if q { vec![(1, Const(1))] } else { vec![(3, Const(1)), (1, Range(2, 16))] };
            // exact search after a change of metric too (the headers are recomputed from the stored vectors)
            p.p_prepare = 0.15;
        }
        // any budget, filtered
        "c03" => {
            p.default_cases = if q { 100 } else { 1000 };
            p.queries = if q { Range(30, 50) } else { Range(80, 120) };
            p.p_exhaustive = 0.15;
            p.rounds = Range(1, 3);
            p.p_prepare = 0.15;
            if !q {
                // a hundred queries per built state: the model's traversal is quadratic in the queue length
                p.first_items = Mix(vec![(1, Range(0, 3)), (6, Range(0, 60)), (2, Range(60, 250))]);
            }
        }
        // a stored vector is routed to itself
        "c04" => {
            p.default_cases = if q { 150 } else { 2000 };
            p.self_lookups = if q { 200 } else { 600 };
            if !q {
                p.first_items = Mix(vec![(1, Range(0, 3)), (6, Range(0, 60)), (3, Range(60, 400))]);
            }
            p.queries = Range(0, 1);
            p.families.push((2, Family::Cluster));
            if !q {
                p.families.push((6, Family::Duplicates));
            }
        }
        // the item store returns what was last written
        "c05" => {
            p.default_cases = if q { 300 } else { 3000 };
            small(&mut p, tier);
            p.dims = Mix(vec![
                (4, Range(1, 8)),
                (2, Range(9, 40)),
                (1, Range(41, 130)),
                (1, OneOf(vec![63, 64, 65, 127, 128, 129, 130])),
            ]);
            p.families = vec![
                (3, Family::Generic),
                (4, Family::Bits),
                (2, Family::HugeTiny),
                (2, Family::NanInf),
                (1, Family::Zero),
                (1, Family::Ternary),
                (1, Family::Duplicates),
            ];
            p.p_family_mix = 0.3;
            p.read_rate = 1.0;
            p.reads_burst = Range(2, 4);
            p.full_readback = true;
            p.queries = Range(0, 1);
            p.later_ops.overwrite = 30;
            p.probes = 35;
            // the capacity boundary (up to 2 x dimension + 1 items) belongs to C15: with 130 dimensions it only makes the cases big
            p.p_cap_boundary = 0.0;
            // the id set a reader reports after a build that changed the items but not their number
            p.p_swap_round = 0.3;
            // a change of metric, sometimes followed at once by `clear` (an index without metadata and without marks)
            p.p_prepare = 0.15;
            p.p_clear_after_prepare = 0.3;
            p.after_round =
                if q { AfterRound { keep: 3, commit: 4, abort: 1 } } else { AfterRound { keep: 1, commit: 6, abort: 2 } };
        }
        // a stale or never-built index is never served
        "c06" => {
            p.default_cases = if q { 300 } else { 3000 };
            small(&mut p, tier);
            p.check_every_op = true;
            p.n_indexes = Mix(vec![(3, Const(1)), (3, Const(2)), (2, Const(3))]);
            p.p_skip_build = 0.25;
            p.p_commit_before_build = 0.3;
            p.read_rate = 0.3;
            p.p_wrong_w = 0.15;
            p.malformed_rate = 0.1;
            p.later_ops.del_absent = 15;
            p.later_ops.clear = 3;
            p.queries = Range(0, 1);
            p.probes = 80;
            p.after_round = AfterRound { keep: 2, commit: 5, abort: 2 };
            // "opened under another metric than it was built with": metric changes, also of indexes holding no item
            p.p_prepare = 0.12;
            p.p_quiet_after_prepare = 0.3;
            p.empty_prepare = 0.25;
        }
        // indexes never affect each other
        "c07" => {
            p.default_cases = if q { 150 } else { 1500 };
            small(&mut p, tier);
            p.n_indexes = Mix(vec![(1, Const(2)), (1, Const(3))]);
            p.p_random_indexes = if q { 0.15 } else { 0.5 };
            p.p_same_config = 0.6;
            p.dump_every_op = true;
            // "changing its metric" is one of the ops that must not touch the other indexes
            p.p_prepare = 0.3;
            p.empty_prepare = 0.3;
            p.probes = 10;
            p.later_ops.clear = 4;
            p.p_build_all = 0.2;
            p.queries = Range(1, 2);
        }
        // atomic writers, snapshot readers / crash safety: commit-heavy histories (the
        // threaded and kill-and-reopen drivers are separate scenarios)
        "c08" => {
            // the writer of the `threads` scenario: every committed version is built
            p.default_cases = if q { 20 } else { 200 };
            small(&mut p, tier);
            p.n_indexes = Mix(vec![(2, Const(1)), (1, Const(2))]);
            p.p_same_config = 0.7;
            p.rounds = Range(10, 30);
            p.first_items = Range(3, 24);
            p.updates = Range(1, 10);
            p.after_round = AfterRound { keep: 0, commit: 8, abort: 2 };
            p.p_skip_build = 0.0;
            p.p_build_all = 1.0;
            p.p_commit_before_build = 0.0;
            p.p_rebuild = 0.05;
            p.p_wipe_round = 0.03;
            p.malformed_rate = 0.0;
            p.queries = Range(0, 1);
            p.read_rate = 0.02;
            p.p_wrong_w = 0.0;
            p.mem = vec![(1, MemChoice::Unset)];
        }
        "c09" => {
            // the history of a `crash` child: committed built versions, then the final
            // transaction (updates, builds, `note committing`, commit)
            p.default_cases = if q { 4 } else { 40 };
            small(&mut p, tier);
            p.crash_mode = true;
            p.n_indexes = Mix(vec![(2, Const(1)), (1, Const(2))]);
            p.p_same_config = 0.7;
            p.rounds = Range(2, 4);
            p.first_items = Range(5, 40);
            p.updates = Range(3, 20);
            p.after_round = AfterRound { keep: 0, commit: 1, abort: 0 };
            p.p_skip_build = 0.0;
            p.p_build_all = 1.0;
            p.p_commit_before_build = 0.0;
            p.p_rebuild = 0.0;
            p.p_wipe_round = 0.0;
            p.malformed_rate = 0.0;
            p.queries = Range(0, 1);
            p.read_rate = 0.0;
            p.p_wrong_w = 0.0;
            p.mem = vec![(1, MemChoice::Unset)];
            p.later_ops.clear = 0;
        }
        // failed or cancelled builds report it and roll back
        "c10" => {
            p.default_cases = if q { 200 } else { 2000 };
            p.p_cancel = 0.7;
            // the crate's contract: a failed or cancelled build is followed by an abort
            // (gen.rs does it before anything else); the retry happens in a new transaction
            p.p_retry_in_txn = 0.0;
            p.mapsize = Mix(vec![
                (3, Const(256 * MIB)),
                (1, OneOf(vec![32 * 1024, 64 * 1024, 96 * 1024, 128 * 1024, 192 * 1024, 256 * 1024])),
                (1, Range(64 * 1024, 2 * MIB)),
            ]);
            p.first_items = Mix(vec![(3, Range(0, 60)), (1, Range(60, 300))]);
        }
        // the history of the map-size steps of `faults`: no cancellation, the first
        // MDB_MAP_FULL ends the case
        "c10map" => {
            p.default_cases = if q { 3 } else { 30 };
            p.end_on_mapfull = true;
            p.first_items = Mix(vec![(1, Range(100, 300)), (1, Range(300, 1000))]);
            p.updates = Range(20, 120);
            p.dims = Range(8, 32);
            p.n_indexes = Mix(vec![(2, Const(1)), (1, Const(2))]);
            p.rounds = Range(2, 4);
            p.p_cap_boundary = 0.0;
            p.p_wrong_w = 0.0;
            p.malformed_rate = 0.0;
        }
        // distances equal the metric's definition (end to end, through QueryBuilder)
        "c11" => {
            p.default_cases = if q { 100 } else { 2000 };
            p.dims = Mix(vec![
                (3, Range(1, 8)),
                (2, Range(9, 40)),
                (2, OneOf(vec![15, 16, 17, 31, 32, 33, 63, 64, 65, 127, 128, 129, 130])),
            ]);
            p.families = vec![
                (5, Family::Generic),
                (2, Family::HugeTiny),
                (1, Family::NanInf),
                (1, Family::Ternary),
                (1, Family::Collinear),
                (1, Family::Zero),
                (1, Family::Bits),
            ];
            small(&mut p, tier);
            p.queries = Range(4, 8);
            p.p_exhaustive = 1.0;
            p.p_cap_boundary = 0.0;
            // distances after a change of metric: the headers (norms) are recomputed from the stored vectors
            p.p_prepare = 0.25;
            p.p_quiet_after_prepare = 0.5;
            p.prepare_targets = Metric::ALL.iter().filter(|m| !Metric::BQ.contains(m)).map(|m| (1, *m)).collect();
        }
        // binary quantisation
        "c12" => {
            p.default_cases = if q { 100 } else { 2000 };
            p.metrics = Metric::BQ.iter().map(|m| (1, *m)).collect();
            p.dims = Mix(vec![
                (2, Range(1, 8)),
                (2, Range(9, 70)),
                (2, OneOf(vec![63, 64, 65, 127, 128, 129, 130, 191, 192, 193])),
            ]);
            p.families = vec![
                (3, Family::Generic),
                (3, Family::Bits),
                (2, Family::NanInf),
                (2, Family::Zero),
                (2, Family::Ternary),
                (1, Family::HugeTiny),
            ];
            small(&mut p, tier);
            p.full_readback = true;
            p.queries = Range(3, 6);
            p.p_exhaustive = 0.8;
            p.p_cap_boundary = 0.0;
            // items converted by a change of metric next to items written directly (two conversion paths): some
            // indexes start under a full-precision metric and are switched to a quantised one
            p.metrics.push((1, Metric::Euclidean));
            p.metrics.push((1, Metric::Cosine));
            p.p_prepare = 0.3;
            p.p_quiet_after_prepare = 0.3;
            p.prepare_targets = Metric::BQ.iter().map(|m| (1, *m)).collect();
        }
        // fresh tree-node ids never collide: builds in pools of 2..16 threads (predicate mode)
        "c13" => {
            p.default_cases = if q { 30 } else { 500 };
            p.threads = vec![(1, Range(2, 16)), (1, OneOf(vec![2, 3, 4, 8, 16]))];
            p.first_items = if q { Range(40, 400) } else { Range(40, 900) };
            // one- and two-item rounds too: every tree then creates at most one bucket, all of them at the same moment
            p.updates = Mix(vec![(2, Range(1, 2)), (4, Range(5, 80))]);
            p.rounds = Range(2, 6);
            p.ntrees = vec![(1, None), (3, Some(Range(2, 16)))];
            // small buckets: many single-item children, i.e. many bucket creations
            p.split = vec![(1, None), (3, Some(Range(1, 4)))];
            p.queries = Range(1, 2);
        }
        // the memory hint changes how, never what
        "c14" => {
            p.default_cases = if q { 60 } else { 600 };
            p.dims = Range(2, 4);
            p.poll_limit = Some(if q { 3_000_000 } else { 20_000_000 });
            p.n_indexes = Const(1);
            p.id_styles = vec![(4, IdStyle::Dense), (1, IdStyle::Sparse)];
            p.families = vec![(8, Family::Generic), (1, Family::Ternary), (1, Family::Duplicates)];
            p.first_ops = OpMix {
                add: 1,
                overwrite: 0,
                append_ok: 0,
                append_bad: 0,
                del_present: 0,
                del_absent: 0,
                clear: 0,
                wrong_dim: 0,
            };
            p.malformed_rate = 0.0;
            p.p_cap_boundary = 0.0;
            p.p_wipe_round = 0.0;
            p.rounds = Range(1, 3);
            p.updates = Mix(vec![(2, Range(0, 30)), (1, Range(150, 260))]);
            p.ntrees = vec![(1, None), (3, Some(Range(1, 4)))];
            p.p_skip_build = 0.0;
            p.p_commit_before_build = 0.0;
            p.read_rate = 0.0;
            p.queries = Range(2, 3);
            p.p_exhaustive = 1.0;
            p.grid = Some(Grid {
                first_items: if q {
                    vec![150, 199, 200, 201, 450]
                } else {
                    vec![150, 199, 200, 201, 450, 700, 1200]
                },
                splits: vec![1, 50, 199, 200, 300],
                mems: vec![
                    MemChoice::Zero,
                    MemChoice::Page,
                    MemChoice::Items,
                    MemChoice::Huge,
                    MemChoice::Unset,
                ],
                ..Grid::default()
            });
        }
        // tree count and bucket capacity are honoured
        "c15" => {
            p.default_cases = if q { 200 } else { 2000 };
            p.p_cap_boundary = 0.8;
            p.rounds = Range(2, 6);
            p.ntrees = vec![(2, None), (5, Some(Range(1, 6))), (3, Some(Range(7, 20)))];
            p.split = vec![(2, None), (4, Some(Range(1, 8))), (3, Some(Range(9, 50)))];
            p.later_ops.del_present = 50;
            p.p_rebuild = 0.3;
            p.p_build_all = 0.6;
            p.p_skip_build = 0.0;
            p.queries = Range(1, 2);
        }
        // on-disk format / upgrades: generic committed histories, every dump goes through
        // the reference decoder on the driver side (fixtures and upgrades are separate)
        "c16" => {
            p.default_cases = if q { 100 } else { 1000 };
            p.n_indexes = Mix(vec![(2, Const(1)), (2, Const(2)), (1, Const(3))]);
            p.after_round = AfterRound { keep: 1, commit: 6, abort: 1 };
            p.p_skip_build = 0.2;
            // leaves re-encoded by a change of metric: before the first build, twice in a row, after a build
            p.p_prepare = 0.2;
            // word and lane boundaries of the vector codecs (quantised words of 64 components)
            p.dims = Mix(vec![(5, Range(1, 8)), (1, Range(9, 40)), (2, OneOf(vec![16, 63, 64, 65, 128]))]);
        }
        // the database the `upgrade` scenario downgrades: cosine only, 1-3 indexes, small
        // buckets (single-item children on both sides), some indexes left with pending updates
        "c17" => {
            p.default_cases = if q { 40 } else { 500 };
            small(&mut p, tier);
            p.metrics = vec![(1, Metric::Cosine)];
            p.n_indexes = Mix(vec![(1, Const(1)), (2, Const(2)), (1, Const(3))]);
            // one index in nine starts (and is built) empty: the upgrade then meets metadata without roots
            p.first_items = Mix(vec![(1, Const(0)), (8, Range(1, 40))]);
            p.p_build_all = 0.5;
            p.rounds = Range(1, 3);
            p.split = vec![(1, None), (4, Some(Range(1, 3))), (1, Some(Range(4, 10)))];
            p.ntrees = vec![(1, None), (3, Some(Range(1, 4)))];
            p.after_round = AfterRound { keep: 1, commit: 6, abort: 1 };
            p.p_skip_build = 0.3;
            p.p_wrong_w = 0.0;
            p.malformed_rate = 0.0;
            p.queries = Range(0, 1);
            p.read_rate = 0.0;
            p.families = vec![(6, Family::Generic), (1, Family::Duplicates), (1, Family::Ternary)];
        }
        // the memory hint on FIRST builds that must place several batches: the tree grown from the first 200 items
        // receives the rest batch by batch, onto many single-item children (buckets of 1-3 items), with item ids in
        // the range of the fresh tree-node ids
        "c14first" => {
            p.default_cases = if q { 20 } else { 200 };
            p.dims = Range(2, 3);
            p.poll_limit = Some(if q { 3_000_000 } else { 20_000_000 });
            p.n_indexes = Const(1);
            p.index_sets = vec![(1, vec![0])];
            p.p_random_indexes = 0.0;
            p.id_styles = vec![(1, IdStyle::Dense)];
            p.dense_span_factor = 1.0;
            // the first batch holds the 200 smallest ids: single-item children numbered like the fresh tree nodes
            p.dense_offset = 170;
            p.families = vec![(1, Family::Generic)];
            p.first_ops = OpMix { add: 1, overwrite: 0, append_ok: 0, append_bad: 0, del_present: 0, del_absent: 0, clear: 0, wrong_dim: 0 };
            p.malformed_rate = 0.0;
            p.p_cap_boundary = 0.0;
            p.p_wipe_round = 0.0;
            p.first_items = Range(420, 720);
            p.rounds = Const(1);
            p.ntrees = vec![(3, Some(Const(1))), (1, Some(Const(2)))];
            p.split = vec![(2, Some(Const(1))), (1, Some(Range(2, 3)))];
            p.mem = vec![(1, MemChoice::Zero), (1, MemChoice::Page)];
            p.p_skip_build = 0.0;
            p.p_commit_before_build = 0.0;
            p.after_round = AfterRound { keep: 0, commit: 1, abort: 0 };
            p.read_rate = 0.0;
            p.probes = 0;
            p.queries = Range(1, 2);
            p.p_exhaustive = 1.0;
        }
        // the memory hint on INCREMENTAL builds: build, shrink (id holes below the surviving nodes), rebuild,
        // grow by several memory-limited batches (>= 200 items each), rebuild; small buckets, so that
        // there are single-item children and over-full buckets to re-split; 2-3 trees
        "c14inc" => {
            p.default_cases = if q { 12 } else { 120 };
            p.dims = Range(2, 4);
            p.poll_limit = Some(if q { 3_000_000 } else { 20_000_000 });
            p.n_indexes = Const(1);
            p.id_styles = vec![(4, IdStyle::Dense), (1, IdStyle::Sparse)];
            p.families = vec![(8, Family::Generic), (1, Family::Duplicates)];
            p.first_ops = OpMix { add: 1, overwrite: 0, append_ok: 0, append_bad: 0, del_present: 0, del_absent: 0, clear: 0, wrong_dim: 0 };
            p.malformed_rate = 0.0;
            p.p_cap_boundary = 0.0;
            p.p_wipe_round = 0.0;
            p.first_items = Range(80, 320);
            p.rounds = Range(2, 4);
            p.round_plans = vec![
                // new buckets next to single-item children in one pass, visited again by the next pass
                (3, vec![RoundKind::Grow(Range(420, 900))]),
                // id holes below the surviving nodes, then one bucket over-filled many times over
                (3, vec![RoundKind::Shrink(0.6, 0.97), RoundKind::GrowClustered(Range(450, 1500))]),
                (2, vec![RoundKind::Shrink(0.3, 0.9), RoundKind::Grow(Range(250, 700)), RoundKind::Mixed]),
            ];
            p.updates = Range(20, 120);
            p.ntrees = vec![(1, Some(Range(2, 3)))];
            p.split = vec![(2, None), (4, Some(Range(1, 4))), (1, Some(Range(20, 60)))];
            p.mem = vec![(1, MemChoice::Zero), (1, MemChoice::Page)];
            p.p_skip_build = 0.0;
            p.p_commit_before_build = 0.0;
            p.after_round = AfterRound { keep: 1, commit: 3, abort: 0 };
            p.read_rate = 0.0;
            p.queries = Range(1, 2);
            p.p_exhaustive = 1.0;
        }
        // changing the metric keeps the items and forces a rebuild
        "c18" => {
            p.default_cases = if q { 196 } else { 3920 };
            p.p_prepare = 0.6;
            p.p_quiet_after_prepare = 0.4;
            p.p_cancel = 0.12;
            p.p_prepare_after_failed = 0.7;
            p.empty_prepare = 0.3;
            p.rounds = Range(2, 5);
            p.n_indexes = Mix(vec![(1, Const(1)), (2, Const(2)), (1, Const(3))]);
            p.p_same_config = 0.3;
            p.first_items = Mix(vec![(1, Const(0)), (2, Range(1, 6)), (3, Range(7, 60))]);
            p.p_skip_build = 0.2;
            p.full_readback = true;
            p.p_wrong_w = 0.15;
            p.grid = Some(Grid {
                metrics: Metric::ALL.to_vec(),
                targets: Metric::ALL.to_vec(),
                ..Grid::default()
            });
        }
        // rejected calls have no effect
        "c19" => {
            p.default_cases = if q { 100 } else { 1000 };
            small(&mut p, tier);
            p.malformed_rate = 0.6;
            p.probes = 80;
            p.dump_every_op = true;
            p.n_indexes = Mix(vec![(2, Const(1)), (2, Const(2)), (1, Const(3))]);
            p.first_ops.wrong_dim = 8;
            p.first_ops.append_bad = 8;
            p.first_ops.del_absent = 8;
            p.later_ops.wrong_dim = 8;
            p.later_ops.append_bad = 8;
            p.later_ops.del_absent = 8;
            p.queries = Range(0, 1);
            // the writer returned by a metric change refuses and accepts the same lengths
            p.p_prepare = 0.25;
        }
        // degenerate data never breaks a build or a search
        "c20" => {
            let families = vec![
                Family::Duplicates,
                Family::Collinear,
                Family::Ternary,
                Family::HugeTiny,
                Family::NanInf,
                Family::Zero,
            ];
            let counts: Vec<u64> = if q { vec![1, 2, 50, 500] } else { vec![1, 2, 50, 500, 1200] };
            p.default_cases = (families.len() * 7 * counts.len()) as u64 * if q { 1 } else { 20 };
            p.families = families.iter().map(|f| (1, *f)).collect();
            p.p_family_mix = 0.05;
            p.n_indexes = Const(1);
            p.p_cap_boundary = 0.0;
            p.rounds = Range(1, 3);
            p.updates = Range(0, 30);
            p.queries = Range(3, 5);
            // few trees: the event stream of a 500-item build is what makes these traces big
            p.ntrees = vec![(1, None), (4, Some(Range(1, 3)))];
            p.poll_limit = Some(if q { 5_000_000 } else { 50_000_000 });
            p.first_ops.del_present = 1;
            p.first_ops.append_ok = 2;
            p.grid = Some(Grid {
                metrics: Metric::ALL.to_vec(),
                families,
                first_items: counts,
                ..Grid::default()
            });
        }
        _ => return None,
    }
    Some(p)
}
