#!/bin/bash
# Builds the framework from files on disk only (offline).
set -e
cd "$(dirname "$0")"
export CARGO_NET_OFFLINE=true
python3 tools/extract.py "${VERIF_REPO:-/repo}" lean/ArroyModel/Generated.lean
(cd lean && lake build)
(cd harness && cargo build --offline --release)
