import ArroyModel.Driver
open Arroy Driver

partial def loop (h : IO.FS.Stream) (d : DState) (flushed : Nat) : IO DState := do
  let line ← h.getLine
  if line.isEmpty then return d
  let d := step d line
  -- flush verdict lines as they come
  let mut i := flushed
  while i < d.out.size do
    IO.println d.out[i]!
    i := i + 1
  loop h { d with out := #[] } 0

def main (args : List String) : IO UInt32 := do
  let h ← match args with
    | [path] => do
      let handle ← IO.FS.Handle.mk path IO.FS.Mode.read
      pure (IO.FS.Stream.ofHandle handle)
    | _ => IO.getStdin
  let d ← loop h {} 0
  IO.println (statsLine d)
  return (if d.failures == 0 then 0 else 1)
