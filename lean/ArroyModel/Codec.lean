import ArroyModel.Key
import ArroyModel.Roaring
/-! Values stored in the database and their byte codecs
(`src/node.rs`, `src/metadata.rs`, `src/version.rs`, `src/unaligned_vector`). -/
namespace Arroy
open Generated

namespace Metric
def isBq (m : Metric) : Bool := metricIsBq.getD m.idx false
def nameBytes (m : Metric) : Bytes := metricNameBytes.getD m.idx []
def name (m : Metric) : String := metricNames.getD m.idx ""
def oversampling (m : Metric) : Nat := metricOversampling.getD m.idx 0
def header (m : Metric) : List HeaderField := metricHeaders.getD m.idx []
/-- bytes per stored vector word: f32 components, or 64-bit words of sign bits -/
def wordBytes (m : Metric) : Nat := if m.isBq then quantizedWordBits / 8 else 4
def ofNameBytes (bs : Bytes) : Option Metric := Metric.all.find? (fun m => m.nameBytes == bs)
end Metric

/-- A decoded database value. Floats are bit patterns; `vec` holds `f32` words for the plain
codec and 64-bit sign words for the quantised codec. -/
inductive Val where
  | leaf (hdr : List Nat) (vec : List Nat)
  | desc (ids : List Nat)
  | split (l r : NodeId) (normal : List Nat)
  | metadata (name : Bytes) (dims : Nat) (items : List Nat) (roots : List Nat)
  | version (major minor patch : Nat)
  | unit
  | raw (bs : Bytes)
  deriving DecidableEq, Repr, Inhabited

def encodeVec (m : Metric) (v : List Nat) : Bytes := v.flatMap (le m.wordBytes)

def decodeVec (m : Metric) (bs : Bytes) : Option (List Nat) :=
  if bs.length % m.wordBytes ≠ 0 then none else some ((chunks m.wordBytes bs).map ofLe)

def metaFieldBytes (name : Bytes) (dims : Nat) (items roots : List Nat) : MetaField → Bytes
  | .name => name
  | .nul => [0]
  | .dimsBe32 => be 4 dims
  | .itemsSizeBe32 => be 4 (Roaring.serializedSize items)
  | .itemsRoaring => Roaring.encode items
  | .rootsNative32 => roots.flatMap (le 4)
  | .unknown => []

def verFieldBytes (a b c : Nat) : VerField × Bool → Bytes
  | (.major, e) => encInt e 4 a
  | (.minor, e) => encInt e 4 b
  | (.patch, e) => encInt e 4 c
  | (.unknown, _) => []

def encodeVal (m : Metric) : Val → Bytes
  | .leaf hdr vec => [leafTag] ++ hdr.flatMap (le 4) ++ encodeVec m vec
  | .desc ids => [descendantsTag] ++ Roaring.encode ids
  | .split l r n => [splitTag] ++ encodeNodeId l ++ encodeNodeId r ++ encodeVec m n
  | .metadata name dims items roots => metadataLayout.flatMap (metaFieldBytes name dims items roots)
  | .version a b c => versionLayout.flatMap (verFieldBytes a b c)
  | .unit => []
  | .raw bs => bs

def decodeNode (m : Metric) (bs : Bytes) : Option Val :=
  match bs with
  | [] => none
  | tag :: rest =>
    if tag = leafTag then
      let hl := 4 * m.header.length
      if rest.length < hl then none else do
        let vec ← decodeVec m (rest.drop hl)
        pure (.leaf ((chunks 4 (rest.take hl)).map ofLe) vec)
    else if tag = splitTag then do
      let (l, rest) ← decodeNodeId rest
      let (r, rest) ← decodeNodeId rest
      let n ← decodeVec m rest
      pure (.split l r n)
    else if tag = descendantsTag then do
      let (ids, _) ← Roaring.decode rest
      pure (.desc ids)
    else none

def splitAtNul : Bytes → Option (Bytes × Bytes)
  | [] => none
  | b :: bs => if b = 0 then some ([], bs) else do
      let (n, r) ← splitAtNul bs
      pure (b :: n, r)

def decodeMeta (bs : Bytes) : Option Val := do
  let (name, rest) ← splitAtNul bs
  if rest.length < 8 then none else
  let dims := ofBe (rest.take 4)
  let size := ofBe ((rest.drop 4).take 4)
  let rest := rest.drop 8
  if rest.length < size then none else do
  let (items, _) ← Roaring.decode (rest.take size)
  let rootBytes := rest.drop size
  pure (.metadata name dims items ((chunks 4 rootBytes).filterMap fun c => if c.length = 4 then some (ofLe c) else none))

def decodeVersion (bs : Bytes) : Option Val :=
  if bs.length < 12 then none else
  some (.version (ofBe (bs.take 4)) (ofBe ((bs.drop 4).take 4)) (ofBe ((bs.drop 8).take 4)))

/-- decode the value stored under key `k` of an index using metric `m` -/
def decodeVal (m : Metric) (k : Key) (bs : Bytes) : Val :=
  let r : Option Val :=
    if k.mode = modeItem ∨ k.mode = modeTree then decodeNode m bs
    else if k.mode = modeUpdated then (if bs = [] then some .unit else none)
    else if k.mode = metadataKeyMode ∧ k.item = metadataKeyItem then decodeMeta bs
    else if k.mode = versionKeyMode ∧ k.item = versionKeyItem then decodeVersion bs
    else none
  r.getD (.raw bs)

end Arroy
