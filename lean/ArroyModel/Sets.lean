/-! Sets of ids as strictly increasing lists (the model of `RoaringBitmap`'s set algebra). -/
namespace Arroy

abbrev IdSet := List Nat

namespace IdSet

/-- strictly increasing -/
def Sorted : List Nat → Prop
  | [] => True
  | [_] => True
  | a :: b :: rest => a < b ∧ Sorted (b :: rest)

instance decSorted : (l : List Nat) → Decidable (Sorted l)
  | [] => isTrue trivial
  | [_] => isTrue trivial
  | a :: b :: rest =>
    match decSorted (b :: rest) with
    | isTrue h => if h' : a < b then isTrue ⟨h', h⟩ else isFalse (fun x => h' x.1)
    | isFalse h => isFalse (fun x => h x.2)

def isSorted : List Nat → Bool
  | [] => true
  | [_] => true
  | a :: b :: rest => decide (a < b) && isSorted (b :: rest)

def insert (x : Nat) : List Nat → List Nat
  | [] => [x]
  | y :: ys => if x < y then x :: y :: ys else if x = y then y :: ys else y :: insert x ys

def union : List Nat → List Nat → List Nat
  | [], b => b
  | a, [] => a
  | x :: xs, y :: ys =>
    if x < y then x :: union xs (y :: ys)
    else if y < x then y :: union (x :: xs) ys
    else x :: union xs ys
termination_by a b => a.length + b.length

/-- `a - b` -/
def diff : List Nat → List Nat → List Nat
  | [], _ => []
  | a, [] => a
  | x :: xs, y :: ys =>
    if x < y then x :: diff xs (y :: ys)
    else if y < x then diff (x :: xs) ys
    else diff xs ys
termination_by a b => a.length + b.length

def inter : List Nat → List Nat → List Nat
  | [], _ => []
  | _, [] => []
  | x :: xs, y :: ys =>
    if x < y then inter xs (y :: ys)
    else if y < x then inter (x :: xs) ys
    else x :: inter xs ys
termination_by a b => a.length + b.length

def contains (s : List Nat) (x : Nat) : Bool := s.contains x

/-- drop adjacent duplicates -/
def dedup : List Nat → List Nat
  | [] => []
  | [a] => [a]
  | a :: b :: rest => if a = b then dedup (b :: rest) else a :: dedup (b :: rest)

/-- sort and deduplicate an arbitrary list (`sort_unstable(); dedup()`) -/
def ofList (l : List Nat) : List Nat := dedup (l.mergeSort (fun a b => decide (a ≤ b)))

/-- `RoaringBitmap::push`: appends only if greater than the current maximum -/
def push (s : List Nat) (x : Nat) : List Nat × Bool :=
  match s.getLast? with
  | none => ([x], true)
  | some m => if m < x then (s ++ [x], true) else (s, false)

end IdSet
end Arroy
