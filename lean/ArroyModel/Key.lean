import ArroyModel.Bytes
import ArroyModel.Generated
/-! Keys, node ids, prefixes and their byte encodings (`src/key.rs`, `src/node_id.rs`). -/
namespace Arroy
open Generated

/-- A database key: index (u16), mode (u8 discriminant of `NodeMode`), item (u32). -/
structure Key where
  index : Nat
  mode : Nat
  item : Nat
  deriving DecidableEq, Repr, Inhabited

/-- A node id as stored inside split nodes. -/
structure NodeId where
  mode : Nat
  item : Nat
  deriving DecidableEq, Repr, Inhabited

namespace Key
def wf (k : Key) : Prop := k.index < 256^2 ∧ k.mode < 256^1 ∧ k.item < 256^4
instance (k : Key) : Decidable k.wf := by unfold wf; infer_instance

def mkMetadata (i : Nat) : Key := ⟨i, metadataKeyMode, metadataKeyItem⟩
def mkVersion (i : Nat) : Key := ⟨i, versionKeyMode, versionKeyItem⟩
def mkUpdated (i id : Nat) : Key := ⟨i, modeUpdated, id⟩
def mkTree (i id : Nat) : Key := ⟨i, modeTree, id⟩
def mkItem (i id : Nat) : Key := ⟨i, modeItem, id⟩

/-- the order of the model's store: (index, mode, item) lexicographically -/
def lt (a b : Key) : Bool :=
  a.index < b.index || (a.index == b.index && (a.mode < b.mode || (a.mode == b.mode && a.item < b.item)))

def le (a b : Key) : Bool := !(lt b a)
end Key

def encInt (bigEndian : Bool) (w n : Nat) : Bytes := if bigEndian then be w n else le w n

def keyFieldBytes (k : Key) : KeyField × Bool → Bytes
  | (.index, e) => encInt e 2 k.index
  | (.mode, e) => encInt e 1 k.mode
  | (.item, e) => encInt e 4 k.item
  | (.padding, e) => encInt e 1 keyPadding
  | (.unknown, _) => []

/-- `KeyCodec::bytes_encode`, following the field order and endianness found in the source. -/
def encodeKey (k : Key) : Bytes := keyFields.flatMap (keyFieldBytes k)

/-- `KeyCodec::bytes_decode` (reads the first seven bytes; the padding is ignored; the
    mode must be one of the four discriminants). -/
def decodeKey (bs : Bytes) : Option Key :=
  if bs.length < 7 then none else
  let index := ofBe (bs.take 2)
  let mode := bs.getD 2 0
  let item := ofBe ((bs.drop 3).take 4)
  if mode = modeMetadata ∨ mode = modeUpdated ∨ mode = modeTree ∨ mode = modeItem then
    some ⟨index, mode, item⟩
  else none

/-- `PrefixCodec::bytes_encode`: the index, then the mode if any. -/
def encodePrefix (index : Nat) (mode : Option Nat) : Bytes :=
  be 2 index ++ (match mode with | some m => be 1 m | none => [])

/-- `NodeId::to_bytes`. -/
def encodeNodeId (n : NodeId) : Bytes := be 1 n.mode ++ be 4 n.item

/-- `NodeId::from_bytes`: the id and the remaining bytes. -/
def decodeNodeId (bs : Bytes) : Option (NodeId × Bytes) :=
  if bs.length < 5 then none else
  let mode := bs.getD 0 0
  if mode = modeMetadata ∨ mode = modeUpdated ∨ mode = modeTree ∨ mode = modeItem then
    some (⟨mode, ofBe ((bs.drop 1).take 4)⟩, bs.drop 5)
  else none

namespace NodeId
def mkTree (id : Nat) : NodeId := ⟨modeTree, id⟩
def mkItem (id : Nat) : NodeId := ⟨modeItem, id⟩
def isTree (n : NodeId) : Bool := n.mode == modeTree
def isItem (n : NodeId) : Bool := n.mode == modeItem
/-- the derived `Ord` of the Rust type: by mode, then item -/
def lt (a b : NodeId) : Bool := a.mode < b.mode || (a.mode == b.mode && a.item < b.item)
end NodeId

end Arroy
