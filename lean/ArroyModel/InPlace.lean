import ArroyModel.Build
/-! The three recursive routines of `Writer::build` (`delete_items_in_file`, `insert_items_in_file`,
`make_tree_in_file`, `src/writer.rs`) as MONADIC mirrors, with every `opt.cancelled()?` polled IN PLACE,
exactly where the Rust code calls it, and every error (id space exhausted, missing oracle event,
panic) raised where the Rust code raises it, i.e. after the polls that precede it.

`ArroyModel/Tree.lean` has the same routines as pure functions (`delT`, `insertT`, `makeT`) that
return the number of polls, which `ArroyModel/Build.lean` charges afterwards (`pollN r.polls`).
`ArroyProofs/InPlaceEq.lean` proves the two presentations equivalent.

The random bits and the recorded normals are explicit arguments / results (as in `insertT`, `makeT`);
the stage functions below read them from and write them back to `BState` as `Build.lean` does. -/
namespace Arroy
open Generated BuildM
namespace InPlace

/-! ## `delete_items_in_file` -/

/-- what `delete_items_in_file` does on a split node once both children have been processed
    (the `.node` arm of `delT`, with the two recursive results as arguments) -/
def delNode (cap : Nat) (id : Nat) (n : List Nat) (l r : T) (a b : DelRes) : DelRes :=
  let tot := IdSet.union a.items b.items
  if fits cap tot.length then
    ⟨.bucket id tot, tot, a.puts ++ b.puts ++ [(id, .desc tot)],
      a.removed ++ b.removed ++ a.tree.treeId? ++ b.tree.treeId?, 1 + a.polls + b.polls⟩
  else if a.items.isEmpty then
    ⟨b.tree, tot, a.puts ++ b.puts, a.removed ++ b.removed ++ a.tree.treeId? ++ [id], 1 + a.polls + b.polls⟩
  else if b.items.isEmpty then
    ⟨a.tree, tot, a.puts ++ b.puts, a.removed ++ b.removed ++ b.tree.treeId? ++ [id], 1 + a.polls + b.polls⟩
  else
    ⟨.node id n a.tree b.tree, tot,
      a.puts ++ b.puts ++
        (if a.tree.ref ≠ l.ref ∨ b.tree.ref ≠ r.ref then [(id, .split a.tree.ref b.tree.ref n)] else []),
      a.removed ++ b.removed, 1 + a.polls + b.polls⟩

/-- `delete_items_in_file`: `options.cancelled()?` is the first statement of every call, and a call
    is made for a tree node only (`NodeMode::Tree`); an `Item` child is handled by its parent,
    without a call, hence without a poll. -/
def delM (cap : Nat) (D : List Nat) : T → BuildM DelRes
  | .leaf i => pure ⟨.leaf i, if D.contains i then [] else [i], [], [], 0⟩
  | .bucket id s => do
      poll
      let s' := IdSet.diff s D
      pure ⟨.bucket id s', s', if s.length ≠ s'.length then [(id, .desc s')] else [], [], 1⟩
  | .node id n l r => do
      poll
      let a ← delM cap D l
      let b ← delM cap D r
      pure (delNode cap id n l r a b)

/-! ## `insert_items_in_file` -/

/-- the split of `to_insert` at a split node (`randomly_split_children` for a zero normal,
    `D::side` otherwise) -/
def insParts (cx : TreeCtx) (n : List Nat) (ins : List Nat) (rs : List Bool) :
    Except Err (List Nat × List Nat × List Bool) :=
  if cx.isZero n then
    (match randomSplit ins rs with | some x => Except.ok x | none => Except.error (Err.oracle "random split"))
  else sideSplit cx n ins rs

/-- the result of `insert_items_in_file` on a split node from the results of its two calls -/
def insNode (id : Nat) (n : List Nat) (l r : T) (a b : InsRes) : InsRes :=
  let puts := a.puts ++ b.puts ++
    (if a.tree.ref ≠ l.ref ∨ b.tree.ref ≠ r.ref then [(id, .split a.tree.ref b.tree.ref n)] else [])
  ⟨.node id n a.tree b.tree, puts, IdSet.union a.large b.large, b.gen, b.rands, 1 + a.polls + b.polls⟩

/-- `insert_items_in_file`: `opt.cancelled()?` is the first statement of every call, and a call is
    made for every child, items included.  `concurrent_node_ids.next()?`, the item lookups of
    `D::side` (`unwrap`) and the random draws come after it. -/
def insertM (cx : TreeCtx) : T → List Nat → IdGen → List Bool → BuildM InsRes
  | .leaf i, ins, g, rs => do
      poll
      let new := IdSet.union [i] ins
      if new.length > 1 then
        match g.next with
        | .error e => fail e
        | .ok (id, g') =>
          pure ⟨.bucket id new, [(id, .desc new)], if fits cx.cap new.length then [] else [id], g', rs, 1⟩
      else pure ⟨.leaf i, [], [], g, rs, 1⟩
  | .bucket id s, ins, g, rs => do
      poll
      let new := IdSet.union s ins
      let large := if fits cx.cap new.length then [] else [id]
      if s.length ≠ new.length then pure ⟨.bucket id new, [(id, .desc new)], large, g, rs, 1⟩
      else pure ⟨.bucket id s, [], large, g, rs, 1⟩
  | .node id n l r, ins, g, rs => do
      poll
      match insParts cx n ins rs with
      | .error e => fail e
      | .ok (left, right, rs1) =>
        let a ← insertM cx l left g rs1
        let b ← insertM cx r right a.gen a.rands
        pure (insNode id n l r a b)

/-! ## `make_tree_in_file` -/

/-- the attempt loop of `make_tree_in_file`: `opt.cancelled()?` is the first statement of every
    iteration; `create_split` (the recorded normal) and the `D::side` calls follow it.
    `polls` only counts the iterations, as in `chooseSplit`. -/
def chooseSplitM (cx : TreeCtx) (items : List Nat) :
    Nat → List (List Nat) → List Bool → Nat →
      BuildM (List Nat × List Nat × List Nat × List (List Nat) × List Bool × Nat)
  | attempts, normals, rs, polls => do
    poll
    match normals with
    | [] => fail (.oracle "normal")
    | n :: normals' =>
      match sideSplit cx n items rs with
      | .error e => fail e
      | .ok (l, r, rs') =>
        if F64.lt (splitImbalance l.length r.length) (F64.ofRat imbalanceRetry) then
          pure (n, l, r, normals', rs', polls + 1)
        else match attempts with
          | 0 => pure (n, l, r, normals', rs', polls + 1)
          | a+1 => chooseSplitM cx items a normals' rs' (polls + 1)

/-- "if we didn't find a hyperplane, just randomize sides" -/
def makeDecide (items : List Nat) (n l r : List Nat) (rs1 : List Bool) :
    Except Err (List Nat × List Nat × List Nat × List Bool) :=
  if F64.gt (splitImbalance l.length r.length) (F64.ofRat imbalanceRandom) then
    match randomSplit items rs1 with
    | some (l', r', rs2) => .ok (List.replicate n.length 0, l', r', rs2)
    | none => .error (.oracle "random split")
  else .ok (n, l, r, rs1)

/-- `make_tree_in_file`: one poll at the start of every call, one at the start of every attempt
    of the split loop.  The out-of-fuel error is a model artefact (no Rust counterpart): it is
    raised at once. -/
def makeM (cx : TreeCtx) : Nat → List Nat → IdGen → List (List Nat) → List Bool → BuildM MakeRes
  | 0, _, _, _, _ => fail (.fuel "make_tree_in_file")
  | fuel+1, items, g, normals, rs => do
    poll
    match items with
    | [x] => pure ⟨.leaf x, [], g, normals, rs, 1, 0⟩
    | _ =>
      if fits cx.cap items.length then
        match g.next with
        | .error e => fail e
        | .ok (id, g') => pure ⟨.bucket id items, [(id, .desc items)], g', normals, rs, 1, 1⟩
      else do
        let (n, l, r, normals1, rs1, k) ← chooseSplitM cx items splitAttempts normals rs 0
        match makeDecide items n l r rs1 with
        | .error e => fail e
        | .ok (n, l, r, rs2) =>
          let a ← makeM cx fuel l g normals1 rs2
          let b ← makeM cx fuel r a.gen a.normals a.rands
          match b.gen.next with
          | .error e => fail e
          | .ok (id, g') =>
            pure ⟨.node id n a.tree b.tree, a.puts ++ b.puts ++ [(id, .split a.tree.ref b.tree.ref n)],
                  g', b.normals, b.rands, 1 + k + a.polls + b.polls, a.nNew + b.nNew + 1⟩

/-! ## the stages of `Writer::build` that call them (same code as `Build.lean`) -/
open Build

def deleteLoopM (c : Cfg) (o : BuildOpts) (D : List Nat) (s : Store) :
    List Nat → BuildM (List Nat × List (Nat × Val) × List Nat)
  | [] => pure ([], [], [])
  | root :: rest => do
    poll
    let t ← reifyRoot c s root
    let r ← delM (cap c o) D t
    let (roots', puts, removed) ← deleteLoopM c o D s rest
    pure (r.tree.ref.item :: roots', r.puts ++ puts, r.removed ++ removed)

/-- `delete_items_from_trees` -/
def deleteItemsFromTreesM (c : Cfg) (o : BuildOpts) (roots : List Nat) (D : List Nat) : BuildM (List Nat) := do
  let s ← getStore
  let (roots', puts, removed) ← deleteLoopM c o D s roots
  writeBack c removed puts id
  pure (IdSet.ofList roots')

def insertRootsM (c : Cfg) (o : BuildOpts) (snapshot : Store) (batch : List Nat) :
    List Nat → IdGen → BuildM (List (List (Nat × Val)) × List Nat × IdGen)
  | [], g => pure ([], [], g)
  | root :: rest, g => do
    poll
    let t ← reifyRoot c snapshot root
    let st ← (fun s => .ok (s, s) : BuildM BState)
    let r ← insertM (treeCtx c o snapshot) t batch g st.rands
    (fun s => .ok ((), { s with rands := r.rands }) : BuildM Unit)
    let (puts, large, g') ← insertRootsM c o snapshot batch rest r.gen
    pure (r.puts :: puts, IdSet.union r.large large, g')

/-- `insert_items_in_current_trees` -/
def insertItemsInCurrentTreesM (c : Cfg) (o : BuildOpts) (roots : List Nat) :
    Nat → List Nat → IdGen → BuildM (List Nat × IdGen)
  | 0, _, _ => fail (.fuel "insert_items_in_current_trees")
  | fuel+1, toInsert, g =>
    if roots.isEmpty || toInsert.isEmpty then pure ([], g) else do
    poll
    let snapshot ← getStore
    let k ← nextBatch
    if k = 0 ∨ k > toInsert.length then fail (.oracle "batch length out of range") else
    let batch := toInsert.take k
    let rest := toInsert.drop k
    let (putss, large, g') ← insertRootsM c o snapshot batch roots g
    forEach putss (fun puts => writeBack c [] puts id)
    let (large', g'') ← insertItemsInCurrentTreesM c o roots fuel rest g'
    pure (IdSet.union large large', g'')

/-- `incremental_index_large_descendants` -/
def incrementalIndexLargeDescendantsM (c : Cfg) (o : BuildOpts) :
    Nat → List Nat → IdGen → BuildM Unit
  | 0, large, _ => if large.isEmpty then pure () else fail (.fuel "incremental_index_large_descendants")
  | fuel+1, large, g =>
    match large with
    | [] => pure ()
    | b :: large' => do
      poll
      let s ← getStore
      match s.get (c.treeKey b) with
      | some (.desc ids) =>
        let k ← nextBatch
        if k = 0 ∨ k > ids.length then fail (.oracle "batch length out of range") else
        let batch := ids.take k
        let rest := ids.drop k
        let st ← (fun s => .ok (s, s) : BuildM BState)
        let r ← makeM (treeCtx c o s) (st.normals.length + 2) batch g st.normals st.rands
        (fun s => .ok ((), { s with normals := r.normals, rands := r.rands }) : BuildM Unit)
        let rootId := r.tree.ref.item
        writeBack c [] r.puts (fun id => if id = rootId then b else id)
        let (large'', g') ← insertItemsInCurrentTreesM c o [b] (rest.length + 1) rest r.gen
        incrementalIndexLargeDescendantsM c o fuel (IdSet.union large' large'') g'
      | _ => fail (.panic "large descendant is not a descendants node")

/-- `Writer::build` with the in-place routines -/
def buildM (c : Cfg) (o : BuildOpts) (loopFuel : Nat) : BuildM Unit := do
  preProcessItems c
  let items ← itemIndices c
  let updated ← resetUpdated c
  if fits (cap c o) items.length then singleLeaf c items else
  let toDelete := updated
  let toInsert := IdSet.inter items updated
  let s ← getStore
  let roots := match s.get c.metaKey with
    | some (.metadata _ _ _ roots) => roots
    | _ => []
  let used ← usedTreeNode c
  let g := IdGen.new used
  let target := targetNTrees o c.dims items.length roots.length
  let roots ← deleteExtraTrees c (roots.length - target) roots
  let roots ← deleteItemsFromTreesM c o roots toDelete
  let (large, g) ← insertItemsInCurrentTreesM c o roots (toInsert.length + 1) toInsert g
  let (roots, large, g) ← newTrees c items (target - roots.length) roots large g
  incrementalIndexLargeDescendantsM c o loopFuel large g
  writeMetadata c items roots

end InPlace
end Arroy
