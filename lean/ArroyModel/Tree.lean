import ArroyModel.Writer
/-! Trees as an inductive type carrying their node ids, the tree-level mirrors of the recursive
build routines (`delete_items_in_file`, `insert_items_in_file`, `make_tree_in_file`), the id
generator in sequential mode, and `reify` (reading a tree out of the store). -/
namespace Arroy
open Generated

inductive T where
  | leaf (i : Nat)
  | bucket (id : Nat) (s : List Nat)
  | node (id : Nat) (normal : List Nat) (l r : T)
  deriving Repr, DecidableEq, Inhabited

namespace T
def ref : T → NodeId
  | leaf i => NodeId.mkItem i
  | bucket id _ => NodeId.mkTree id
  | node id _ _ _ => NodeId.mkTree id

/-- tree-node ids, root first -/
def ids : T → List Nat
  | leaf _ => []
  | bucket id _ => [id]
  | node id _ l r => id :: (l.ids ++ r.ids)

/-- the items reachable, left to right (with multiplicity) -/
def items : T → List Nat
  | leaf i => [i]
  | bucket _ s => s
  | node _ _ l r => l.items ++ r.items

/-- the store cells a tree occupies -/
def cells : T → List (Nat × Val)
  | leaf _ => []
  | bucket id s => [(id, .desc s)]
  | node id n l r => (id, .split l.ref r.ref n) :: (l.cells ++ r.cells)

def treeId? : T → List Nat
  | leaf _ => []
  | bucket id _ => [id]
  | node id _ _ _ => [id]

/-- number of calls `insert_items_in_file` makes on this tree (one per node and per item child) -/
def size : T → Nat
  | leaf _ => 1
  | bucket _ _ => 1
  | node _ _ l r => 1 + l.size + r.size

def buckets : T → List (Nat × List Nat)
  | leaf _ => []
  | bucket id s => [(id, s)]
  | node _ _ l r => l.buckets ++ r.buckets
end T

/-- read the tree rooted at `ref` out of the store (`fuel` bounds the depth) -/
def reify (c : Cfg) (s : Store) : Nat → NodeId → Option T
  | 0, _ => none
  | fuel+1, ref =>
    if ref.isItem then some (.leaf ref.item)
    else if ref.isTree then
      match s.get (c.treeKey ref.item) with
      | some (.desc ids) => some (.bucket ref.item ids)
      | some (.split l r n) =>
        match reify c s fuel l, reify c s fuel r with
        | some tl, some tr => some (.node ref.item n tl tr)
        | _, _ => none
      | _ => none
    else none

/-! ## `ConcurrentNodeIds`, sequential semantics -/
structure IdGen where
  available : List Nat
  sel : Nat
  look : Bool
  current : Nat
  used : Nat
  deriving Repr, DecidableEq, Inhabited

namespace IdGen
def u32Max : Nat := 4294967295

/-- `ConcurrentNodeIds::new` -/
def new (usedIds : List Nat) : IdGen :=
  let last := match usedIds.getLast? with | some m => m + 1 | none => 0
  let avail := IdSet.diff (List.range last) usedIds
  { available := avail, sel := 0, look := !avail.isEmpty, current := last, used := usedIds.length }

/-- `ConcurrentNodeIds::next` -/
def next (g : IdGen) : Except Err (Nat × IdGen) :=
  let g1 := { g with used := g.used + 1 }
  if g.used > u32Max then .error .dbFull
  else if g1.look then
    let cur := g1.sel
    let g2 := { g1 with sel := (g1.sel + 1) % 2^32 }
    match g2.available[cur]? with
    | some id => .ok (id, g2)
    | none => .ok (g2.current, { g2 with look := false, current := (g2.current + 1) % 2^32 })
  else .ok (g1.current, { g1 with current := (g1.current + 1) % 2^32 })
end IdGen

/-! ## tree-level routines -/

/-- build parameters the routines need -/
structure TreeCtx where
  cap : Nat
  /-- `D::side` for item `x` against `normal`: `some true` = right, `some false` = left,
      `none` = undecided (zero or NaN margin: `Side::random`) -/
  side : List Nat → Nat → Option (Option Bool)    -- outer none: the item's vector is missing (unwrap panic)
  isZero : List Nat → Bool

def fits (cap n : Nat) : Bool := n ≤ cap

/-- result of `delete_items_in_file`: the new subtree, the live items below it (as the sorted
    bitmap the code returns), staged puts and removals in code order, number of polls -/
structure DelRes where
  tree : T
  items : List Nat
  puts : List (Nat × Val)
  removed : List Nat
  polls : Nat
  deriving Repr

/-- `delete_items_in_file` (an `Item` child is handled by its parent, without a call) -/
def delT (cap : Nat) (D : List Nat) : T → DelRes
  | .leaf i => ⟨.leaf i, if D.contains i then [] else [i], [], [], 0⟩
  | .bucket id s =>
      let s' := IdSet.diff s D
      ⟨.bucket id s', s', if s.length ≠ s'.length then [(id, .desc s')] else [], [], 1⟩
  | .node id n l r =>
      let a := delT cap D l
      let b := delT cap D r
      let tot := IdSet.union a.items b.items
      if fits cap tot.length then
        ⟨.bucket id tot, tot, a.puts ++ b.puts ++ [(id, .desc tot)],
          a.removed ++ b.removed ++ a.tree.treeId? ++ b.tree.treeId?, 1 + a.polls + b.polls⟩
      else if a.items.isEmpty then
        ⟨b.tree, tot, a.puts ++ b.puts, a.removed ++ b.removed ++ a.tree.treeId? ++ [id], 1 + a.polls + b.polls⟩
      else if b.items.isEmpty then
        ⟨a.tree, tot, a.puts ++ b.puts, a.removed ++ b.removed ++ b.tree.treeId? ++ [id], 1 + a.polls + b.polls⟩
      else
        ⟨.node id n a.tree b.tree, tot,
          a.puts ++ b.puts ++
            (if a.tree.ref ≠ l.ref ∨ b.tree.ref ≠ r.ref then [(id, .split a.tree.ref b.tree.ref n)] else []),
          a.removed ++ b.removed, 1 + a.polls + b.polls⟩

/-- split `xs` by the oracle: (left, right, remaining random bits); `none` if the trace is exhausted -/
def randomSplit : List Nat → List Bool → Option (List Nat × List Nat × List Bool)
  | [], rs => some ([], [], rs)
  | _ :: _, [] => none
  | x :: xs, b :: rs =>
    match randomSplit xs rs with
    | some (l, r, rs') => if b then some (x :: l, r, rs') else some (l, x :: r, rs')   -- `true` = `Side::Left`
    | none => none

/-- split `xs` by `D::side` against `normal`, falling back to the random oracle -/
def sideSplit (cx : TreeCtx) (normal : List Nat) : List Nat → List Bool → Except Err (List Nat × List Nat × List Bool)
  | [], rs => .ok ([], [], rs)
  | x :: xs, rs =>
    match cx.side normal x with
    | none => .error (.panic "leaf missing in the batch")
    | some (some right) =>
      match sideSplit cx normal xs rs with
      | .ok (l, r, rs') => if right then .ok (l, x :: r, rs') else .ok (x :: l, r, rs')
      | .error e => .error e
    | some none =>
      match rs with
      | [] => .error (.oracle "random side")
      | b :: rs1 =>
        match sideSplit cx normal xs rs1 with
        | .ok (l, r, rs') => if b then .ok (x :: l, r, rs') else .ok (l, x :: r, rs')
        | .error e => .error e

/-- result of a tree-level routine that draws ids and random bits -/
structure InsRes where
  tree : T
  puts : List (Nat × Val)
  large : List Nat
  gen : IdGen
  rands : List Bool
  polls : Nat
  deriving Repr

/-- `insert_items_in_file` -/
def insertT (cx : TreeCtx) : T → List Nat → IdGen → List Bool → Except Err InsRes
  | .leaf i, ins, g, rs =>
      let new := IdSet.union [i] ins
      if new.length > 1 then
        match g.next with
        | .error e => .error e
        | .ok (id, g') =>
          .ok ⟨.bucket id new, [(id, .desc new)], if fits cx.cap new.length then [] else [id], g', rs, 1⟩
      else .ok ⟨.leaf i, [], [], g, rs, 1⟩
  | .bucket id s, ins, g, rs =>
      let new := IdSet.union s ins
      let large := if fits cx.cap new.length then [] else [id]
      if s.length ≠ new.length then .ok ⟨.bucket id new, [(id, .desc new)], large, g, rs, 1⟩
      else .ok ⟨.bucket id s, [], large, g, rs, 1⟩
  | .node id n l r, ins, g, rs =>
      let parts := if cx.isZero n then
          (match randomSplit ins rs with | some x => Except.ok x | none => Except.error (Err.oracle "random split"))
        else sideSplit cx n ins rs
      match parts with
      | .error e => .error e
      | .ok (left, right, rs1) =>
        match insertT cx l left g rs1 with
        | .error e => .error e
        | .ok a =>
          match insertT cx r right a.gen a.rands with
          | .error e => .error e
          | .ok b =>
            let puts := a.puts ++ b.puts ++
              (if a.tree.ref ≠ l.ref ∨ b.tree.ref ≠ r.ref then [(id, .split a.tree.ref b.tree.ref n)] else [])
            .ok ⟨.node id n a.tree b.tree, puts, IdSet.union a.large b.large, b.gen, b.rands, 1 + a.polls + b.polls⟩

/-- `split_imbalance` (binary64) -/
def splitImbalance (l r : Nat) : Nat :=
  let ls := F64.ofNat l
  let rs := F64.ofNat r
  let f := F64.div ls (F64.add (F64.add ls rs) F64.epsilon)
  F64.max f (F64.sub F64.one f)

structure MakeRes where
  tree : T
  puts : List (Nat × Val)
  gen : IdGen
  normals : List (List Nat)
  rands : List Bool
  polls : Nat
  nNew : Nat
  deriving Repr

/-- the attempt loop of `make_tree_in_file`: up to `attempts + 1` normals are tried -/
def chooseSplit (cx : TreeCtx) (items : List Nat) :
    Nat → List (List Nat) → List Bool → Nat → Except Err (List Nat × List Nat × List Nat × List (List Nat) × List Bool × Nat)
  | attempts, normals, rs, polls =>
    match normals with
    | [] => .error (.oracle "normal")
    | n :: normals' =>
      match sideSplit cx n items rs with
      | .error e => .error e
      | .ok (l, r, rs') =>
        if F64.lt (splitImbalance l.length r.length) (F64.ofRat imbalanceRetry) then .ok (n, l, r, normals', rs', polls + 1)
        else match attempts with
          | 0 => .ok (n, l, r, normals', rs', polls + 1)
          | a+1 => chooseSplit cx items a normals' rs' (polls + 1)

/-- `make_tree_in_file` (`fuel` bounds the depth) -/
def makeT (cx : TreeCtx) : Nat → List Nat → IdGen → List (List Nat) → List Bool → Except Err MakeRes
  | 0, _, _, _, _ => .error (.fuel "make_tree_in_file")
  | fuel+1, items, g, normals, rs =>
    match items with
    | [x] => .ok ⟨.leaf x, [], g, normals, rs, 1, 0⟩
    | _ =>
      if fits cx.cap items.length then
        match g.next with
        | .error e => .error e
        | .ok (id, g') => .ok ⟨.bucket id items, [(id, .desc items)], g', normals, rs, 1, 1⟩
      else
        match chooseSplit cx items splitAttempts normals rs 0 with
        | .error e => .error e
        | .ok (n, l, r, normals1, rs1, k) =>
          let decided : Except Err (List Nat × List Nat × List Nat × List Bool) :=
            if F64.gt (splitImbalance l.length r.length) (F64.ofRat imbalanceRandom) then
              match randomSplit items rs1 with
              | some (l', r', rs2) => .ok (List.replicate n.length 0, l', r', rs2)
              | none => .error (.oracle "random split")
            else .ok (n, l, r, rs1)
          match decided with
          | .error e => .error e
          | .ok (n, l, r, rs2) =>
            match makeT cx fuel l g normals1 rs2 with
            | .error e => .error e
            | .ok a =>
              match makeT cx fuel r a.gen a.normals a.rands with
              | .error e => .error e
              | .ok b =>
                match b.gen.next with
                | .error e => .error e
                | .ok (id, g') =>
                  .ok ⟨.node id n a.tree b.tree, a.puts ++ b.puts ++ [(id, .split a.tree.ref b.tree.ref n)],
                       g', b.normals, b.rands, 1 + k + a.polls + b.polls, a.nNew + b.nNew + 1⟩

end Arroy
