import ArroyModel.Writer
/-! The split search: `two_means`, `two_means_binary_quantized` (`src/distance/mod.rs`) and the seven
`Distance::create_split` (`src/distance/*.rs`), on soft-float binary32.

The only non-determinism of the real functions is which items `choose_two` / `choose` draw; the model
takes the drawn leaves as a list (the first two are those of `choose_two`, then one per iteration), so
`createSplit` is a pure function of the stored leaves. The build model (`Tree.makeT`) still takes the
normal as an oracle — its theorems hold for every normal — and the driver checks on recorded traces
that each normal the implementation produced is `createSplit` of the leaves it drew. -/
namespace Arroy
open Generated

/-- the f32 distance the two-means search runs under (the quantised metrics run it under their
    non-quantised counterpart, on the ±1 view of the vectors) -/
inductive Work where
  | euclidean | manhattan | cosine | dot
  deriving DecidableEq, Repr, Inhabited

def Metric.work : Metric → Work
  | .euclidean => .euclidean | .manhattan => .manhattan | .cosine => .cosine | .dot => .dot
  | .bqEuclidean => .euclidean | .bqManhattan => .manhattan | .bqCosine => .cosine

/-- the `cosine` flag `create_split` passes to the two-means search -/
def Metric.cosineFlag : Metric → Bool
  | .cosine | .dot | .bqCosine => true
  | _ => false

/-- a leaf as the search sees it: the header fields that matter and the f32 vector -/
structure MLeaf where
  norm : Nat := F32.zero
  extra : Nat := F32.zero
  vec : List Nat
  deriving Repr, DecidableEq, Inhabited

namespace Split

def hdrField (m : Metric) (f : HeaderField) (hdr : List Nat) : Nat :=
  ((List.zip m.header hdr).find? (fun p => p.1 = f)).map (·.2) |>.getD F32.zero

/-- the leaf the search works on, from a stored leaf: as stored for the f32 metrics; for the quantised
    ones `new_leaf(vector.to_vec())` under the non-quantised metric (the ±1 view, NOT truncated) -/
def ofStored (m : Metric) (h : Host) (hdr vec : List Nat) : MLeaf :=
  if m.isBq then
    let v := BQ.unpack vec
    { vec := v, norm := if m.work = .cosine then F32.sqrt (dotProduct h v v) else F32.zero }
  else { vec := vec, norm := hdrField m .norm hdr, extra := hdrField m .extraDim hdr }

/-- `D::norm` -/
def norm (w : Work) (h : Host) (l : MLeaf) : Nat :=
  match w with
  | .dot => F32.sqrt (F32.add (dotProduct h l.vec l.vec) (F32.mul l.extra l.extra))
  | _ => F32.sqrt (dotProduct h l.vec l.vec)

/-- `D::normalize` -/
def normalize (w : Work) (h : Host) (l : MLeaf) : MLeaf :=
  let n := norm w h l
  if F32.gt n F32.zero then
    { l with vec := l.vec.map (fun x => F32.div x n), extra := if w = .dot then F32.div l.extra n else l.extra }
  else l

/-- `D::init` -/
def init (w : Work) (h : Host) (l : MLeaf) : MLeaf :=
  match w with
  | .cosine => { l with norm := F32.sqrt (dotProduct h l.vec l.vec) }
  | .dot => { l with norm := dotProduct h l.vec l.vec }
  | _ => l

/-- `D::non_built_distance` -/
def nonBuilt (w : Work) (h : Host) (p q : MLeaf) : Nat :=
  match w with
  | .euclidean => euclideanDistance h p.vec q.vec
  | .manhattan => manhattanDistance p.vec q.vec
  | .cosine =>
    let pnqn := F32.mul p.norm q.norm
    let pq := dotProduct h p.vec q.vec
    if F32.gt pnqn F32.epsilon then
      F32.div (F32.sub F32.one (F32.clamp (F32.div pq pnqn) F32.negOne F32.one)) F32.two
    else F32.zero
  | .dot =>
    let pq := F32.add (dotProduct h p.vec q.vec) (F32.mul p.extra q.extra)
    let ppqq := F32.mul p.norm q.norm
    if F32.ge ppqq F32.minPositive then
      F32.sub F32.two (F32.div (F32.mul F32.two pq) (F32.sqrt ppqq))
    else F32.two

/-- `Distance::update_mean`: `(x * c + n / norm) / (c + 1.0)`, component by component -/
def updateMean (mean k : MLeaf) (nrm c : Nat) : MLeaf :=
  { mean with vec := List.zipWith (fun x n => F32.div (F32.add (F32.mul x c) (F32.div n nrm)) (F32.add c F32.one)) mean.vec k.vec }

structure TM where
  p : MLeaf
  q : MLeaf
  ic : Nat := F32.one
  jc : Nat := F32.one
  deriving Repr, Inhabited

/-- one iteration of the two-means loop on the drawn leaf `k` -/
def step (w : Work) (h : Host) (cosine : Bool) (s : TM) (k : MLeaf) : TM :=
  let di := F32.mul s.ic (nonBuilt w h s.p k)
  let dj := F32.mul s.jc (nonBuilt w h s.q k)
  let nrm := if cosine then norm w h k else F32.one
  if F32.isNaN nrm || F32.le nrm F32.zero then s
  else if F32.lt di dj then
    { s with p := init w h (updateMean s.p k nrm s.ic), ic := F32.add s.ic F32.one }
  else if F32.lt dj di then
    { s with q := init w h (updateMean s.q k nrm s.jc), jc := F32.add s.jc F32.one }
  else s

/-- `two_means` / `two_means_binary_quantized` on the drawn leaves -/
def twoMeans (w : Work) (h : Host) (cosine : Bool) (p q : MLeaf) (ks : List MLeaf) : MLeaf × MLeaf :=
  let p := if cosine then normalize w h p else p
  let q := if cosine then normalize w h q else q
  let s := (ks.take twoMeansIterations).foldl (step w h cosine) { p := init w h p, q := init w h q }
  (s.p, s.q)

/-- `norm_no_header` of a quantised vector -/
def bqNorm (m : Metric) (ws : List Nat) : Nat :=
  match m with
  | .bqManhattan =>
    let ones := (ws.map (BQ.popcount quantizedWordBits)).sum
    F32.sqrt (F32.ofInt ((ones : Int) - ((quantizedWordBits * ws.length : Nat) - ones : Int)))
  | _ => F32.sqrt (BQ.dot ws ws)

/-- `D::create_split` given the leaves drawn by the search (stored header, stored vector), in the
    order they were drawn; `none` when fewer than two were drawn -/
def createSplit (m : Metric) (h : Host) (drawn : List (List Nat × List Nat)) : Option (List Nat) :=
  match drawn.map (fun hv => ofStored m h hv.1 hv.2) with
  | p0 :: q0 :: ks =>
    let w := m.work
    let (p, q) := twoMeans w h m.cosineFlag p0 q0 ks
    let v := List.zipWith F32.sub p.vec q.vec
    if m.isBq then
      let b := BQ.pack v
      let n := bqNorm m b
      some (if F32.gt n F32.zero then BQ.pack ((BQ.unpack b).map (fun x => F32.div x n)) else b)
    else
      some (normalize w h { vec := v, extra := F32.sub p.extra q.extra }).vec
  | _ => none

end Split
end Arroy
