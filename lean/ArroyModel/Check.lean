import ArroyModel.Reader
/-! Executable property predicates. They are evaluated on the *implementation's* decoded
dumps and answers to look for a concrete failing input; the theorems of `ArroyProofs`
relate them to the model. Each returns the list of violations found (empty = holds). -/
namespace Arroy
open Generated

namespace Check

def nodup (l : List Nat) : Bool := (IdSet.ofList l).length == l.length

/-- C01: every root reifies; node ids are not shared; the trees cover exactly the tree keys;
    every tree reaches exactly the stored items, each once; metadata items = stored items -/
def forestValid (c : Cfg) (s : Store) : List String :=
  let itemKeys := s.keysOf c.index modeItem
  let treeKeys := s.keysOf c.index modeTree
  match s.get c.metaKey with
  | none => if treeKeys.isEmpty then [] else [s!"index {c.index}: no metadata but tree nodes {treeKeys}"]
  | some (.metadata _ _ items roots) =>
    let trees := roots.map fun r => (r, reify c s (s.length + 1) (NodeId.mkTree r))
    let bad := trees.filterMap fun (r, t) => if t.isNone then some s!"tree {r}: a referenced node is missing or malformed" else none
    if !bad.isEmpty then bad else
    let ts := trees.filterMap (·.2)
    let allIds := ts.flatMap T.ids
    let e1 := if nodup allIds then [] else [s!"a tree node is shared or reachable twice: ids {allIds}"]
    let e2 := if IdSet.ofList allIds == treeKeys then [] else
      [s!"tree keys {treeKeys} differ from the nodes reachable from the roots {IdSet.ofList allIds}"]
    let e3 := if items == itemKeys then [] else [s!"metadata items {items} differ from the stored items {itemKeys}"]
    let e4 := (List.zip roots ts).flatMap fun (r, t) =>
      let its := t.items
      (if nodup its then [] else [s!"tree {r} reaches an item twice: {its}"]) ++
      (if IdSet.ofList its == itemKeys then [] else
        [s!"tree {r} reaches {IdSet.ofList its} but the stored items are {itemKeys}"])
    let e5 := if nodup roots then [] else [s!"duplicate roots {roots}"]
    e1 ++ e2 ++ e3 ++ e4 ++ e5
  | some _ => [s!"index {c.index}: metadata does not decode"]

/-- the trees of a built index -/
def trees (c : Cfg) (s : Store) : List T :=
  match s.get c.metaKey with
  | some (.metadata _ _ _ roots) => roots.filterMap fun r => reify c s (s.length + 1) (NodeId.mkTree r)
  | _ => []

/-- C15: no bucket above the capacity -/
def capacityOk (c : Cfg) (s : Store) (cap : Nat) : List String :=
  (trees c s).flatMap fun t => t.buckets.filterMap fun (id, its) =>
    if its.length ≤ cap then none else some s!"bucket {id} holds {its.length} items > capacity {cap}"

/-- decisive margin of item `x` against `normal`: `some true` = positive -/
def decisive (c : Cfg) (s : Store) (normal : List Nat) (x : Nat) : Option Bool :=
  match Build.sideOf c s normal x with
  | some (some b) => some b
  | _ => none

/-- C04 (first sentence): below every non-degenerate plane each item with a decisive margin is on
    the side of its margin's sign -/
def routedT (c : Cfg) (s : Store) : T → List String
  | .leaf _ => []
  | .bucket _ _ => []
  | .node id n l r =>
    (if c.metric.isZero n then [] else
      (l.items.filterMap fun x => match decisive c s n x with
        | some true => some s!"item {x} is left of plane {id} but its margin is positive" | _ => none) ++
      (r.items.filterMap fun x => match decisive c s n x with
        | some false => some s!"item {x} is right of plane {id} but its margin is negative" | _ => none))
    ++ routedT c s l ++ routedT c s r

def routed (c : Cfg) (s : Store) : List String := (trees c s).flatMap (routedT c s)

/-- does tree `t` separate item `x` by non-degenerate planes with decisive margins only? -/
def goodPath (c : Cfg) (s : Store) (x : Nat) : T → Bool
  | .leaf i => i == x
  | .bucket _ its => its.contains x
  | .node _ n l r =>
    if c.metric.isZero n then false else
    match decisive c s n x with
    | some true => goodPath c s x r
    | some false => goodPath c s x l
    | none => false

def hasGoodTree (c : Cfg) (s : Store) (x : Nat) : Bool := (trees c s).any (goodPath c s x)

/-- the sequence of pops of the traversal for query vector `qv` (for failure reports) -/
def popLog (c : Cfg) (s : Store) (qv : List Nat) : Nat → List (Nat × NodeId) → List (Nat × NodeId × String)
  | 0, _ => []
  | fuel+1, queue =>
    match Reader.popMax queue with
    | none => []
    | some ((dist, node), queue') =>
      match s.get ⟨c.index, node.mode, node.item⟩ with
      | some (.split l r normal) =>
        let margin0 := if c.metric.isZero normal then F32.zero else c.metric.margin c.host normal qv
        let margin := if F32.isNaN margin0 then F32.zero else margin0
        (dist, node, s!"split margin={margin} zero={c.metric.isZero normal}") ::
          popLog c s qv fuel ((Metric.pqDistance dist margin true, r) :: (Metric.pqDistance dist margin false, l) :: queue')
      | some (.desc ids) => [(dist, node, s!"bucket {ids}")]
      | some (.leaf _ _) => [(dist, node, "leaf")]
      | _ => [(dist, node, "?")]

/-- exact nearest neighbours by brute force over the stored leaves: (score, id) ascending -/
def bruteForce (c : Cfg) (s : Store) (qh qv : List Nat) (filter : Option (List Nat)) : List (Nat × Nat) :=
  let leaves := (s.prefixIter c.index (some modeItem)).filterMap fun kv =>
    match kv.2 with
    | .leaf h v => if (match filter with | some f => f.contains kv.1.item | none => true) then some (kv.1.item, h, v) else none
    | _ => none
  (leaves.map fun (id, h, v) => (c.metric.builtDistance c.host qh qv h v, id)).mergeSort Reader.scoreLe

def canonF (x : Nat) : Nat := if F32.isNaN x then 0x7fc00000 else x

/-- C03 well-formedness of an answer `(id, reported distance)` for query leaf `(qh, qv)` -/
def wellFormed (c : Cfg) (s : Store) (dims : Nat) (qh qv : List Nat) (q : QueryOpts) (ans : List (Nat × Nat)) : List String :=
  let ids := ans.map (·.1)
  let e1 := if ans.length ≤ q.count then [] else [s!"{ans.length} results for count {q.count}"]
  let e2 := if nodup ids then [] else [s!"duplicate ids in {ids}"]
  let e3 := ids.filterMap fun id =>
    if !(s.contains (c.itemKey id)) then some s!"result {id} is not stored"
    else if !(Reader.inCandidates q id) then some s!"result {id} is outside the filter" else none
  let scored := ans.map fun (id, d) =>
    match s.get (c.itemKey id) with
    | some (.leaf h v) => (id, d, c.metric.builtDistance c.host qh qv h v)
    | _ => (id, d, 0)
  let e4 := scored.filterMap fun (id, d, sc) =>
    if canonF (c.metric.normalizedDistance sc dims) == canonF d then none
    else some s!"result {id}: reported distance bits {d} but the metric gives {c.metric.normalizedDistance sc dims}"
  let rec ordered : List (Nat × Nat × Nat) → List String
    | (i1, _, s1) :: (i2, d2, s2) :: rest =>
      (if Reader.scoreLe (s1, i1) (s2, i2) then [] else [s!"results {i1},{i2} are not ordered nearest first"]) ++
        ordered ((i2, d2, s2) :: rest)
    | _ => []
  e1 ++ e2 ++ e3 ++ e4 ++ ordered scored

end Check
end Arroy
