import ArroyModel.Store
import ArroyModel.Distance
/-! The item-level operations of `Writer` and `Reader::open` (`src/writer.rs`, `src/reader.rs`). -/
namespace Arroy
open Generated

inductive Err where
  | invalidDim (expected received : Nat)
  | invalidAppend
  | cancelled (calls : Nat)   -- the callback answered `true` at its `calls`-th call (counted from 1)
  | dbFull
  | mapFull
  | io
  | missingKey (index mode item : Nat)
  | missingMetadata (index : Nat)
  | unmatchingDistance (expected received : Bytes)
  | needBuild (index : Nat)
  | oracle (what : String)      -- the recorded trace does not fit the model's control flow
  | fuel (what : String)        -- a model loop ran out of fuel
  | panic (what : String)       -- the real code would panic here (unwrap / unreachable!)
  deriving DecidableEq, Repr, Inhabited

/-- what identifies a `Writer<D>` / `Reader<D>` -/
structure Cfg where
  index : Nat
  metric : Metric
  dims : Nat
  host : Host := {}
  deriving Repr, Inhabited

namespace Cfg
def itemKey (c : Cfg) (id : Nat) : Key := Key.mkItem c.index id
def treeKey (c : Cfg) (id : Nat) : Key := Key.mkTree c.index id
def updatedKey (c : Cfg) (id : Nat) : Key := Key.mkUpdated c.index id
def metaKey (c : Cfg) : Key := Key.mkMetadata c.index
def versionKey (c : Cfg) : Key := Key.mkVersion c.index

def mkLeaf (c : Cfg) (vec : List Nat) : Val :=
  let v := c.metric.fromSlice vec
  .leaf (c.metric.newHeader c.host v) v
end Cfg

namespace Writer

/-- `Writer::add_item` -/
def addItem (c : Cfg) (s : Store) (id : Nat) (vec : List Nat) : Except Err Store :=
  if vec.length ≠ c.dims then .error (.invalidDim c.dims vec.length) else
  .ok ((s.put (c.itemKey id) (c.mkLeaf vec)).put (c.updatedKey id) .unit)

/-- `Writer::append_item` -/
def appendItem (c : Cfg) (s : Store) (id : Nat) (vec : List Nat) : Except Err Store :=
  if vec.length ≠ c.dims then .error (.invalidDim c.dims vec.length) else
  match s.putAppend (c.itemKey id) (c.mkLeaf vec) with
  | none => .error .invalidAppend
  | some s' => .ok (s'.put (c.updatedKey id) .unit)

/-- `Writer::del_item` -/
def delItem (c : Cfg) (s : Store) (id : Nat) : Store × Bool :=
  let (s', present) := s.delete (c.itemKey id)
  if present then (s'.put (c.updatedKey id) .unit, true) else (s', false)

/-- `Writer::clear` -/
def clear (c : Cfg) (s : Store) : Store := s.deletePrefix c.index none

/-- `Writer::need_build` -/
def needBuild (c : Cfg) (s : Store) : Bool :=
  !(s.prefixIter c.index (some modeUpdated)).isEmpty || (s.get c.metaKey).isNone

/-- `Writer::contains_item` / `Reader::contains_item` -/
def containsItem (c : Cfg) (s : Store) (id : Nat) : Bool := s.contains (c.itemKey id)

/-- `item_leaf`: header and vector words of a stored item -/
def itemLeaf (c : Cfg) (s : Store) (id : Nat) : Option (List Nat × List Nat) :=
  match s.get (c.itemKey id) with
  | some (.leaf h v) => some (h, v)
  | _ => none

/-- `item_vector`: the f32 view truncated to the dimension -/
def itemVector (c : Cfg) (s : Store) (id : Nat) : Option (List Nat) :=
  (itemLeaf c s id).map fun (_, v) => (c.metric.toVec v).take c.dims

def iterFrom (c : Cfg) : Store → List (Nat × List Nat)
  | (k, .leaf _ v) :: rest => (k.item, (c.metric.toVec v).take c.dims) :: iterFrom c rest
  | _ => []

/-- `Writer::iter` / `Reader::iter`: stops at the first value that is not a leaf -/
def iter (c : Cfg) (s : Store) : List (Nat × List Nat) := iterFrom c (s.prefixIter c.index (some modeItem))

/-- `is_empty` -/
def isEmpty (c : Cfg) (s : Store) : Bool := (iter c s).isEmpty

/-- `clear_tree_nodes` -/
def clearTreeNodes (c : Cfg) (s : Store) : Store :=
  (s.erase c.metaKey).deletePrefix c.index (some modeTree)

def reencode (c : Cfg) (m' : Metric) : Store → Except Err Store
  | [] => .ok []
  | (k, v) :: rest =>
    if isPrefixOf (encodePrefix c.index (some modeItem)) (encodeKey k) then
      match v with
      | .leaf _ vec =>
        match reencode c m' rest with
        | .ok rest' => .ok ((k, ({ c with metric := m' } : Cfg).mkLeaf ((c.metric.toVec vec).take c.dims)) :: rest')
        | .error e => .error e
      | _ => .error (.panic "prepare_changing_distance: tree node under an item key")
    else
      match reencode c m' rest with
      | .ok rest' => .ok ((k, v) :: rest')
      | .error e => .error e

/-- `Writer::prepare_changing_distance` -/
def prepareChangingDistance (c : Cfg) (m' : Metric) (s : Store) : Except Err Store :=
  if m' = c.metric then .ok s else reencode c m' (clearTreeNodes c s)

end Writer

/-- what `Reader::open` keeps -/
structure ReaderState where
  roots : List Nat
  dims : Nat
  items : List Nat
  deriving Repr, DecidableEq

namespace Reader
/-- `Reader::open`: the three checks in the code's order -/
def «open» (c : Cfg) (s : Store) : Except Err ReaderState :=
  match s.get c.metaKey with
  | some (.metadata name dims items roots) =>
    if c.metric.nameBytes ≠ name then .error (.unmatchingDistance name c.metric.nameBytes)
    else if !(s.prefixIter c.index (some modeUpdated)).isEmpty then .error (.needBuild c.index)
    else .ok ⟨roots, dims, items⟩
  | some _ => .error (.panic "metadata does not decode")
  | none => .error (.missingMetadata c.index)
end Reader

end Arroy
