/-! Bytes, fixed-width integer encodings, and the byte order LMDB uses (memcmp, shorter-is-smaller). -/
namespace Arroy

/-- A byte string: every element is meant to be `< 256`. -/
abbrev Bytes := List Nat

/-- big-endian bytes of `n` on `w` bytes -/
def be : Nat → Nat → Bytes
  | 0, _ => []
  | w+1, n => (n / 256^w) % 256 :: be w (n % 256^w)

/-- little-endian bytes of `n` on `w` bytes -/
def le : Nat → Nat → Bytes
  | 0, _ => []
  | w+1, n => n % 256 :: le w (n / 256)

/-- value of a big-endian byte string -/
def ofBe (bs : Bytes) : Nat := bs.foldl (fun acc b => acc * 256 + b) 0

/-- value of a little-endian byte string -/
def ofLe : Bytes → Nat
  | [] => 0
  | b :: bs => b + 256 * ofLe bs

/-- LMDB's default comparator: lexicographic on bytes, a proper prefix is smaller. -/
def lexLt : Bytes → Bytes → Bool
  | [], [] => false
  | [], _ :: _ => true
  | _ :: _, [] => false
  | a :: as, b :: bs => a < b || (a == b && lexLt as bs)

def isPrefixOf (p bs : Bytes) : Bool := p.isPrefixOf bs

def hexDigit (n : Nat) : Char :=
  if n < 10 then Char.ofNat (48 + n) else Char.ofNat (87 + n)

def toHex (bs : Bytes) : String :=
  String.ofList (bs.flatMap fun b => [hexDigit (b / 16), hexDigit (b % 16)])

def hexVal (c : Char) : Option Nat :=
  if '0' ≤ c ∧ c ≤ '9' then some (c.toNat - 48)
  else if 'a' ≤ c ∧ c ≤ 'f' then some (c.toNat - 87)
  else if 'A' ≤ c ∧ c ≤ 'F' then some (c.toNat - 55)
  else none

def ofHexChars : List Char → Option Bytes
  | [] => some []
  | [_] => none
  | a :: b :: rest => do
    let x ← hexVal a
    let y ← hexVal b
    let r ← ofHexChars rest
    pure ((x * 16 + y) :: r)

def ofHex (s : String) : Option Bytes :=
  if s == "-" then some [] else ofHexChars s.toList

/-- split a list in chunks of `n` (the last one may be shorter) -/
def chunks (n : Nat) (l : List α) : List (List α) :=
  if h : n = 0 ∨ l = [] then [] else
    l.take n :: chunks n (l.drop n)
termination_by l.length
decreasing_by
  simp only [List.length_drop]
  have : l.length ≠ 0 := by
    intro e; exact h (Or.inr (List.length_eq_zero_iff.mp e))
  omega

end Arroy
