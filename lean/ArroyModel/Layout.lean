/-! Vocabulary used by the generated description of the on-disk layout. -/
namespace Arroy

inductive KeyField where
  | index | mode | item | padding | unknown
  deriving DecidableEq, Repr

inductive MetaField where
  | name | nul | dimsBe32 | itemsSizeBe32 | itemsRoaring | rootsNative32 | unknown
  deriving DecidableEq, Repr

inductive VerField where
  | major | minor | patch | unknown
  deriving DecidableEq, Repr

inductive HeaderField where
  | bias | norm | extraDim | unknown
  deriving DecidableEq, Repr

/-- The seven metrics, in the order used by `Generated.metric*` tables. -/
inductive Metric where
  | euclidean | manhattan | cosine | dot | bqEuclidean | bqManhattan | bqCosine
  deriving DecidableEq, Repr, Inhabited

def Metric.idx : Metric → Nat
  | .euclidean => 0 | .manhattan => 1 | .cosine => 2 | .dot => 3
  | .bqEuclidean => 4 | .bqManhattan => 5 | .bqCosine => 6

def Metric.all : List Metric :=
  [.euclidean, .manhattan, .cosine, .dot, .bqEuclidean, .bqManhattan, .bqCosine]

end Arroy
