import Std.Data.HashMap
import ArroyModel.Tree
/-! `Writer::build`, function by function and in the order of its effects (`src/writer.rs`).
The cancellation callback is a poll counter; the non-deterministic choices of the real build
are oracle streams (DESIGN.md 3.4). -/
namespace Arroy
open Generated

structure BuildOpts where
  nTrees : Option Nat := none
  splitAfter : Option Nat := none
  /-- `available_memory` only influences the batch lengths, which are an oracle -/
  availableMemory : Option Nat := none
  deriving Repr, Inhabited

structure BState where
  store : Store
  polls : Nat := 0
  /-- the callback answers `true` from this call on -/
  cancelAt : Option Nat := none
  normals : List (List Nat) := []
  rands : List Bool := []
  batches : List Nat := []
  deriving Repr, Inhabited

abbrev BuildM (α : Type) := BState → Except Err (α × BState)

namespace BuildM
@[inline] def pure' (a : α) : BuildM α := fun s => .ok (a, s)
@[inline] def bind' (m : BuildM α) (f : α → BuildM β) : BuildM β := fun s =>
  match m s with
  | .ok (a, s') => f a s'
  | .error e => .error e
instance : Monad BuildM where
  pure := pure'
  bind := bind'

def fail (e : Err) : BuildM α := fun _ => .error e
def getStore : BuildM Store := fun s => .ok (s.store, s)
def setStore (st : Store) : BuildM Unit := fun s => .ok ((), { s with store := st })
def modifyStore (f : Store → Store) : BuildM Unit := fun s => .ok ((), { s with store := f s.store })
def liftExcept (x : Except Err α) : BuildM α := fun s => match x with | .ok a => .ok (a, s) | .error e => .error e

/-- one call of `options.cancelled()?` -/
def poll : BuildM Unit := fun s =>
  match s.cancelAt with
  | some n => if n ≤ s.polls then .error (.cancelled (s.polls + 1)) else .ok ((), { s with polls := s.polls + 1 })
  | none => .ok ((), { s with polls := s.polls + 1 })

/-- `k` calls in a row with nothing observable in between -/
def pollN : Nat → BuildM Unit
  | 0 => pure ()
  | k+1 => bind' poll (fun _ => pollN k)

/-- `m.unwrap_or_default()`: an error is swallowed -/
def orDefault (m : BuildM α) (d : α) : BuildM α := fun s =>
  match m s with
  | .ok r => .ok r
  | .error _ => .ok (d, s)

def nextBatch : BuildM Nat := fun s =>
  match s.batches with
  | [] => .error (.oracle "batch")
  | k :: rest => .ok (k, { s with batches := rest })

def forEach : List α → (α → BuildM Unit) → BuildM Unit
  | [], _ => pure ()
  | x :: xs, f => bind' (f x) (fun _ => forEach xs f)
end BuildM
open BuildM

namespace Build

def cap (c : Cfg) (o : BuildOpts) : Nat := o.splitAfter.getD c.dims

/-- `D::side` evaluated on the stored vector of item `x` -/
def sideOf (c : Cfg) (s : Store) (normal : List Nat) (x : Nat) : Option (Option Bool) :=
  match Writer.itemLeaf c s x with
  | none => none
  | some (_, v) =>
    let mg := c.metric.margin c.host v normal
    some (if F32.gt mg F32.zero then some true else if F32.lt mg F32.zero then some false else none)

def treeCtx (c : Cfg) (o : BuildOpts) (s : Store) : TreeCtx :=
  { cap := cap c o, side := sideOf c s, isZero := c.metric.isZero }

/-! ### compiled-code accelerator (see `SoftFloat.lean`): the context of the tree routines looks every item up in the
store, a linear scan per lookup. The copy below indexes the item keys of the index once; the `@[csimp]` THEOREM
`treeCtx_eq_fast` (kernel-checked, for every store, duplicate keys included) lets the compiler use it. -/

/-- item id ↦ the value under the FIRST key `(index, item kind, id)` of the store -/
def itemIndex (c : Cfg) (s : Store) : Std.HashMap Nat Val :=
  s.foldr (fun kv m => if kv.1.index = c.index ∧ kv.1.mode = Generated.modeItem then m.insert kv.1.item kv.2 else m) {}

theorem itemIndex_get (c : Cfg) (s : Store) (x : Nat) : (itemIndex c s)[x]? = Store.get s (c.itemKey x) := by
  induction s with
  | nil => simp [itemIndex, Store.get]
  | cons kv rest ih =>
    obtain ⟨k, v⟩ := kv
    have hfold : itemIndex c ((k, v) :: rest) =
        (if k.index = c.index ∧ k.mode = Generated.modeItem then (itemIndex c rest).insert k.item v else itemIndex c rest) := rfl
    rw [hfold]
    by_cases hk : k = c.itemKey x
    · subst hk
      simp [Store.get, Cfg.itemKey, Key.mkItem]
    · have hget : Store.get ((k, v) :: rest) (c.itemKey x) = Store.get rest (c.itemKey x) := by
        simp [Store.get, hk]
      rw [hget, ← ih]
      by_cases hm : k.index = c.index ∧ k.mode = Generated.modeItem
      · rw [if_pos hm, Std.HashMap.getElem?_insert]
        have hne : (k.item == x) = false := by
          apply beq_false_of_ne
          intro hx
          apply hk
          cases k
          simp_all [Cfg.itemKey, Key.mkItem]
        simp [hne]
      · rw [if_neg hm]

def itemLeafFast (m : Std.HashMap Nat Val) (x : Nat) : Option (List Nat × List Nat) :=
  match m[x]? with
  | some (.leaf h v) => some (h, v)
  | _ => none

theorem itemLeafFast_eq (c : Cfg) (s : Store) (x : Nat) : itemLeafFast (itemIndex c s) x = Writer.itemLeaf c s x := by
  unfold itemLeafFast Writer.itemLeaf
  rw [itemIndex_get]
  cases Store.get s (c.itemKey x) with
  | none => rfl
  | some v => cases v <;> rfl

/-- `sideOf`, given the leaf -/
def sideOfLeaf (c : Cfg) (leaf : Option (List Nat × List Nat)) (normal : List Nat) : Option (Option Bool) :=
  match leaf with
  | none => none
  | some (_, v) =>
    let mg := c.metric.margin c.host v normal
    some (if F32.gt mg F32.zero then some true else if F32.lt mg F32.zero then some false else none)

theorem sideOf_eq_leaf (c : Cfg) (s : Store) (normal : List Nat) (x : Nat) :
    sideOf c s normal x = sideOfLeaf c (Writer.itemLeaf c s x) normal := by
  unfold sideOf sideOfLeaf
  cases Writer.itemLeaf c s x with
  | none => rfl
  | some p => cases p; rfl

def treeCtxFast (c : Cfg) (o : BuildOpts) (s : Store) : TreeCtx :=
  let m := itemIndex c s
  { cap := cap c o, side := fun normal x => sideOfLeaf c (itemLeafFast m x) normal, isZero := c.metric.isZero }

@[csimp] theorem treeCtx_eq_fast : @treeCtx = @treeCtxFast := by
  funext c o s
  simp only [treeCtx, treeCtxFast]
  congr 1
  funext normal x
  rw [sideOf_eq_leaf, itemLeafFast_eq]

/-- the `DotProduct` preprocessing: every header gets the maximum norm and the extra dimension -/
def preprocessDot (c : Cfg) (s : Store) : Store :=
  let leaves := (s.prefixIter c.index (some modeItem)).filterMap fun kv =>
    match kv.2 with | .leaf _ v => some (kv.1, v) | _ => none
  let maxNorm := leaves.foldl (fun mx kv => F32.max mx (c.metric.normNoHeader c.host kv.2)) F32.zero
  leaves.foldl (fun st kv =>
    let nn := c.metric.normNoHeader c.host kv.2
    let diff := F32.sub (F32.mul maxNorm maxNorm) (F32.mul nn nn)
    let hdr := c.metric.header.map fun
      | .norm => F32.mul maxNorm maxNorm
      | .extraDim => F32.sqrt diff
      | _ => F32.zero
    st.put kv.1 (.leaf hdr kv.2)) s

/-- `pre_process_items` -/
def preProcessItems (c : Cfg) : BuildM Unit := do
  poll
  if c.metric = .dot then modifyStore (preprocessDot c) else pure ()

/-- `item_indices`: one poll per item key -/
def itemIndices (c : Cfg) : BuildM (List Nat) := do
  let s ← getStore
  let ids := s.keysOf c.index modeItem
  pollN ids.length
  pure ids

/-- `reset_and_retrieve_updated_items`: each key is polled, then deleted -/
def resetUpdated (c : Cfg) : BuildM (List Nat) := do
  let s ← getStore
  let ids := s.keysOf c.index modeUpdated
  forEach ids (fun id => do poll; modifyStore (fun st => st.erase (c.updatedKey id)))
  pure ids

def writeMetadata (c : Cfg) (items roots : List Nat) : BuildM Unit :=
  modifyStore (fun st => st.put c.metaKey (.metadata c.metric.nameBytes c.dims items roots))

/-- `clear_db_and_create_a_single_leaf` -/
def singleLeaf (c : Cfg) (items : List Nat) : BuildM Unit := do
  modifyStore (fun st => st.deleteRange (c.treeKey 0) (c.treeKey IdGen.u32Max))
  if !items.isEmpty then modifyStore (fun st => st.put (c.treeKey 0) (.desc items)) else pure ()
  poll
  writeMetadata c items (if items.isEmpty then [] else [0])
  modifyStore (fun st => st.put c.versionKey (.version crateVersion.1 crateVersion.2.1 crateVersion.2.2))

/-- `used_tree_node`: one poll per tree key; a cancellation in here is swallowed
    (`unwrap_or_default`): the result is then empty, and the failing call has been made -/
def usedTreeNode (c : Cfg) : BuildM (List Nat) := fun st =>
  let ids := st.store.keysOf c.index modeTree
  match st.cancelAt with
  | some n =>
    if ids.length ≠ 0 ∧ n < st.polls + ids.length then
      .ok ([], { st with polls := Nat.max n st.polls + 1 })
    else .ok (ids, { st with polls := st.polls + ids.length })
  | none => .ok (ids, { st with polls := st.polls + ids.length })

/-- `target_n_trees` -/
def targetNTrees (o : BuildOpts) (dims nItems nRoots : Nat) : Nat :=
  match o.nTrees with
  | some n => n
  | none =>
    let descendantRequired := nItems / dims
    let perTree := descendantRequired + 1
    let nb := Nat.max (nItems / perTree) 1
    if nRoots > nb then
      let toRemove := nRoots - nb
      if F64.lt (F64.div (F64.ofNat toRemove) (F64.ofNat nb)) (F64.ofRat shrinkHysteresis) then nRoots else nb
    else nb

/-- `delete_tree` (reads and deletes directly in the transaction) -/
def deleteTree (c : Cfg) : Nat → NodeId → Store → Except Err Store
  | 0, _, _ => .error (.fuel "delete_tree")
  | fuel+1, ref, s =>
    if ref.isItem then .ok s else
    match s.get ⟨c.index, ref.mode, ref.item⟩ with
    | none => .error (.missingKey c.index ref.mode ref.item)
    | some (.split l r _) =>
      match deleteTree c fuel l s with
      | .error e => .error e
      | .ok s1 =>
        match deleteTree c fuel r s1 with
        | .error e => .error e
        | .ok s2 => .ok (s2.erase ⟨c.index, ref.mode, ref.item⟩)
    | some (.desc _) => .ok (s.erase ⟨c.index, ref.mode, ref.item⟩)
    | some _ => .ok s

def swapRemove0 : List Nat → List Nat
  | [] => []
  | [_] => []
  | _ :: rest => (rest.getLast?.toList) ++ rest.dropLast

/-- `delete_extra_trees` -/
def deleteExtraTrees (c : Cfg) : Nat → List Nat → BuildM (List Nat)
  | 0, roots => pure roots
  | k+1, roots => do
    poll
    match roots with
    | [] => pure roots
    | root :: _ =>
      let s ← getStore
      let s' ← liftExcept (deleteTree c (s.length + 1) (NodeId.mkTree root) s)
      setStore s'
      deleteExtraTrees c k (swapRemove0 roots)

def reifyRoot (c : Cfg) (s : Store) (root : Nat) : BuildM T :=
  match reify c s (s.length + 1) (NodeId.mkTree root) with
  | some t => pure t
  | none => fail (.panic s!"tree {root} cannot be read")

/-- write back what a `TmpNodes` staged: removals in id order, then the puts that were not
    removed, remapped, in insertion order; one poll per write -/
def writeBack (c : Cfg) (removed : List Nat) (puts : List (Nat × Val)) (remap : Nat → Nat) : BuildM Unit := do
  forEach (IdSet.ofList removed) (fun id => do poll; modifyStore (fun st => st.erase (c.treeKey id)))
  forEach (puts.filter (fun p => !(removed.contains p.1)))
    (fun p => do poll; modifyStore (fun st => st.put (c.treeKey (remap p.1)) p.2))

def deleteLoop (c : Cfg) (o : BuildOpts) (D : List Nat) (s : Store) :
    List Nat → BuildM (List Nat × List (Nat × Val) × List Nat)
  | [] => pure ([], [], [])
  | root :: rest => do
    poll
    let t ← reifyRoot c s root
    let r := delT (cap c o) D t
    pollN r.polls
    let (roots', puts, removed) ← deleteLoop c o D s rest
    pure (r.tree.ref.item :: roots', r.puts ++ puts, r.removed ++ removed)

/-- `delete_items_from_trees` -/
def deleteItemsFromTrees (c : Cfg) (o : BuildOpts) (roots : List Nat) (D : List Nat) : BuildM (List Nat) := do
  let s ← getStore
  let (roots', puts, removed) ← deleteLoop c o D s roots
  writeBack c removed puts id
  pure (IdSet.ofList roots')   -- `roots.sort_unstable()` (root ids are distinct)

def insertRoots (c : Cfg) (o : BuildOpts) (snapshot : Store) (batch : List Nat) :
    List Nat → IdGen → BuildM (List (List (Nat × Val)) × List Nat × IdGen)
  | [], g => pure ([], [], g)
  | root :: rest, g => do
    poll
    let t ← reifyRoot c snapshot root
    let st ← (fun s => .ok (s, s) : BuildM BState)
    let r ← liftExcept (insertT (treeCtx c o snapshot) t batch g st.rands)
    (fun s => .ok ((), { s with rands := r.rands }) : BuildM Unit)
    pollN r.polls
    let (puts, large, g') ← insertRoots c o snapshot batch rest r.gen
    pure (r.puts :: puts, IdSet.union r.large large, g')

/-- `insert_items_in_current_trees` (`fuel` bounds the number of batches) -/
def insertItemsInCurrentTrees (c : Cfg) (o : BuildOpts) (roots : List Nat) :
    Nat → List Nat → IdGen → BuildM (List Nat × IdGen)
  | 0, _, _ => fail (.fuel "insert_items_in_current_trees")
  | fuel+1, toInsert, g =>
    if roots.isEmpty || toInsert.isEmpty then pure ([], g) else do
    poll
    let snapshot ← getStore
    let k ← nextBatch
    if k = 0 ∨ k > toInsert.length then fail (.oracle "batch length out of range") else
    let batch := toInsert.take k
    let rest := toInsert.drop k
    let (putss, large, g') ← insertRoots c o snapshot batch roots g
    forEach putss (fun puts => writeBack c [] puts id)
    let (large', g'') ← insertItemsInCurrentTrees c o roots fuel rest g'
    pure (IdSet.union large large', g'')

/-- create the missing trees: one bucket holding every item each -/
def newTrees (c : Cfg) (items : List Nat) : Nat → List Nat → List Nat → IdGen → BuildM (List Nat × List Nat × IdGen)
  | 0, roots, large, g => pure (roots, large, g)
  | k+1, roots, large, g => do
    let (id, g') ← liftExcept g.next
    modifyStore (fun st => st.put (c.treeKey id) (.desc items))
    newTrees c items k (roots ++ [id]) (IdSet.insert id large) g'

/-- `incremental_index_large_descendants` (`fuel` bounds the number of re-split rounds) -/
def incrementalIndexLargeDescendants (c : Cfg) (o : BuildOpts) :
    Nat → List Nat → IdGen → BuildM Unit
  | 0, large, _ => if large.isEmpty then pure () else fail (.fuel "incremental_index_large_descendants")
  | fuel+1, large, g =>
    match large with
    | [] => pure ()
    | b :: large' => do
      poll
      let s ← getStore
      match s.get (c.treeKey b) with
      | some (.desc ids) =>
        let k ← nextBatch
        if k = 0 ∨ k > ids.length then fail (.oracle "batch length out of range") else
        let batch := ids.take k
        let rest := ids.drop k
        let st ← (fun s => .ok (s, s) : BuildM BState)
        let r ← liftExcept (makeT (treeCtx c o s) (st.normals.length + 2) batch g st.normals st.rands)
        (fun s => .ok ((), { s with normals := r.normals, rands := r.rands }) : BuildM Unit)
        pollN r.polls
        let rootId := r.tree.ref.item
        writeBack c [] r.puts (fun id => if id = rootId then b else id)
        let (large'', g') ← insertItemsInCurrentTrees c o [b] (rest.length + 1) rest r.gen
        incrementalIndexLargeDescendants c o fuel (IdSet.union large' large'') g'
      | _ => fail (.panic "large descendant is not a descendants node")

/-- `Writer::build` -/
def build (c : Cfg) (o : BuildOpts) (loopFuel : Nat) : BuildM Unit := do
  preProcessItems c
  let items ← itemIndices c
  let updated ← resetUpdated c
  if fits (cap c o) items.length then singleLeaf c items else
  let toDelete := updated
  let toInsert := IdSet.inter items updated
  let s ← getStore
  let roots := match s.get c.metaKey with
    | some (.metadata _ _ _ roots) => roots
    | _ => []
  let used ← usedTreeNode c
  let g := IdGen.new used
  let target := targetNTrees o c.dims items.length roots.length
  let roots ← deleteExtraTrees c (roots.length - target) roots
  let roots ← deleteItemsFromTrees c o roots toDelete
  let (large, g) ← insertItemsInCurrentTrees c o roots (toInsert.length + 1) toInsert g
  let (roots, large, g) ← newTrees c items (target - roots.length) roots large g
  incrementalIndexLargeDescendants c o loopFuel large g
  writeMetadata c items roots

end Build
end Arroy
