/-! Soft-float: IEEE-754 binary32 / binary64 on natural-number bit patterns, round to nearest even.
Pure and kernel-reducible; validated against the host FPU by the C11 correspondence run. -/
namespace Arroy.SF

/-! ### compiled-code accelerator

`2 ^ k` on `Nat` goes through the big-number library even for small `k`. The definitions below are what the
theorems are about; each hot one is followed by a copy that computes small powers of two with a machine
shift (`pow2`), and a `@[csimp]` THEOREM (kernel-checked equality of the two functions) that lets the
compiler use the copy in the driver executable. Nothing here changes a definition the proofs mention. -/
def pow2Small (b : Nat) : Nat := ((1 : UInt64) <<< b.toUInt64).toNat
theorem pow2Small_eq : ∀ b : Fin 63, pow2Small b.val = 2 ^ b.val := by decide +kernel
def pow2 (b : Nat) : Nat := if b < 63 then pow2Small b else 2 ^ b
theorem pow2_eq (b : Nat) : pow2 b = 2 ^ b := by
  unfold pow2; split
  · rename_i h; exact pow2Small_eq ⟨b, h⟩
  · rfl

structure Fmt where
  p : Nat        -- precision incl. hidden bit (24 / 53)
  ebits : Nat    -- exponent field width (8 / 11)
deriving Repr

namespace Fmt
def bias (f : Fmt) : Nat := 2^(f.ebits - 1) - 1
def biasFast (f : Fmt) : Nat := pow2 (f.ebits - 1) - 1
@[csimp] theorem bias_eq_fast : @bias = @biasFast := by funext f; simp only [bias, biasFast, pow2_eq]
def emaxField (f : Fmt) : Nat := 2^f.ebits - 1
def emaxFieldFast (f : Fmt) : Nat := pow2 f.ebits - 1
@[csimp] theorem emaxField_eq_fast : @emaxField = @emaxFieldFast := by funext f; simp only [emaxField, emaxFieldFast, pow2_eq]
/-- exponent of the least significant bit of a subnormal -/
def qmin (f : Fmt) : Int := 1 - (f.bias : Int) - ((f.p : Int) - 1)
def width (f : Fmt) : Nat := f.ebits + f.p
end Fmt

def f32 : Fmt := ⟨24, 8⟩
def f64 : Fmt := ⟨53, 11⟩

/-- unpacked value -/
inductive V where
  | nan
  | inf (neg : Bool)
  | fin (neg : Bool) (m : Nat) (e : Int)     -- (-1)^neg * m * 2^e, m may be 0
  deriving Repr

def bitLen (n : Nat) : Nat := if n = 0 then 0 else Nat.log2 n + 1

def unpack (f : Fmt) (b : Nat) : V :=
  let frac := b % 2^(f.p - 1)
  let ex := (b / 2^(f.p - 1)) % 2^f.ebits
  let neg := (b / 2^(f.width - 1)) % 2 == 1
  if ex == f.emaxField then (if frac == 0 then .inf neg else .nan)
  else if ex == 0 then .fin neg frac f.qmin
  else .fin neg (frac + 2^(f.p - 1)) ((ex : Int) - (f.bias : Int) - ((f.p : Int) - 1))

def unpackFast (f : Fmt) (b : Nat) : V :=
  let frac := b % (pow2 (f.p - 1))
  let ex := (b / (pow2 (f.p - 1))) % (pow2 f.ebits)
  let neg := (b / (pow2 (f.width - 1))) % 2 == 1
  if ex == f.emaxField then (if frac == 0 then .inf neg else .nan)
  else if ex == 0 then .fin neg frac f.qmin
  else .fin neg (frac + (pow2 (f.p - 1))) ((ex : Int) - (f.bias : Int) - ((f.p : Int) - 1))
@[csimp] theorem unpack_eq_fast : @unpack = @unpackFast := by
  funext f b
  simp only [unpack, unpackFast, pow2_eq]

def packBits (f : Fmt) (neg : Bool) (ex frac : Nat) : Nat :=
  (if neg then 2^(f.width - 1) else 0) + ex * 2^(f.p - 1) + frac

def packBitsFast (f : Fmt) (neg : Bool) (ex frac : Nat) : Nat :=
  (if neg then (pow2 (f.width - 1)) else 0) + ex * (pow2 (f.p - 1)) + frac
@[csimp] theorem packBits_eq_fast : @packBits = @packBitsFast := by
  funext f neg ex frac
  simp only [packBits, packBitsFast, pow2_eq]

def qnan (f : Fmt) : Nat := packBits f false f.emaxField (2^(f.p - 2))
def infBits (f : Fmt) (neg : Bool) : Nat := packBits f neg f.emaxField 0

/-- round the exact value (-1)^neg * (m + sticky·ε) * 2^e (0 < ε < 1) to the format -/
def roundPack (f : Fmt) (neg : Bool) (m : Nat) (e : Int) (sticky : Bool := false) : Nat :=
  if m == 0 && !sticky then packBits f neg 0 0 else
  let n := bitLen m
  let q : Int := max (e + (n : Int) - (f.p : Int)) f.qmin
  let shift : Int := q - e
  let (mant, q) :=
    if shift ≤ 0 then (m * 2^(shift.natAbs), q)   -- exact (sticky impossible to matter: only when shift ≤ 0 and sticky, handled below)
    else
      let s := shift.toNat
      let hi := m / 2^s
      let rem := m % 2^s
      let half := 2^(s-1)
      let up := rem > half || (rem == half && (sticky || hi % 2 == 1))
      let hi := if up then hi + 1 else hi
      if hi == 2^f.p then (2^(f.p - 1), q + 1) else (hi, q)
  if mant < 2^(f.p - 1) then packBits f neg 0 mant     -- subnormal (q = qmin)
  else
    let exField : Int := q + (f.bias : Int) + ((f.p : Int) - 1)
    if exField ≥ (f.emaxField : Int) then infBits f neg
    else packBits f neg exField.toNat (mant - 2^(f.p - 1))

def roundPackFast (f : Fmt) (neg : Bool) (m : Nat) (e : Int) (sticky : Bool := false) : Nat :=
  if m == 0 && !sticky then packBits f neg 0 0 else
  let n := bitLen m
  let q : Int := max (e + (n : Int) - (f.p : Int)) f.qmin
  let shift : Int := q - e
  let (mant, q) :=
    if shift ≤ 0 then (m * (pow2 (shift.natAbs)), q)   
    else
      let s := shift.toNat
      let hi := m / (pow2 s)
      let rem := m % (pow2 s)
      let half := (pow2 (s-1))
      let up := rem > half || (rem == half && (sticky || hi % 2 == 1))
      let hi := if up then hi + 1 else hi
      if hi == (pow2 f.p) then ((pow2 (f.p - 1)), q + 1) else (hi, q)
  if mant < (pow2 (f.p - 1)) then packBits f neg 0 mant     
  else
    let exField : Int := q + (f.bias : Int) + ((f.p : Int) - 1)
    if exField ≥ (f.emaxField : Int) then infBits f neg
    else packBits f neg exField.toNat (mant - (pow2 (f.p - 1)))
@[csimp] theorem roundPack_eq_fast : @roundPack = @roundPackFast := by
  funext f neg m e sticky
  simp only [roundPack, roundPackFast, pow2_eq]

/-- exact sum of two finite values as (neg, m, e) -/
def exactAdd (n1 : Bool) (m1 : Nat) (e1 : Int) (n2 : Bool) (m2 : Nat) (e2 : Int) : Bool × Nat × Int :=
  let e := min e1 e2
  let a : Int := (m1 * 2^((e1 - e).toNat) : Nat)
  let b : Int := (m2 * 2^((e2 - e).toNat) : Nat)
  let s : Int := (if n1 then -a else a) + (if n2 then -b else b)
  (s < 0, s.natAbs, e)

def exactAddFast (n1 : Bool) (m1 : Nat) (e1 : Int) (n2 : Bool) (m2 : Nat) (e2 : Int) : Bool × Nat × Int :=
  let e := min e1 e2
  let a : Int := (m1 * (pow2 ((e1 - e).toNat)) : Nat)
  let b : Int := (m2 * (pow2 ((e2 - e).toNat)) : Nat)
  let s : Int := (if n1 then -a else a) + (if n2 then -b else b)
  (s < 0, s.natAbs, e)
@[csimp] theorem exactAdd_eq_fast : @exactAdd = @exactAddFast := by
  funext n1 m1 e1 n2 m2 e2
  simp only [exactAdd, exactAddFast, pow2_eq]

def addV (f : Fmt) (x y : V) : Nat :=
  match x, y with
  | .nan, _ | _, .nan => qnan f
  | .inf a, .inf b => if a == b then infBits f a else qnan f
  | .inf a, _ => infBits f a
  | _, .inf b => infBits f b
  | .fin n1 m1 e1, .fin n2 m2 e2 =>
    let (n, m, e) := exactAdd n1 m1 e1 n2 m2 e2
    if m == 0 then packBits f (n1 && n2) 0 0     -- exact zero: -0 only if both negative (RNE)
    else roundPack f n m e

def negV : V → V
  | .nan => .nan | .inf a => .inf (!a) | .fin n m e => .fin (!n) m e

def add (f : Fmt) (a b : Nat) : Nat := addV f (unpack f a) (unpack f b)
def sub (f : Fmt) (a b : Nat) : Nat := addV f (unpack f a) (negV (unpack f b))

def mul (f : Fmt) (a b : Nat) : Nat :=
  match unpack f a, unpack f b with
  | .nan, _ | _, .nan => qnan f
  | .inf s, .inf t => infBits f (s != t)
  | .inf s, .fin t m _ => if m == 0 then qnan f else infBits f (s != t)
  | .fin s m _, .inf t => if m == 0 then qnan f else infBits f (s != t)
  | .fin s m1 e1, .fin t m2 e2 => roundPack f (s != t) (m1 * m2) (e1 + e2)

def fma (f : Fmt) (a b c : Nat) : Nat :=
  match unpack f a, unpack f b, unpack f c with
  | .nan, _, _ | _, .nan, _ | _, _, .nan => qnan f
  | .fin s m1 e1, .fin t m2 e2, .fin u m3 e3 =>
    let (n, m, e) := exactAdd (s != t) (m1 * m2) (e1 + e2) u m3 e3
    if m == 0 then packBits f ((s != t) && u) 0 0 else roundPack f n m e
  | x, y, z =>  -- some infinity involved, no NaN
    let prod : V := match x, y with
      | .inf s, .inf t => .inf (s != t)
      | .inf s, .fin t m _ => if m == 0 then .nan else .inf (s != t)
      | .fin s m _, .inf t => if m == 0 then .nan else .inf (s != t)
      | .fin s _ _, .fin t _ _ => .fin (s != t) 0 0
      | _, _ => .nan
    match prod, z with
    | .nan, _ => qnan f
    | .inf s, .inf t => if s == t then infBits f s else qnan f
    | .inf s, _ => infBits f s
    | _, .inf t => infBits f t
    | _, _ => qnan f

def div (f : Fmt) (a b : Nat) : Nat :=
  match unpack f a, unpack f b with
  | .nan, _ | _, .nan => qnan f
  | .inf _, .inf _ => qnan f
  | .inf s, .fin t _ _ => infBits f (s != t)
  | .fin s _ _, .inf t => packBits f (s != t) 0 0
  | .fin s m1 e1, .fin t m2 e2 =>
    if m2 == 0 then (if m1 == 0 then qnan f else infBits f (s != t))
    else if m1 == 0 then packBits f (s != t) 0 0
    else
      let k := f.p + 3 + bitLen m2
      let num := m1 * 2^k
      roundPack f (s != t) (num / m2) (e1 - e2 - (k : Int)) (num % m2 != 0)

def sqrt (f : Fmt) (a : Nat) : Nat :=
  match unpack f a with
  | .nan => qnan f
  | .inf s => if s then qnan f else infBits f false
  | .fin s m e =>
    if m == 0 then packBits f s 0 0
    else if s then qnan f
    else
      -- make exponent even and mantissa large
      let k := 2 * (f.p + 2)
      let (m', e') := if (e - (k : Int)) % 2 == 0 then (m * 2^k, e - (k : Int)) else (m * 2^(k+1), e - (k : Int) - 1)
      let r := Nat.sqrt m'
      roundPack f false r (e' / 2) (r * r != m')

def neg (f : Fmt) (a : Nat) : Nat :=
  if a / 2^(f.width - 1) % 2 == 1 then a - 2^(f.width - 1) else a + 2^(f.width - 1)

def negFast (f : Fmt) (a : Nat) : Nat :=
  if a / (pow2 (f.width - 1)) % 2 == 1 then a - (pow2 (f.width - 1)) else a + (pow2 (f.width - 1))
@[csimp] theorem neg_eq_fast : @neg = @negFast := by
  funext f a
  simp only [neg, negFast, pow2_eq]

def abs (f : Fmt) (a : Nat) : Nat := a % 2^(f.width - 1)

def absFast (f : Fmt) (a : Nat) : Nat := a % (pow2 (f.width - 1))
@[csimp] theorem abs_eq_fast : @abs = @absFast := by
  funext f a
  simp only [abs, absFast, pow2_eq]

def isNaN (f : Fmt) (a : Nat) : Bool := match unpack f a with | .nan => true | _ => false

def signBit (f : Fmt) (a : Nat) : Bool := a / 2^(f.width - 1) % 2 == 1

def signBitFast (f : Fmt) (a : Nat) : Bool := a / (pow2 (f.width - 1)) % 2 == 1
@[csimp] theorem signBit_eq_fast : @signBit = @signBitFast := by
  funext f a
  simp only [signBit, signBitFast, pow2_eq]

/-- the value as an exact rational-free comparison key: compare two non-NaN values -/
def ltV : V → V → Bool
  | .nan, _ | _, .nan => false
  | .inf a, .inf b => a && !b
  | .inf a, .fin _ _ _ => a
  | .fin _ _ _, .inf b => !b
  | .fin n1 m1 e1, .fin n2 m2 e2 =>
    let (n, m, _) := exactAdd n1 m1 e1 (!n2) m2 e2   -- x - y
    n && m != 0

def lt (f : Fmt) (a b : Nat) : Bool := ltV (unpack f a) (unpack f b)
def gt (f : Fmt) (a b : Nat) : Bool := lt f b a
def le (f : Fmt) (a b : Nat) : Bool :=
  !(isNaN f a) && !(isNaN f b) && !(lt f b a)
def ge (f : Fmt) (a b : Nat) : Bool := le f b a
/-- IEEE equality (NaN ≠ NaN, -0 = +0) -/
def eq (f : Fmt) (a b : Nat) : Bool := le f a b && le f b a

/-- Rust's `f32::max`: ignores a NaN operand -/
def max (f : Fmt) (a b : Nat) : Nat :=
  if isNaN f a then b else if isNaN f b then a else if lt f a b then b else a
/-- Rust's `f32::min`: ignores a NaN operand -/
def min (f : Fmt) (a b : Nat) : Nat :=
  if isNaN f a then b else if isNaN f b then a else if lt f b a then b else a

/-- Rust's `clamp(lo, hi)` (NaN stays NaN) -/
def clamp (f : Fmt) (x lo hi : Nat) : Nat :=
  if lt f x lo then lo else if gt f x hi then hi else x

/-- conversion of a natural number (`as f32` / `as f64` of an unsigned integer) -/
def ofNat (f : Fmt) (n : Nat) : Nat := roundPack f false n 0

/-- widening conversion (exact) -/
def convert (src dst : Fmt) (a : Nat) : Nat :=
  match unpack src a with
  | .nan => qnan dst
  | .inf s => infBits dst s
  | .fin s m e => roundPack dst s m e

/-- total order of `ordered_float::OrderedFloat`: NaN is the greatest value and equal to itself, -0 = +0 -/
def ordLt (f : Fmt) (a b : Nat) : Bool :=
  if isNaN f a then false else if isNaN f b then true else lt f a b
def ordEq (f : Fmt) (a b : Nat) : Bool :=
  if isNaN f a then isNaN f b else if isNaN f b then false else eq f a b

end Arroy.SF

namespace Arroy
namespace F32
open SF
abbrev fmt := SF.f32
def zero : Nat := 0
def negZero : Nat := 0x80000000
def one : Nat := 0x3f800000
def negOne : Nat := 0xbf800000
def two : Nat := 0x40000000
def inf : Nat := 0x7f800000
def epsilon : Nat := 0x34000000
def minPositive : Nat := 0x00800000
def add (a b : Nat) : Nat := SF.add fmt a b
def sub (a b : Nat) : Nat := SF.sub fmt a b
def mul (a b : Nat) : Nat := SF.mul fmt a b
def div (a b : Nat) : Nat := SF.div fmt a b
def fma (a b c : Nat) : Nat := SF.fma fmt a b c
def sqrt (a : Nat) : Nat := SF.sqrt fmt a
def neg (a : Nat) : Nat := SF.neg fmt a
def abs (a : Nat) : Nat := SF.abs fmt a
def lt (a b : Nat) : Bool := SF.lt fmt a b
def gt (a b : Nat) : Bool := SF.gt fmt a b
def le (a b : Nat) : Bool := SF.le fmt a b
def ge (a b : Nat) : Bool := SF.ge fmt a b
def eq (a b : Nat) : Bool := SF.eq fmt a b
def isNaN (a : Nat) : Bool := SF.isNaN fmt a
def max (a b : Nat) : Nat := SF.max fmt a b
def min (a b : Nat) : Nat := SF.min fmt a b
def clamp (x lo hi : Nat) : Nat := SF.clamp fmt x lo hi
def ofNat (n : Nat) : Nat := SF.ofNat fmt n
def signPositive (a : Nat) : Bool := !(SF.signBit fmt a)
def ordLt (a b : Nat) : Bool := SF.ordLt fmt a b
def ordEq (a b : Nat) : Bool := SF.ordEq fmt a b
/-- `(i32 as f32)` for possibly negative integers -/
def ofInt (i : Int) : Nat := if i < 0 then SF.neg fmt (SF.ofNat fmt i.natAbs) else SF.ofNat fmt i.natAbs
end F32

namespace F64
open SF
abbrev fmt := SF.f64
def add (a b : Nat) : Nat := SF.add fmt a b
def sub (a b : Nat) : Nat := SF.sub fmt a b
def mul (a b : Nat) : Nat := SF.mul fmt a b
def div (a b : Nat) : Nat := SF.div fmt a b
def lt (a b : Nat) : Bool := SF.lt fmt a b
def gt (a b : Nat) : Bool := SF.gt fmt a b
def max (a b : Nat) : Nat := SF.max fmt a b
def ofNat (n : Nat) : Nat := SF.ofNat fmt n
def one : Nat := 0x3ff0000000000000
def epsilon : Nat := 0x3cb0000000000000
/-- the binary64 nearest to the decimal literal `num/den` -/
def ofRat (q : Nat × Nat) : Nat := div (ofNat q.1) (ofNat q.2)
end F64
end Arroy
