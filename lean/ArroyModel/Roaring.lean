import ArroyModel.Bytes
import ArroyModel.Sets
/-! The portable serialisation of a roaring bitmap, as written by roaring-rs 0.10
(`serialize_into`): no run containers; array containers up to 4096 values, bitmap containers beyond. -/
namespace Arroy
namespace Roaring

def cookieNoRun : Nat := 12346
def arrayLimit : Nat := 4096

/-- group a sorted id list by its high 16 bits: (key, low values) -/
def containers : List Nat → List (Nat × List Nat)
  | [] => []
  | x :: xs =>
    match containers xs with
    | (k, lows) :: rest =>
      if x / 65536 = k then (k, x % 65536 :: lows) :: rest
      else (x / 65536, [x % 65536]) :: (k, lows) :: rest
    | [] => [(x / 65536, [x % 65536])]

/-- the 1024 words of a bitmap container -/
def bitmapWords (lows : List Nat) : List Nat :=
  (List.range 1024).map fun w =>
    (lows.filter (fun v => v / 64 = w)).foldl (fun acc v => acc + 2^(v % 64)) 0

def containerData (lows : List Nat) : Bytes :=
  if lows.length ≤ arrayLimit then lows.flatMap (le 2)
  else (bitmapWords lows).flatMap (le 8)

def containerSize (lows : List Nat) : Nat :=
  if lows.length ≤ arrayLimit then 2 * lows.length else 8192

def serializedSize (s : List Nat) : Nat :=
  let cs := containers s
  8 + 8 * cs.length + (cs.map (fun c => containerSize c.2)).sum

def offsets (start : Nat) : List (Nat × List Nat) → List Nat
  | [] => []
  | c :: cs => start :: offsets (start + containerSize c.2) cs

def encode (s : List Nat) : Bytes :=
  let cs := containers s
  le 4 cookieNoRun ++ le 4 cs.length
    ++ cs.flatMap (fun c => le 2 c.1 ++ le 2 (c.2.length - 1))
    ++ (offsets (8 + 8 * cs.length) cs).flatMap (le 4)
    ++ cs.flatMap (fun c => containerData c.2)

def wordBits (w word : Nat) : List Nat :=
  (List.range 64).filterMap fun b => if word / 2^b % 2 = 1 then some (w * 64 + b) else none

def decodeContainer (key card : Nat) (bs : Bytes) : Option (List Nat × Bytes) :=
  if card ≤ arrayLimit then
    if bs.length < 2 * card then none else
    some (((chunks 2 (bs.take (2 * card))).map fun c => key * 65536 + ofLe c), bs.drop (2 * card))
  else
    if bs.length < 8192 then none else
    let words := (chunks 8 (bs.take 8192)).map ofLe
    let vals := (List.zip (List.range 1024) words).flatMap fun (w, word) => wordBits w word
    some (vals.map (fun v => key * 65536 + v), bs.drop 8192)

def decodeContainers : List (Nat × Nat) → Bytes → Option (List Nat × Bytes)
  | [], bs => some ([], bs)
  | (k, card) :: rest, bs => do
    let (vals, bs) ← decodeContainer k card bs
    let (more, bs) ← decodeContainers rest bs
    pure (vals ++ more, bs)

/-- decode; also returns what follows the bitmap -/
def decode (bs : Bytes) : Option (List Nat × Bytes) :=
  if bs.length < 8 then none else
  if ofLe (bs.take 4) ≠ cookieNoRun then none else
  let n := ofLe ((bs.drop 4).take 4)
  let bs := bs.drop 8
  if bs.length < 8 * n then none else
  let descr := (chunks 4 (bs.take (4 * n))).map fun c => (ofLe (c.take 2), ofLe (c.drop 2) + 1)
  decodeContainers descr (bs.drop (8 * n))

end Roaring
end Arroy
