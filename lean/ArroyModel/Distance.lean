import ArroyModel.Codec
import ArroyModel.SoftFloat
/-! Distance kernels (`src/spaces`), quantisation (`src/unaligned_vector`) and the per-metric
functions of the `Distance` trait that writer and reader use. -/
namespace Arroy

/-- the arithmetic the kernels are written against (instantiated by soft-float binary32,
    and by any commutative ring in the cover theorems of C11) -/
structure Arith (α : Type) where
  zero : α
  sumInit : α
  add : α → α → α
  sub : α → α → α
  mul : α → α → α
  fma : α → α → α → α

def f32Arith : Arith Nat where
  zero := F32.zero
  sumInit := F32.negZero    -- `impl Sum for f32` folds from -0.0
  add := F32.add
  sub := F32.sub
  mul := F32.mul
  fma := F32.fma

namespace Kernel
variable {α : Type} (A : Arith α)

/-- `u.iter().zip(v).map(|(a, b)| a * b).sum()` -/
def dotScalar (u v : List α) : α := (List.zipWith A.mul u v).foldl A.add A.sumInit

/-- `u.iter().zip(v).map(|(u, v)| (u - v) * (u - v)).sum()` -/
def euclidScalar (u v : List α) : α :=
  (List.zipWith (fun a b => A.mul (A.sub a b) (A.sub a b)) u v).foldl A.add A.sumInit

/-- `p.iter().zip(q).map(|(p, q)| (p - q).abs()).sum()` -/
def manhattanWith (absf : α → α) (u v : List α) : α :=
  (List.zipWith (fun a b => absf (A.sub a b)) u v).foldl A.add A.sumInit

def zipWith3 (f : α → α → α → α) : List α → List α → List α → List α
  | a :: as, b :: bs, c :: cs => f a b c :: zipWith3 f as bs cs
  | _, _, _ => []

/-- one unrolled iteration over a block of `4 * lanes` components: four accumulators of `lanes` lanes -/
def blockStep (lanes : Nat) (step : α → α → α → α) (accs : List (List α)) (bu bv : List α) : List (List α) :=
  (List.zip (List.range 4) accs).map fun (j, acc) =>
    zipWith3 step ((bu.drop (j * lanes)).take lanes) ((bv.drop (j * lanes)).take lanes) acc

def mainLoop (lanes : Nat) (step : α → α → α → α) : List (List α) → List (List α) → List (List α) → List (List α)
  | accs, bu :: us, bv :: vs => mainLoop lanes step (blockStep lanes step accs bu bv) us vs
  | accs, _, _ => accs

/-- shape shared by the SSE and AVX kernels -/
def simd (lanes : Nat) (step : α → α → α → α) (hsum : List α → α) (tail : α → α → α → α) (u v : List α) : α :=
  let n := u.length
  let m := n - n % (4 * lanes)
  let accs0 := List.replicate 4 (List.replicate lanes A.zero)
  let accs := mainLoop lanes step accs0 (chunks (4 * lanes) (u.take m)) (chunks (4 * lanes) (v.take m))
  let r0 := match accs.map hsum with
    | [h1, h2, h3, h4] => A.add (A.add (A.add h1 h2) h3) h4
    | _ => A.zero
  (List.zip (u.drop m) (v.drop m)).foldl (fun r (a, b) => tail r a b) r0

/-- `hsum128_ps_sse`: (x0 + x2) + (x1 + x3) -/
def hsum128 : List α → α
  | [x0, x1, x2, x3] => A.add (A.add x0 x2) (A.add x1 x3)
  | _ => A.zero

/-- `hsum256_ps_avx`: hi half + lo half, then as `hsum128` -/
def hsum256 : List α → α
  | [x0, x1, x2, x3, x4, x5, x6, x7] =>
    hsum128 A [A.add x4 x0, A.add x5 x1, A.add x6 x2, A.add x7 x3]
  | _ => A.zero

def dotSse (u v : List α) : α :=
  simd A 4 (fun a b acc => A.add (A.mul a b) acc) (hsum128 A) (fun r a b => A.add r (A.mul a b)) u v

def euclidSse (u v : List α) : α :=
  simd A 4 (fun a b acc => A.add (A.mul (A.sub a b) (A.sub a b)) acc) (hsum128 A)
    (fun r a b => A.add r (A.mul (A.sub a b) (A.sub a b))) u v

def dotAvx (u v : List α) : α :=
  simd A 8 (fun a b acc => A.fma a b acc) (hsum256 A) (fun r a b => A.add r (A.mul a b)) u v

def euclidAvx (u v : List α) : α :=
  simd A 8 (fun a b acc => A.fma (A.sub a b) (A.sub a b) acc) (hsum256 A)
    (fun r a b => A.add r (A.mul (A.sub a b) (A.sub a b))) u v

end Kernel

/-- CPU features of the host, as printed by the harness -/
structure Host where
  avx : Bool := true
  fma : Bool := true
  sse : Bool := true
  deriving Repr, Inhabited

open Generated in
/-- `spaces::simple::dot_product` with its run-time dispatch -/
def dotProduct (h : Host) (u v : List Nat) : Nat :=
  if h.avx && h.fma && decide (u.length ≥ minDimAvx) then Kernel.dotAvx f32Arith u v
  else if h.sse && decide (u.length ≥ minDimSimd) then Kernel.dotSse f32Arith u v
  else Kernel.dotScalar f32Arith u v

open Generated in
/-- `spaces::simple::euclidean_distance` (squared) with its run-time dispatch -/
def euclideanDistance (h : Host) (u v : List Nat) : Nat :=
  if h.avx && h.fma && decide (u.length ≥ minDimAvx) then Kernel.euclidAvx f32Arith u v
  else if h.sse && decide (u.length ≥ minDimSimd) then Kernel.euclidSse f32Arith u v
  else Kernel.euclidScalar f32Arith u v

def manhattanDistance (u v : List Nat) : Nat := Kernel.manhattanWith f32Arith F32.abs u v

/-! ## binary quantisation -/
namespace BQ
open Generated

/-- pack up to 64 components into one word: bit `j` set iff component `j` has a clear sign bit -/
def packWord : List Nat → Nat
  | [] => 0
  | x :: xs => (if F32.signPositive x then 1 else 0) + 2 * packWord xs

/-- `from_slice_non_optimized` -/
def pack (xs : List Nat) : List Nat := (chunks quantizedWordBits xs).map packWord

def unpackWord : Nat → Nat → List Nat
  | 0, _ => []
  | n+1, w => (if w % 2 = 1 then F32.one else F32.negOne) :: unpackWord n (w / 2)

/-- `BinaryQuantizedIterator` / `to_vec`: every bit of every word as ±1.0 -/
def unpack (ws : List Nat) : List Nat := ws.flatMap (unpackWord quantizedWordBits)

def popcount : Nat → Nat → Nat
  | 0, _ => 0
  | n+1, w => w % 2 + popcount n (w / 2)

/-- number of differing sign bits -/
def hamming (u v : List Nat) : Nat :=
  ((List.zipWith (fun a b => popcount quantizedWordBits (a ^^^ b)) u v)).sum

/-- `dot_product_binary_quantized`: Σ over bytes of ones(!(u^v)) − zeros(!(u^v)), as f32 -/
def dot (u v : List Nat) : Nat :=
  F32.ofInt ((quantizedWordBits * (min u.length v.length) : Nat) - 2 * (hamming u v : Nat))

end BQ

/-! ## the `Distance` trait, per metric -/
namespace Metric

/-- `UnalignedVector::from_slice` -/
def fromSlice (m : Metric) (xs : List Nat) : List Nat := if m.isBq then BQ.pack xs else xs

/-- `UnalignedVector::to_vec` (not truncated) -/
def toVec (m : Metric) (ws : List Nat) : List Nat := if m.isBq then BQ.unpack ws else ws

/-- `UnalignedVector::is_zero` -/
def isZero (m : Metric) (ws : List Nat) : Bool :=
  if m.isBq then ws.all (· == 0) else ws.all (fun x => F32.eq x F32.zero)

/-- `margin_no_header` -/
def margin (m : Metric) (h : Host) (p q : List Nat) : Nat :=
  if m.isBq then BQ.dot p q else dotProduct h p q

/-- `norm_no_header` for the metrics whose header needs it -/
def normNoHeader (m : Metric) (h : Host) (v : List Nat) : Nat :=
  if m.isBq then F32.sqrt (BQ.dot v v) else F32.sqrt (dotProduct h v v)

/-- `new_header` -/
def newHeader (m : Metric) (h : Host) (v : List Nat) : List Nat :=
  m.header.map fun
    | .bias => F32.zero
    | .norm => if m = .dot then F32.zero else m.normNoHeader h v
    | .extraDim => F32.zero
    | .unknown => F32.zero

def hdrNorm (m : Metric) (hdr : List Nat) : Nat :=
  ((List.zip m.header hdr).find? (fun p => p.1 = .norm)).map (·.2) |>.getD F32.zero

/-- `built_distance` between two leaves -/
def builtDistance (m : Metric) (h : Host) (ph pv qh qv : List Nat) : Nat :=
  match m with
  | .euclidean => euclideanDistance h pv qv
  | .manhattan => manhattanDistance pv qv
  | .cosine =>
    let pnqn := F32.mul (m.hdrNorm ph) (m.hdrNorm qh)
    let pq := dotProduct h pv qv
    if F32.gt pnqn F32.epsilon then
      F32.div (F32.sub F32.one (F32.clamp (F32.div pq pnqn) F32.negOne F32.one)) F32.two
    else F32.zero
  | .dot => F32.neg (dotProduct h pv qv)
  | .bqEuclidean => F32.ofNat (BQ.hamming pv qv * 4)
  | .bqManhattan => F32.ofNat (BQ.hamming pv qv * 2)
  | .bqCosine =>
    -- the product of the two norms, exactly: sqrt (len · len), `len` the padded dimension
    let pnqn := F32.sqrt (F32.mul (F32.ofNat (Generated.quantizedWordBits * pv.length)) (F32.ofNat (Generated.quantizedWordBits * qv.length)))
    let pq := BQ.dot pv qv
    if !(F32.eq pnqn F32.zero) then
      F32.div (F32.sub F32.one (F32.div pq pnqn)) F32.two
    else F32.zero

/-- `normalized_distance` -/
def normalizedDistance (m : Metric) (d dims : Nat) : Nat :=
  match m with
  | .euclidean => F32.sqrt d
  | .manhattan => if F32.isNaN d then d else F32.max d F32.zero
  | .cosine => d
  | .dot => F32.neg d
  | .bqEuclidean => F32.div d (F32.ofNat dims)
  | .bqManhattan => F32.div (F32.max d F32.zero) (F32.ofNat dims)
  | .bqCosine => d

/-- `pq_distance` -/
def pqDistance (dist margin : Nat) (right : Bool) : Nat :=
  if right then F32.min margin dist else F32.min (F32.neg margin) dist

end Metric
end Arroy
