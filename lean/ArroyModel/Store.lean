import ArroyModel.Codec
/-! The LMDB database as arroy uses it: an ordered map from keys to values, with exactly
the heed operations the crate calls. Trusted model of LMDB (DESIGN.md 3.2). -/
namespace Arroy

/-- entries sorted by `Key.lt` (= byte order of the encoded keys, theorem `key_order`) -/
abbrev Store := List (Key × Val)

namespace Store

def get (s : Store) (k : Key) : Option Val :=
  match s with
  | [] => none
  | (k', v) :: rest => if k' = k then some v else get rest k

def contains (s : Store) (k : Key) : Bool := (get s k).isSome

def put (s : Store) (k : Key) (v : Val) : Store :=
  match s with
  | [] => [(k, v)]
  | (k', v') :: rest =>
    if k.lt k' then (k, v) :: (k', v') :: rest
    else if k' = k then (k, v) :: rest
    else (k', v') :: put rest k v

def erase (s : Store) (k : Key) : Store := s.filter (fun kv => kv.1 ≠ k)

/-- `Database::delete`: the new store and whether the key was present -/
def delete (s : Store) (k : Key) : Store × Bool := (erase s k, contains s k)

def maxKey? (s : Store) : Option Key := s.getLast?.map (·.1)

/-- `put_with_flags(APPEND)`: succeeds iff the key is greater than every key of the database;
    otherwise `KeyExist` and nothing changes. -/
def putAppend (s : Store) (k : Key) (v : Val) : Option Store :=
  match maxKey? s with
  | none => some [(k, v)]
  | some m => if m.lt k then some (s ++ [(k, v)]) else none

/-- `prefix_iter`: the entries whose encoded key starts with the encoded prefix, in key order -/
def prefixIter (s : Store) (index : Nat) (mode : Option Nat) : Store :=
  s.filter (fun kv => isPrefixOf (encodePrefix index mode) (encodeKey kv.1))

/-- deleting every entry visited by a prefix cursor (`del_current` in a loop) -/
def deletePrefix (s : Store) (index : Nat) (mode : Option Nat) : Store :=
  s.filter (fun kv => !(isPrefixOf (encodePrefix index mode) (encodeKey kv.1)))

/-- `delete_range(lo ..= hi)` in byte order -/
def deleteRange (s : Store) (lo hi : Key) : Store :=
  s.filter (fun kv =>
    let e := encodeKey kv.1
    lexLt e (encodeKey lo) || lexLt (encodeKey hi) e)

def keysOf (s : Store) (index mode : Nat) : List Nat :=
  (prefixIter s index (some mode)).map (·.1.item)

def Sorted : Store → Prop
  | [] => True
  | [_] => True
  | a :: b :: rest => a.1.lt b.1 = true ∧ Sorted (b :: rest)

end Store
end Arroy
