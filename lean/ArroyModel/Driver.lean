import ArroyModel.Check
import ArroyModel.Upgrade
import ArroyModel.Ids
import ArroyModel.Split
import ArroyModel.InPlace
/-! The trace driver (PROTOCOL.md): runs the model on the operations of a trace written by the
Rust harness, compares every answer and every dump, and evaluates the predicates of
`Check.lean` on the implementation's own data. -/
namespace Arroy
open Generated

namespace Driver

/-! ### parsing helpers -/

def parseNat? (s : String) : Option Nat := s.toNat?

def hexNat? (s : String) : Option Nat :=
  s.toList.foldl (fun acc c => match acc, hexVal c with
    | some a, some d => some (a * 16 + d)
    | _, _ => none) (some 0)

def parseVec? (s : String) : Option (List Nat) :=
  if s == "-" then some [] else (s.splitOn ",").mapM hexNat?

def parseIds? (s : String) : Option (List Nat) :=
  if s == "-" then some [] else (s.splitOn ",").mapM parseNat?

def parseMetric? : String → Option Metric
  | "euclidean" => some .euclidean | "manhattan" => some .manhattan | "cosine" => some .cosine
  | "dot" => some .dot | "bqeuclidean" => some .bqEuclidean | "bqmanhattan" => some .bqManhattan
  | "bqcosine" => some .bqCosine | _ => none

def metricToken : Metric → String
  | .euclidean => "euclidean" | .manhattan => "manhattan" | .cosine => "cosine" | .dot => "dot"
  | .bqEuclidean => "bqeuclidean" | .bqManhattan => "bqmanhattan" | .bqCosine => "bqcosine"

def optNat? (s : String) : Option (Option Nat) :=
  if s == "-" then some none else (parseNat? s).map some

/-- `key=value` lookup among tokens -/
def kv? (toks : List String) (key : String) : Option String :=
  toks.findSome? fun t => if t.startsWith (key ++ "=") then some ((t.drop (key.length + 1)).toString) else none

def hex8 (n : Nat) : String :=
  String.ofList ((List.range 8).map fun i => hexDigit (n / 16^(7 - i) % 16))

def vecStr (v : List Nat) : String := if v.isEmpty then "-" else ",".intercalate (v.map hex8)
def idsStr (v : List Nat) : String := if v.isEmpty then "-" else ",".intercalate (v.map toString)

def nameToken (bs : Bytes) : String :=
  String.ofList (bs.map fun b => if b == 32 then '_' else Char.ofNat b)

/-! ### state -/

structure IndexInfo where
  metric : Metric
  dims : Nat
  /-- `none`: never built; `some (some c)`: every build so far used capacity `c`; `some none`: it varied -/
  capHist : Option (Option Nat) := none
  deriving Repr, Inhabited

structure Pending where
  toks : List String
  evs : Array (List String) := #[]
  deriving Inhabited

/-- a previous answer, kept to check budget monotonicity -/
structure PastAnswer where
  key : String          -- index, query, count, oversampling, filter
  budget : Nat
  scores : List (Nat × Nat)   -- (score bits, id) of the results, in order
  deriving Inhabited

structure DState where
  caseId : Nat := 0
  step : Nat := 0
  host : Host := {}
  committed : Store := []
  txn : Option Store := none
  infos : List (Nat × IndexInfo) := []
  infosAtBegin : List (Nat × IndexInfo) := []
  pending : Option Pending := none
  inDump : Bool := false
  dumpKV : Array (Bytes × Bytes) := #[]
  /-- the model could not follow the last build (unordered events or a reported difference):
      the next dump is checked by predicates only and then adopted -/
  resync : Bool := false
  /-- indexes on which a build failed in the open transaction: what they hold is undefined until the
      transaction is aborted (the crate's contract), or the index is cleared or prepared for another metric -/
  junk : List Nat := []
  /-- this case runs a build in a map that may be too small for it (`faults --part mapsweep`) -/
  mapSweep : Bool := false
  /-- stores before the last build (for the loose post-build check) -/
  preBuild : Option (Store × Nat × BuildOpts) := none
  past : List PastAnswer := []
  /-- reference runs: (pre-build store, build tokens without cancel, total polls) -/
  refs : List (Store × List String × Nat) := []
  failures : Nat := 0
  caseFailures : Nat := 0
  expectRecovered : Bool := false
  out : Array String := #[]
  -- coverage counters
  nOps : Nat := 0
  nBuilds : Nat := 0
  nBuildsReplayed : Nat := 0
  nSplitSearches : Nat := 0
  nSplitSearchesSeen : Nat := 0
  splitChecksPerBuild : Nat := 6
  nBuildsLoose : Nat := 0
  nDumps : Nat := 0
  nQueries : Nat := 0
  nSplits : Nat := 0
  nRandomSplits : Nat := 0
  nItemChildren : Nat := 0
  nCancelled : Nat := 0
  nSelfLookups : Nat := 0
  nExact : Nat := 0
  nMonotone : Nat := 0
  nRouted : Nat := 0
  maxItems : Nat := 0
  maxDepth : Nat := 0
  nRecords : Nat := 0
  /-- independent specification of the item store, replayed over the op list from the implementation's own
      answers: (index, id) ↦ the vector as written (f32 bit patterns) -/
  spec : List ((Nat × Nat) × List Nat) := []
  specAtBegin : List ((Nat × Nat) × List Nat) := []
  /-- per index: (built since the last metric change?, effective mutation since the last successful build?) -/
  fresh : List (Nat × Bool × Bool) := []
  freshAtBegin : List (Nat × Bool × Bool) := []
  nSpecChecks : Nat := 0
  /-- the database was loaded from raw pairs: the replayed specification does not know its content -/
  specOff : Bool := false
  /-- raw pairs put in the open transaction (`rawput`) -/
  rawPending : Array (Bytes × Bytes) := #[]
  /-- a committed old-layout (v0.4) database, kept as raw pairs -/
  oldLayout : Option (List (Bytes × Bytes)) := none
  /-- the dump an upgraded database must reproduce -/
  expectAfterUpgrade : Option (List (Bytes × Bytes)) := none
  inExpect : Bool := false
  /-- committed versions of the case (index = number of commits so far), for reader snapshots -/
  versions : Array Store := #[[]]
  snapshots : List (Nat × List (Bytes × Bytes)) := []
  inSnapshot : Option (Nat × Nat × Nat) := none
  committing : Bool := false
  nSnapshots : Nat := 0
  nRecovered : Nat := 0
  nTolChecked : Nat := 0
  /-- set by `commit`: the committed store before it, should the commit itself fail (map full) -/
  preCommit : Option Store := none
  nMapFull : Nat := 0
  /-- per index: the configuration and the keys the store predicates were last evaluated on -/
  predCache : List (Nat × Metric × Nat × Option (Option Nat) × Store) := []
  nDefChecked : Nat := 0
  /-- the last `dist` records (metric name, a, b, built, normalised): symmetry is checked against them -/
  lastDist : List (String × List Nat × List Nat × Nat × Nat) := []
  caseBuilds : Nat := 0
  caseSplits : Nat := 0
  caseQueries : Nat := 0
  deriving Inhabited

def DState.view (d : DState) : Store := d.txn.getD d.committed

def DState.setView (d : DState) (s : Store) : DState :=
  match d.txn with
  | some _ => { d with txn := some s }
  | none => { d with committed := s }

def DState.emit (d : DState) (line : String) : DState := { d with out := d.out.push line }

def DState.diff (d : DState) (what model impl : String) : DState :=
  { d with failures := d.failures + 1, caseFailures := d.caseFailures + 1 }.emit
    s!"DIFF case={d.caseId} step={d.step} {what} model=[{model}] impl=[{impl}]"

def DState.prop (d : DState) (id : String) (detail : String) : DState :=
  { d with failures := d.failures + 1, caseFailures := d.caseFailures + 1 }.emit
    s!"PROP {id} FAIL case={d.caseId} step={d.step} {detail}"

def DState.props (d : DState) (id : String) (details : List String) : DState :=
  (details.take 3).foldl (fun d x => d.prop id x) d

def DState.info (d : DState) (index : Nat) : Option IndexInfo := (d.infos.find? (·.1 == index)).map (·.2)

def DState.setInfo (d : DState) (index : Nat) (i : IndexInfo) : DState :=
  { d with infos := (index, i) :: d.infos.filter (·.1 != index) }

/-- parse `W` = index metric dims at the head of `toks` -/
def parseW (d : DState) (toks : List String) : Option (Cfg × List String) :=
  match toks with
  | i :: m :: dm :: rest => do
    let index ← parseNat? i
    let metric ← parseMetric? m
    let dims ← parseNat? dm
    pure ({ index, metric, dims, host := d.host }, rest)
  | _ => none

def noteW (d : DState) (c : Cfg) : DState :=
  match d.info c.index with
  | some i => if i.metric == c.metric && i.dims == c.dims then d else d.setInfo c.index { i with metric := c.metric, dims := c.dims }
  | none => d.setInfo c.index { metric := c.metric, dims := c.dims }

/-! ### canonical result strings of the model -/

def errStr : Err → String
  | .invalidDim e r => s!"err dim {e} {r}"
  | .invalidAppend => "err append"
  | .cancelled _ => "err cancelled"
  | .dbFull => "err dbfull"
  | .mapFull => "err mapfull"
  | .io => "err io"
  | .missingKey _ _ _ => "err missingkey"
  | .missingMetadata i => s!"err missingmeta {i}"
  | .unmatchingDistance e r => s!"err unmatching {nameToken e} {nameToken r}"
  | .needBuild i => s!"err needbuild {i}"
  | .oracle w => s!"err oracle {w}"
  | .fuel w => s!"err fuel {w}"
  | .panic w => s!"panic {w}"

def boolStr (b : Bool) : String := if b then "1" else "0"

def iterStr (l : List (Nat × List Nat)) : String :=
  " ".intercalate (l.map fun (id, v) => s!"{id}:{vecStr v}")

def canonDist (x : Nat) : Nat := if F32.isNaN x then 0x7fc00000 else x

def ansStr (l : List (Nat × Nat)) : String :=
  " ".intercalate (l.map fun (id, dist) => s!"{id}:{hex8 (canonDist dist)}")

/-- canonicalise the NaN distances of an implementation answer the same way -/
def parseAns? (toks : List String) : Option (List (Nat × Nat)) :=
  toks.mapM fun t => match t.splitOn ":" with
    | [a, b] => do let id ← parseNat? a; let x ← hexNat? b; pure (id, canonDist x)
    | _ => none

def parseQuery (rest : List String) : Option (QueryOpts × String) := do
  let count ← (kv? rest "count") >>= parseNat?
  let k ← (kv? rest "k") >>= optNat?
  let over ← (kv? rest "over") >>= optNat?
  let cand ← kv? rest "cand"
  let candidates ← if cand == "-" then some none else if cand == "empty" then some (some []) else
    (parseIds? cand).map (fun l => some (IdSet.ofList l))
  let by_ ← kv? rest "by"
  pure ({ count, searchK := k, oversampling := over, candidates }, by_)

/-! ### builds -/

structure BuildArgs where
  opts : BuildOpts
  cancel : Option Nat
  threads : Nat
  deriving Inhabited

def parseBuild (rest : List String) : Option BuildArgs := do
  let nTrees ← (kv? rest "ntrees") >>= optNat?
  let split ← (kv? rest "split") >>= optNat?
  let mem ← (kv? rest "mem") >>= optNat?
  let cancel ← (kv? rest "cancel") >>= optNat?
  let threads ← (kv? rest "threads") >>= parseNat?
  pure { opts := { nTrees, splitAfter := split, availableMemory := mem }, cancel, threads }

/-- split the recorded events into the three oracle streams: normals, random sides, batch lengths.
    The draws made between `splitstart` and `normal` belong to the split search (two-means) and are
    not oracles of the model; 64-bit draws are the per-pass seeds. -/
def splitEvents (evs : List (List String)) : Option (List (List Nat) × List Bool × List Nat) :=
  let rec go (evs : List (List String)) (inSplit : Bool) (wordBytes : Nat)
      (ns : Array (List Nat)) (rs : Array Bool) (bs : Array Nat) : Option (List (List Nat) × List Bool × List Nat) :=
    match evs with
    | [] => some (ns.toList, rs.toList, bs.toList)
    | ["ev", "splitstart"] :: rest => go rest true wordBytes ns rs bs
    | ["ev", "normal", h] :: rest =>
      match ofHex h with
      | some bytes => go rest false wordBytes (ns.push ((chunks wordBytes bytes).map ofLe)) rs bs
      | none => none
    | ["ev", "draw", v] :: rest =>
      if inSplit then go rest inSplit wordBytes ns rs bs
      else match parseNat? v with
        | some x => go rest inSplit wordBytes ns (rs.push (decide (x ≥ 2^31))) bs
        | none => none
    | ["ev", "draw64", _] :: rest => go rest inSplit wordBytes ns rs bs
    | ["ev", "chosen", _] :: rest => go rest inSplit wordBytes ns rs bs
    | ["ev", "fill", _] :: rest => go rest inSplit wordBytes ns rs bs
    | ["ev", "batch", k] :: rest =>
      match parseNat? k with
      | some x => go rest inSplit wordBytes ns rs (bs.push x)
      | none => none
    | _ :: _ => none
  go evs false 0 #[] #[] #[]

def splitEventsFor (m : Metric) (evs : List (List String)) : Option (List (List Nat) × List Bool × List Nat) :=
  -- the word size is needed to cut the normal's bytes: re-run with it
  let fix := evs.map fun e => e
  let rec go (evs : List (List String)) (inSplit : Bool)
      (ns : Array (List Nat)) (rs : Array Bool) (bs : Array Nat) : Option (List (List Nat) × List Bool × List Nat) :=
    match evs with
    | [] => some (ns.toList, rs.toList, bs.toList)
    | ["ev", "splitstart"] :: rest => go rest true ns rs bs
    | ["ev", "normal", h] :: rest =>
      match ofHex h with
      | some bytes => go rest false (ns.push ((chunks m.wordBytes bytes).map ofLe)) rs bs
      | none => none
    | ["ev", "draw", v] :: rest =>
      if inSplit then go rest inSplit ns rs bs
      else match parseNat? v with
        | some x => go rest inSplit ns (rs.push (decide (x ≥ 2^31))) bs
        | none => none
    | ["ev", "draw64", _] :: rest => go rest inSplit ns rs bs
    | ["ev", "chosen", _] :: rest => go rest inSplit ns rs bs
    | ["ev", "fill", _] :: rest => go rest inSplit ns rs bs
    | ["ev", "batch", k] :: rest =>
      match parseNat? k with
      | some x => go rest inSplit ns rs (bs.push x)
      | none => none
    | _ :: _ => none
  go fix false #[] #[] #[]

/-- the split searches of a build, when the trace has them (`--choices`): the items drawn by
    `choose_two` / `choose` and the normal `create_split` returned -/
def splitGroups (m : Metric) (evs : List (List String)) : List (List Nat × List Nat) :=
  let rec go (evs : List (List String)) (cur : Array Nat) (acc : Array (List Nat × List Nat)) : List (List Nat × List Nat) :=
    match evs with
    | [] => acc.toList
    | ["ev", "splitstart"] :: rest => go rest #[] acc
    | ["ev", "chosen", v] :: rest =>
      match parseNat? v with
      | some x => go rest (cur.push x) acc
      | none => go rest cur acc
    | ["ev", "normal", h] :: rest =>
      match ofHex h with
      | some bytes => go rest #[] (if cur.isEmpty then acc else acc.push (cur.toList, (chunks m.wordBytes bytes).map ofLe))
      | none => go rest #[] acc
    | _ :: rest => go rest cur acc
  go evs #[] #[]

/-- equal f32 bit patterns, NaNs as a class (quantised words: equal) -/
def sameVec (m : Metric) (a b : List Nat) : Bool :=
  a.length == b.length && (List.zip a b).all fun (x, y) => x == y || (!m.isBq && F32.isNaN x && F32.isNaN y)

def treeDepth : T → Nat
  | .leaf _ => 0
  | .bucket _ _ => 1
  | .node _ _ l r => 1 + Nat.max (treeDepth l) (treeDepth r)

def countSplits (c : Cfg) : T → Nat × Nat × Nat
  | .leaf _ => (0, 0, 1)
  | .bucket _ _ => (0, 0, 0)
  | .node _ n l r =>
    let (a1, b1, c1) := countSplits c l
    let (a2, b2, c2) := countSplits c r
    (1 + a1 + a2, (if c.metric.isZero n then 1 else 0) + b1 + b2, c1 + c2)

/-- predicates evaluated on a (decoded implementation) store for every index that has metadata -/
def storePredicates (d : DState) (s : Store) : DState := Id.run do
  let mut d := d
  for (index, info) in d.infos do
    if d.junk.contains index then continue
    let c : Cfg := { index, metric := info.metric, dims := info.dims, host := d.host }
    -- C06 structural part: an index without pending updates and with metadata must be a valid forest
    if (s.prefixIter index (some modeUpdated)).isEmpty then
      -- the predicates are functions of the index's own keys and its configuration: nothing to do when the
      -- last evaluation saw exactly this (dumps after read operations)
      let mine := s.prefixIter index none
      match d.predCache.find? (·.1 == index) with
      | some (_, m0, d0, cap0, st0) =>
        if m0 == info.metric && d0 == info.dims && cap0 == info.capHist && st0 == mine then continue
      | none => pure ()
      d := { d with predCache := (index, info.metric, info.dims, info.capHist, mine) :: d.predCache.filter (·.1 != index) }
      d := d.props "C01" (Check.forestValid c s)
      -- what `forestValid` does not look at (`Checkers.lean`): a built, non-empty index has at least one tree
      match s.get c.metaKey with
      | some (.metadata _ _ items roots) =>
        if !items.isEmpty && roots.isEmpty then
          d := d.prop "C15" s!"index {index}: the metadata lists {items.length} items and no tree"
      | _ => pure ()
      match info.capHist with
      | some (some cap) => d := d.props "C15" (Check.capacityOk c s cap)
      | _ => pure ()
      let r := Check.routed c s
      d := d.props "C04" r
      let ts := Check.trees c s
      for t in ts do
        let (a, b, e) := countSplits c t
        d := { d with caseSplits := d.caseSplits + a, nSplits := d.nSplits + a, nRandomSplits := d.nRandomSplits + b, nItemChildren := d.nItemChildren + e,
                      maxDepth := Nat.max d.maxDepth (treeDepth t), nRouted := d.nRouted + t.items.length * a }
      d := { d with maxItems := Nat.max d.maxItems (s.keysOf index modeItem).length }
  return d

/-! ### dumps -/

def valEq : Val → Val → Bool
  | .leaf h1 v1, .leaf h2 v2 => h1.map canonDist == h2.map canonDist && v1 == v2
  | a, b => a == b

def decodeDump (d : DState) (kvs : List (Bytes × Bytes)) : Store × List String :=
  kvs.foldr (fun (kb, vb) (acc, errs) =>
    match decodeKey kb with
    | none => (acc, s!"undecodable key {toHex kb}" :: errs)
    | some k =>
      let m := ((d.info k.index).map (·.metric)).getD .euclidean
      let v := decodeVal m k vb
      let errs := if encodeKey k != kb then s!"key {toHex kb} does not re-encode" :: errs else errs
      let errs := match v with | .raw _ => s!"value under {toHex kb} does not decode" :: errs | _ => errs
      ((k, v) :: acc, errs)) ([], [])

def firstDiff : Store → Store → String
  | [], [] => "none"
  | (k, _) :: _, [] => s!"model has extra key {toHex (encodeKey k)}"
  | [], (k, _) :: _ => s!"impl has extra key {toHex (encodeKey k)}"
  | (k1, v1) :: r1, (k2, v2) :: r2 =>
    if k1 != k2 then s!"key model {toHex (encodeKey k1)} vs impl {toHex (encodeKey k2)}"
    else if !(valEq v1 v2) then s!"value under {toHex (encodeKey k1)}: model {repr v1} impl {repr v2}"
    else firstDiff r1 r2

def storeEq : Store → Store → Bool
  | [], [] => true
  | (k1, v1) :: r1, (k2, v2) :: r2 => k1 == k2 && valEq v1 v2 && storeEq r1 r2
  | _, _ => false

/-- what a build must have done whatever the oracles: items kept (headers of dot-product
    rewritten), marks consumed, metadata describing the items, other indexes untouched -/
def looseBuildCheck (d : DState) (c : Cfg) (o : BuildOpts) (pre : Store) (post : Store) : DState := Id.run do
  let mut d := d
  let pre1 := if c.metric = .dot then Build.preprocessDot c pre else pre
  let expectOther := pre1.filter fun kv => !(kv.1.index == c.index && (kv.1.mode == modeTree || kv.1.mode == modeUpdated || kv.1.mode == modeMetadata))
  let gotOther := post.filter fun kv => !(kv.1.index == c.index && (kv.1.mode == modeTree || kv.1.mode == modeUpdated || kv.1.mode == modeMetadata))
  if !(storeEq expectOther gotOther) then
    d := d.diff "build changed something outside the trees, marks and metadata of its index" (firstDiff expectOther gotOther) ""
  let items := pre.keysOf c.index modeItem
  if !(post.prefixIter c.index (some modeUpdated)).isEmpty then
    d := d.prop "C06" s!"updated marks left after a successful build of index {c.index}"
  match post.get c.metaKey with
  | some (.metadata name dims its roots) =>
    if name != c.metric.nameBytes || dims != c.dims || its != items then
      d := d.diff "metadata after build" s!"{nameToken c.metric.nameBytes} {c.dims} {items}" s!"{nameToken name} {dims} {its}"
    let cap := Build.cap c o
    if items.length ≤ cap then
      if roots.length != (if items.isEmpty then 0 else 1) then
        d := d.prop "C15" s!"index fitting one bucket has {roots.length} trees"
    else
      match o.nTrees with
      | some t => if roots.length != t then d := d.prop "C15" s!"{roots.length} trees, {t} requested"
      | none => if roots.length == 0 then d := d.prop "C15" "no tree in a non-empty index"
  | _ => d := d.prop "C06" s!"no metadata after a successful build of index {c.index}"
  return d

def specGet (d : DState) (index id : Nat) : Option (List Nat) := (d.spec.find? (·.1 == (index, id))).map (·.2)

def hasNaNHeader : Val → Bool
  | .leaf h _ => h.any F32.isNaN
  | _ => false

def handleDump (d : DState) : DState := Id.run do
  let kvs := d.dumpKV.toList
  let mut d := { d with inDump := false, dumpKV := #[], nDumps := d.nDumps + 1 }
  let (impl, errs) := decodeDump d kvs
  d := d.props "C16" errs
  -- byte order = key order (C16)
  let rec sortedBytes : List (Bytes × Bytes) → Bool
    | a :: b :: rest => lexLt a.1 b.1 && sortedBytes (b :: rest)
    | _ => true
  if !(sortedBytes kvs) then d := d.prop "C16" "dump is not in byte order"
  let rec sortedKeys : Store → Bool
    | a :: b :: rest => a.1.lt b.1 && sortedKeys (b :: rest)
    | _ => true
  if !(sortedKeys impl) then d := d.prop "C16" "decoded keys are not in (index, kind, id) order"
  -- every value re-encodes to the same bytes under the reference layout
  for ((kb, vb), (k, v)) in List.zip kvs impl do
    let m := ((d.info k.index).map (·.metric)).getD .euclidean
    if !(hasNaNHeader v) && encodeVal m v != vb then
      d := d.prop "C16" s!"value under {toHex kb} re-encodes differently: {toHex (encodeVal m v)} vs {toHex vb}"
    -- the stored vector of an item written in this trace has the length the reference layout gives for the
    -- vector as written: `len` binary32 components, or ⌈len/64⌉ words for the quantised codec
    if k.mode == modeItem then
      match v, specGet d k.index k.item with
      | .leaf _ vec, some written =>
        let expect := if m.isBq then (written.length + quantizedWordBits - 1) / quantizedWordBits else written.length
        if vec.length != expect then
          d := d.prop "C16" s!"item {k.item} of index {k.index} was written with {written.length} components: the reference layout stores {expect} {if m.isBq then "words" else "components"}, the database holds {vec.length}"
      | _, _ => pure ()
  if d.expectRecovered then
    d := { d with expectRecovered := false }
    let inflight := d.committing && (match d.txn with | some t => storeEq t impl | none => false)
    if !(storeEq d.committed impl) && !inflight then
      d := d.prop "C09" s!"recovered state differs from the last committed model state: {firstDiff d.committed impl}"
    -- what the lost transaction had changed is gone from the replayed specification too
    if d.txn.isSome && !inflight then
      let infos := d.infos.map fun (i, info) =>
        match d.infosAtBegin.find? (·.1 == i) with
        | some (_, old) => (i, old)
        | none => (i, info)
      d := { d with spec := d.specAtBegin, fresh := d.freshAtBegin, infos := infos }
    d := { d with committed := impl, txn := none, committing := false, nRecovered := d.nRecovered + 1 }
  else if d.resync then
    match d.preBuild with
    | some (pre, index, opts) =>
      match d.info index with
      | some info =>
        let c : Cfg := { index, metric := info.metric, dims := info.dims, host := d.host }
        d := looseBuildCheck d c opts pre impl
      | none => pure ()
    | none => pure ()
    d := { d.setView impl with resync := false, preBuild := none }
  else
    let model := d.view
    if !(storeEq model impl) then
      d := d.diff "dump" (firstDiff model impl) ""
      d := d.setView impl
  -- C17: once upgraded, the database must be the original one (version records are added by 0.5 -> 0.6 only)
  match d.expectAfterUpgrade with
  | some orig =>
    if d.oldLayout.isNone then
      let (origSt, _) := decodeDump d orig
      let noVer (st : Store) := st.filter fun kv => !(kv.1.mode == versionKeyMode && kv.1.item == versionKeyItem)
      if !(storeEq (noVer origSt) (noVer impl)) then
        d := d.prop "C17" s!"upgraded database differs from the original: {firstDiff (noVer origSt) (noVer impl)}"
  | none => pure ()
  d := storePredicates d impl
  return d


/-! ### the independent item-store / staleness specification (C05, C06) -/

def specSet (d : DState) (index id : Nat) (v : List Nat) : DState :=
  { d with spec := ((index, id), v) :: d.spec.filter (·.1 != (index, id)) }
def specDel (d : DState) (index id : Nat) : DState := { d with spec := d.spec.filter (·.1 != (index, id)) }
def specClear (d : DState) (index : Nat) : DState := { d with spec := d.spec.filter (·.1.1 != index) }

def freshGet (d : DState) (index : Nat) : Bool × Bool :=
  ((d.fresh.find? (·.1 == index)).map (·.2)).getD (false, false)
def freshSet (d : DState) (index : Nat) (v : Bool × Bool) : DState :=
  { d with fresh := (index, v) :: d.fresh.filter (·.1 != index) }
def markDirty (d : DState) (index : Nat) : DState := freshSet d index ((freshGet d index).1, true)

/-- what reading a vector written as `v` must give back under metric `m` -/
def expectedRead (m : Metric) (dims : Nat) (v : List Nat) : List Nat :=
  if m.isBq then
    let signs := v.map (fun x => if x ≥ 2^31 then F32.negOne else F32.one)
    -- the stored words are padded with cleared bits up to a multiple of 64: they read as -1.0
    (signs ++ List.replicate ((64 - v.length % 64) % 64) F32.negOne).take dims
  else v.take dims

/-- update the specification from the implementation's OWN answer to a write op, and judge its read answers -/
def specStep (d : DState) (op : String) (c0 : Cfg) (rest res : List String) : DState := Id.run do
  let mut d := d
  let idx := c0.index
  -- a reader takes its dimension from the metadata (what the index was built with), a writer from its argument
  let c : Cfg := if op.startsWith "r" then { c0 with dims := ((d.info idx).map (·.dims)).getD c0.dims } else c0
  match op with
  | "add" | "append" =>
    match rest[0]? >>= parseNat?, rest[1]? >>= parseVec? with
    | some id, some v =>
      if res == ["ok"] then
        d := markDirty (specSet d idx id v) idx
        if v.length != c.dims then d := d.prop "C19" s!"{op} of a vector of length {v.length} accepted by an index of dimension {c.dims}"
      else if v.length != c.dims && res != ["err", "dim", toString c.dims, toString v.length] then
        d := d.prop "C19" s!"{op} with a wrong length answered {res}"
    | _, _ => pure ()
  | "del" =>
    match rest[0]? >>= parseNat? with
    | some id =>
      let present := (specGet d idx id).isSome
      d := { d with nSpecChecks := d.nSpecChecks + 1 }
      if res != ["ok", boolStr present] then
        d := d.prop "C05" s!"del {id} on index {idx} answered {res} but the item was {if present then "present" else "absent"}"
      if res == ["ok", "1"] then d := markDirty (specDel d idx id) idx
    | none => pure ()
  | "clear" => if res == ["ok"] then d := { freshSet (specClear d idx) idx (false, true) with junk := d.junk.filter (· != idx) }
  | "prepare" =>
    match rest[0]? >>= parseMetric? with
    | some m' =>
      if res == ["ok"] && m' != c.metric then
        d := { freshSet d idx (false, true) with junk := d.junk.filter (· != idx) }
        -- the items are re-encoded from what the old metric reads back
        d := { d with spec := d.spec.map fun p => if p.1.1 == idx then (p.1, expectedRead c.metric c.dims p.2) else p }
    | none => pure ()
  | "build" => if res.headD "" == "ok" then d := freshSet d idx (true, false) else d := { d with junk := idx :: d.junk }
  | "get" | "rget" =>
    match rest[0]? >>= parseNat? with
    | some id =>
      if res.headD "" == "ok" then
        d := { d with nSpecChecks := d.nSpecChecks + 1 }
        let want := match specGet d idx id with
          | some v => s!"ok {vecStr (expectedRead c.metric c.dims v)}"
          | none => "ok none"
        if " ".intercalate res != want then
          d := d.prop "C05" s!"{op} {id} on index {idx} ({metricToken c.metric}) answered [{" ".intercalate res}] but the last write gives [{want}]"
    | none => pure ()
  | "contains" | "rcontains" =>
    match rest[0]? >>= parseNat? with
    | some id =>
      if res.headD "" == "ok" then
        d := { d with nSpecChecks := d.nSpecChecks + 1 }
        if res != ["ok", boolStr (specGet d idx id).isSome] then
          d := d.prop "C05" s!"{op} {id} on index {idx} answered {res}"
    | none => pure ()
  | "iter" | "riter" =>
    if res.headD "" == "ok" then
      d := { d with nSpecChecks := d.nSpecChecks + 1 }
      let mine := (d.spec.filter (·.1.1 == idx)).map (fun p => (p.1.2, expectedRead c.metric c.dims p.2))
      let sorted := mine.mergeSort (fun a b => decide (a.1 ≤ b.1))
      let want := if sorted.isEmpty then "ok" else s!"ok {iterStr sorted}"
      if " ".intercalate res != want then
        d := d.prop "C05" s!"{op} on index {idx} differs from the items written: got [{(" ".intercalate res).take 300}] want [{want.take 300}]"
  | "isempty" | "risempty" =>
    if res.headD "" == "ok" then
      let empty := !(d.spec.any (·.1.1 == idx))
      if res != ["ok", boolStr empty] then d := d.prop "C05" s!"{op} on index {idx} answered {res}"
  | "ritemids" =>
    if res.headD "" == "ok" then
      let ids := IdSet.ofList ((d.spec.filter (·.1.1 == idx)).map (·.1.2))
      if res != ["ok", idsStr ids] && !(ids.isEmpty && res == ["ok", "-"]) then
        d := d.prop "C05" s!"item_ids of index {idx} is {res.drop 1} but the stored ids are {ids}"
  | "needbuild" =>
    let (built, dirty) := freshGet d idx
    d := { d with nSpecChecks := d.nSpecChecks + 1 }
    if !(d.junk.contains idx) && res != ["ok", boolStr (!built || dirty)] then
      d := d.prop "C06" s!"need_build of index {idx} answered {res}: built={built}, effective change since the last build={dirty}"
  | "open" =>
    let (built, dirty) := freshGet d idx
    let sameMetric := ((d.info idx).map (·.metric)) == some c.metric
    d := { d with nSpecChecks := d.nSpecChecks + 1 }
    let opened := res.headD "" == "ok"
    let complaint : Option String :=
      if !built then
        (if res.take 2 != ["err", "missingmeta"] then some s!"open of the never-built index {idx} answered {res}" else none)
      else if !sameMetric then
        (if res.take 2 != ["err", "unmatching"] then some s!"open of index {idx} under another metric answered {res}" else none)
      else if dirty then
        (if res.take 2 != ["err", "needbuild"] then some s!"open of the stale index {idx} answered {res}" else none)
      else if !opened then some s!"open of the freshly built index {idx} answered {res}" else none
    match complaint with
    | some msg => if !(d.junk.contains idx) then d := d.prop "C06" msg
    | none => pure ()
  | _ => pure ()
  return d

/-! ### one operation -/

def readerOf (c : Cfg) (s : Store) : Except Err ReaderState := Reader.open c s

def queryKey (c : Cfg) (q : QueryOpts) (by_ : String) : String :=
  s!"{c.index} {by_} {q.count} {q.oversampling} {q.candidates}"

/-- a finite binary32 as an exact integer multiple of 2^-149·2^… : (signed mantissa, exponent) -/
def exactOf (x : Nat) : Option (Int × Int) :=
  match SF.unpack SF.f32 x with
  | .fin neg m e => some (if neg then -(m : Int) else (m : Int), e)
  | _ => none

/-- Σ aᵢ·bᵢ (or Σ (aᵢ-bᵢ)²) exactly, as numerator over 2^300, with Σ |terms| -/
def exactSum (terms : List ((Int × Int) × (Int × Int))) (euclid : Bool) : Int × Int :=
  -- scale everything to the common exponent -300 (binary32 exponents are ≥ -149, products ≥ -298)
  let sc (v : Int × Int) : Int := v.1 * (2 : Int) ^ ((v.2 + 150).toNat)      -- value · 2^150
  terms.foldl (fun (acc : Int × Int) (p : (Int × Int) × (Int × Int)) =>
    let a := sc p.1
    let b := sc p.2
    let t := if euclid then (a - b) * (a - b) else a * b                       -- value · 2^300
    (acc.1 + t, acc.2 + t.natAbs)) (0, 0)

/-- is the implementation's result within the rounding error bound of the exact sum? -/
def withinTolerance (n : Nat) (exact absSum : Int) (impl : Nat) : Bool :=
  match exactOf impl with
  | none => true     -- overflow / NaN: not judged here
  | some v =>
    let got := v.1 * (2 : Int) ^ ((v.2 + 300).toNat)                           -- value · 2^300
    -- |got - exact| ≤ (n + 2)·2^-23·Σ|terms| + (n + 2)·2^-149  (all scaled by 2^300)
    let tol := (absSum * (n + 2)) / (2 : Int) ^ 23 + (n + 2) * (2 : Int) ^ 151
    (got - exact).natAbs ≤ tol.natAbs

/-- value · 2^150 of a finite binary32 -/
def scaled150 (v : Int × Int) : Int := v.1 * (2 : Int) ^ ((v.2 + 150).toNat)

/-- **the metric's definition, evaluated exactly** (C11 / C12): is the reported distance `rep` of the vectors
`a`, `b` what the definition gives, within the rounding error of single-precision summation? `none` = not
judged (non-finite operands or result, or magnitudes where products under/overflow); `some msg` = it is not.
Everything is integer arithmetic on exact values scaled by powers of two; the bounds are twice the standard
`γ_n` bounds, so a correct implementation (any summation order, with or without FMA) never exceeds them. -/
def definitionOracle (m : Metric) (a b : List Nat) (rep : Nat) : Option (Option String) :=
  let n := a.length
  if m.isBq then
    -- C12: 4h/d, 2h/d, h/D64 with h the number of differing signs
    let h := (List.zip a b).countP fun (x, y) => (decide (x ≥ 2^31)) != (decide (y ≥ 2^31))
    match exactOf rep with
    | none => some (some "the quantised distance is not a finite number")
    | some r =>
      let R := scaled150 r                                    -- value · 2^150
      let (num, den) : Nat × Nat := match m with
        | .bqEuclidean => (4 * h, n)
        | .bqManhattan => (2 * h, n)
        | _ => (h, 64 * ((n + 63) / 64))
      if den = 0 then none else
      -- |R/2^150 − num/den| ≤ 2^-21 · num/den  (three roundings at most), exact when num = 0; the cosine value is
      -- (1 − (D − 2h)/D)/2: the rounding of the quotient near 1 is an ABSOLUTE error of 2^-24 on the result
      let lhs : Nat := (R * (den : Int) - (num : Int) * (2 : Int) ^ 150).natAbs * 2 ^ 21
      let rhs : Nat := num * 2 ^ 150 + (if m == .bqCosine && num != 0 then den * 2 ^ (150 - 1) else 0)
      if lhs ≤ rhs then some none
      else some (some s!"{h} differing signs at dimension {n}: the definition gives {num}/{den}")
  else
  match a.mapM exactOf, b.mapM exactOf, exactOf rep with
  | some ea, some eb, some r =>
    let sa := ea.map scaled150
    let sb := eb.map scaled150
    let R := scaled150 r
    let pairs := List.zip sa sb
    match m with
    | .euclidean =>
      let E : Int := pairs.foldl (fun acc (x, y) => acc + (x - y) * (x - y)) 0         -- value · 2^300
      if E > (2 : Int) ^ 420 then none else
      let tol : Int := E * ((n : Int) + 8) / (2 : Int) ^ 22 + ((n : Int) + 8) * (2 : Int) ^ 152
      if (R * R - E).natAbs ≤ tol.natAbs then some none
      else some (some "sqrt(sum (a-b)^2) evaluated exactly is further away than the summation error bound")
    | .manhattan =>
      let M : Int := pairs.foldl (fun acc (x, y) => acc + ((x - y).natAbs : Int)) 0    -- value · 2^150
      if M > (2 : Int) ^ 270 then none else
      let tol : Int := M * ((n : Int) + 4) / (2 : Int) ^ 23 + ((n : Int) + 4) * 4
      if (R - M).natAbs ≤ tol.natAbs then some none
      else some (some "sum |a-b| evaluated exactly is further away than the summation error bound")
    | .dot =>
      let (exact, absSum) := exactSum (List.zip ea eb) false
      if absSum > (2 : Int) ^ 420 then none else
      if withinTolerance n exact absSum rep then some none
      else some (some "the inner product evaluated exactly is further away than the summation error bound")
    | _ =>
      -- cosine: (1 − cos)/2, 0 when a norm vanishes
      let A : Int := sa.foldl (fun acc x => acc + x * x) 0
      let B : Int := sb.foldl (fun acc x => acc + x * x) 0
      let P : Int := pairs.foldl (fun acc (x, y) => acc + x * y) 0
      if A = 0 ∨ B = 0 then
        if rep = 0 ∨ rep = 0x80000000 then some none
        else some (some "a norm vanishes: the distance must be 0")
      else if A < (2 : Int) ^ 260 ∨ B < (2 : Int) ^ 260 ∨ A > (2 : Int) ^ 340 ∨ B > (2 : Int) ^ 340 then none
      else
        let N : Int := ((A * B).toNat.sqrt : Nat)                                        -- |a||b| · 2^300
        let C : Int := (2 : Int) ^ 150 - 2 * R                                           -- cos · 2^150
        let lhs : Nat := (C * N - P * (2 : Int) ^ 150).natAbs * 2 ^ 22
        let rhs : Nat := (N * (2 : Int) ^ 150 * ((n : Int) + 8)).natAbs + 2 ^ 180
        -- the code answers 0 when the product of the norms does not exceed f32::EPSILON = 2^-23 (DESIGN.md O1)
        let tinyNorms : Bool := N ≤ (2 : Int) ^ 278
        if tinyNorms && (rep = 0 ∨ rep = 0x80000000) then some none
        else if R < 0 ∨ R > (2 : Int) ^ 150 then some (some "the cosine distance is outside [0, 1]")
        else if lhs ≤ rhs then some none
        else some (some "(1 - cos)/2 evaluated exactly is further away than the rounding error bound")
  | _, _, _ => none


def checkQuery (d : DState) (c : Cfg) (s : Store) (rd : ReaderState) (q : QueryOpts) (by_ : String)
    (qh qv : List Nat) (ans : List (Nat × Nat)) : DState := Id.run do
  let mut d := d
  d := d.props "C03" (Check.wellFormed c s rd.dims qh qv q ans)
  let scores : List (Nat × Nat) := ans.map fun (id, _) =>
    match s.get (c.itemKey id) with
    | some (.leaf h v) => (canonDist (c.metric.builtDistance c.host qh qv h v), id)
    | _ => (0, id)
  let budget := Reader.budget c.metric rd.roots.length q
  -- exact search (C02 / C03 filter): unlimited budget
  if budget ≥ Reader.usizeMax then
    let exact := (Check.bruteForce c s qh qv q.candidates).take q.count
    d := { d with nExact := d.nExact + 1 }
    if exact.map (fun p => canonDist p.1) != scores.map (·.1) then
      let pid := if q.candidates.isSome then "C03" else "C02"
      d := d.prop pid s!"unlimited budget: scores {scores} but the exact nearest are {exact}"
  -- monotonicity in the budget (C03)
  let key := queryKey c q by_
  for p in d.past do
    if p.key == key && p.budget != budget then
      let (small, large) := if p.budget < budget then (p.scores, scores) else (scores, p.scores)
      d := { d with nMonotone := d.nMonotone + 1 }
      if large.length < small.length then
        d := d.prop "C03" s!"a larger budget shortened the result ({small.length} -> {large.length})"
      else
        for (a, b) in List.zip small large do
          if !(Reader.scoreLe (b.1, 0) (a.1, 0)) then
            d := d.prop "C03" s!"a larger budget made a rank worse: {a} -> {b}"
  d := { d with past := { key, budget, scores } :: d.past.take 40 }
  return d

def handleOp (d : DState) (p : Pending) (res : List String) : DState := Id.run do
  let mut d := { d with step := d.step + 1, nOps := d.nOps + 1 }
  let implStr := " ".intercalate res
  let op := p.toks.headD ""
  let some (c, rest) := parseW d p.toks.tail | return d.diff "unparsable op" "" (" ".intercalate p.toks)
  d := if ["add", "append", "del", "clear", "build", "prepare"].contains op then noteW { d with expectAfterUpgrade := none } c else d
  -- the database ran out of space in an item operation: LMDB has broken the transaction, the harness aborts it; nothing
  -- of it is judged (the dump after the abort is compared with the committed state as usual)
  if op != "build" && res.take 2 == ["err", "mapfull"] then
    return { d with resync := true, preBuild := none, nMapFull := d.nMapFull + 1 }
  d := if !d.specOff then specStep d op c rest res else d
  let s := d.view
  let cmp (d : DState) (model : String) : DState :=
    if model == implStr then d else d.diff s!"result of `{" ".intercalate (p.toks.take 6)}`" model implStr
  match op with
  | "add" | "append" =>
    let some id := rest[0]? >>= parseNat? | return d.diff "bad id" "" ""
    let some vec := rest[1]? >>= parseVec? | return d.diff "bad vec" "" ""
    d := { d with past := [] }
    let r := if op == "add" then Writer.addItem c s id vec else Writer.appendItem c s id vec
    match r with
    | .ok s' =>
      d := cmp d "ok"
      -- C19 (append): a successful append behaves like add
      if op == "append" then
        match Writer.addItem c s id vec with
        | .ok s2 => if s2 != s' then d := d.prop "C19" "append differs from add" else pure ()
        | .error _ => pure ()
      return d.setView s'
    | .error e => return cmp d (errStr e)
  | "del" =>
    let some id := rest[0]? >>= parseNat? | return d.diff "bad id" "" ""
    d := { d with past := [] }
    let (s', b) := Writer.delItem c s id
    return (cmp d s!"ok {boolStr b}").setView s'
  | "clear" =>
    d := { d with past := [] }
    return (cmp d "ok").setView (Writer.clear c s)
  | "prepare" =>
    let some m' := rest[0]? >>= parseMetric? | return d.diff "bad metric" "" ""
    d := { d with past := [] }
    match Writer.prepareChangingDistance c m' s with
    | .ok s' =>
      d := cmp d "ok"
      -- the forest is gone only when the metric really changes
      if m' != c.metric then d := d.setInfo c.index { metric := m', dims := c.dims }
      return d.setView s'
    | .error e => return cmp d (errStr e)
  | "needbuild" => return cmp d s!"ok {boolStr (Writer.needBuild c s)}"
  | "open" =>
    match readerOf c s with
    | .ok rd => return cmp d s!"ok ntrees={rd.roots.length} nitems={rd.items.length} dims={rd.dims}"
    | .error e => return cmp d (errStr e)
  | "get" =>
    let some id := rest[0]? >>= parseNat? | return d.diff "bad id" "" ""
    return cmp d (match Writer.itemVector c s id with | some v => s!"ok {vecStr v}" | none => "ok none")
  | "contains" =>
    let some id := rest[0]? >>= parseNat? | return d.diff "bad id" "" ""
    return cmp d s!"ok {boolStr (Writer.containsItem c s id)}"
  | "isempty" => return cmp d s!"ok {boolStr (Writer.isEmpty c s)}"
  | "iter" =>
    let l := Writer.iter c s
    return cmp d (if l.isEmpty then "ok" else s!"ok {iterStr l}")
  | "rget" | "rcontains" | "risempty" | "riter" | "ritemids" =>
    match readerOf c s with
    | .error e => return cmp d (errStr e)
    | .ok rd =>
      let cr : Cfg := { c with dims := rd.dims }
      match op with
      | "rget" =>
        let some id := rest[0]? >>= parseNat? | return d.diff "bad id" "" ""
        return cmp d (match Writer.itemVector cr s id with | some v => s!"ok {vecStr v}" | none => "ok none")
      | "rcontains" =>
        let some id := rest[0]? >>= parseNat? | return d.diff "bad id" "" ""
        return cmp d s!"ok {boolStr (Writer.containsItem cr s id)}"
      | "risempty" => return cmp d s!"ok {boolStr (Writer.isEmpty cr s)}"
      | "riter" =>
        let l := Writer.iter cr s
        return cmp d (if l.isEmpty then "ok" else s!"ok {iterStr l}")
      | _ => return cmp d s!"ok {idsStr rd.items}"
  | "nns" =>
    d := { d with nQueries := d.nQueries + 1, caseQueries := d.caseQueries + 1 }
    let some (q, by_) := parseQuery rest | return d.diff "bad query" "" ""
    match readerOf c s with
    | .error e => return cmp d (errStr e)
    | .ok rd =>
      let cr : Cfg := { c with dims := rd.dims }
      let (model, leaf?) : Except Err (Option (List (Nat × Nat))) × Option (List Nat × List Nat) :=
        if by_.startsWith "vec:" then
          match parseVec? (by_.drop 4).toString with
          | some vec =>
            let v := c.metric.fromSlice vec
            ((Reader.byVector cr s rd vec q).map some,
              if vec.length == rd.dims then some (c.metric.newHeader c.host v, v) else none)
          | none => (.error (.panic "bad vec"), none)
        else
          match parseNat? (by_.drop 5).toString with
          | some id => (Reader.byItem cr s rd id q, Writer.itemLeaf cr s id)
          | none => (.error (.panic "bad id"), none)
      -- C19: a query of the wrong length is refused whatever its other options are
      if by_.startsWith "vec:" then
        match parseVec? (by_.drop 4).toString with
        | some vec =>
          if vec.length != rd.dims && res.headD "" == "ok" then
            d := d.prop "C19" s!"query by a vector of length {vec.length} answered ok by index {c.index} of dimension {rd.dims}"
        | none => pure ()
      match model with
      | .error e => return cmp d (errStr e)
      | .ok none => return cmp d "ok none"
      | .ok (some ans) =>
        let canonImpl := match res with
          | "ok" :: items => (parseAns? items).map fun l => "ok" ++ (if l.isEmpty then "" else " " ++ ansStr l)
          | _ => none
        let modelStr := "ok" ++ (if ans.isEmpty then "" else " " ++ ansStr ans)
        d := if some modelStr == canonImpl then d else d.diff s!"result of `{" ".intercalate (p.toks.take 9)}`" modelStr implStr
        -- predicates on the implementation's own answer
        match res, leaf? with
        | "ok" :: items, some (qh, qv) =>
          match parseAns? items with
          | some implAns =>
            d := checkQuery d cr s rd q by_ qh qv implAns
            -- C11 / C12 end to end: every reported distance against the metric's DEFINITION, evaluated exactly on the
            -- vectors AS WRITTEN (the specification replayed from the operations), not on what the database holds
            let qWritten : Option (List Nat) :=
              if by_.startsWith "vec:" then parseVec? (by_.drop 4).toString
              else (parseNat? (by_.drop 5).toString) >>= fun x => specGet d c.index x
            match qWritten with
            | some qw =>
              for (id, dist) in implAns do
                match specGet d c.index id with
                | some w =>
                  if w.length == qw.length then
                    match definitionOracle c.metric qw w dist with
                    | some (some msg) =>
                      d := d.prop (if c.metric.isBq then "C12" else "C11") s!"query {by_.take 60}: item {id} is reported at {hex8 dist}: {msg} (item written as {vecStr (w.take 8)}…)"
                    | some none => d := { d with nDefChecked := d.nDefChecked + 1 }
                    | none => pure ()
                | none => pure ()
            | none => pure ()
            -- C04 self lookup
            if by_.startsWith "item:" && q.candidates.isNone && Reader.budget c.metric rd.roots.length q == 1 then
              match parseNat? (by_.drop 5).toString with
              | some x =>
                if q.count ≥ rd.items.length && Check.hasGoodTree cr s x then
                  d := { d with nSelfLookups := d.nSelfLookups + 1 }
                  if !(implAns.any (·.1 == x)) then
                    let log := Check.popLog cr s qv 40 (rd.roots.map fun r => (F32.inf, NodeId.mkTree r))
                    d := d.prop "C04" s!"item {x} looked up by its own vector with budget 1 is not among {implAns.map (·.1)}; pops: {log.map fun (p, n, w) => s!"[{hex8 p} {n.mode}:{n.item} {w}]"}"
              | none => pure ()
            -- C03: by_item = by_vector of the stored vector
            if by_.startsWith "item:" then
              match parseNat? (by_.drop 5).toString with
              | some x =>
                match Writer.itemVector cr s x with
                | some vec =>
                  match Reader.byVector cr s rd vec q with
                  | .ok viaVec =>
                    if c.metric != .dot && ansStr viaVec != ansStr implAns then
                      d := d.prop "C03" s!"by_item({x}) differs from by_vector(item_vector({x}))"
                  | .error _ => pure ()
                | none => pure ()
              | none => pure ()
            return d
          | none => return d
        | _, _ => return d
  | "build" =>
    let some args := parseBuild rest | return d.diff "bad build args" "" ""
    d := { d with nBuilds := d.nBuilds + 1, past := [] }
    -- record whether the capacity stayed constant for this index
    let cap := Build.cap c args.opts
    let info := (d.info c.index).getD { metric := c.metric, dims := c.dims }
    let capHist := match info.capHist with
      | none => some (some cap)
      | some (some c0) => if c0 == cap then some (some cap) else some none
      | some none => some none
    let ok := res.take 2 == ["res", "ok"] || res.headD "" == "ok"
    let implOk := res.headD "" == "ok"
    let implPolls := (kv? res "polls") >>= parseNat?
    let unordered := p.evs.toList.any (· == ["ev", "unordered"])
    -- an unusable temp directory: the build fails with an I/O error as soon as it needs a scratch file,
    -- i.e. on every path but the single-bucket shortcut
    let tmpBad := match kv? rest "tmpdir" with | some t => t != "-" | none => false
    if tmpBad && !(fits cap (s.keysOf c.index modeItem).length) && args.cancel.isNone then
      d := { d with nCancelled := d.nCancelled + 1 }
      d := if res.take 2 == ["err", "io"] then d else d.diff "build with an unusable temp directory" "err io" implStr
      return { d with resync := true, preBuild := none }
    if unordered then
      d := { d with nBuildsLoose := d.nBuildsLoose + 1 }
      if implOk then
        d := d.setInfo c.index { info with capHist := capHist }
        return { d with resync := true, preBuild := some (s, c.index, args.opts), caseBuilds := d.caseBuilds + 1 }
      else
        -- a failed build: whatever it left is discarded by the abort the protocol requires; but it must have
        -- failed for a reason the harness gave it (a requested cancellation, a full map, an unusable temp directory)
        let excused := (res.take 2 == ["err", "cancelled"] && args.cancel.isSome) || res.take 2 == ["err", "mapfull"]
          || (tmpBad && res.take 2 == ["err", "io"])
        if !excused then
          d := d.prop "ALL" s!"build failed with [{implStr}] although no fault was injected"
        return { d with resync := true, preBuild := none, nCancelled := d.nCancelled + 1 }
    let _ := ok
    -- the database running out of space can strike at any write: the model cannot predict where; the
    -- transaction must then be aborted (the next dump is compared with the committed state)
    if d.mapSweep && !implOk && res.take 2 != ["err", "mapfull"] then
      d := d.prop "C10" s!"a build in a map too small for it (it succeeds in a larger one) answered [{implStr}] instead of MDB_MAP_FULL"
      return { d with resync := true, preBuild := none, nCancelled := d.nCancelled + 1 }
    if res.take 2 == ["err", "mapfull"] then
      return { d with resync := true, preBuild := none, nCancelled := d.nCancelled + 1 }
    let some (normals, rands, batches) := splitEventsFor c.metric p.evs.toList | return d.diff "unparsable events" "" ""
    -- the split searches, when recorded: every normal must be `createSplit` of the leaves drawn
    let sPre := if c.metric = .dot then Build.preprocessDot c s else s
    -- (a sample of at most `splitChecksPerBuild` of them, evenly spread: one check costs 200 soft-float iterations)
    let groups := splitGroups c.metric p.evs.toList
    let stride := (groups.length + d.splitChecksPerBuild - 1) / d.splitChecksPerBuild
    let sample := (List.zip (List.range groups.length) groups).filterMap fun (i, g) => if i % stride == 0 then some g else none
    d := { d with nSplitSearchesSeen := d.nSplitSearchesSeen + groups.length }
    for (ids, normal) in sample do
      d := { d with nSplitSearches := d.nSplitSearches + 1 }
      if ids.length != 2 + twoMeansIterations then
        d := d.diff "number of items drawn by a split search" (toString (2 + twoMeansIterations)) (toString ids.length)
      let drawn := ids.filterMap (Writer.itemLeaf c sPre)
      match Split.createSplit c.metric c.host drawn with
      | some n =>
        if !(sameVec c.metric n normal) then
          d := d.diff s!"normal of the split search over items {ids.take 2}…" (" ".intercalate (n.map hex8)) (" ".intercalate (normal.map hex8))
      | none => d := d.diff "split search drew fewer than two stored items" "" (toString ids)
    let st0 : BState := { store := s, cancelAt := args.cancel, normals, rands, batches }
    let refKey := p.toks.filter fun t => !(t.startsWith "cancel=")
    -- the build with the polls in place (`InPlace.buildM`); `Build.build`, which the forest theorems are about,
    -- is proved to run the same way (`C10_inplace_build`: same success, same cancellation call)
    match InPlace.buildM c args.opts 100000 st0 with
    | .ok ((), st) =>
      d := { d with nBuildsReplayed := d.nBuildsReplayed + 1, caseBuilds := d.caseBuilds + 1 }
      d := cmp d s!"ok polls={st.polls}"
      if !(st.normals.isEmpty && st.rands.isEmpty && st.batches.isEmpty) then
        d := d.diff "events left over after the model build" s!"{st.normals.length} normals {st.rands.length} random bits {st.batches.length} batches" ""
      d := d.setInfo c.index { info with capHist := capHist }
      if args.cancel.isNone then d := { d with refs := (s, refKey, st.polls) :: d.refs.take 8 }
      if implOk then return d.setView st.store
      else return { d with resync := true, preBuild := none }
    | .error (.cancelled calls) =>
      d := { d with nCancelled := d.nCancelled + 1 }
      d := if res.take 2 == ["err", "cancelled"] then
          (if implPolls == some calls then d else d.diff "polls of a cancelled build" (toString calls) (toString implPolls))
        else
          match args.cancel, implPolls with
          | some n, some p =>
            -- the callback answered `true` from call n on; the build asked p > n times, so it was told to stop
            -- and reported success all the same
            if implOk && p > n then
              d.prop "C10" s!"build answered [{implStr}] although the cancellation callback answered true from its call {n} on and the build called it {p} times (the model is cancelled at call {calls})"
            else d.diff "build outcome" "err cancelled" implStr
          | _, _ => d.diff "build outcome" "err cancelled" implStr
      return { d with resync := true, preBuild := none }
    | .error (.oracle w) =>
      -- the recorded events stop where the implementation stopped: only a failed build may do that
      if implOk then return d.diff "build: the model needs an event the implementation did not record" w implStr
      d := { d with nCancelled := d.nCancelled + 1 }
      if res.take 2 == ["err", "cancelled"] then
        match args.cancel, d.refs.find? (fun r => r.1 == s && r.2.1 == refKey) with
        | some n, some (_, _, total) =>
          if n < total then
            if !(implPolls == some (n + 1) || implPolls == some (n + 2)) then
              d := d.diff "polls of a cancelled build" s!"{n + 1}" (toString implPolls)
          else d := d.prop "C10" s!"build cancelled although the callback only fires at call {n} and a complete build makes {total} calls"
        | some _, none => pure ()
        | none, _ =>
          -- nobody asked for a cancellation: the poll limit of the harness (hang detection) stopped the build
          d := d.prop "ALL" s!"build stopped by the harness after {implPolls.getD 0} polls without finishing (non-termination?)"
      else if tmpBad && res.take 2 == ["err", "io"] then pure ()
      else
        -- neither a requested cancellation nor an injected fault: the build broke on its own
        d := d.prop "ALL" s!"build failed with [{implStr}] although no fault was injected (the model needed: {w})"
      return { d with resync := true, preBuild := none }
    | .error e =>
      d := cmp d (errStr e)
      return { d with resync := true, preBuild := none }
  | _ => return d.diff "unknown op" "" (" ".intercalate p.toks)


/-! ### kernel, quantisation and key records -/

def kernelModel (h : Host) (name : String) (a b : List Nat) : Option Nat :=
  match name with
  | "dot" => some (dotProduct h a b)
  | "euclid" => some (euclideanDistance h a b)
  | "dot_scalar" => some (Kernel.dotScalar f32Arith a b)
  | "euclid_scalar" => some (Kernel.euclidScalar f32Arith a b)
  | "dot_sse" => some (Kernel.dotSse f32Arith a b)
  | "euclid_sse" => some (Kernel.euclidSse f32Arith a b)
  | "dot_avx" => some (Kernel.dotAvx f32Arith a b)
  | "euclid_avx" => some (Kernel.euclidAvx f32Arith a b)
  | _ => none

def handleKern (d : DState) (toks res : List String) : DState := Id.run do
  let mut d := { d with nRecords := d.nRecords + 1, step := d.step + 1 }
  match toks, res with
  | ["kern", name, va, vb], [r] =>
    let some a := parseVec? va | return d.diff "bad vec" "" va
    let some b := parseVec? vb | return d.diff "bad vec" "" vb
    let some impl := hexNat? r | return d.diff "bad result" "" r
    match kernelModel d.host name a b with
    | none => return d.diff "unknown kernel" "" name
    | some m =>
      if canonDist m != canonDist impl then
        d := d.diff s!"kernel {name} len={a.length}" (hex8 m) (hex8 impl)
      -- accuracy against the exact sum (finite operands only)
      match a.mapM exactOf, b.mapM exactOf with
      | some ea, some eb =>
        let (exact, absSum) := exactSum (List.zip ea eb) (name.startsWith "euclid")
        d := { d with nTolChecked := d.nTolChecked + 1 }
        if !(withinTolerance a.length exact absSum impl) then
          d := d.prop "C11" s!"kernel {name} len={a.length}: result {hex8 impl} is not within the summation error bound of the exact value (a={va} b={vb})"
      | _, _ => pure ()
      return d
  | ["dist", ms, _dims, va, vb], [rb, rn] =>
    let some m := parseMetric? ms | return d.diff "bad metric" "" ms
    let some a := parseVec? va | return d.diff "bad vec" "" va
    let some b := parseVec? vb | return d.diff "bad vec" "" vb
    let some ib := hexNat? rb | return d.diff "bad result" "" rb
    let some inn := hexNat? rn | return d.diff "bad result" "" rn
    let pa := m.fromSlice a
    let pb := m.fromSlice b
    let built := m.builtDistance d.host (m.newHeader d.host pa) pa (m.newHeader d.host pb) pb
    let norm := m.normalizedDistance built a.length
    if canonDist built != canonDist ib || canonDist norm != canonDist inn then
      d := d.diff s!"distance {ms} len={a.length}" s!"{hex8 built} {hex8 norm}" s!"{rb} {rn}"
    -- C11/C12, on the IMPLEMENTATION's value: the metric's definition evaluated exactly, ...
    let pid := if m.isBq then "C12" else "C11"
    match definitionOracle m a b inn with
    | some none => d := { d with nDefChecked := d.nDefChecked + 1 }
    | some (some msg) =>
      d := { d with nDefChecked := d.nDefChecked + 1 }
      d := d.prop pid s!"distance {ms} len={a.length}: reported {rn}: {msg} (a={va} b={vb})"
    | none => pure ()
    -- ... symmetry in the arguments (the harness records the swapped pair right after a pair), ...
    match d.lastDist.find? (fun r => r.1 == ms && r.2.1 == b && r.2.2.1 == a) with
    | some (_, _, _, pb', pn') =>
      if canonDist pb' != canonDist ib || canonDist pn' != canonDist inn then
        d := d.prop pid s!"distance {ms} len={a.length} is not symmetric: d(a,b)=[{rb} {rn}] d(b,a)=[{hex8 pb'} {hex8 pn'}] (a={va} b={vb})"
    | none => pure ()
    -- ... and a vector is at distance zero from itself (the three true metrics and the quantised ones; cosine
    -- within one rounding, DESIGN.md O2)
    if a == b && (a.all fun x => (exactOf x).isSome) && m != .dot then
      let zero := inn = 0 ∨ inn = 0x80000000
      let okSelf := match m with
        | .cosine => zero ∨ (inn ≤ 0x34800000)          -- 2^-22
        | _ => zero
      let overflowed := !(exactOf ib).isSome
      if !okSelf && !overflowed then
        d := d.prop pid s!"distance {ms} len={a.length}: a vector is reported at distance {rn} from itself (a={va})"
    d := { d with lastDist := (ms, a, b, ib, inn) :: d.lastDist.take 13 }
    return d
  | ["bq", v], [packed, it, tv] =>
    let some xs := parseVec? v | return d.diff "bad vec" "" v
    let some pk := ofHex packed | return d.diff "bad bytes" "" packed
    let some iv := parseVec? it | return d.diff "bad vec" "" it
    let some tvv := parseVec? tv | return d.diff "bad vec" "" tv
    let words := BQ.pack xs
    if words.flatMap (le 8) != pk then d := d.diff s!"quantised bytes dims={xs.length}" (toHex (words.flatMap (le 8))) packed
    if BQ.unpack words != iv then d := d.diff s!"quantised iter dims={xs.length}" "" ""
    if BQ.unpack words != tvv then d := d.diff s!"quantised to_vec dims={xs.length}" "" ""
    let signs := xs.map fun x => if x ≥ 2^31 then F32.negOne else F32.one
    if iv.take xs.length != signs then d := d.prop "C12" s!"iter() does not give back the sign pattern of {v}"
    if tvv.take xs.length != signs then d := d.prop "C12" s!"to_vec() does not give back the sign pattern of {v}"
    if (iv.drop xs.length).any (· != F32.negOne) then d := d.prop "C12" s!"padding is not all -1 for {v}"
    return d
  | _, _ => return d.diff "unparsable record" "" (" ".intercalate toks)

def handleKeySeen (d : DState) (toks : List String) : DState :=
  let d := { d with nRecords := d.nRecords + 1, step := d.step + 1 }
  match toks with
  | ["keyseen", hex, i, what, id] =>
    match ofHex hex, parseNat? i, parseNat? id with
    | some bytes, some index, some item =>
      let mode? : Option (Nat × Nat) := match what with
        | "item" => some (modeItem, item) | "updated" => some (modeUpdated, item) | "tree" => some (modeTree, item)
        | "metadata" => some (metadataKeyMode, metadataKeyItem) | "version" => some (versionKeyMode, versionKeyItem)
        | _ => none
      match mode? with
      | some (mode, it) =>
        let k : Key := ⟨index, mode, it⟩
        let d := if encodeKey k == bytes then d else d.prop "C16" s!"key of {what} {item} in index {index} is {hex}, the reference layout gives {toHex (encodeKey k)}"
        if decodeKey bytes == some k then d else d.prop "C16" s!"key {hex} does not decode to ({index}, {what}, {item})"
      | none => d.diff "unknown key kind" "" what
    | _, _, _ => d.diff "unparsable keyseen" "" (" ".intercalate toks)
  | _ => d.diff "unparsable keyseen" "" (" ".intercalate toks)


/-! ### raw loading, upgrades, reader snapshots -/

def decodeOldPair (kb vb : Bytes) : Option (Key × Val) :=
  if kb.length < 7 then none else
  let k : Key := ⟨ofBe (kb.take 2), kb.getD 2 0, ofBe ((kb.drop 3).take 4)⟩
  let v : Option Val :=
    if k.mode = oldModeItem ∨ k.mode = oldModeTree then decodeNode .cosine vb
    else if k.mode = oldModeMetadata ∧ k.item = 0 then decodeMeta vb
    else if k.mode = oldModeMetadata ∧ k.item = 1 then (Roaring.decode vb).map fun p => .desc p.1
    else none
  v.map fun v => (k, v)

def handleCommit (d : DState) : DState := Id.run do
  let mut d := { d with step := d.step + 1, committing := false, preCommit := some d.committed }
  if d.rawPending.size > 0 then
    let pairs := d.rawPending.toList
    d := { d with rawPending := #[] }
    -- a database loaded from raw pairs was built elsewhere: its bucket capacities are unknown
    d := { d with infos := d.infos.map fun (i, info) => (i, { info with capHist := some none }) }
    if d.expectAfterUpgrade.isSome && d.oldLayout == some [] then
      -- an old-layout database: opaque until the upgrade runs
      d := { d with oldLayout := some pairs, committed := [], txn := none }
    else
      let (st, errs) := decodeDump d pairs
      d := d.props "C16" errs
      -- raw pairs are applied on top of the transaction's view
      let merged := st.foldl (fun acc kv => Store.put acc kv.1 kv.2) d.view
      d := { d with committed := merged, txn := none }
  else
    d := { d with committed := d.view, txn := none }
  return { d with versions := d.versions.push d.committed }

def handleSnapshot (d : DState) : DState := Id.run do
  let some (rid, lo, hi) := d.inSnapshot | return d.diff "endsnapshot without snapshot" "" ""
  let kvs := d.dumpKV.toList
  let mut d := { d with inSnapshot := none, dumpKV := #[], nSnapshots := d.nSnapshots + 1 }
  match d.snapshots.find? (·.1 == rid) with
  | some (_, prev) =>
    if prev != kvs then d := d.prop "C08" s!"read transaction {rid} saw two different states"
  | none => d := { d with snapshots := (rid, kvs) :: d.snapshots }
  let (snap, _) := decodeDump d kvs
  let candidates := (List.range (hi + 1)).filter (· ≥ lo)
  let hit := candidates.any fun v => match d.versions[v]? with | some st => storeEq st snap | none => false
  if !hit then
    let anyVersion := (List.range d.versions.size).find? fun v => match d.versions[v]? with | some st => storeEq st snap | none => false
    d := d.prop "C08" (match anyVersion with
      | some v => s!"read transaction {rid} opened between commits {lo} and {hi} sees version {v}"
      | none => s!"read transaction {rid} (commits {lo}..{hi}) sees a state that is no committed version: {firstDiff ((d.versions[hi]?).getD []) snap}")
  d := storePredicates d snap
  return d


def handleRaw (d : DState) (toks res : List String) : DState := Id.run do
  let mut d := { d with step := d.step + 1, nOps := d.nOps + 1 }
  let implStr := " ".intercalate res
  match toks with
  | ["rawput", k, v] =>
    match ofHex k, ofHex v with
    | some kb, some vb =>
      if implStr != "ok" then d := d.diff "rawput" "ok" implStr
      return { d with rawPending := d.rawPending.push (kb, vb), specOff := true }
    | _, _ => return d.diff "unparsable rawput" "" (" ".intercalate toks)
  | ["upgrade04to05"] =>
    let some pairs := d.oldLayout | return d.diff "upgrade04to05 without an old-layout database" "" ""
    match pairs.mapM fun (kb, vb) => decodeOldPair kb vb with
    | none => return d.diff "old-layout database does not decode" "" ""
    | some old =>
      match Upgrade.up04to05 old with
      | .error e => return if implStr.startsWith "err" || implStr.startsWith "panic" then d else d.diff "upgrade04to05" (reprStr e) implStr
      | .ok st =>
        if implStr != "ok" then d := d.diff "upgrade04to05" "ok" implStr
        -- every index of an upgraded database uses the cosine metric
        for (k, v) in st do
          match v with
          | .metadata _ dims _ _ => d := d.setInfo k.index { metric := .cosine, dims, capHist := some none }
          | _ => pure ()
        -- the upgraded database must be the original one minus the version records (C17)
        match d.expectAfterUpgrade with
        | some orig =>
          let (origSt, _) := decodeDump d orig
          let want := origSt.filter fun kv => !(kv.1.mode == versionKeyMode && kv.1.item == versionKeyItem)
          if !(storeEq want st) then
            d := d.diff "model upgrade of the downgraded database vs the original" (firstDiff want st) ""
        | none => pure ()
        return { d with txn := some st, oldLayout := none }
  | ["upgrade05to06", _m] =>
    let st := Upgrade.stamp05to06 d.committed d.view
    if implStr != "ok" then d := d.diff "upgrade05to06" "ok" implStr
    return d.setView st
  | _ => return d.diff "unsupported raw op" "" (" ".intercalate toks)


/-! ### id-generator schedules (C13) -/

def idsResultStr : Ids.Result → String
  | .id n => s!"id={n}"
  | .full => "full"

def handleIds (d : DState) (toks res : List String) : DState := Id.run do
  let mut d := { d with nRecords := d.nRecords + 1, step := d.step + 1 }
  let some used := (kv? toks "used") >>= parseIds? | return d.diff "unparsable ids record" "" (" ".intercalate toks)
  let some threads := (kv? toks "threads") >>= parseNat? | return d.diff "unparsable ids record" "" ""
  let some reqs := (kv? toks "reqs") >>= parseNat? | return d.diff "unparsable ids record" "" ""
  let some sched := (kv? toks "sched") >>= parseIds? | return d.diff "unparsable ids record" "" ""
  let c0 := Ids.initWith (IdSet.ofList used) (List.replicate threads (some reqs))
  let (_, trace) := Ids.runTrace c0 sched
  let model := (List.zip sched trace).map fun (t, st) =>
    match st with
    | some (op, some r) => s!"{t}:{op}:{idsResultStr r}"
    | some (op, none) => s!"{t}:{op}"
    | none => s!"{t}:-"
  if model != res then
    d := d.diff s!"schedule {kv? toks "sched"} on used={kv? toks "used"}" (" ".intercalate model) (" ".intercalate res)
  -- the property itself, on the implementation's own results
  let implIds := res.filterMap fun r => match r.splitOn ":id=" with
    | [_, n] => parseNat? n
    | _ => none
  if !(Check.nodup implIds) then d := d.prop "C13" s!"an id was handed out twice: {implIds} (used={used}, sched={sched})"
  if implIds.any (fun i => used.contains i) then d := d.prop "C13" s!"an id in use was handed out: {implIds} (used={used}, sched={sched})"
  return d

/-! ### the line loop -/

def opKeywords : List String :=
  ["add", "append", "del", "clear", "prepare", "build", "needbuild", "open", "get", "contains", "isempty", "iter",
   "rget", "rcontains", "risempty", "riter", "ritemids", "nns", "kern", "dist", "bq", "rawput", "rawdel", "upgrade04to05", "upgrade05to06", "ids"]

def step (d : DState) (line : String) : DState :=
  let line := line.trimAscii.toString
  if line.isEmpty || line.startsWith "#" then d else
  let toks := line.splitOn " "
  match toks with
  | "kv" :: k :: v :: _ =>
    match ofHex k, ofHex v with
    | some kb, some vb => { d with dumpKV := d.dumpKV.push (kb, vb) }
    | _, _ => d.diff "unparsable kv line" "" line
  | "kv" :: k :: [] =>
    match ofHex k with
    | some kb => { d with dumpKV := d.dumpKV.push (kb, []) }
    | none => d.diff "unparsable kv line" "" line
  | ["dump"] => { d with inDump := true, dumpKV := #[], step := d.step + 1 }
  | ["enddump"] => handleDump d
  | "case" :: n :: _ =>
    { d with caseId := (parseNat? n).getD 0, step := 0, committed := [], txn := none, infos := [], predCache := [], pending := none,
             resync := false, preBuild := none, past := [], refs := [], caseFailures := 0, expectRecovered := false, junk := [], mapSweep := false,
             caseBuilds := 0, caseSplits := 0, caseQueries := 0, rawPending := #[], oldLayout := none, spec := [], specAtBegin := [],
             fresh := [], freshAtBegin := [], specOff := false,
             expectAfterUpgrade := none, inExpect := false, versions := #[[]], snapshots := [], inSnapshot := none, committing := false }
  | "host" :: rest =>
    let flag (k : String) := (kv? rest k) == some "1"
    { d with host := { avx := flag "avx", fma := flag "fma", sse := flag "sse" } }
  | ["begin"] => { d with txn := some d.committed, step := d.step + 1, infosAtBegin := d.infos, specAtBegin := d.spec, freshAtBegin := d.fresh }
  | ["commit"] => handleCommit d
  | ["abort"] =>
    -- what `prepare` and the builds of this transaction changed goes back with it
    let infos := d.infos.map fun (i, info) =>
      match d.infosAtBegin.find? (·.1 == i) with
      | some (_, old) => (i, old)
      | none => (i, { info with capHist := none })
    { d with txn := none, step := d.step + 1, resync := false, preBuild := none, past := [], infos := infos,
             spec := d.specAtBegin, fresh := d.freshAtBegin, junk := [] }
  | ["endcase"] => if d.caseFailures == 0 then d.emit s!"CASE {d.caseId} ok steps={d.step} builds={d.caseBuilds} splits={d.caseSplits} queries={d.caseQueries}" else d.emit s!"CASE {d.caseId} FAILED failures={d.caseFailures}"
  | ["expect-after-upgrade"] => { d with inExpect := true, dumpKV := #[] }
  | ["endexpect"] => { d with inExpect := false, expectAfterUpgrade := some d.dumpKV.toList, dumpKV := #[], oldLayout := some [] }
  | "index" :: i :: m :: dm :: _ =>
    match parseNat? i, parseMetric? m, parseNat? dm with
    | some index, some metric, some dims => d.setInfo index { metric, dims }
    | _, _, _ => d.diff "unparsable index record" "" line
  | "snapshot" :: rest =>
    match (kv? rest "rid") >>= parseNat?, (kv? rest "lo") >>= parseNat?, (kv? rest "hi") >>= parseNat? with
    | some rid, some lo, some hi => { d with inSnapshot := some (rid, lo, hi), dumpKV := #[] }
    | _, _, _ => d.diff "unparsable snapshot record" "" line
  | ["endsnapshot"] => handleSnapshot d
  | "leftover" :: path => d.prop "C09" s!"file left behind after the crash: {" ".intercalate path}"
  | "fdcheck" :: rest =>
    match (kv? rest "fd_before") >>= parseNat?, (kv? rest "fd_after") >>= parseNat?, (kv? rest "tmpfiles") >>= parseNat? with
    | some a, some b, some t =>
      let d := { d with nRecords := d.nRecords + 1 }
      let d := if b > a then d.prop "C10" s!"open file descriptors grew from {a} to {b} over the builds" else d
      if t > 0 then d.prop "C10" s!"{t} temporary files left behind" else d
    | _, _, _ => d.diff "unparsable fdcheck record" "" line
  | "fixture-mismatch" :: rest => d.prop "C16" s!"a recorded answer of the golden database changed: {" ".intercalate rest}"
  | ["note", "committing"] => { d with committing := true }
  | "note" :: "faults" :: "mapsweep" :: _ => { d with mapSweep := true }
  | "note" :: _ => d
  | ["expect-recovered"] => { d with expectRecovered := true }
  | "ev" :: _ =>
    match d.pending with
    | some p => { d with pending := some { p with evs := p.evs.push toks } }
    | none => d.diff "event without an operation" "" line
  | "keyseen" :: _ => handleKeySeen d toks
  | "res" :: res =>
    match d.pending with
    | some p =>
      if p.toks.headD "" == "ids" then handleIds { d with pending := none } p.toks res
      else if ["kern", "dist", "bq"].contains (p.toks.headD "") then handleKern { d with pending := none } p.toks res
      else if ["rawput", "rawdel", "upgrade04to05", "upgrade05to06"].contains (p.toks.headD "") then handleRaw { d with pending := none } p.toks res
      else handleOp { d with pending := none } p res
    | none =>
      match d.preCommit, res with
      | some before, ["err", "mapfull"] =>
        -- the commit itself ran out of space: the transaction is gone, as after an abort
        let infos := d.infos.map fun (i, info) =>
          match d.infosAtBegin.find? (·.1 == i) with
          | some (_, old) => (i, old)
          | none => (i, { info with capHist := none })
        { d with committed := before, txn := none, versions := d.versions.pop, preCommit := none, resync := false, preBuild := none,
                 past := [], infos := infos, spec := d.specAtBegin, fresh := d.freshAtBegin, junk := [], nMapFull := d.nMapFull + 1 }
      | _, _ => d.diff "result without an operation" "" line
  | kw :: _ =>
    if opKeywords.contains kw then { d with pending := some { toks } }
    else d.diff "unknown record" "" line
  | [] => d

def statsLine (d : DState) : String :=
  s!"STAT spec_checks={d.nSpecChecks} records={d.nRecords} snapshots={d.nSnapshots} recovered={d.nRecovered} tolerance_checked={d.nTolChecked} definition_checked={d.nDefChecked} ops={d.nOps} builds={d.nBuilds} builds_replayed={d.nBuildsReplayed} split_searches={d.nSplitSearches} split_searches_recorded={d.nSplitSearchesSeen} builds_loose={d.nBuildsLoose} cancelled_or_failed={d.nCancelled} dumps={d.nDumps} queries={d.nQueries} exact_checked={d.nExact} monotone_pairs={d.nMonotone} self_lookups={d.nSelfLookups} split_nodes_seen={d.nSplits} random_splits_seen={d.nRandomSplits} item_children_seen={d.nItemChildren} routed_pairs={d.nRouted} max_items={d.maxItems} max_depth={d.maxDepth} failures={d.failures}"

end Driver
end Arroy
