/-! `ConcurrentNodeIds` (src/parallel.rs) as a transition system: one step per atomic operation of
`ConcurrentNodeIds::next`, any number of threads, any interleaving.

```text
pub fn next(&self) -> Result<u32> {
    if self.used.fetch_add(1) > u32::MAX as u64 {                    -- step from `idle`
        Err(Error::DatabaseFull)
    } else if self.look_into_bitmap.load() {                         -- step from `afterUsed`
        let current = self.select_in_bitmap.fetch_add(1);            -- step from `afterLook true`
        match self.available.select(current) {                       --   (pure, same step)
            Some(id) => Ok(id),
            None => {
                self.look_into_bitmap.store(false);                  -- step from `afterSel k`
                Ok(self.current.fetch_add(1))                        -- step from `afterStore`
            }
        }
    } else {
        Ok(self.current.fetch_add(1))                                -- step from `afterLook false`
    }
}
```

Every step performs exactly one atomic operation on the shared cells; the thread-local computation
that follows it (the comparison with `u32::MAX`, the pure `available.select(current)`, the return)
belongs to the same step, so a schedule recorded at the atomics of the real code (one entry per
atomic operation: which thread, which operation) replays step by step.

This file is import-free (core only). -/
namespace Arroy.Ids

/-- `u32::MAX` -/
def u32Max : Nat := 4294967295

/-- `u32` wrap-around of `AtomicU32::fetch_add` -/
def wrap32 (n : Nat) : Nat := n % 4294967296

/-- `a - b` on strictly increasing lists (verbatim `IdSet.diff`; this file imports nothing) -/
def diff : List Nat → List Nat → List Nat
  | [], _ => []
  | a, [] => a
  | x :: xs, y :: ys =>
    if x < y then x :: diff xs (y :: ys)
    else if y < x then diff (x :: xs) ys
    else diff xs ys
termination_by a b => a.length + b.length

/-- what a request returns: `Ok(id)` or `Err(DatabaseFull)` -/
inductive Result where
  | id (n : Nat)
  | full
  deriving Repr, DecidableEq, Inhabited

/-- the atomic operations of `next` -/
inductive Op where
  | usedFetchAdd | lookLoad | selFetchAdd | lookStore | curFetchAdd
  deriving Repr, DecidableEq, Inhabited

/-- the name the instrumented Rust atomics report for the operation -/
def Op.name : Op → String
  | .usedFetchAdd => "AtomicU64::fetch_add"
  | .lookLoad => "AtomicBool::load"
  | .selFetchAdd => "AtomicU32::fetch_add"
  | .lookStore => "AtomicBool::store"
  | .curFetchAdd => "AtomicU32::fetch_add"

/-- the shared cells -/
structure Cells where
  /-- `available` (immutable, strictly increasing) -/
  available : List Nat
  /-- ghost: `last_id` of `new` (immutable) -/
  last : Nat
  /-- `current : AtomicU32` -/
  current : Nat
  /-- `used : AtomicU64` (never wraps: 2^64 requests are out of reach) -/
  used : Nat
  /-- `select_in_bitmap : AtomicU32` -/
  sel : Nat
  /-- `look_into_bitmap : AtomicBool` -/
  look : Bool
  deriving Repr, DecidableEq, Inhabited

/-- where a thread stands inside `next` -/
inductive Pc where
  /-- not inside `next` -/
  | idle
  /-- `used.fetch_add` done, result `≤ u32::MAX` -/
  | afterUsed
  /-- `look_into_bitmap.load()` returned `b` -/
  | afterLook (b : Bool)
  /-- `select_in_bitmap.fetch_add` returned `k` and `available.select(k)` was `None` -/
  | afterSel (k : Nat)
  /-- `look_into_bitmap.store(false)` done -/
  | afterStore
  deriving Repr, DecidableEq, Inhabited

/-- inside a request (past the `used` check) -/
def Pc.busy : Pc → Bool
  | .idle => false
  | _ => true

/-- inside a request, before its `select_in_bitmap` / `current` fetch_add -/
def Pc.pre : Pc → Bool
  | .afterUsed => true
  | .afterLook _ => true
  | _ => false

/-- on the way to `current.fetch_add` -/
def Pc.post : Pc → Bool
  | .afterLook false => true
  | .afterSel _ => true
  | .afterStore => true
  | _ => false

structure Thread where
  pc : Pc
  /-- how many more requests the thread may start; `none`: no bound -/
  remaining : Option Nat
  deriving Repr, DecidableEq, Inhabited

structure Config where
  g : Cells
  threads : List Thread
  /-- ghost: every result returned so far with the thread that got it, newest first -/
  log : List (Nat × Result)
  deriving Repr, DecidableEq, Inhabited

/-- the ids in a log -/
def idsOf (log : List (Nat × Result)) : List Nat :=
  log.filterMap (fun p => match p.2 with | .id n => some n | .full => none)

/-- the number of `DatabaseFull` results in a log -/
def fullsOf (log : List (Nat × Result)) : Nat :=
  (log.filter (fun p => match p.2 with | .id _ => false | .full => true)).length

namespace Config
/-- all ids handed out so far, newest first -/
def ids (c : Config) : List Nat := idsOf c.log
/-- the number of requests answered `DatabaseFull` so far -/
def fulls (c : Config) : Nat := fullsOf c.log
/-- the number of requests in flight (past their `used.fetch_add`, not yet returned) -/
def inflight (c : Config) : Nat := c.threads.countP (fun th => th.pc.busy)
/-- the results thread `t` got, oldest first -/
def resultsOf (c : Config) (t : Nat) : List Result :=
  (c.log.filter (fun p => p.1 == t)).reverse.map (·.2)
end Config

/-- `last_id` of `ConcurrentNodeIds::new` (as in `IdGen.new`: no `u32` overflow of `id + 1`) -/
def lastOf (usedIds : List Nat) : Nat :=
  match usedIds.getLast? with | some m => m + 1 | none => 0

/-- `ConcurrentNodeIds::new` (the arithmetic of `IdGen.new`), with one `Thread` per entry of `budgets` -/
def initWith (usedIds : List Nat) (budgets : List (Option Nat)) : Config :=
  let last := lastOf usedIds
  let avail := diff (List.range last) usedIds
  { g := { available := avail, last := last, current := last, used := usedIds.length,
           sel := 0, look := !avail.isEmpty }
    threads := budgets.map (fun b => { pc := .idle, remaining := b })
    log := [] }

/-- `nThreads` threads, each making as many requests as the schedule asks for -/
def init (usedIds : List Nat) (nThreads : Nat) : Config :=
  initWith usedIds (List.replicate nThreads none)

/-- the atomic step of a thread standing at `pc`: new cells, new pc, the operation, the result if
the request returns in this step -/
def stepPc (g : Cells) : Pc → Cells × Pc × Op × Option Result
  | .idle =>
    let g' := { g with used := g.used + 1 }
    if g.used > u32Max then (g', .idle, .usedFetchAdd, some .full)
    else (g', .afterUsed, .usedFetchAdd, none)
  | .afterUsed => (g, .afterLook g.look, .lookLoad, none)
  | .afterLook true =>
    let g' := { g with sel := wrap32 (g.sel + 1) }
    match g.available[g.sel]? with
    | some id => (g', .idle, .selFetchAdd, some (.id id))
    | none => (g', .afterSel g.sel, .selFetchAdd, none)
  | .afterLook false =>
    ({ g with current := wrap32 (g.current + 1) }, .idle, .curFetchAdd, some (.id g.current))
  | .afterSel _ => ({ g with look := false }, .afterStore, .lookStore, none)
  | .afterStore =>
    ({ g with current := wrap32 (g.current + 1) }, .idle, .curFetchAdd, some (.id g.current))

/-- can the thread take a step? (an idle thread with no request left cannot) -/
def Thread.enabled (th : Thread) : Bool :=
  match th.pc, th.remaining with
  | .idle, some 0 => false
  | _, _ => true

/-- the request budget after the step: starting a request (the step from `idle`) uses one up -/
def Thread.remAfter (th : Thread) : Option Nat :=
  match th.pc with
  | .idle => th.remaining.map (· - 1)
  | _ => th.remaining

/-- one atomic step of thread `t`; `none`: nothing happened (no such thread, or it has no request left) -/
def stepCore (c : Config) (t : Nat) : Config × Option (Op × Option Result) :=
  match c.threads[t]? with
  | none => (c, none)
  | some th =>
    if th.enabled then
      match stepPc c.g th.pc with
      | (g', pc', op, out) =>
        ({ g := g'
           threads := c.threads.set t { pc := pc', remaining := th.remAfter }
           log := match out with | some r => (t, r) :: c.log | none => c.log },
         some (op, out))
    else (c, none)

/-- one atomic step of thread `t`, with the name of the atomic operation as the instrumented Rust
atomics report it and the result if the request returned -/
def step (c : Config) (t : Nat) : Config × Option (String × Option Result) :=
  match stepCore c t with
  | (c', o) => (c', o.map (fun p => (p.1.name, p.2)))

/-- run a schedule: the list of the threads taking the successive atomic steps -/
def run (c : Config) (sched : List Nat) : Config := sched.foldl (fun c t => (stepCore c t).1) c

/-- run a schedule, keeping what every step did (for replaying a recorded schedule) -/
def runTrace (c : Config) : List Nat → Config × List (Option (String × Option Result))
  | [] => (c, [])
  | t :: ts =>
    match step c t with
    | (c', o) => match runTrace c' ts with
      | (c'', os) => (c'', o :: os)

/-- thread `t` runs alone until its current (or next) request returns: at most `fuel` steps -/
def requestFuel (c : Config) (t : Nat) : Nat → Config × Option Result
  | 0 => (c, none)
  | fuel + 1 =>
    match stepCore c t with
    | (c', some (_, some r)) => (c', some r)
    | (c', some (_, none)) => requestFuel c' t fuel
    | (c', none) => (c', none)

/-- a whole request of thread `t`, uninterrupted (a request takes at most 5 atomic steps) -/
def request (c : Config) (t : Nat) : Config × Option Result := requestFuel c t 5

end Arroy.Ids
