import ArroyModel.Build
/-! `Reader::nns_by_leaf` and the query entry points (`src/reader.rs`). -/
namespace Arroy
open Generated

structure QueryOpts where
  count : Nat
  searchK : Option Nat := none
  oversampling : Option Nat := none
  candidates : Option (List Nat) := none
  deriving Repr, Inhabited

namespace Reader

def usizeMax : Nat := 2^64 - 1
def satMul (a b : Nat) : Nat := Nat.min (a * b) usizeMax

/-- the budget: `search_k` or `count * n_trees`, times the oversampling, saturating -/
def budget (m : Metric) (nRoots : Nat) (q : QueryOpts) : Nat :=
  satMul (q.searchK.getD (satMul q.count nRoots)) (q.oversampling.getD m.oversampling)

/-- order of the traversal queue: `(OrderedFloat<f32>, NodeId)` lexicographically -/
def entryLt (a b : Nat × NodeId) : Bool :=
  F32.ordLt a.1 b.1 || (F32.ordEq a.1 b.1 && a.2.lt b.2)

/-- remove a maximum of the queue -/
def popMax : List (Nat × NodeId) → Option ((Nat × NodeId) × List (Nat × NodeId))
  | [] => none
  | x :: xs =>
    match popMax xs with
    | none => some (x, [])
    | some (m, rest) => if entryLt m x then some (x, m :: rest) else some (m, x :: rest)

def inCandidates (q : QueryOpts) (id : Nat) : Bool :=
  match q.candidates with | none => true | some cs => cs.contains id

/-- the traversal loop: pops until the budget is met or the queue is empty -/
def traverse (c : Cfg) (s : Store) (qv : List Nat) (q : QueryOpts) (searchK : Nat) :
    Nat → List (Nat × NodeId) → List Nat → Except Err (List Nat)
  | 0, _, _ => .error (.fuel "nns_by_leaf traversal")
  | fuel+1, queue, nns =>
    if nns.length ≥ searchK then .ok nns else
    match popMax queue with
    | none => .ok nns
    | some ((dist, node), queue') =>
      match s.get ⟨c.index, node.mode, node.item⟩ with
      | none => .error (.missingKey c.index node.mode node.item)
      | some (.leaf _ _) =>
        traverse c s qv q searchK fuel queue' (if inCandidates q node.item then nns ++ [node.item] else nns)
      | some (.desc ids) =>
        traverse c s qv q searchK fuel queue'
          (nns ++ (match q.candidates with | some cs => IdSet.inter ids cs | none => ids))
      | some (.split l r normal) =>
        let margin0 := if c.metric.isZero normal then F32.zero else c.metric.margin c.host normal qv
        let margin := if F32.isNaN margin0 then F32.zero else margin0
        traverse c s qv q searchK fuel
          ((Metric.pqDistance dist margin true, r) :: (Metric.pqDistance dist margin false, l) :: queue') nns
      | some _ => .error (.panic "unexpected value under a node key")

/-- `(OrderedFloat(distance), id)` ascending -/
def scoreLe (a b : Nat × Nat) : Bool :=
  F32.ordLt a.1 b.1 || (F32.ordEq a.1 b.1 && a.2 ≤ b.2)

def scoreAll (c : Cfg) (s : Store) (qh qv : List Nat) : List Nat → Except Err (List (Nat × Nat))
  | [] => .ok []
  | id :: rest =>
    match s.get (c.itemKey id) with
    | some (.leaf h v) =>
      match scoreAll c s qh qv rest with
      | .ok r => .ok ((c.metric.builtDistance c.host qh qv h v, id) :: r)
      | .error e => .error e
    | some _ => .error (.panic "unreachable: tree node under an item key")
    | none => .error (.missingKey c.index modeItem id)

/-- `Reader::nns_by_leaf` -/
def nnsByLeaf (c : Cfg) (s : Store) (rd : ReaderState) (qh qv : List Nat) (q : QueryOpts) :
    Except Err (List (Nat × Nat)) :=
  if rd.items.isEmpty then .ok [] else
  let searchK := budget c.metric rd.roots.length q
  let queue := rd.roots.map fun r => (F32.inf, NodeId.mkTree r)
  match traverse c s qv q searchK (2 * s.length + rd.roots.length + 2) queue [] with
  | .error e => .error e
  | .ok nns =>
    match scoreAll c s qh qv (IdSet.ofList nns) with
    | .error e => .error e
    | .ok scored =>
      let sorted := scored.mergeSort scoreLe
      .ok ((sorted.take q.count).map fun (d, id) => (id, c.metric.normalizedDistance d rd.dims))

/-- `QueryBuilder::by_vector` -/
def byVector (c : Cfg) (s : Store) (rd : ReaderState) (vec : List Nat) (q : QueryOpts) :
    Except Err (List (Nat × Nat)) :=
  if vec.length ≠ rd.dims then .error (.invalidDim rd.dims vec.length) else
  let v := c.metric.fromSlice vec
  nnsByLeaf c s rd (c.metric.newHeader c.host v) v q

/-- `QueryBuilder::by_item` -/
def byItem (c : Cfg) (s : Store) (rd : ReaderState) (id : Nat) (q : QueryOpts) :
    Except Err (Option (List (Nat × Nat))) :=
  match Writer.itemLeaf c s id with
  | none => .ok none
  | some (h, v) =>
    match nnsByLeaf c s rd h v q with
    | .ok r => .ok (some r)
    | .error e => .error e

end Reader
end Arroy
