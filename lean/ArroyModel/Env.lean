import ArroyModel.Store
/-! The LMDB environment as arroy uses it (trusted model, DESIGN.md 3.2): a list of committed
versions, at most one write transaction working on a private copy, read transactions pinned to
the version that was committed when they were opened, and process crashes. -/
namespace Arroy

structure Env where
  /-- committed versions, newest first; never empty -/
  history : List Store := [[]]
  /-- the private copy of the open write transaction -/
  writer : Option Store := none
  /-- open read transactions: (id, pinned snapshot) -/
  readers : List (Nat × Store) := []
  deriving Inhabited

namespace Env

def committed (e : Env) : Store := e.history.headD []

inductive Event where
  | beginW
  /-- any operation of the writing thread: a function of the transaction's own store -/
  | write (f : Store → Store)
  | commit
  | abort
  | openR (rid : Nat)
  | closeR (rid : Nat)
  /-- the process dies: open transactions are lost, committed versions stay -/
  | crash

def step (e : Env) : Event → Env
  | .beginW => match e.writer with
    | none => { e with writer := some e.committed }
    | some _ => e                                        -- a second writer blocks (single-writer lock)
  | .write f => { e with writer := e.writer.map f }
  | .commit => match e.writer with
    | some s => { e with history := s :: e.history, writer := none }
    | none => e
  | .abort => { e with writer := none }
  | .openR rid => { e with readers := (rid, e.committed) :: e.readers.filter (·.1 ≠ rid) }
  | .closeR rid => { e with readers := e.readers.filter (·.1 ≠ rid) }
  | .crash => { e with writer := none, readers := [] }

def run (e : Env) (evs : List Event) : Env := evs.foldl step e

/-- what reader `rid` observes -/
def view (e : Env) (rid : Nat) : Option Store := (e.readers.find? (·.1 = rid)).map (·.2)

end Env
end Arroy
