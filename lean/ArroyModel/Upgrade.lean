import ArroyModel.Store
/-! `src/upgrade.rs`: the v0.4 → v0.5 layout change (cosine databases) and the v0.5 → v0.6 version stamp.
An old-layout database is represented decoded: keys carry the OLD kind numbers
(`Generated.oldModeItem/Tree/Metadata`), split nodes carry old kind numbers in their children,
the pending-updates bitmap under (metadata kind, id 1) is carried as `Val.desc ids`. -/
namespace Arroy
open Generated

namespace Upgrade

def cosineName : Bytes := Metric.cosine.nameBytes

/-- old kind number → new kind number -/
def remapMode (m : Nat) : Option Nat :=
  if m = oldModeItem then some modeItem
  else if m = oldModeTree then some modeTree
  else if m = oldModeMetadata then some modeMetadata
  else none

def remapNode (n : NodeId) : Option NodeId := (remapMode n.mode).map fun m => ⟨m, n.item⟩

inductive UpErr where
  | cannotDecodeKeyMode (mode : Nat)
  | panic (what : String)
  deriving Repr, DecidableEq

def upEntry (acc : Store) (kv : Key × Val) : Except UpErr Store :=
  let (k, v) := kv
  if k.mode = oldModeItem then .ok (acc.put ⟨k.index, modeItem, k.item⟩ v)
  else if k.mode = oldModeTree then
    match v with
    | .split l r n =>
      match remapNode l, remapNode r with
      | some l', some r' => .ok (acc.put ⟨k.index, modeTree, k.item⟩ (.split l' r' n))
      | none, _ => .error (.cannotDecodeKeyMode l.mode)
      | _, none => .error (.cannotDecodeKeyMode r.mode)
    | other => .ok (acc.put ⟨k.index, modeTree, k.item⟩ other)
  else if k.mode = oldModeMetadata then
    if k.item = 0 then
      match v with
      | .metadata _ dims items roots => .ok (acc.put ⟨k.index, modeMetadata, 0⟩ (.metadata cosineName dims items roots))
      | _ => .error (.panic "metadata does not decode")
    else if k.item = 1 then
      match v with
      | .desc ids => .ok (ids.foldl (fun s id => s.put ⟨k.index, modeUpdated, id⟩ .unit) acc)
      | _ => .ok acc      -- `decode().unwrap_or_default()`
    else .error (.panic "unexpected metadata entry")
  else .error (.cannotDecodeKeyMode k.mode)

/-- `cosine_from_0_4_to_0_5`: the write database is cleared, then every entry is rewritten -/
def up04to05 (old : List (Key × Val)) : Except UpErr Store :=
  old.foldlM upEntry []

/-- `from_0_5_to_0_6`: a version record for every index that has metadata -/
def stamp05to06 (read : Store) (write : Store) : Store :=
  read.foldl (fun w kv =>
    if kv.1.mode = metadataKeyMode ∧ kv.1.item = metadataKeyItem then
      w.put (Key.mkVersion kv.1.index) (.version crateVersion.1 crateVersion.2.1 crateVersion.2.2)
    else w) write

/-- new kind number → old kind number (the inverse used to produce old-layout test databases) -/
def unmapMode (m : Nat) : Option Nat :=
  if m = modeItem then some oldModeItem
  else if m = modeTree then some oldModeTree
  else if m = modeMetadata then some oldModeMetadata
  else none

def insertOld (k : Key) (v : Val) (s : List (Key × Val)) : List (Key × Val) := Store.put s k v

/-- `down`: the old-layout database holding the same content (version records dropped, pending marks
    folded into one bitmap per index, kinds renumbered, `oldName` as the metric name) -/
def down (oldName : Bytes) (s : Store) : List (Key × Val) :=
  let base := s.foldl (fun acc kv =>
    let (k, v) := kv
    if k.mode = modeItem then insertOld ⟨k.index, oldModeItem, k.item⟩ v acc
    else if k.mode = modeTree then
      let v' := match v with
        | .split l r n => .split ⟨(unmapMode l.mode).getD l.mode, l.item⟩ ⟨(unmapMode r.mode).getD r.mode, r.item⟩ n
        | other => other
      insertOld ⟨k.index, oldModeTree, k.item⟩ v' acc
    else if k.mode = metadataKeyMode ∧ k.item = metadataKeyItem then
      match v with
      | .metadata _ d i r => insertOld ⟨k.index, oldModeMetadata, 0⟩ (.metadata oldName d i r) acc
      | _ => acc
    else acc) []
  -- fold the updated marks of every index into one bitmap
  s.foldl (fun acc kv =>
    let k := kv.1
    if k.mode = modeUpdated then
      let key : Key := ⟨k.index, oldModeMetadata, 1⟩
      match Store.get acc key with
      | some (.desc ids) => insertOld key (.desc (IdSet.insert k.item ids)) acc
      | _ => insertOld key (.desc [k.item]) acc
    else acc) base

end Upgrade
end Arroy
