import ArroyProofs.KeyLemmas
import ArroyProofs.Properties.C16
import ArroyProofs.AuditCmd
import ArroyProofs.StoreLemmas
import ArroyProofs.Heap
