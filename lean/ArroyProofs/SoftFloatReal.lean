import ArroyProofs.SoftFloatBits
import Mathlib.Data.Real.Basic
import Mathlib.Tactic.Linarith
import Mathlib.Tactic.Ring
import Mathlib.Tactic.Positivity
import Mathlib.Tactic.FieldSimp
/-! The real value of a binary32 bit pattern, and the rounding-error theorem of `SF.roundPack`:
round-to-nearest has relative error at most `u = 2^-24` in the normal range. -/
namespace Arroy
namespace SFR
open SF

/-- `(-1)^neg` -/
noncomputable def sgn (b : Bool) : ℝ := if b then -1 else 1

/-- real value of an unpacked value (`0` for NaN and the infinities, which `Finite` excludes) -/
noncomputable def vReal : V → ℝ
  | .fin n m e => sgn n * (m : ℝ) * (2 : ℝ) ^ e
  | _ => 0

/-- real value of a binary32 bit pattern: `(-1)^neg · m · 2^e` -/
noncomputable def toReal (x : Nat) : ℝ := vReal (unpack f32 x)

/-- neither NaN nor infinite (decidable: the exponent field is not all ones, `SF.isFin_iff`) -/
def Finite (x : Nat) : Prop := isFin f32 x = true

instance (x : Nat) : Decidable (Finite x) := by unfold Finite; infer_instance

/-- unit roundoff of binary32 -/
noncomputable def u : ℝ := (2 : ℝ) ^ (-24 : ℤ)

/-- no underflow (at least the smallest normal number) and no overflow after rounding -/
def NormalRange (r : ℝ) : Prop :=
  (2 : ℝ) ^ (-126 : ℤ) ≤ |r| ∧ |r| < (2 : ℝ) ^ (128 : ℤ) * (1 - (2 : ℝ) ^ (-25 : ℤ))

/-- an exact result the standard model covers: zero (no rounding at all) or in the normal range -/
def NormalOrZero (r : ℝ) : Prop := r = 0 ∨ NormalRange r

theorem u_pos : 0 < u := by unfold u; positivity
theorem u_nonneg : 0 ≤ u := le_of_lt u_pos

theorem finite_iff (x : Nat) : Finite x ↔ ∃ n m e, unpack f32 x = .fin n m e := by
  unfold Finite isFin
  cases unpack f32 x <;> simp

theorem toReal_of_unpack {x : Nat} {n : Bool} {m : Nat} {e : Int} (h : unpack f32 x = .fin n m e) :
    toReal x = sgn n * (m : ℝ) * (2 : ℝ) ^ e := by
  unfold toReal; rw [h]; rfl

theorem finite_of_unpack {x : Nat} {n : Bool} {m : Nat} {e : Int} (h : unpack f32 x = .fin n m e) :
    Finite x := (finite_iff x).2 ⟨n, m, e, h⟩

theorem abs_sgn (b : Bool) : |sgn b| = 1 := by cases b <;> simp [sgn]
theorem sgn_mul_sgn (b : Bool) : sgn b * sgn b = 1 := by cases b <;> simp [sgn]
theorem sgn_bne (s t : Bool) : sgn (s != t) = sgn s * sgn t := by cases s <;> cases t <;> simp [sgn]
theorem sgn_not (s : Bool) : sgn (!s) = - sgn s := by cases s <;> simp [sgn]

theorem two_zpow_pos (e : ℤ) : 0 < (2 : ℝ) ^ e := zpow_pos (by norm_num) e

theorem zpow_add_nat (e : ℤ) (k : ℕ) : (2 : ℝ) ^ (e + (k : ℤ)) = (2 : ℝ) ^ e * (2 : ℝ) ^ k := by
  rw [zpow_add₀ (two_ne_zero), zpow_natCast]

theorem cast_two_pow (k : ℕ) : ((2 ^ k : ℕ) : ℝ) = (2 : ℝ) ^ k := by push_cast; rfl

/-- the integer facts `roundPack` needs, from the real-number range of the exact value -/
theorem range_bounds (m : Nat) (e : Int) (t : ℝ) (hm : 0 < m) (ht0 : 0 ≤ t) (ht1 : t < 1)
    (hN : NormalRange (((m : ℝ) + t) * (2 : ℝ) ^ e)) :
    -125 ≤ e + bitLen m ∧ e + bitLen m ≤ 128 := by
  obtain ⟨hn0, hn1, hn2⟩ := bitLen_bounds hm
  have hE := two_zpow_pos e
  have hA : 0 < (m : ℝ) + t := by
    have : (0 : ℝ) < m := by exact_mod_cast hm
    linarith
  have habs : |((m : ℝ) + t) * (2 : ℝ) ^ e| = ((m : ℝ) + t) * (2 : ℝ) ^ e :=
    abs_of_pos (mul_pos hA hE)
  rw [NormalRange, habs] at hN
  obtain ⟨lo, hi⟩ := hN
  have c1 : ((m : ℝ) + 1) ≤ (2 : ℝ) ^ (bitLen m) := by
    have : m + 1 ≤ 2 ^ bitLen m := hn2
    exact_mod_cast this
  have c2 : (2 : ℝ) ^ (bitLen m - 1) ≤ (m : ℝ) := by exact_mod_cast hn1
  constructor
  · by_contra hcon
    have hle : e + (bitLen m : ℤ) ≤ -126 := by omega
    have h1 : (2 : ℝ) ^ (e + (bitLen m : ℤ)) ≤ (2 : ℝ) ^ (-126 : ℤ) :=
      zpow_le_zpow_right₀ (by norm_num) hle
    rw [zpow_add_nat] at h1
    have h2 : ((m : ℝ) + t) * (2 : ℝ) ^ e < (2 : ℝ) ^ (bitLen m) * (2 : ℝ) ^ e :=
      mul_lt_mul_of_pos_right (by linarith) hE
    linarith
  · by_contra hcon
    have hge : (128 : ℤ) ≤ e + ((bitLen m - 1 : ℕ) : ℤ) := by omega
    have h1 : (2 : ℝ) ^ (128 : ℤ) ≤ (2 : ℝ) ^ (e + ((bitLen m - 1 : ℕ) : ℤ)) :=
      zpow_le_zpow_right₀ (by norm_num) hge
    rw [zpow_add_nat] at h1
    have h2 : (2 : ℝ) ^ (bitLen m - 1) * (2 : ℝ) ^ e ≤ ((m : ℝ) + t) * (2 : ℝ) ^ e :=
      mul_le_mul_of_nonneg_right (by linarith) (le_of_lt hE)
    have h3 : (0 : ℝ) < (2 : ℝ) ^ (128 : ℤ) * (2 : ℝ) ^ (-25 : ℤ) := by positivity
    linarith

/-- `u · 2^(s+23) = 2^(s-1)`: half a unit in the last place of a `(24+s)`-bit significand -/
theorem u_mul_pow (s : ℕ) (hs : 0 < s) : u * (2 : ℝ) ^ (23 + s) = (2 : ℝ) ^ (s - 1) := by
  unfold u
  rw [← zpow_natCast, ← zpow_natCast, ← zpow_add₀ two_ne_zero]
  congr 1; omega

/-- **Rounding error of `roundPack`.** The exact value `±(m + t)·2^e` (`t = 0` without sticky bit,
`0 < t < 1` with it — the sticky bit is only honoured when `m` has more than 24 bits, as in `div` and
`sqrt`) in the normal range rounds to a finite value `±R·2^Q = ±(m + t)·2^e·(1 + δ)`, `|δ| ≤ 2^-24`. -/
theorem roundPack_fin (neg : Bool) (m : Nat) (e : Int) (st : Bool) (t : ℝ) (hm : 0 < m)
    (ht0 : 0 ≤ t) (ht1 : t < 1) (hst : st = false → t = 0) (hst' : st = true → 2 ^ 24 ≤ m)
    (hN : NormalRange (((m : ℝ) + t) * (2 : ℝ) ^ e)) :
    ∃ (R : Nat) (Q : Int) (δ : ℝ), unpack f32 (roundPack f32 neg m e st) = .fin neg R Q ∧ |δ| ≤ u ∧
      (R : ℝ) * (2 : ℝ) ^ Q = ((m : ℝ) + t) * (2 : ℝ) ^ e * (1 + δ) := by
  obtain ⟨h1, h2⟩ := range_bounds m e t hm ht0 ht1 hN
  obtain ⟨hn0, hn1, hn2⟩ := bitLen_bounds hm
  have hE := two_zpow_pos e
  have hm' : (0 : ℝ) < m := by exact_mod_cast hm
  have hA : 0 < (m : ℝ) + t := by linarith
  by_cases hn : bitLen m ≤ 24
  · -- exact
    have hst0 : st = false := by
      cases st
      · rfl
      · have := hst' rfl
        have : 2 ^ 24 < 2 ^ bitLen m := by omega
        have := (Nat.pow_lt_pow_iff_right (by decide : 1 < 2)).mp this
        omega
    have ht : t = 0 := hst hst0
    refine ⟨_, _, 0, roundPack_exact neg m e st hm hn h1 h2, by simp [u_nonneg], ?_⟩
    rw [ht]
    have hq : e + (bitLen m : ℤ) - 24 = e + (-((24 - bitLen m : ℕ) : ℤ)) := by omega
    rw [hq, zpow_add₀ two_ne_zero, zpow_neg, zpow_natCast]
    push_cast
    have : (2 : ℝ) ^ (24 - bitLen m) ≠ 0 := by positivity
    field_simp
    ring
  · -- rounding by `s` bits
    have hn' : 24 < bitLen m := by omega
    obtain ⟨s, hs⟩ : ∃ s, bitLen m = 24 + s := ⟨bitLen m - 24, by omega⟩
    have hs0 : 0 < s := by omega
    have hsub : bitLen m - 24 = s := by omega
    obtain ⟨e1, e2, e3⟩ := roundMant_err m s st hs0
    have hr := roundMant_range m s st
      (by have : 23 + s = bitLen m - 1 := by omega
          rw [this]; exact hn1)
      (by rw [← hs]; exact hn2)
    -- real-number versions of the rounding inequalities
    have r1 : ((roundMant m s st : ℕ) : ℝ) * (2 : ℝ) ^ s ≤ (m : ℝ) + (2 : ℝ) ^ (s - 1) := by
      exact_mod_cast e1
    have r2 : (m : ℝ) + t ≤ ((roundMant m s st : ℕ) : ℝ) * (2 : ℝ) ^ s + (2 : ℝ) ^ (s - 1) := by
      cases st
      · rw [hst rfl, add_zero]; exact_mod_cast e2
      · have : ((m : ℝ) + 1) ≤ ((roundMant m s true : ℕ) : ℝ) * (2 : ℝ) ^ s + (2 : ℝ) ^ (s - 1) := by
          exact_mod_cast e3 rfl
        linarith
    have r3 : (2 : ℝ) ^ (23 + s) ≤ (m : ℝ) := by
      have : 2 ^ (23 + s) ≤ m := by
        have : 23 + s = bitLen m - 1 := by omega
        rw [this]; exact hn1
      exact_mod_cast this
    have hhalf : (2 : ℝ) ^ (s - 1) ≤ u * ((m : ℝ) + t) := by
      rw [← u_mul_pow s hs0]
      exact mul_le_mul_of_nonneg_left (by linarith) u_nonneg
    -- the relative error
    set r : ℝ := ((roundMant m s st : ℕ) : ℝ) with hrdef
    have hδ : |(r * (2 : ℝ) ^ s - ((m : ℝ) + t)) / ((m : ℝ) + t)| ≤ u := by
      rw [abs_div, abs_of_pos hA, div_le_iff₀ hA, abs_le]
      constructor <;> linarith
    have hval : r * (2 : ℝ) ^ s * (2 : ℝ) ^ e
        = ((m : ℝ) + t) * (2 : ℝ) ^ e * (1 + (r * (2 : ℝ) ^ s - ((m : ℝ) + t)) / ((m : ℝ) + t)) := by
      field_simp
      ring
    have hQ : (2 : ℝ) ^ (e + (bitLen m : ℤ) - 24) = (2 : ℝ) ^ s * (2 : ℝ) ^ e := by
      have : e + (bitLen m : ℤ) - 24 = e + (s : ℤ) := by omega
      rw [this, zpow_add_nat, _root_.mul_comm]
    by_cases hc : roundMant m s st = 2 ^ 24
    · -- carry: not at the top of the exponent range
      have h2' : e + (bitLen m : ℤ) ≤ 127 := by
        by_contra hcon
        have he : e + (bitLen m : ℤ) = 128 := by omega
        have hl := carry_large m s st hs0 hc
        have hl' : (2 : ℝ) ^ (24 + s) ≤ (m : ℝ) + (2 : ℝ) ^ (s - 1) := by exact_mod_cast hl
        have a1 : (2 : ℝ) ^ (24 + s) * (2 : ℝ) ^ e = (2 : ℝ) ^ (128 : ℤ) := by
          rw [_root_.mul_comm, ← zpow_add_nat]; congr 1; omega
        have a2 : (2 : ℝ) ^ (s - 1) * (2 : ℝ) ^ e = (2 : ℝ) ^ (103 : ℤ) := by
          rw [_root_.mul_comm, ← zpow_add_nat]; congr 1; omega
        have a3 : (2 : ℝ) ^ (128 : ℤ) * (2 : ℝ) ^ (-25 : ℤ) = (2 : ℝ) ^ (103 : ℤ) := by
          rw [← zpow_add₀ two_ne_zero]; norm_num
        have a4 : ((2 : ℝ) ^ (24 + s) - (2 : ℝ) ^ (s - 1)) * (2 : ℝ) ^ e ≤ ((m : ℝ) + t) * (2 : ℝ) ^ e :=
          mul_le_mul_of_nonneg_right (by linarith) (le_of_lt hE)
        have hi := hN.2
        rw [abs_of_pos (mul_pos hA hE)] at hi
        nlinarith
      have hup := roundPack_carry neg m e st hm hn' h1 h2' (by rw [hsub]; exact hc)
      refine ⟨_, _, _, hup, hδ, ?_⟩
      rw [← hval, hrdef, hc]
      have : e + (bitLen m : ℤ) - 24 + 1 = e + ((s + 1 : ℕ) : ℤ) := by omega
      rw [this, zpow_add_nat]
      push_cast
      ring
    · have hup := roundPack_round neg m e st hm hn' h1 h2 (by rw [hsub]; exact hc)
      rw [hsub] at hup
      refine ⟨_, _, _, hup, hδ, ?_⟩
      rw [← hval, hQ]; ring

theorem normalRange_sgn (n : Bool) (x : ℝ) : NormalRange (sgn n * x) ↔ NormalRange x := by
  unfold NormalRange; rw [abs_mul, abs_sgn, one_mul]

theorem normalRange_ne_zero {r : ℝ} (h : NormalRange r) : r ≠ 0 := by
  intro h0
  have := h.1
  rw [h0, abs_zero] at this
  have := two_zpow_pos (-126)
  linarith

/-- **`roundPack_real`**: the value of the rounded result is the exact value `v = ±(m + t)·2^e` times
`1 + δ`, `|δ| ≤ 2^-24` (hypotheses as in `roundPack_fin`). -/
theorem roundPack_real (neg : Bool) (m : Nat) (e : Int) (st : Bool) (t : ℝ) (hm : 0 < m)
    (ht0 : 0 ≤ t) (ht1 : t < 1) (hst : st = false → t = 0) (hst' : st = true → 2 ^ 24 ≤ m)
    (hN : NormalRange (sgn neg * (((m : ℝ) + t) * (2 : ℝ) ^ e))) :
    Finite (roundPack f32 neg m e st) ∧ ∃ δ : ℝ, |δ| ≤ u ∧
      toReal (roundPack f32 neg m e st) = sgn neg * (((m : ℝ) + t) * (2 : ℝ) ^ e) * (1 + δ) := by
  rw [normalRange_sgn] at hN
  obtain ⟨R, Q, δ, hu, hδ, hv⟩ := roundPack_fin neg m e st t hm ht0 ht1 hst hst' hN
  refine ⟨finite_of_unpack hu, δ, hδ, ?_⟩
  rw [toReal_of_unpack hu, mul_assoc, hv]; ring

/-- the sticky-free case, as `add`, `sub`, `mul` and `fma` use it: the exact value `r = ±m·2^e` is zero
(then the result is a zero) or in the normal range -/
theorem round_or_zero (z neg : Bool) (m : Nat) (e : Int) (r : ℝ)
    (hr : r = sgn neg * (m : ℝ) * (2 : ℝ) ^ e) (hN : NormalOrZero r) :
    Finite (if (m == 0) = true then packBits f32 z 0 0 else roundPack f32 neg m e) ∧ ∃ δ : ℝ, |δ| ≤ u ∧
      toReal (if (m == 0) = true then packBits f32 z 0 0 else roundPack f32 neg m e) = r * (1 + δ) := by
  by_cases h0 : m = 0
  · subst h0
    have hu := unpack_packBits_zero z
    refine ⟨by simpa using finite_of_unpack hu, 0, by simp [u_nonneg], ?_⟩
    simp only [beq_self_eq_true, if_true]
    rw [toReal_of_unpack hu, hr]; simp
  · have hb : (m == 0) = false := by simpa using h0
    simp only [hb, Bool.false_eq_true, if_false]
    have hm : 0 < m := Nat.pos_of_ne_zero h0
    have hr' : r = sgn neg * (((m : ℝ) + 0) * (2 : ℝ) ^ e) := by rw [hr]; ring
    have hN' : NormalRange r := by
      rcases hN with hz | hN
      · exfalso
        rw [hr] at hz
        have h1 : (0 : ℝ) < m := by exact_mod_cast hm
        have h2 := two_zpow_pos e
        have h3 : sgn neg ≠ 0 := by cases neg <;> simp [sgn]
        have : sgn neg * (m : ℝ) * (2 : ℝ) ^ e ≠ 0 := by positivity
        exact this hz
      · exact hN
    rw [hr'] at hN' ⊢
    exact roundPack_real neg m e false 0 hm (le_refl _) (by norm_num) (fun _ => rfl)
      (fun h => by cases h) hN'

theorem roundPack_zero (neg : Bool) (e : Int) : roundPack f32 neg 0 e = packBits f32 neg 0 0 := by
  unfold roundPack; simp

/-! ### the exact sum -/

theorem sgn_natAbs (s : ℤ) : sgn (decide (s < 0)) * ((s.natAbs : ℕ) : ℝ) = (s : ℝ) := by
  rw [Nat.cast_natAbs, Int.cast_abs]
  by_cases h : s < 0
  · have : (s : ℝ) < 0 := by exact_mod_cast h
    simp [sgn, h, abs_of_neg this]
  · have : (0 : ℝ) ≤ s := by exact_mod_cast (not_lt.mp h)
    simp [sgn, h, abs_of_nonneg this]

theorem pow_toNat_mul (e1 e : ℤ) (h : e ≤ e1) :
    (2 : ℝ) ^ ((e1 - e).toNat) * (2 : ℝ) ^ e = (2 : ℝ) ^ e1 := by
  rw [← zpow_natCast, ← zpow_add₀ two_ne_zero]; congr 1; omega

theorem sgn_int (n : Bool) (a : ℤ) : (((if n = true then -a else a) : ℤ) : ℝ) = sgn n * (a : ℝ) := by
  cases n <;> simp [sgn]

/-- `exactAdd` is exact -/
theorem exactAdd_real (n1 : Bool) (m1 : Nat) (e1 : Int) (n2 : Bool) (m2 : Nat) (e2 : Int) :
    sgn (exactAdd n1 m1 e1 n2 m2 e2).1 * ((exactAdd n1 m1 e1 n2 m2 e2).2.1 : ℝ)
        * (2 : ℝ) ^ (exactAdd n1 m1 e1 n2 m2 e2).2.2
      = sgn n1 * (m1 : ℝ) * (2 : ℝ) ^ e1 + sgn n2 * (m2 : ℝ) * (2 : ℝ) ^ e2 := by
  unfold exactAdd
  simp only
  rw [sgn_natAbs]
  have h1 := pow_toNat_mul e1 (min e1 e2) (min_le_left _ _)
  have h2 := pow_toNat_mul e2 (min e1 e2) (min_le_right _ _)
  rw [Int.cast_add, sgn_int, sgn_int]
  push_cast
  rw [← h1, ← h2]
  generalize (2 : ℝ) ^ (min e1 e2) = E
  ring

/-! ### the operations -/

/-- **multiplication** satisfies the standard model -/
theorem mul_std (a b : Nat) (ha : Finite a) (hb : Finite b)
    (hN : NormalOrZero (toReal a * toReal b)) :
    Finite (F32.mul a b) ∧ ∃ δ : ℝ, |δ| ≤ u ∧ toReal (F32.mul a b) = toReal a * toReal b * (1 + δ) := by
  obtain ⟨s, m1, e1, hua⟩ := (finite_iff a).1 ha
  obtain ⟨t, m2, e2, hub⟩ := (finite_iff b).1 hb
  have hmul : F32.mul a b =
      if (m1 * m2 == 0) = true then packBits f32 (s != t) 0 0 else roundPack f32 (s != t) (m1 * m2) (e1 + e2) := by
    unfold F32.mul SF.mul
    show (match unpack f32 a, unpack f32 b with
      | .nan, _ | _, .nan => qnan f32
      | .inf s, .inf t => infBits f32 (s != t)
      | .inf s, .fin t m _ => if m == 0 then qnan f32 else infBits f32 (s != t)
      | .fin s m _, .inf t => if m == 0 then qnan f32 else infBits f32 (s != t)
      | .fin s m1 e1, .fin t m2 e2 => roundPack f32 (s != t) (m1 * m2) (e1 + e2)) = _
    rw [hua, hub]
    by_cases h0 : m1 * m2 = 0
    · simp only [h0, beq_self_eq_true, if_true]; exact roundPack_zero _ _
    · have : (m1 * m2 == 0) = false := by simpa using h0
      simp only [this, Bool.false_eq_true, if_false]
  rw [hmul]
  apply round_or_zero
  · rw [toReal_of_unpack hua, toReal_of_unpack hub, sgn_bne, zpow_add₀ two_ne_zero]
    push_cast; ring
  · exact hN

theorem addV_real (n1 : Bool) (m1 : Nat) (e1 : Int) (n2 : Bool) (m2 : Nat) (e2 : Int)
    (hN : NormalOrZero (sgn n1 * (m1 : ℝ) * (2 : ℝ) ^ e1 + sgn n2 * (m2 : ℝ) * (2 : ℝ) ^ e2)) :
    Finite (addV f32 (.fin n1 m1 e1) (.fin n2 m2 e2)) ∧ ∃ δ : ℝ, |δ| ≤ u ∧
      toReal (addV f32 (.fin n1 m1 e1) (.fin n2 m2 e2))
        = (sgn n1 * (m1 : ℝ) * (2 : ℝ) ^ e1 + sgn n2 * (m2 : ℝ) * (2 : ℝ) ^ e2) * (1 + δ) := by
  have hx := exactAdd_real n1 m1 e1 n2 m2 e2
  have hadd : addV f32 (.fin n1 m1 e1) (.fin n2 m2 e2) =
      if ((exactAdd n1 m1 e1 n2 m2 e2).2.1 == 0) = true then packBits f32 (n1 && n2) 0 0
      else roundPack f32 (exactAdd n1 m1 e1 n2 m2 e2).1 (exactAdd n1 m1 e1 n2 m2 e2).2.1
        (exactAdd n1 m1 e1 n2 m2 e2).2.2 := rfl
  rw [hadd]
  exact round_or_zero _ _ _ _ _ hx.symm hN

/-- **addition** satisfies the standard model (the exact sum is formed by `exactAdd`, then rounded) -/
theorem add_std (a b : Nat) (ha : Finite a) (hb : Finite b)
    (hN : NormalOrZero (toReal a + toReal b)) :
    Finite (F32.add a b) ∧ ∃ δ : ℝ, |δ| ≤ u ∧ toReal (F32.add a b) = (toReal a + toReal b) * (1 + δ) := by
  obtain ⟨s, m1, e1, hua⟩ := (finite_iff a).1 ha
  obtain ⟨t, m2, e2, hub⟩ := (finite_iff b).1 hb
  have h : F32.add a b = addV f32 (.fin s m1 e1) (.fin t m2 e2) := by
    unfold F32.add SF.add
    show addV f32 (unpack f32 a) (unpack f32 b) = _
    rw [hua, hub]
  rw [h, toReal_of_unpack hua, toReal_of_unpack hub] at *
  exact addV_real _ _ _ _ _ _ hN

/-- **subtraction** satisfies the standard model -/
theorem sub_std (a b : Nat) (ha : Finite a) (hb : Finite b)
    (hN : NormalOrZero (toReal a - toReal b)) :
    Finite (F32.sub a b) ∧ ∃ δ : ℝ, |δ| ≤ u ∧ toReal (F32.sub a b) = (toReal a - toReal b) * (1 + δ) := by
  obtain ⟨s, m1, e1, hua⟩ := (finite_iff a).1 ha
  obtain ⟨t, m2, e2, hub⟩ := (finite_iff b).1 hb
  have h : F32.sub a b = addV f32 (.fin s m1 e1) (.fin (!t) m2 e2) := by
    unfold F32.sub SF.sub
    show addV f32 (unpack f32 a) (negV (unpack f32 b)) = _
    rw [hua, hub]; rfl
  have e : toReal a - toReal b
      = sgn s * (m1 : ℝ) * (2 : ℝ) ^ e1 + sgn (!t) * (m2 : ℝ) * (2 : ℝ) ^ e2 := by
    rw [toReal_of_unpack hua, toReal_of_unpack hub, sgn_not]; ring
  rw [e] at hN
  rw [h, e]
  exact addV_real _ _ _ _ _ _ hN

/-- **fused multiply-add** satisfies the standard model: one rounding of the exact `a·b + c` -/
theorem fma_std (a b c : Nat) (ha : Finite a) (hb : Finite b) (hc : Finite c)
    (hN : NormalOrZero (toReal a * toReal b + toReal c)) :
    Finite (F32.fma a b c) ∧ ∃ δ : ℝ, |δ| ≤ u ∧
      toReal (F32.fma a b c) = (toReal a * toReal b + toReal c) * (1 + δ) := by
  obtain ⟨s, m1, e1, hua⟩ := (finite_iff a).1 ha
  obtain ⟨t, m2, e2, hub⟩ := (finite_iff b).1 hb
  obtain ⟨w, m3, e3, huc⟩ := (finite_iff c).1 hc
  have hx := exactAdd_real (s != t) (m1 * m2) (e1 + e2) w m3 e3
  have h : F32.fma a b c =
      if ((exactAdd (s != t) (m1 * m2) (e1 + e2) w m3 e3).2.1 == 0) = true
      then packBits f32 ((s != t) && w) 0 0
      else roundPack f32 (exactAdd (s != t) (m1 * m2) (e1 + e2) w m3 e3).1
        (exactAdd (s != t) (m1 * m2) (e1 + e2) w m3 e3).2.1
        (exactAdd (s != t) (m1 * m2) (e1 + e2) w m3 e3).2.2 := by
    unfold F32.fma SF.fma
    show (match unpack f32 a, unpack f32 b, unpack f32 c with
      | .nan, _, _ | _, .nan, _ | _, _, .nan => qnan f32
      | .fin s m1 e1, .fin t m2 e2, .fin u m3 e3 =>
        let (n, m, e) := exactAdd (s != t) (m1 * m2) (e1 + e2) u m3 e3
        if m == 0 then packBits f32 ((s != t) && u) 0 0 else roundPack f32 n m e
      | x, y, z => _) = _
    rw [hua, hub, huc]
  rw [h]
  apply round_or_zero
  · rw [hx, toReal_of_unpack hua, toReal_of_unpack hub, toReal_of_unpack huc, sgn_bne,
      zpow_add₀ two_ne_zero]
    push_cast; ring
  · exact hN

end SFR
end Arroy
