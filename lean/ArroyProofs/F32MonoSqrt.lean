import ArroyProofs.F32MonoDiv
/-! Monotonicity of `F32.sqrt` on non-negative values (core Lean only): the integer square root with
its inexact flag is monotone (`sqrtKey_mono`), and the result does not depend on the exponent at
which the operand is written (`gsq_scale`, by `RP_coarsen`). -/
namespace Arroy
namespace F32M
open SF F32L

/-! ### integer square roots -/

theorem le_sqrt {x N : Nat} (h : x * x ≤ N) : x ≤ Nat.sqrt N :=
  Nat.le_of_lt_succ (lt_of_sq_lt (Nat.lt_of_le_of_lt h (Nat.lt_succ_sqrt N)))

theorem sqrt_lt {x N : Nat} (h : N < x * x) : Nat.sqrt N < x :=
  lt_of_sq_lt (Nat.lt_of_le_of_lt (Nat.sqrt_le N) h)

theorem sqrt_mono' {A B : Nat} (h : A ≤ B) : Nat.sqrt A ≤ Nat.sqrt B :=
  le_sqrt (Nat.le_trans (Nat.sqrt_le A) h)

/-- the key `2·⌊√A⌋ + [A not a square]` is monotone in `A` -/
theorem sqrtKey_mono {A B : Nat} (h : A ≤ B) :
    2 * Nat.sqrt A + (Nat.sqrt A * Nat.sqrt A != A).toNat
      ≤ 2 * Nat.sqrt B + (Nat.sqrt B * Nat.sqrt B != B).toNat := by
  have hq := sqrt_mono' h
  have ha := Nat.sqrt_le A
  have hb := Nat.sqrt_le B
  have t1 : (Nat.sqrt A * Nat.sqrt A != A).toNat ≤ 1 := Bool.toNat_le _
  rcases Nat.lt_or_eq_of_le hq with hlt | heq
  · omega
  · rw [← heq] at hb ⊢
    by_cases h0 : Nat.sqrt A * Nat.sqrt A = A
    · simp [h0]
    · have h1 : Nat.sqrt A * Nat.sqrt A ≠ B := by omega
      have e1 : (Nat.sqrt A * Nat.sqrt A != A) = true := by simpa using h0
      have e2 : (Nat.sqrt A * Nat.sqrt A != B) = true := by simpa using h1
      rw [e1, e2]; omega

/-- `⌊√(4m)⌋` is `2⌊√m⌋` or `2⌊√m⌋ + 1`, the latter only if `m` is not a square -/
theorem sqrt_four (m : Nat) :
    Nat.sqrt (m * 4) / 2 = Nat.sqrt m ∧
    ((Nat.sqrt (m * 4) * Nat.sqrt (m * 4) != m * 4 || Nat.sqrt (m * 4) % 2 != 0)
      = (Nat.sqrt m * Nat.sqrt m != m)) := by
  have r1 := Nat.sqrt_le m
  have r2 : m < (Nat.sqrt m + 1) * (Nat.sqrt m + 1) := Nat.lt_succ_sqrt m
  have R1 := Nat.sqrt_le (m * 4)
  generalize Nat.sqrt m = r at *
  have lo : 2 * r ≤ Nat.sqrt (m * 4) := by
    apply le_sqrt
    have : 2 * r * (2 * r) = r * r * 4 := by rw [Nat.mul_mul_mul_comm]; omega
    omega
  have hi : Nat.sqrt (m * 4) < 2 * r + 2 := by
    apply sqrt_lt
    have : (2 * r + 2) * (2 * r + 2) = (r + 1) * (r + 1) * 4 := by
      have : 2 * r + 2 = 2 * (r + 1) := by omega
      rw [this, Nat.mul_mul_mul_comm]; omega
    omega
  generalize Nat.sqrt (m * 4) = R at *
  refine ⟨by omega, ?_⟩
  have hR : R = 2 * r ∨ R = 2 * r + 1 := by omega
  rcases hR with rfl | rfl
  · have e : 2 * r * (2 * r) = r * r * 4 := by rw [Nat.mul_mul_mul_comm]; omega
    rw [e]
    have : 2 * r % 2 = 0 := by omega
    rw [this]
    rw [Bool.eq_iff_iff]
    simp only [Bool.or_eq_true, bne_iff_ne, ne_eq, not_true_eq_false, or_false]
    omega
  · have e : (2 * r + 1) * (2 * r + 1) = r * r * 4 + 4 * r + 1 := by
      rw [sq_expand, Nat.mul_mul_mul_comm]; omega
    rw [e] at R1 ⊢
    have : (2 * r + 1) % 2 = 1 := by omega
    rw [this]
    rw [Bool.eq_iff_iff]
    simp only [Bool.or_eq_true, bne_iff_ne, ne_eq]
    constructor
    · intro _; omega
    · intro _; right; decide

/-! ### the rounded square root at a given exponent -/

/-- operand of the integer square root: even exponent, at least 52 extra bits -/
def sqArg (e : Int) (m : Nat) : Nat × Int :=
  if (e - 52) % 2 = 0 then (m * 2 ^ 52, e - 52) else (m * 2 ^ 53, e - 53)

/-- rounded square root of `m'·2^e'` (`e'` even) -/
def sqS (m' : Nat) (e' : Int) : Nat :=
  RP (Nat.sqrt m') (e' / 2) (Nat.sqrt m' * Nat.sqrt m' != m')

/-- rounded square root of the magnitude `M·2^E` -/
def gsq (E : Int) (M : Nat) : Nat := sqS (sqArg E M).1 (sqArg E M).2

theorem sqS_four (m' : Nat) (e' : Int) (hm : 2 ^ 48 ≤ m') (he : e' % 2 = 0) :
    sqS (m' * 4) (e' - 2) = sqS m' e' := by
  unfold sqS
  obtain ⟨h1, h2⟩ := sqrt_four m'
  have hbig : 2 ^ 24 ≤ Nat.sqrt (m' * 4) / 2 ^ 1 := by
    rw [show (2 : Nat) ^ 1 = 2 from rfl, h1]
    apply le_sqrt
    have : (2 : Nat) ^ 24 * 2 ^ 24 = 2 ^ 48 := by decide
    omega
  rw [RP_coarsen _ 1 _ _ hbig]
  rw [show (2 : Nat) ^ 1 = 2 from rfl, h1, h2]
  have : (e' - 2) / 2 + ((1 : Nat) : Int) = e' / 2 := by omega
  rw [this]

theorem gsq_zero (E : Int) : gsq E 0 = 0 := by
  unfold gsq sqS sqArg
  split <;> simp only [Nat.zero_mul] <;> exact RP_zero _ _

theorem gsq_mono (E : Int) {M1 M2 : Nat} (h : M1 ≤ M2) : gsq E M1 ≤ gsq E M2 := by
  unfold gsq sqS sqArg
  split
  · exact RP_mono _ _ _ _ _ (sqrtKey_mono (Nat.mul_le_mul_right _ h))
  · exact RP_mono _ _ _ _ _ (sqrtKey_mono (Nat.mul_le_mul_right _ h))

theorem gsq_step (e : Int) (m : Nat) (hm : 0 < m) : gsq (e - 1) (m * 2) = gsq e m := by
  unfold gsq sqArg
  by_cases h : (e - 52) % 2 = 0
  · have h' : ¬ ((e - 1 - 52) % 2 = 0) := by omega
    rw [if_pos h, if_neg h']
    simp only
    have e1 : m * 2 * 2 ^ 53 = m * 2 ^ 52 * 4 := by omega
    have e2 : e - 1 - 53 = e - 52 - 2 := by omega
    rw [e1, e2]
    exact sqS_four _ _ (by omega) h
  · have h' : (e - 1 - 52) % 2 = 0 := by omega
    rw [if_neg h, if_pos h']
    simp only
    have e1 : m * 2 * 2 ^ 52 = m * 2 ^ 53 := by omega
    have e2 : e - 1 - 52 = e - 53 := by omega
    rw [e1, e2]

/-- the rounded square root does not depend on the exponent at which the operand is written -/
theorem gsq_scale (m : Nat) (hm : 0 < m) (e : Int) : ∀ d : Nat, gsq (e - d) (m * 2 ^ d) = gsq e m := by
  intro d
  induction d with
  | zero => simp
  | succ d ih =>
    have e1 : m * 2 ^ (d + 1) = m * 2 ^ d * 2 := by rw [Nat.pow_succ, Nat.mul_assoc]
    have e2 : e - ((d + 1 : Nat) : Int) = e - (d : Int) - 1 := by omega
    rw [e1, e2, gsq_step _ _ (Nat.mul_pos hm (Nat.two_pow_pos _)), ih]

/-! ### `sqrt` -/

/-- the odd extension of `SF.sqrt` to unpacked operands (agrees with it on non-negative values) -/
def sqrtV' (x : V) : Nat :=
  match x with
  | .nan => qnan f32
  | .inf s => infBits f32 s
  | .fin s m e => if m = 0 then packBits f32 s 0 0 else
      roundPack f32 s (Nat.sqrt (sqArg e m).1) ((sqArg e m).2 / 2)
        (Nat.sqrt (sqArg e m).1 * Nat.sqrt (sqArg e m).1 != (sqArg e m).1)

theorem sqrtV'_out (n : Bool) (m : Nat) (e E : Int) (hE : E ≤ e) :
    Out (sqrtV' (.fin n m e)) (ext (gsq E) (V.mag E (.fin n m e))) := by
  rw [← sv_eq_ext _ (gsq_zero E)]
  by_cases hm : m = 0
  · subst hm
    simp only [sqrtV', if_true, Nat.zero_mul, gsq_zero]
    have : sv n 0 = 0 := by cases n <;> rfl
    rw [this]
    exact out_zero _
  · simp only [sqrtV', if_neg hm]
    have hs := gsq_scale m (Nat.pos_of_ne_zero hm) e (e - E).toNat
    have : e - (((e - E).toNat : Nat) : Int) = E := by omega
    rw [this] at hs
    rw [hs]
    exact out_roundPack _ _ _ _

theorem sqrtV'_mono {x y : V} (h : leV x y) : F32.le (sqrtV' x) (sqrtV' y) = true := by
  apply lift_mono sqrtV' 0 (fun E z => ext (gsq E) z) _ _ _ h
  · intro a; rfl
  · intro n m e E h1 _
    exact sqrtV'_out n m e E h1
  · intro E z1 z2 hz
    exact ext_mono _ (fun a b hab => gsq_mono E hab) hz

/-- non-negative: `+inf`, or finite with a clear sign bit or a zero significand (`-0.0`) -/
def nonnegV : V → Prop
  | .nan => False
  | .inf s => s = false
  | .fin n m _ => n = false ∨ m = 0

theorem nonnegV_of_le {a : Nat} (h : F32.le F32.zero a = true) : nonnegV (unpack f32 a) := by
  rw [le_iff_leV] at h
  have hz : unpack f32 F32.zero = .fin false 0 (-149) := unpack_zero
  rw [hz] at h
  cases hu : unpack f32 a with
  | nan => rw [hu] at h; exact absurd h.2.1 id
  | inf s =>
    rw [hu] at h
    have := h.2.2
    cases s
    · rfl
    · simp [ltV] at this
  | fin n m e =>
    rw [hu] at h
    have := leV_fin h (Min.min e (-149)) (by omega) (by omega)
    cases n
    · exact Or.inl rfl
    · right
      simp only [V.mag, Bool.false_eq_true, if_false, if_true, Nat.zero_mul] at this
      have h0 : m * 2 ^ ((e - Min.min e (-149)).toNat) = 0 := by omega
      rcases Nat.mul_eq_zero.mp h0 with h1 | h1
      · exact h1
      · have := Nat.two_pow_pos ((e - Min.min e (-149)).toNat); omega

theorem sqrt_eq_sqrtV' {a : Nat} (h : nonnegV (unpack f32 a)) : F32.sqrt a = sqrtV' (unpack f32 a) := by
  cases hu : unpack f32 a with
  | nan => rw [hu] at h; exact absurd h id
  | inf s =>
    rw [hu] at h
    have hs : s = false := h
    subst hs
    unfold F32.sqrt SF.sqrt
    rw [show unpack F32.fmt a = unpack f32 a from rfl, hu]
    rfl
  | fin n m e =>
    rw [hu] at h
    by_cases hm : m = 0
    · subst hm
      unfold F32.sqrt SF.sqrt
      rw [show unpack F32.fmt a = unpack f32 a from rfl, hu]
      simp [sqrtV']
    · have hn : n = false := by
        rcases h with h | h
        · exact h
        · exact absurd h hm
      subst hn
      simp only [sqrtV', if_neg hm, sqArg]
      by_cases hp : (e - 52) % 2 = 0
      · rw [sqrt_even a m e hu hm hp]
        simp only [if_pos hp]
      · rw [sqrt_odd a m e hu hm (by omega)]
        simp only [if_neg hp]

/-- **`sqrt` is monotone** on non-negative values (`-0.0`, `+0.0`, positive finite, `+inf`) -/
theorem sqrt_mono {a b : Nat} (h0 : F32.le F32.zero a = true) (h : F32.le a b = true) :
    F32.le (F32.sqrt a) (F32.sqrt b) = true := by
  have hb := nonnegV_of_le (le_trans h0 h)
  rw [sqrt_eq_sqrtV' (nonnegV_of_le h0), sqrt_eq_sqrtV' hb]
  exact sqrtV'_mono ((le_iff_leV a b).1 h)

/-- the square root of a non-negative value is a non-negative number (never NaN) -/
theorem sqrt_nonneg {a : Nat} (h0 : F32.le F32.zero a = true) : F32.le F32.zero (F32.sqrt a) = true := by
  have := sqrt_mono (le_refl (a := F32.zero) (by decide)) h0
  have hz : F32.sqrt F32.zero = F32.zero := by decide +kernel
  rw [hz] at this
  exact this

end F32M
end Arroy
