import ArroyProofs.BQLemmas
import ArroyProofs.F32Order
import ArroyProofs.F32SqrtSq
import ArroyProofs.F32DivRange
/-! Helper lemmas for C12: the binary-quantised cosine distance as a function of the number of
stored words and of `h`; bounded facts (up to 5 words = dimension 320) by kernel evaluation. -/
namespace Arroy
namespace F32L
open SF

/-- `0.0 / (d as f32) = +0.0` for `d > 0` -/
theorem zero_div_ofNat {d : Nat} (hd : 0 < d) : F32.div (F32.ofNat 0) (F32.ofNat d) = 0 := by
  rw [ofNat_zero]
  have h1 : F32.ofNat 1 = 0x3f800000 := by decide +kernel
  have hpos : 0 < F32.ofNat d := by
    have := ofNat_mono (a := 1) (b := d) hd
    omega
  have hle := ofNat_le_inf d
  generalize F32.ofNat d = y at *
  unfold F32.div SF.div
  have u0 : SF.unpack F32.fmt 0 = .fin false 0 (-149) := by rfl
  rw [u0]
  rcases Nat.lt_or_eq_of_le hle with h | h
  · rw [unpack_pos y h]
    by_cases hq : y / 2 ^ 23 = 0
    · rw [if_pos hq]
      have : y % 2 ^ 23 ≠ 0 := by omega
      simp [this, SF.packBits]
    · rw [if_neg hq]
      simp [SF.packBits]
  · subst h; rw [unpack_inf]; simp [SF.packBits]

/-- a negative non-zero finite value is below every non-negative value up to `+inf` -/
theorem lt_of_neg_nonneg {x y : Nat} {m : Nat} {e : Int}
    (hx : SF.unpack F32.fmt x = .fin true m e) (hm : m ≠ 0) (hy : y ≤ 0x7f800000) :
    F32.lt x y = true := by
  unfold F32.lt SF.lt
  rw [hx]
  rcases Nat.lt_or_eq_of_le hy with h | h
  · have hy' : ∃ my ey, SF.unpack F32.fmt y = .fin false my ey := by
      rw [unpack_pos y h]; by_cases hq : y / 2 ^ 23 = 0
      · rw [if_pos hq]; exact ⟨_, _, rfl⟩
      · rw [if_neg hq]; exact ⟨_, _, rfl⟩
    obtain ⟨my, ey, hy'⟩ := hy'
    rw [hy']
    simp only [SF.ltV, SF.exactAdd, Bool.not_false, if_true]
    have hp : 0 < m * 2 ^ ((e - min e ey).toNat) := Nat.mul_pos (by omega) (Nat.two_pow_pos _)
    generalize m * 2 ^ ((e - min e ey).toNat) = a at *
    generalize my * 2 ^ ((ey - min e ey).toNat) = b at *
    have h1 : (-(a : Int) + -(b : Int) < 0) := by omega
    have h2 : (-(a : Int) + -(b : Int)).natAbs ≠ 0 := by omega
    simp [h1, h2]
  · subst h
    rw [unpack_inf]
    simp [SF.ltV]

/-- `(i as f32) / (D as f32)` for `|i| ≤ D < 2^62` is a number in `[-1, 1]` -/
theorem ofInt_div_range (D : Nat) (hD0 : 0 < D) (hD : D < 2 ^ 62) (i : Int) (hi : i.natAbs ≤ D) :
    SF.isNaN SF.f32 (F32.div (F32.ofInt i) (F32.ofNat D)) = false
    ∧ SF.lt SF.f32 (F32.div (F32.ofInt i) (F32.ofNat D)) F32.negOne = false
    ∧ SF.lt SF.f32 F32.one (F32.div (F32.ofInt i) (F32.ofNat D)) = false := by
  obtain ⟨x1, x2⟩ := ofNat_field hD0 hD
  have hxi := ofNat_le_inf D
  rcases Nat.eq_zero_or_pos i.natAbs with hn | hn
  · have : i = 0 := by omega
    subst this
    have : F32.ofInt 0 = F32.ofNat 0 := rfl
    rw [this, zero_div_ofNat hD0]
    exact range_of_le_one 0 (by omega)
  · obtain ⟨a1, a2⟩ := ofNat_field hn (by omega)
    have hax := ofNat_mono hi
    have hc := div_le_one (F32.ofNat i.natAbs) (F32.ofNat D) hax a1 x2
    by_cases hneg : i < 0
    · have e : F32.ofInt i = SF.neg F32.fmt (F32.ofNat i.natAbs) := by
        unfold F32.ofInt; rw [if_pos hneg]; rfl
      rw [e]
      obtain ⟨exf, frac, h1, h2⟩ := div_neg_shape (F32.ofNat i.natAbs) (F32.ofNat D) (by omega) (by omega)
        (by omega) (by omega)
      rw [h2]
      rw [h1] at hc
      apply range_of_neg_le_one _ _ hc
      rw [SF.packBits_true]
      exact SF.unpack_add_signW F32.fmt (Nat.le_of_ble_eq_true rfl) _
    · have e : F32.ofInt i = F32.ofNat i.natAbs := by
        unfold F32.ofInt; rw [if_neg hneg]; rfl
      rw [e]
      exact range_of_le_one _ hc

end F32L

namespace BQL
open Generated

/-- `BinaryQuantizedCosine::built_distance` (repaired) for leaves of `wu` and `wv` words at Hamming
    distance `h`: the product of the norms is `sqrt(64 wu · 64 wv)`, computed from the lengths -/
def cosineOf (wu wv h : Nat) : Nat :=
  let pnqn := F32.sqrt (F32.mul (F32.ofNat (64 * wu)) (F32.ofNat (64 * wv)))
  let pq := F32.ofInt ((64 * min wu wv : Nat) - 2 * (h : Nat))
  if !(F32.eq pnqn F32.zero) then F32.div (F32.sub F32.one (F32.div pq pnqn)) F32.two else F32.zero

/-- the closed form once `sqrt(D·D) = D`: `(1 − (D − 2h)/D) / 2`, `D = 64 w` -/
def cosineClosed (w h : Nat) : Nat :=
  F32.div (F32.sub F32.one (F32.div (F32.ofInt ((64 * w : Nat) - 2 * (h : Nat))) (F32.ofNat (64 * w))))
    F32.two

theorem built_cosine (host : Host) (ph qh u v : List Nat) :
    Metric.builtDistance .bqCosine host ph u qh v = cosineOf u.length v.length (BQ.hamming u v) := by
  simp only [Metric.builtDistance, cosineOf]
  rfl

theorem cosineOf_comm (wu wv h : Nat) : cosineOf wu wv h = cosineOf wv wu h := by
  unfold cosineOf
  rw [F32L.mul_comm, Nat.min_comm]

theorem cosineOf_zero_words (h : Nat) : cosineOf 0 0 h = 0 := by
  have : F32.eq (F32.sqrt (F32.mul (F32.ofNat (64 * 0)) (F32.ofNat (64 * 0)))) F32.zero = true := by
    decide +kernel
  unfold cosineOf
  simp only [this]
  rfl

theorem ofNat_pos_eq_zero_false {n : Nat} (h : 0 < n) : F32.eq (F32.ofNat n) F32.zero = false := by
  have h1 : F32.ofNat 1 = 0x3f800000 := by decide +kernel
  have hpos : 0 < F32.ofNat n := by
    have := F32L.ofNat_mono (a := 1) (b := n) h
    omega
  have hlt := F32L.lt_true_of_bits_lt (x := F32.zero) (y := F32.ofNat n) hpos (F32L.ofNat_le_inf n)
  unfold F32.eq SF.eq
  have : SF.le F32.fmt (F32.ofNat n) F32.zero = false := by
    unfold SF.le
    unfold F32.lt at hlt
    simp [hlt]
  simp [this]

/-- with `D = 64 w < 2^62` the norm product is exactly `D`, so the distance is `(1 − (D−2h)/D)/2` -/
theorem cosineOf_closed (w h : Nat) (hw : 0 < w) (hb : 64 * w < 2 ^ 62) :
    cosineOf w w h = cosineClosed w h := by
  unfold cosineOf cosineClosed
  simp only [F32L.sqrt_mul_ofNat _ hb, Nat.min_self,
    ofNat_pos_eq_zero_false (show 0 < 64 * w by omega), Bool.not_false, if_true]

/-- equal sign patterns: the distance is `+0.0`, for every number of words below `2^56` -/
theorem cosineOf_self_zero (w : Nat) (hb : 64 * w < 2 ^ 62) : cosineOf w w 0 = 0 := by
  rcases Nat.eq_zero_or_pos w with h | h
  · subst h; exact cosineOf_zero_words 0
  · rw [cosineOf_closed w 0 h hb]
    unfold cosineClosed
    have e1 : (((64 * w : Nat) : Int) - 2 * ((0 : Nat) : Int)) = ((64 * w : Nat) : Int) := by omega
    have e2 : F32.ofInt ((64 * w : Nat) : Int) = F32.ofNat (64 * w) := by
      unfold F32.ofInt
      have : ¬ (((64 * w : Nat) : Int) < 0) := by omega
      rw [if_neg this, Int.natAbs_natCast]; rfl
    rw [e1, e2]
    obtain ⟨a, b⟩ := F32L.ofNat_field (n := 64 * w) (by omega) hb
    rw [F32L.div_self _ (by omega) (by omega)]
    decide +kernel

/-- the distance is a number in `[0, 1]` -/
theorem cosineOf_range (w h : Nat) (hw : 0 < w) (hb : 64 * w < 2 ^ 62) (hh : h ≤ 64 * w) :
    F32.le F32.zero (cosineOf w w h) = true ∧ F32.le (cosineOf w w h) F32.one = true := by
  rw [cosineOf_closed w h hw hb]
  obtain ⟨r1, r2, r3⟩ := F32L.ofInt_div_range (64 * w) (by omega) hb
    (((64 * w : Nat) : Int) - 2 * ((h : Nat) : Int)) (by omega)
  exact SF.le_of_small _ (SF.div_two_le _ (SF.one_sub_le _ r1 r2 r3))

/-- The defect of the formula before the repair, as plain arithmetic: the product of the two stored
    norms `sqrt(128) · sqrt(128)` is `0x42ffffff`, one ulp below `128.0 = 0x43000000`; hence
    `cos = 128 / 127.99999 > 1` and the old distance `(1 − cos)/2` of a 65..128-dimensional vector
    to itself was `0xb3800000 = −5.9604645e−8`: non-zero and negative. -/
theorem old_formula_defect :
    F32.mul (F32.sqrt (F32.ofNat 128)) (F32.sqrt (F32.ofNat 128)) = 0x42ffffff
    ∧ F32.ofNat 128 = 0x43000000
    ∧ F32.div (F32.sub F32.one (F32.div (F32.ofNat 128)
        (F32.mul (F32.sqrt (F32.ofNat 128)) (F32.sqrt (F32.ofNat 128))))) F32.two = 0xb3800000
    ∧ F32.lt 0xb3800000 F32.zero = true := by
  decide +kernel

theorem cosineOf_exact (w h : Nat) (hw : w = 1 ∨ w = 2 ∨ w = 4) (hb : h ≤ 64 * w) :
    cosineOf w w h = F32.div (F32.ofNat h) (F32.ofNat (64 * w)) := by
  have key : ∀ w ∈ [1, 2, 4], ∀ h ∈ List.range (64 * w + 1),
      cosineOf w w h = F32.div (F32.ofNat h) (F32.ofNat (64 * w)) := by decide +kernel
  exact key w (by rcases hw with rfl | rfl | rfl <;> simp) h (List.mem_range.mpr (by omega))

/-- `f s < f (s+1) < … < f (s+k)` -/
def incrF (f : Nat → Nat) : Nat → Nat → Bool
  | _, 0 => true
  | s, k+1 => decide (f s < f (s+1)) && incrF f (s+1) k

theorem incrF_spec (f : Nat → Nat) : ∀ k s, incrF f s k = true →
    ∀ i j, s ≤ i → i < j → j ≤ s + k → f i < f j := by
  intro k
  induction k with
  | zero => intro s _ i j h1 h2 h3; omega
  | succ k ih =>
    intro s h i j h1 h2 h3
    simp only [incrF, Bool.and_eq_true, decide_eq_true_eq] at h
    obtain ⟨h0, hrest⟩ := h
    have ih' := ih (s + 1) hrest
    rcases Nat.lt_or_eq_of_le h1 with hlt | heq
    · exact ih' i j (by omega) h2 (by omega)
    · subst heq
      rcases Nat.lt_or_eq_of_le (Nat.succ_le_of_lt h2) with hlt | heq
      · exact Nat.lt_trans h0 (ih' (s + 1) j (Nat.le_refl _) hlt (by omega))
      · rw [← heq]; exact h0

theorem cos_chain : ∀ w ∈ [1, 2, 3, 4, 5], incrF (cosineOf w w) 0 (64 * w) = true := by
  decide +kernel

theorem cos_top : ∀ w ∈ [1, 2, 3, 4, 5], cosineOf w w (64 * w) ≤ 0x7f800000 := by
  decide +kernel

/-- strictly increasing in `h` (as bit patterns, all non-negative), up to five words -/
theorem cosineOf_chain (w h1 h2 : Nat) (hw : 1 ≤ w ∧ w ≤ 5) (h : h1 < h2) (hb : h2 ≤ 64 * w) :
    cosineOf w w h1 < cosineOf w w h2 ∧ cosineOf w w h2 ≤ 0x7f800000 := by
  have hmem : w ∈ [1, 2, 3, 4, 5] := by
    have : w = 1 ∨ w = 2 ∨ w = 3 ∨ w = 4 ∨ w = 5 := by omega
    simpa using this
  have htop := cos_top w hmem
  have chain := incrF_spec (cosineOf w w) (64 * w) 0 (cos_chain w hmem)
  refine ⟨chain h1 h2 (by omega) h (by omega), ?_⟩
  rcases Nat.lt_or_eq_of_le hb with hlt | heq
  · have := chain h2 (64 * w) (by omega) hlt (by omega)
    omega
  · rw [heq]; exact htop

theorem cosineOf_strict_mono (w h1 h2 : Nat) (hw : 1 ≤ w ∧ w ≤ 5) (h : h1 < h2)
    (hb : h2 ≤ 64 * w) : F32.lt (cosineOf w w h1) (cosineOf w w h2) = true := by
  obtain ⟨a, b⟩ := cosineOf_chain w h1 h2 hw h hb
  exact F32L.lt_true_of_bits_lt a b

end BQL
end Arroy
