import ArroyProofs.BQLemmas
import ArroyProofs.F32Order
/-! Helper lemmas for C12: the binary-quantised cosine distance as a function of the number of
stored words and of `h`; bounded facts (up to 5 words = dimension 320) by kernel evaluation. -/
namespace Arroy
namespace F32L
open SF

/-- `0.0 / (d as f32) = +0.0` for `d > 0` -/
theorem zero_div_ofNat {d : Nat} (hd : 0 < d) : F32.div (F32.ofNat 0) (F32.ofNat d) = 0 := by
  rw [ofNat_zero]
  have h1 : F32.ofNat 1 = 0x3f800000 := by decide +kernel
  have hpos : 0 < F32.ofNat d := by
    have := ofNat_mono (a := 1) (b := d) hd
    omega
  have hle := ofNat_le_inf d
  generalize F32.ofNat d = y at *
  unfold F32.div SF.div
  have u0 : SF.unpack F32.fmt 0 = .fin false 0 (-149) := by rfl
  rw [u0]
  rcases Nat.lt_or_eq_of_le hle with h | h
  · rw [unpack_pos y h]
    by_cases hq : y / 2 ^ 23 = 0
    · rw [if_pos hq]
      have : y % 2 ^ 23 ≠ 0 := by omega
      simp [this, SF.packBits]
    · rw [if_neg hq]
      simp [SF.packBits]
  · subst h; rw [unpack_inf]; simp [SF.packBits]

/-- a negative non-zero finite value is below every non-negative value up to `+inf` -/
theorem lt_of_neg_nonneg {x y : Nat} {m : Nat} {e : Int}
    (hx : SF.unpack F32.fmt x = .fin true m e) (hm : m ≠ 0) (hy : y ≤ 0x7f800000) :
    F32.lt x y = true := by
  unfold F32.lt SF.lt
  rw [hx]
  rcases Nat.lt_or_eq_of_le hy with h | h
  · have hy' : ∃ my ey, SF.unpack F32.fmt y = .fin false my ey := by
      rw [unpack_pos y h]; by_cases hq : y / 2 ^ 23 = 0
      · rw [if_pos hq]; exact ⟨_, _, rfl⟩
      · rw [if_neg hq]; exact ⟨_, _, rfl⟩
    obtain ⟨my, ey, hy'⟩ := hy'
    rw [hy']
    simp only [SF.ltV, SF.exactAdd, Bool.not_false, if_true]
    have hp : 0 < m * 2 ^ ((e - min e ey).toNat) := Nat.mul_pos (by omega) (Nat.two_pow_pos _)
    generalize m * 2 ^ ((e - min e ey).toNat) = a at *
    generalize my * 2 ^ ((ey - min e ey).toNat) = b at *
    have h1 : (-(a : Int) + -(b : Int) < 0) := by omega
    have h2 : (-(a : Int) + -(b : Int)).natAbs ≠ 0 := by omega
    simp [h1, h2]
  · subst h
    rw [unpack_inf]
    simp [SF.ltV]

end F32L

namespace BQL
open Generated

/-- `BinaryQuantizedCosine::built_distance` for leaves of `wu` and `wv` words at Hamming distance `h`
    (norms are `sqrt(dot(v, v)) = sqrt(64 w)`; no clamp, unlike the f32 cosine) -/
def cosineOf (wu wv h : Nat) : Nat :=
  let pnqn := F32.mul (F32.sqrt (F32.ofNat (64 * wu))) (F32.sqrt (F32.ofNat (64 * wv)))
  let pq := F32.ofInt ((64 * min wu wv : Nat) - 2 * (h : Nat))
  if !(F32.eq pnqn F32.zero) then F32.div (F32.sub F32.one (F32.div pq pnqn)) F32.two else F32.zero

theorem dot_self (v : List Nat) : BQ.dot v v = F32.ofNat (64 * v.length) := by
  unfold BQ.dot
  rw [hamming_self, Nat.min_self]
  have : (((quantizedWordBits * v.length : Nat) : Int) - 2 * ((0 : Nat) : Int))
      = ((64 * v.length : Nat) : Int) := by
    show (((64 * v.length : Nat) : Int) - 2 * ((0 : Nat) : Int)) = _
    omega
  rw [this]
  unfold F32.ofInt
  have : ¬ (((64 * v.length : Nat) : Int) < 0) := by omega
  rw [if_neg this, Int.natAbs_natCast]
  rfl

theorem hdrNorm_newHeader (host : Host) (v : List Nat) :
    Metric.hdrNorm .bqCosine (Metric.newHeader .bqCosine host v) = F32.sqrt (BQ.dot v v) := by
  rfl

theorem built_cosine (host : Host) (u v : List Nat) :
    Metric.builtDistance .bqCosine host (Metric.newHeader .bqCosine host u) u
      (Metric.newHeader .bqCosine host v) v = cosineOf u.length v.length (BQ.hamming u v) := by
  simp only [Metric.builtDistance, hdrNorm_newHeader, dot_self, cosineOf]
  rfl

theorem cosineOf_comm (wu wv h : Nat) : cosineOf wu wv h = cosineOf wv wu h := by
  unfold cosineOf
  rw [F32L.mul_comm, Nat.min_comm]

theorem cosineOf_self_zero (w : Nat) (hw : w ∈ [1, 3, 4, 5]) : cosineOf w w 0 = 0 := by
  revert w; decide +kernel

theorem cosineOf_2_2_0 : cosineOf 2 2 0 = 0xb3800000 := by decide +kernel

theorem cosineOf_exact (w h : Nat) (hw : w = 1 ∨ w = 4) (hb : h ≤ 64 * w) :
    cosineOf w w h = F32.div (F32.ofNat h) (F32.ofNat (64 * w)) := by
  have key : ∀ w ∈ [1, 4], ∀ h ∈ List.range (64 * w + 1),
      cosineOf w w h = F32.div (F32.ofNat h) (F32.ofNat (64 * w)) := by decide +kernel
  exact key w (by rcases hw with rfl | rfl <;> simp) h (List.mem_range.mpr (by omega))

/-- `f s < f (s+1) < … < f (s+k)` -/
def incrF (f : Nat → Nat) : Nat → Nat → Bool
  | _, 0 => true
  | s, k+1 => decide (f s < f (s+1)) && incrF f (s+1) k

theorem incrF_spec (f : Nat → Nat) : ∀ k s, incrF f s k = true →
    ∀ i j, s ≤ i → i < j → j ≤ s + k → f i < f j := by
  intro k
  induction k with
  | zero => intro s _ i j h1 h2 h3; omega
  | succ k ih =>
    intro s h i j h1 h2 h3
    simp only [incrF, Bool.and_eq_true, decide_eq_true_eq] at h
    obtain ⟨h0, hrest⟩ := h
    have ih' := ih (s + 1) hrest
    rcases Nat.lt_or_eq_of_le h1 with hlt | heq
    · exact ih' i j (by omega) h2 (by omega)
    · subst heq
      rcases Nat.lt_or_eq_of_le (Nat.succ_le_of_lt h2) with hlt | heq
      · exact Nat.lt_trans h0 (ih' (s + 1) j (Nat.le_refl _) hlt (by omega))
      · rw [← heq]; exact h0

theorem cos_chain_a : ∀ w ∈ [1, 3, 4, 5], incrF (cosineOf w w) 0 (64 * w) = true := by
  decide +kernel

theorem cos_chain_b : incrF (cosineOf 2 2) 1 127 = true := by decide +kernel

theorem cos_top : ∀ w ∈ [1, 2, 3, 4, 5], cosineOf w w (64 * w) ≤ 0x7f800000 := by
  decide +kernel

/-- strictly increasing in `h`, up to five words -/
theorem cosineOf_strict_mono (w h1 h2 : Nat) (hw : 1 ≤ w ∧ w ≤ 5) (h : h1 < h2)
    (hb : h2 ≤ 64 * w) : F32.lt (cosineOf w w h1) (cosineOf w w h2) = true := by
  have hmem : w ∈ [1, 2, 3, 4, 5] := by
    have : w = 1 ∨ w = 2 ∨ w = 3 ∨ w = 4 ∨ w = 5 := by omega
    simpa using this
  have htop := cos_top w hmem
  by_cases h2w : w = 2
  · subst h2w
    have chain := incrF_spec (cosineOf 2 2) 127 1 cos_chain_b
    have htop : cosineOf 2 2 128 ≤ 0x7f800000 := htop
    have hle : cosineOf 2 2 h2 ≤ 0x7f800000 := by
      rcases Nat.lt_or_eq_of_le hb with hlt | heq
      · have := chain h2 128 (by omega) hlt (by omega)
        omega
      · rw [heq]; exact htop
    rcases Nat.eq_zero_or_pos h1 with h0 | hpos
    · subst h0
      rw [cosineOf_2_2_0]
      exact F32L.lt_of_neg_nonneg (m := 8388608) (e := -47) (by rfl) (by decide) hle
    · exact F32L.lt_true_of_bits_lt (chain h1 h2 hpos h (by omega)) hle
  · have hmem' : w ∈ [1, 3, 4, 5] := by
      have : w = 1 ∨ w = 3 ∨ w = 4 ∨ w = 5 := by omega
      simpa using this
    have chain := incrF_spec (cosineOf w w) (64 * w) 0 (cos_chain_a w hmem')
    have hle : cosineOf w w h2 ≤ 0x7f800000 := by
      rcases Nat.lt_or_eq_of_le hb with hlt | heq
      · have := chain h2 (64 * w) (by omega) hlt (by omega)
        omega
      · rw [heq]; exact htop
    exact F32L.lt_true_of_bits_lt (chain h1 h2 (by omega) h (by omega)) hle

end BQL
end Arroy
