import ArroyProofs.F32MonoOrd
/-! Monotonicity of the binary32 operations w.r.t. `F32.le` (core Lean only), from the monotonicity of
rounding (`F32M.RP_mono`): `neg` (antitone), `max · 0`, `add`/`sub` with a fixed finite operand,
`div` by a fixed finite positive divisor, `sqrt` on non-negative values, `ofInt`. -/
namespace Arroy
namespace F32M
open SF F32L

/-! ### transitivity -/

theorem le_trans {a b c : Nat} (h1 : F32.le a b = true) (h2 : F32.le b c = true) : F32.le a c = true := by
  rw [le_iff_key] at *
  refine ⟨h1.1, h2.2.1, ?_⟩
  have := h1.2.2
  have := h2.2.2
  unfold SF.klt at *
  omega

theorem le_refl {a : Nat} (h : F32.isNaN a = false) : F32.le a a = true := by
  rw [le_iff_key]
  refine ⟨h, h, ?_⟩
  unfold SF.klt; omega

/-! ### `neg` -/

theorem unpack_neg (a : Nat) : unpack f32 (F32.neg a) = negV (unpack f32 a) := by
  unfold F32.neg SF.neg
  rw [fmt_width]
  by_cases h : (a / 2 ^ (32 - 1) % 2 == 1) = true
  · rw [if_pos h]
    have h' : a / 2 ^ (32 - 1) % 2 = 1 := by simpa using h
    have hge : 2 ^ 31 ≤ a := by omega
    have e : a = (a - 2 ^ (32 - 1)) + 2 ^ 31 := by omega
    have := unpack_add_sign (a - 2 ^ (32 - 1))
    rw [← e] at this
    rw [show unpack f32 a = unpack F32.fmt a from rfl, this, negV_negV]
  · rw [if_neg h]
    exact unpack_add_sign a

/-- **`neg` is antitone** -/
theorem neg_antitone {a b : Nat} (h : F32.le a b = true) : F32.le (F32.neg b) (F32.neg a) = true := by
  rw [le_iff_leV] at *
  rw [unpack_neg, unpack_neg]
  exact leV_negV h

/-! ### `max · 0` -/

/-- **`x.max(0.0)` is monotone** -/
theorem max_zero_mono {a b : Nat} (h : F32.le a b = true) :
    F32.le (F32.max a F32.zero) (F32.max b F32.zero) = true := by
  have hk := (le_iff_key a b).1 h
  obtain ⟨na, nb, hab⟩ := hk
  have n0 : isNaN f32 F32.zero = false := by decide
  have ea : isNaN F32.fmt a = false := na
  have eb : isNaN F32.fmt b = false := nb
  have e0 : isNaN F32.fmt F32.zero = false := n0
  unfold F32.max SF.max
  simp only [ea, eb, e0, Bool.false_eq_true, if_false]
  have la := lt_iff_of_notNaN f32 a F32.zero na n0
  have lb := lt_iff_of_notNaN f32 b F32.zero nb n0
  by_cases ha : lt F32.fmt a F32.zero = true
  · rw [if_pos ha]
    by_cases hb : lt F32.fmt b F32.zero = true
    · rw [if_pos hb]; exact le_refl n0
    · rw [if_neg hb]
      rw [le_iff_key]
      refine ⟨n0, nb, fun hh => hb (lb.2 hh)⟩
  · rw [if_neg ha]
    by_cases hb : lt F32.fmt b F32.zero = true
    · exfalso
      have h1 := lb.1 hb
      have h2 : ¬ SF.klt (SF.key f32 a) (SF.key f32 F32.zero) := fun hh => ha (la.2 hh)
      unfold SF.klt at *
      omega
    · rw [if_neg hb]; exact h

/-! ### signed rounding, `add` and `sub` -/

/-- the signed pattern of the rounded value `z·2^e` -/
def rs (e : Int) (z : Int) : Int := ext (fun a => RP a e false) z

theorem rs_mono (e : Int) {z1 z2 : Int} (h : z1 ≤ z2) : rs e z1 ≤ rs e z2 :=
  ext_mono _ (fun a b hab => RP_mono e a b false false (by simp; omega)) h

theorem sv_rs (E : Int) (S : Int) (P : Nat) (hP : 0 < P) :
    sv (decide (S < 0)) (RP (S.natAbs * P) E false) = rs E (S * (P : Int)) := by
  unfold rs ext sv
  have e1 : (S * (P : Int)).natAbs = S.natAbs * P := by rw [Int.natAbs_mul, Int.natAbs_natCast]
  have hP' : (0 : Int) < P := by omega
  rw [e1]
  by_cases h : S < 0
  · have : S * (P : Int) < 0 := Int.mul_neg_of_neg_of_pos h hP'
    simp only [h, this, decide_true, if_true]
  · have : ¬ (S * (P : Int) < 0) := by
      have : 0 ≤ S * (P : Int) := Int.mul_nonneg (by omega) (by omega)
      omega
    simp only [h, this, decide_false, Bool.false_eq_true, if_false]

theorem rs_zero (E : Int) : rs E 0 = 0 := by
  unfold rs ext; simp [RP_zero]

/-- the sum of two finite values, rounded, at any common exponent `E` -/
theorem addV_out (n1 : Bool) (m1 : Nat) (e1 : Int) (n2 : Bool) (m2 : Nat) (e2 : Int) (E : Int)
    (h1 : E ≤ e1) (h2 : E ≤ e2) :
    Out (addV f32 (.fin n1 m1 e1) (.fin n2 m2 e2))
      (rs E (V.mag E (.fin n1 m1 e1) + V.mag E (.fin n2 m2 e2))) := by
  have hadd : addV f32 (.fin n1 m1 e1) (.fin n2 m2 e2) =
      if ((exactAdd n1 m1 e1 n2 m2 e2).2.1 == 0) = true then packBits f32 (n1 && n2) 0 0
      else roundPack f32 (exactAdd n1 m1 e1 n2 m2 e2).1 (exactAdd n1 m1 e1 n2 m2 e2).2.1
        (exactAdd n1 m1 e1 n2 m2 e2).2.2 := rfl
  have hx : exactAdd n1 m1 e1 n2 m2 e2 =
      (decide (V.mag (Min.min e1 e2) (.fin n1 m1 e1) + V.mag (Min.min e1 e2) (.fin n2 m2 e2) < 0),
       (V.mag (Min.min e1 e2) (.fin n1 m1 e1) + V.mag (Min.min e1 e2) (.fin n2 m2 e2)).natAbs,
       Min.min e1 e2) := rfl
  have s1 := mag_scale E (Min.min e1 e2) n1 m1 e1 (by omega) (by omega)
  have s2 := mag_scale E (Min.min e1 e2) n2 m2 e2 (by omega) (by omega)
  rw [hadd, hx, s1, s2, ← Int.add_mul]
  generalize V.mag (Min.min e1 e2) (.fin n1 m1 e1) + V.mag (Min.min e1 e2) (.fin n2 m2 e2) = S
  simp only
  by_cases h0 : S.natAbs = 0
  · have : S = 0 := by omega
    subst this
    simp only [Int.natAbs_zero, beq_self_eq_true, if_true, Int.zero_mul, rs_zero]
    exact out_zero _
  · have hb : (S.natAbs == 0) = false := by simpa using h0
    simp only [hb, Bool.false_eq_true, if_false]
    have := out_roundPack (decide (S < 0)) S.natAbs (Min.min e1 e2) false
    rw [RP_scale' S.natAbs (Min.min e1 e2) E (by omega), sv_rs E S _ (Nat.two_pow_pos _)] at this
    exact this

/-- adding a fixed finite value is monotone, on unpacked operands -/
theorem addV_mono (nc : Bool) (mc : Nat) (ec : Int) {x y : V} (h : leV x y) :
    F32.le (addV f32 x (.fin nc mc ec)) (addV f32 y (.fin nc mc ec)) = true := by
  apply lift_mono (fun v => addV f32 v (.fin nc mc ec)) ec
    (fun E z => rs E (z + V.mag E (.fin nc mc ec))) _ _ _ h
  · intro a; rfl
  · intro n m e E h1 h2
    exact addV_out n m e nc mc ec E h1 h2
  · intro E z1 z2 hz
    exact rs_mono E (by omega)

theorem fin_of_isFin {c : Nat} (hc : isFin f32 c = true) : ∃ n m e, unpack f32 c = .fin n m e := by
  unfold isFin at hc
  cases h : unpack f32 c <;> simp [h] at hc
  exact ⟨_, _, _, rfl⟩

/-- **`· + c` is monotone** for a fixed finite `c` -/
theorem add_mono_left {a b : Nat} (c : Nat) (hc : isFin f32 c = true) (h : F32.le a b = true) :
    F32.le (F32.add a c) (F32.add b c) = true := by
  obtain ⟨nc, mc, ec, hu⟩ := fin_of_isFin hc
  rw [le_iff_leV] at h
  show F32.le (addV f32 (unpack f32 a) (unpack f32 c)) (addV f32 (unpack f32 b) (unpack f32 c)) = true
  rw [hu]
  exact addV_mono nc mc ec h

/-- **`c + ·` is monotone** for a fixed finite `c` -/
theorem add_mono_right {a b : Nat} (c : Nat) (hc : isFin f32 c = true) (h : F32.le a b = true) :
    F32.le (F32.add c a) (F32.add c b) = true := by
  have e1 : F32.add c a = F32.add a c := SF.add_comm _ _ _
  have e2 : F32.add c b = F32.add b c := SF.add_comm _ _ _
  rw [e1, e2]; exact add_mono_left c hc h

/-- **`· − c` is monotone** for a fixed finite `c` -/
theorem sub_mono_left {a b : Nat} (c : Nat) (hc : isFin f32 c = true) (h : F32.le a b = true) :
    F32.le (F32.sub a c) (F32.sub b c) = true := by
  obtain ⟨nc, mc, ec, hu⟩ := fin_of_isFin hc
  rw [le_iff_leV] at h
  show F32.le (addV f32 (unpack f32 a) (negV (unpack f32 c)))
    (addV f32 (unpack f32 b) (negV (unpack f32 c))) = true
  rw [hu]
  exact addV_mono (!nc) mc ec h

/-- **`c − ·` is antitone** for a fixed finite `c` -/
theorem sub_antitone {a b : Nat} (c : Nat) (hc : isFin f32 c = true) (h : F32.le a b = true) :
    F32.le (F32.sub c b) (F32.sub c a) = true := by
  obtain ⟨nc, mc, ec, hu⟩ := fin_of_isFin hc
  rw [le_iff_leV] at h
  show F32.le (addV f32 (unpack f32 c) (negV (unpack f32 b)))
    (addV f32 (unpack f32 c) (negV (unpack f32 a))) = true
  rw [hu, addV_comm, addV_comm f32 _ (negV (unpack f32 a))]
  exact addV_mono nc mc ec (leV_negV h)

/-! ### `ofInt` -/

theorem out_ofInt (i : Int) : Out (F32.ofInt i) (rs 0 i) := by
  unfold F32.ofInt rs ext
  have hN : ∀ n, SF.ofNat F32.fmt n = RP n 0 false := fun _ => rfl
  by_cases h : i < 0
  · rw [if_pos h, if_pos h, hN]
    have hle := RP_le_inf i.natAbs 0 false
    rw [neg_pos _ (by omega)]
    exact ⟨true, _, rfl, hle, rfl⟩
  · rw [if_neg h, if_neg h, hN]
    exact ⟨false, _, rfl, RP_le_inf _ _ _, rfl⟩

/-- **`i as f32` is monotone** -/
theorem ofInt_mono {i j : Int} (h : i ≤ j) : F32.le (F32.ofInt i) (F32.ofInt j) = true :=
  le_of_out (out_ofInt i) (out_ofInt j) (rs_mono 0 h)

/-! ### the rounding step itself, with signs -/

/-- signed key of the exact value `(-1)^neg·(m + st·ε)·2^e` at a fixed exponent -/
def skey (neg : Bool) (m : Nat) (st : Bool) : Int :=
  if neg then -((2 * m + st.toNat : Nat) : Int) else ((2 * m + st.toNat : Nat) : Int)

/-- **`SF.roundPack` is monotone in the exact value it rounds** (binary32, common exponent `e`; exact
values at different exponents are first brought to a common one by `RP_scale'` / `RP_coarsen`):
a larger signed key `±(2 m + sticky)` never gives a smaller result in the float order -/
theorem roundPack_mono (e : Int) (n1 n2 : Bool) (m1 m2 : Nat) (st1 st2 : Bool)
    (hk : skey n1 m1 st1 ≤ skey n2 m2 st2) :
    F32.le (roundPack f32 n1 m1 e st1) (roundPack f32 n2 m2 e st2) = true := by
  apply le_of_out (out_roundPack n1 m1 e st1) (out_roundPack n2 m2 e st2)
  unfold skey at hk
  cases n1 <;> cases n2 <;> simp only [sv, Bool.false_eq_true, if_false, if_true] at hk ⊢
  · have := RP_mono e m1 m2 st1 st2 (by omega); omega
  · have h1 : m1 = 0 := by omega
    have h2 : m2 = 0 := by omega
    subst h1; subst h2
    rw [RP_zero, RP_zero]; omega
  · omega
  · have := RP_mono e m2 m1 st2 st1 (by omega); omega

end F32M
end Arroy
