import ArroyProofs.F32StdModel
import ArroyProofs.KernelRoundChkKernels
/-! Decidable (kernel-evaluable) side conditions under which the binary32 operations satisfy the
standard model: the operands are finite and the exact result `±m·2^e` is zero or has its leading bit in
`[2^-126, 2^127)`. (Sufficient, not necessary: exact results in the top binade `[2^127, 2^128)` are
rejected although most of them are fine.) -/
namespace Arroy
namespace SFR
open SF KernelRound

/-- the exact value `m·2^e` is zero or in `[2^-126, 2^127)` -/
def inRange (m : Nat) (e : Int) : Bool :=
  m == 0 || (decide (-125 ≤ e + (bitLen m : Int)) && decide (e + (bitLen m : Int) ≤ 127))

/-- the checks: finite operands, exact result (formed as the operation forms it) in range -/
def f32Checks : Checks Nat where
  add := fun a b => match unpack f32 a, unpack f32 b with
    | .fin n1 m1 e1, .fin n2 m2 e2 =>
      inRange (exactAdd n1 m1 e1 n2 m2 e2).2.1 (exactAdd n1 m1 e1 n2 m2 e2).2.2
    | _, _ => false
  sub := fun a b => match unpack f32 a, unpack f32 b with
    | .fin n1 m1 e1, .fin n2 m2 e2 =>
      inRange (exactAdd n1 m1 e1 (!n2) m2 e2).2.1 (exactAdd n1 m1 e1 (!n2) m2 e2).2.2
    | _, _ => false
  mul := fun a b => match unpack f32 a, unpack f32 b with
    | .fin _ m1 e1, .fin _ m2 e2 => inRange (m1 * m2) (e1 + e2)
    | _, _ => false
  fma := fun a b c => match unpack f32 a, unpack f32 b, unpack f32 c with
    | .fin s m1 e1, .fin t m2 e2, .fin w m3 e3 =>
      inRange (exactAdd (s != t) (m1 * m2) (e1 + e2) w m3 e3).2.1
        (exactAdd (s != t) (m1 * m2) (e1 + e2) w m3 e3).2.2
    | _, _, _ => false

/-- the instrumented binary32 arithmetic (computable: flags can be evaluated by `decide`) -/
def f32Chk : Arith (Nat × Bool) := chkArith f32Arith f32Checks

theorem inRange_sound (n : Bool) (m : Nat) (e : Int) (h : inRange m e = true) :
    NormalOrZero (sgn n * (m : ℝ) * (2 : ℝ) ^ e) := by
  unfold inRange at h
  by_cases h0 : m = 0
  · left; subst h0; simp
  · right
    have hb : (m == 0) = false := by simpa using h0
    simp only [hb, Bool.false_or, Bool.and_eq_true, decide_eq_true_eq] at h
    obtain ⟨h1, h2⟩ := h
    have hm : 0 < m := Nat.pos_of_ne_zero h0
    obtain ⟨hn0, hn1, hn2⟩ := bitLen_bounds hm
    have hE := two_zpow_pos e
    have hm' : (0 : ℝ) < m := by exact_mod_cast hm
    rw [mul_assoc, normalRange_sgn]
    unfold NormalRange
    rw [abs_of_pos (mul_pos hm' hE)]
    have c1 : (m : ℝ) < (2 : ℝ) ^ (bitLen m) := by exact_mod_cast hn2
    have c2 : (2 : ℝ) ^ (bitLen m - 1) ≤ (m : ℝ) := by exact_mod_cast hn1
    constructor
    · have hle : (-126 : ℤ) ≤ e + ((bitLen m - 1 : ℕ) : ℤ) := by omega
      have a1 : (2 : ℝ) ^ (-126 : ℤ) ≤ (2 : ℝ) ^ (e + ((bitLen m - 1 : ℕ) : ℤ)) :=
        zpow_le_zpow_right₀ (by norm_num) hle
      rw [zpow_add_nat] at a1
      have a2 : (2 : ℝ) ^ (bitLen m - 1) * (2 : ℝ) ^ e ≤ (m : ℝ) * (2 : ℝ) ^ e :=
        mul_le_mul_of_nonneg_right c2 (le_of_lt hE)
      linarith
    · have a1 : (2 : ℝ) ^ (e + (bitLen m : ℤ)) ≤ (2 : ℝ) ^ (127 : ℤ) :=
        zpow_le_zpow_right₀ (by norm_num) h2
      rw [zpow_add_nat] at a1
      have a2 : (m : ℝ) * (2 : ℝ) ^ e < (2 : ℝ) ^ (bitLen m) * (2 : ℝ) ^ e :=
        mul_lt_mul_of_pos_right c1 hE
      have a3 : (2 : ℝ) ^ (127 : ℤ) ≤ (2 : ℝ) ^ (128 : ℤ) * (1 - (2 : ℝ) ^ (-25 : ℤ)) := by norm_num
      linarith

theorem chk_add_sound (a b : Nat) (h : f32Checks.add a b = true) :
    Finite a ∧ Finite b ∧ NormalOrZero (toReal a + toReal b) := by
  unfold f32Checks at h
  simp only at h
  cases hua : unpack f32 a with
  | nan => simp [hua] at h
  | inf s => simp [hua] at h
  | fin n1 m1 e1 =>
    cases hub : unpack f32 b with
    | nan => simp [hua, hub] at h
    | inf s => simp [hua, hub] at h
    | fin n2 m2 e2 =>
      simp only [hua, hub] at h
      refine ⟨finite_of_unpack hua, finite_of_unpack hub, ?_⟩
      rw [toReal_of_unpack hua, toReal_of_unpack hub, ← exactAdd_real]
      exact inRange_sound _ _ _ h

theorem chk_sub_sound (a b : Nat) (h : f32Checks.sub a b = true) :
    Finite a ∧ Finite b ∧ NormalOrZero (toReal a - toReal b) := by
  unfold f32Checks at h
  simp only at h
  cases hua : unpack f32 a with
  | nan => simp [hua] at h
  | inf s => simp [hua] at h
  | fin n1 m1 e1 =>
    cases hub : unpack f32 b with
    | nan => simp [hua, hub] at h
    | inf s => simp [hua, hub] at h
    | fin n2 m2 e2 =>
      simp only [hua, hub] at h
      refine ⟨finite_of_unpack hua, finite_of_unpack hub, ?_⟩
      have e : toReal a - toReal b
          = sgn n1 * (m1 : ℝ) * (2 : ℝ) ^ e1 + sgn (!n2) * (m2 : ℝ) * (2 : ℝ) ^ e2 := by
        rw [toReal_of_unpack hua, toReal_of_unpack hub, sgn_not]; ring
      rw [e, ← exactAdd_real]
      exact inRange_sound _ _ _ h

theorem chk_mul_sound (a b : Nat) (h : f32Checks.mul a b = true) :
    Finite a ∧ Finite b ∧ NormalOrZero (toReal a * toReal b) := by
  unfold f32Checks at h
  simp only at h
  cases hua : unpack f32 a with
  | nan => simp [hua] at h
  | inf s => simp [hua] at h
  | fin n1 m1 e1 =>
    cases hub : unpack f32 b with
    | nan => simp [hua, hub] at h
    | inf s => simp [hua, hub] at h
    | fin n2 m2 e2 =>
      simp only [hua, hub] at h
      refine ⟨finite_of_unpack hua, finite_of_unpack hub, ?_⟩
      have e : toReal a * toReal b
          = sgn (n1 != n2) * ((m1 * m2 : ℕ) : ℝ) * (2 : ℝ) ^ (e1 + e2) := by
        rw [toReal_of_unpack hua, toReal_of_unpack hub, sgn_bne, zpow_add₀ two_ne_zero]
        push_cast; ring
      rw [e]
      exact inRange_sound _ _ _ h

theorem chk_fma_sound (a b c : Nat) (h : f32Checks.fma a b c = true) :
    Finite a ∧ Finite b ∧ Finite c ∧ NormalOrZero (toReal a * toReal b + toReal c) := by
  unfold f32Checks at h
  simp only at h
  cases hua : unpack f32 a with
  | nan => simp [hua] at h
  | inf s => simp [hua] at h
  | fin n1 m1 e1 =>
    cases hub : unpack f32 b with
    | nan => simp [hua, hub] at h
    | inf s => simp [hua, hub] at h
    | fin n2 m2 e2 =>
      cases huc : unpack f32 c with
      | nan => simp [hua, hub, huc] at h
      | inf s => simp [hua, hub, huc] at h
      | fin n3 m3 e3 =>
        simp only [hua, hub, huc] at h
        refine ⟨finite_of_unpack hua, finite_of_unpack hub, finite_of_unpack huc, ?_⟩
        have e : toReal a * toReal b + toReal c
            = sgn (n1 != n2) * ((m1 * m2 : ℕ) : ℝ) * (2 : ℝ) ^ (e1 + e2)
              + sgn n3 * (m3 : ℝ) * (2 : ℝ) ^ e3 := by
          rw [toReal_of_unpack hua, toReal_of_unpack hub, toReal_of_unpack huc, sgn_bne,
            zpow_add₀ two_ne_zero]
          push_cast; ring
        rw [e, ← exactAdd_real]
        exact inRange_sound _ _ _ h

/-- **the binary32 arithmetic of the kernels satisfies the checked standard model** -/
theorem f32_chk_model : ChkModel f32Arith toReal f32Checks u :=
  ChkModel.of_on f32_std_model_on f32Checks chk_add_sound chk_sub_sound chk_mul_sound chk_fma_sound

/-- `abs` is exact on every checked difference -/
theorem f32_abs_chk (a b : Nat) (h : f32Checks.sub a b = true) :
    toReal (F32.abs (f32Arith.sub a b)) = |toReal (f32Arith.sub a b)| := by
  obtain ⟨fa, fb, hN⟩ := chk_sub_sound a b h
  exact (abs_real _ (sub_std a b fa fb hN).1).2

end SFR
end Arroy
