import ArroyProofs.F32SqrtSq
import ArroyProofs.SoftFloatSymm
import ArroyProofs.SoftFloatRange
/-! Helper lemmas for C12 (BQ-cosine range): the quotient of two normal values `a ≤ x` rounds to at
most `1.0`; negating the numerator only flips the sign; such quotients are numbers in `[-1, 1]`
(the hypotheses of `SF.one_sub_le`). -/
namespace Arroy
namespace F32L
open SF

/-- the quotient of two normal positive values `a ≤ x` (no underflow) rounds to at most `1.0` -/
theorem div_le_one_aux (ex : Nat) :
    ((ex : Int) - ex - 51 + ((28 : Nat) : Int) + 150).toNat * 2 ^ 23 + (2 ^ 23 - 2 ^ 23) ≤ 0x3f800000 := by
  omega

theorem div_le_one (a x : Nat) (hax : a ≤ x) (ha1 : 127 ≤ a / 2 ^ 23) (hx2 : x / 2 ^ 23 ≤ 189) :
    F32.div a x ≤ 0x3f800000 := by
  have hx : x < 0x7f800000 := by omega
  have ha : a < 0x7f800000 := by omega
  have hfa := Nat.mod_lt a (Nat.two_pow_pos 23)
  have hfx := Nat.mod_lt x (Nat.two_pow_pos 23)
  have hda := Nat.div_add_mod a (2 ^ 23)
  have hdx := Nat.div_add_mod x (2 ^ 23)
  have hq : a / 2 ^ 23 ≤ x / 2 ^ 23 := Nat.div_le_div_right hax
  unfold F32.div SF.div
  rw [unpack_normal a ha (by omega), unpack_normal x hx (by omega)]
  generalize hea : a / 2 ^ 23 = ea at *
  generalize hex : x / 2 ^ 23 = ex at *
  generalize hfa' : a % 2 ^ 23 = fa at *
  generalize hfx' : x % 2 ^ 23 = fx at *
  generalize hMa : fa + 2 ^ 23 = Ma at *
  generalize hM : fx + 2 ^ 23 = M at *
  have hL : bitLen M = 24 := bitLen_eq (by omega) (by omega) (by omega)
  have hM0 : (M == 0) = false := by
    have : M ≠ 0 := by omega
    simpa using this
  have hMa0 : (Ma == 0) = false := by
    have : Ma ≠ 0 := by omega
    simpa using this
  simp only [hM0, hMa0, Bool.false_eq_true, if_false, fmt_p, hL]
  have hs : (false != false) = false := by decide
  rw [hs]
  have hk : (24 + 3 + 24 : Nat) = 51 := rfl
  rw [hk]
  have hQ1 : 2 ^ 50 ≤ Ma * 2 ^ 51 / M := by
    rw [Nat.le_div_iff_mul_le (by omega)]; omega
  have hQ2 : Ma * 2 ^ 51 / M < 2 ^ 52 := by
    rw [Nat.div_lt_iff_lt_mul (by omega)]; omega
  have hdm := Nat.div_add_mod (Ma * 2 ^ 51) M
  have hrm := Nat.mod_lt (Ma * 2 ^ 51) (show 0 < M by omega)
  generalize hQ : Ma * 2 ^ 51 / M = Q at *
  generalize hR : Ma * 2 ^ 51 % M = R at *
  have he : ((ea : Int) - 150) - ((ex : Int) - 150) - ((51 : Nat) : Int) = (ea : Int) - ex - 51 := by omega
  rw [he]
  by_cases hQ51 : Q < 2 ^ 51
  · have hLQ : bitLen Q = 24 + 27 := bitLen_eq (by omega) (by omega) (by omega)
    obtain ⟨hz, h3, h4⟩ := roundPack_shift Q ((ea : Int) - ex - 51) (R != 0) 27 (by omega) hLQ (by omega) (by omega)
    rw [hz]
    have : ((ea : Int) - ex - 51 + ((27 : Nat) : Int) + 150).toNat ≤ 126 := by omega
    generalize ((ea : Int) - ex - 51 + ((27 : Nat) : Int) + 150).toNat = E1 at *
    omega
  · have hLQ : bitLen Q = 24 + 28 := bitLen_eq (by omega) (by omega) (by omega)
    obtain ⟨hz, h3, h4⟩ := roundPack_shift Q ((ea : Int) - ex - 51) (R != 0) 28 (by omega) hLQ (by omega) (by omega)
    rw [hz]
    by_cases hee : ea = ex
    · -- same exponent: Ma ≤ M, so Q = 2^51 forces Ma = M and the division is exact
      subst hee
      have hMaM : Ma ≤ M := by omega
      have hmul : M * Q ≤ M * 2 ^ 51 := by
        have : Ma * 2 ^ 51 ≤ M * 2 ^ 51 := Nat.mul_le_mul_right _ hMaM
        omega
      have hQle : Q ≤ 2 ^ 51 := Nat.le_of_mul_le_mul_left hmul (by omega)
      have hQeq : Q = 2 ^ 51 := by omega
      subst hQeq
      have hR0 : R = 0 := by
        have : Ma * 2 ^ 51 ≤ M * 2 ^ 51 := Nat.mul_le_mul_right _ hMaM
        have e : M * 2 ^ 51 = 2 ^ 51 * M := Nat.mul_comm _ _
        omega
      subst hR0
      have : rnd 28 ((0 : Nat) != 0) (2 ^ 51) = 2 ^ 23 := by decide +kernel
      rw [this]
      exact div_le_one_aux ea
    · have : ((ea : Int) - ex - 51 + ((28 : Nat) : Int) + 150).toNat ≤ 126 := by omega
      generalize ((ea : Int) - ex - 51 + ((28 : Nat) : Int) + 150).toNat = E1 at *
      omega

theorem signW_f32 : SF.signW F32.fmt = 2 ^ 31 := by decide

theorem unpack_add_sign (a : Nat) :
    SF.unpack F32.fmt (a + 2 ^ 31) = SF.negV (SF.unpack F32.fmt a) := by
  have h := SF.unpack_add_signW F32.fmt (Nat.le_of_ble_eq_true rfl) a
  rw [signW_f32] at h
  exact h

theorem neg_pos (a : Nat) (ha : a < 2 ^ 31) : SF.neg F32.fmt a = a + 2 ^ 31 := by
  unfold SF.neg
  rw [fmt_width]
  have : (a / 2 ^ (32 - 1) % 2 == 1) = false := by
    have : a / 2 ^ (32 - 1) % 2 = 0 := by omega
    simp [this]
  simp only [this, Bool.false_eq_true, if_false]

/-- dividing the negated numerator only flips the sign handed to `packBits` -/
theorem div_neg_shape (a x : Nat) (ha : a < 0x7f800000) (ha0 : a / 2 ^ 23 ≠ 0)
    (hx : x < 0x7f800000) (hx0 : x / 2 ^ 23 ≠ 0) :
    ∃ exf frac, F32.div a x = SF.packBits F32.fmt false exf frac
      ∧ F32.div (SF.neg F32.fmt a) x = SF.packBits F32.fmt true exf frac := by
  have hu : SF.unpack F32.fmt (SF.neg F32.fmt a) = SF.negV (SF.unpack F32.fmt a) := by
    rewrite [neg_pos a (by omega)]; exact unpack_add_sign a
  have hfa := Nat.mod_lt a (Nat.two_pow_pos 23)
  have hfx := Nat.mod_lt x (Nat.two_pow_pos 23)
  have ua := unpack_normal a ha ha0
  have ux := unpack_normal x hx hx0
  rewrite [ua] at hu
  generalize hMa : a % 2 ^ 23 + 2 ^ 23 = Ma at *
  generalize hM : x % 2 ^ 23 + 2 ^ 23 = M at *
  generalize ((a / 2 ^ 23 : Nat) : Int) - 150 = Ea at *
  generalize ((x / 2 ^ 23 : Nat) : Int) - 150 = E at *
  have hM0 : (M == 0) = false := by
    have : M ≠ 0 := by omega
    simpa using this
  have hMa0 : (Ma == 0) = false := by
    have : Ma ≠ 0 := by omega
    simpa using this
  obtain ⟨exf, frac, h⟩ := SF.roundPack_shape F32.fmt (Ma * 2 ^ (F32.fmt.p + 3 + bitLen M) / M)
    (Ea - E - ((F32.fmt.p + 3 + bitLen M : Nat) : Int))
    (Ma * 2 ^ (F32.fmt.p + 3 + bitLen M) % M != 0)
  refine ⟨exf, frac, ?_, ?_⟩
  · unfold F32.div SF.div
    rewrite [ua, ux]
    simp only [hM0, hMa0, Bool.false_eq_true, if_false]
    exact h _
  · unfold F32.div SF.div
    rewrite [hu, ux]
    simp only [SF.negV, hM0, hMa0, Bool.false_eq_true, if_false]
    exact h _

/-- a non-negative pattern not above `1.0` is a number in `[-1, 1]` -/
theorem range_of_le_one (c : Nat) (hc : c ≤ 0x3f800000) :
    SF.isNaN SF.f32 c = false ∧ SF.lt SF.f32 c F32.negOne = false ∧ SF.lt SF.f32 F32.one c = false := by
  refine ⟨isNaN_false_of_le (by omega), ?_, lt_false_of_bits_le (x := c) (y := F32.one) hc (by decide)⟩
  have hx' : ∃ mx ex, SF.unpack F32.fmt c = .fin false mx ex := by
    rw [unpack_pos c (by omega)]; by_cases hq : c / 2 ^ 23 = 0
    · rw [if_pos hq]; exact ⟨_, _, rfl⟩
    · rw [if_neg hq]; exact ⟨_, _, rfl⟩
  obtain ⟨m, e, hu⟩ := hx'
  unfold SF.lt
  rw [show SF.unpack SF.f32 c = .fin false m e from hu, SF.unpack_negOne]
  simp only [SF.ltV, SF.exactAdd, Bool.not_true, Bool.false_eq_true, if_false]
  generalize m * 2 ^ ((e - min e (-23)).toNat) = A
  generalize 8388608 * 2 ^ ((-23 - min e (-23)).toNat) = B
  have : ¬ ((A : Int) + (B : Int) < 0) := by omega
  simp [this]

/-- the negative of a pattern not above `1.0` is a number in `[-1, 1]` -/
theorem range_of_neg_le_one (c c' : Nat) (hc : c ≤ 0x3f800000)
    (hu : SF.unpack SF.f32 c' = SF.negV (SF.unpack SF.f32 c)) :
    SF.isNaN SF.f32 c' = false ∧ SF.lt SF.f32 c' F32.negOne = false
      ∧ SF.lt SF.f32 F32.one c' = false := by
  have hx' : ∃ mx ex, SF.unpack F32.fmt c = .fin false mx ex := by
    rw [unpack_pos c (by omega)]; by_cases hq : c / 2 ^ 23 = 0
    · rw [if_pos hq]; exact ⟨_, _, rfl⟩
    · rw [if_neg hq]; exact ⟨_, _, rfl⟩
  obtain ⟨m, e, hc'⟩ := hx'
  have hs := (scaled_le hc (by decide) m e 8388608 (-23) hc' SF.unpack_one).1
  rewrite [show SF.unpack SF.f32 c = .fin false m e from hc'] at hu
  unfold SF.isNaN SF.lt
  rw [hu, SF.unpack_negOne, SF.unpack_one]
  simp only [SF.negV, SF.ltV, SF.exactAdd, Bool.not_true, Bool.not_false, Bool.false_eq_true, if_false, if_true]
  rw [Int.min_comm (-23) e]
  generalize m * 2 ^ ((e - min e (-23)).toNat) = A at *
  generalize 8388608 * 2 ^ ((-23 - min e (-23)).toNat) = B at *
  have h1 : ¬ (-(A : Int) + (B : Int) < 0) := by omega
  have h2 : ¬ ((B : Int) + (A : Int) < 0) := by omega
  simp [h1, h2]

end F32L
end Arroy
