import ArroyProofs.BuildCore
import ArroyProofs.Properties.C10
import ArroyProofs.Properties.C15
/-! `IndexInv` and the item operations; `IndexInv` after a successful build. -/
namespace Arroy
open BuildM Generated IdSet Transp

theorem IndexInvW.rootsPresent {c : Cfg} {s : Store} (h : IndexInvW c s) (hi : c.index < 65536) : RootsPresent c s := by
  obtain ⟨_, hw, _, hb⟩ := h
  rcases hb with ⟨_, ht⟩ | ⟨name, dims, items, roots, hm, _, ⟨ts, f⟩, _⟩
  · intro hne
    exfalso
    apply hne
    cases hk : Store.keysOf s c.index modeTree with
    | nil => rfl
    | cons id rest =>
      have hmem : id ∈ Store.keysOf s c.index modeTree := by rw [hk]; simp
      rw [Store.mem_keysOf_iff hw _ _ _ hi (by decide)] at hmem
      have := ht id
      simp only [Cfg.treeKey, Key.mkTree] at this
      rw [this] at hmem
      simp at hmem
  · exact f.rootsPresent ⟨name, dims, items, hm⟩ hw hi

theorem Old.rootsPresent {c : Cfg} {s : Store} {roots items : List Nat} {ts : List T} (old : Old c s roots items ts)
    (hw : Store.WF s) (hi : c.index < 65536) : RootsPresent c s := by
  intro hne hr
  rw [old.roots_eq] at hr
  subst hr
  have hts : ts = [] := by
    have := old.forest.length; simpa using this
  subst hts
  apply hne
  cases hk : Store.keysOf s c.index modeTree with
  | nil => rfl
  | cons id rest =>
    have hmem : id ∈ Store.keysOf s c.index modeTree := by rw [hk]; simp
    rw [Store.mem_keysOf_iff hw _ _ _ hi (by decide)] at hmem
    have := (old.forest.cover id).1 hmem
    simp at this

/-- a mutation that keeps the tree nodes and the metadata of index `c`, and marks every id whose
    presence it changes, preserves the invariant -/
theorem IndexInv.mutate {c : Cfg} {s s' : Store} (hinv : IndexInv c s)
    (hs' : Store.Sorted s') (hw' : Store.WF s') (hl' : C05.ItemsAreLeaves c s')
    (htree : ∀ i, Store.get s' (c.treeKey i) = Store.get s (c.treeKey i))
    (hmeta : Store.get s' c.metaKey = Store.get s c.metaKey)
    (hmarks : ∀ id, (Store.get s' (c.updatedKey id)).isNone → (Store.get s (c.updatedKey id)).isNone ∧
      (Store.get s' (c.itemKey id)).isSome = (Store.get s (c.itemKey id)).isSome) : IndexInv c s' := by
  obtain ⟨⟨_, _, _, hb⟩, hrn⟩ := hinv
  refine ⟨⟨hs', hw', hl', ?_⟩, ?_⟩
  · rcases hb with ⟨hm, ht⟩ | ⟨name, dims, items, roots, hm, hsi, ⟨ts, f⟩, hmc⟩
    · exact Or.inl ⟨by rw [hmeta, hm], fun id => by rw [htree, ht]⟩
    · refine Or.inr ⟨name, dims, items, roots, by rw [hmeta, hm], hsi, ⟨ts, f.frame htree⟩, ?_⟩
      intro id hnone
      obtain ⟨h1, h2⟩ := hmarks id hnone
      rw [hmc id h1, h2]
  · intro name dims items roots hm
    rw [hmeta] at hm
    exact hrn name dims items roots hm

theorem Cfg.treeKey_ne_itemKey2 (c c' : Cfg) (i id : Nat) : c.treeKey i ≠ c'.itemKey id := by
  intro e
  have := congrArg Key.mode e
  simp [Cfg.itemKey, Cfg.treeKey, Key.mkItem, Key.mkTree, modeItem, modeTree] at this

theorem Cfg.treeKey_ne_updatedKey (c c' : Cfg) (i id : Nat) : c.treeKey i ≠ c'.updatedKey id := by
  intro e
  have := congrArg Key.mode e
  simp [Cfg.updatedKey, Cfg.treeKey, Key.mkUpdated, Key.mkTree, modeUpdated, modeTree] at this

theorem IndexInv_add {c c' : Cfg} {s s' : Store} {id : Nat} {vec : List Nat} (hinv : IndexInv c s)
    (hi' : c'.index < 65536) (hid : id < 4294967296)
    (h : Writer.addItem c' s id vec = .ok s') : IndexInv c s' := by
  have hg := Writer.get_addItem h
  apply hinv.mutate (Writer.addItem_sorted h hinv.1.1) (Writer.addItem_wf h hinv.1.2.1 hi' hid)
    (C05.C05_inv_add c' c s s' id vec h hinv.1.2.2.1)
  · intro i
    rw [hg, if_neg (c.treeKey_ne_updatedKey c' i id), if_neg (c.treeKey_ne_itemKey2 c' i id)]
  · rw [hg, if_neg (Cfg.metaKey_ne_updatedKey c' c id), if_neg (Cfg.metaKey_ne_itemKey c' c id)]
  · intro id' hnone
    rw [hg] at hnone
    by_cases he : c.updatedKey id' = c'.updatedKey id
    · rw [if_pos he] at hnone; simp at hnone
    · have h1 : c.updatedKey id' ≠ c'.itemKey id := fun e => Cfg.itemKey_ne_updatedKey c c' id' id e.symm
      have h2 : c.itemKey id' ≠ c'.updatedKey id := Cfg.itemKey_ne_updatedKey c' c id id'
      have h3 : c.itemKey id' ≠ c'.itemKey id := by
        intro e
        apply he
        rw [Cfg.itemKey_eq_iff] at e
        exact (Cfg.updatedKey_eq_iff c' c id id').2 e
      rw [if_neg he, if_neg h1] at hnone
      rw [hg (c.itemKey id'), if_neg h2, if_neg h3]
      exact ⟨hnone, rfl⟩

theorem IndexInv_append {c c' : Cfg} {s s' : Store} {id : Nat} {vec : List Nat} (hinv : IndexInv c s)
    (hi' : c'.index < 65536) (hid : id < 4294967296)
    (h : Writer.appendItem c' s id vec = .ok s') : IndexInv c s' :=
  IndexInv_add hinv hi' hid (Writer.appendItem_ok_eq_addItem hinv.1.1 h)

theorem IndexInv_del {c c' : Cfg} {s : Store} {id : Nat} (hinv : IndexInv c s)
    (hi' : c'.index < 65536) (hid : id < 4294967296) : IndexInv c (Writer.delItem c' s id).1 := by
  have hg := Writer.get_delItem c' s id
  apply hinv.mutate (Writer.delItem_sorted id hinv.1.1) (Writer.delItem_wf id hinv.1.2.1 hi' hid)
    (C05.C05_inv_del c' c s id hinv.1.2.2.1)
  · intro i
    rw [hg, if_neg (fun e => c.treeKey_ne_updatedKey c' i id e.1), if_neg (c.treeKey_ne_itemKey2 c' i id)]
  · rw [hg, if_neg (fun e => Cfg.metaKey_ne_updatedKey c' c id e.1), if_neg (Cfg.metaKey_ne_itemKey c' c id)]
  · intro id' hnone
    rw [hg] at hnone
    have h1 : c.updatedKey id' ≠ c'.itemKey id := fun e => Cfg.itemKey_ne_updatedKey c c' id' id e.symm
    have h2 : c.itemKey id' ≠ c'.updatedKey id := Cfg.itemKey_ne_updatedKey c' c id id'
    by_cases hp : (Store.get s (c'.itemKey id)).isSome = true
    · by_cases he : c.updatedKey id' = c'.updatedKey id
      · rw [if_pos ⟨he, hp⟩] at hnone; simp at hnone
      · have h3 : c.itemKey id' ≠ c'.itemKey id := by
          intro e
          apply he
          rw [Cfg.itemKey_eq_iff] at e
          exact (Cfg.updatedKey_eq_iff c' c id id').2 e
        rw [if_neg (fun e => he e.1), if_neg h1] at hnone
        rw [hg (c.itemKey id'), if_neg (fun e => h2 e.1), if_neg h3]
        exact ⟨hnone, rfl⟩
    · rw [if_neg (fun e => hp e.2), if_neg h1] at hnone
      refine ⟨hnone, ?_⟩
      rw [hg (c.itemKey id'), if_neg (fun e => h2 e.1)]
      by_cases h3 : c.itemKey id' = c'.itemKey id
      · rw [if_pos h3, h3]
        simp only [Bool.not_eq_true, Option.isSome_eq_false_iff, Option.isNone_iff_eq_none] at hp
        rw [hp]
      · rw [if_neg h3]

/-! ## `clear` -/

theorem get_clear_other' (c' : Cfg) (s : Store) (hw : Store.WF s) (hi' : c'.index < 65536) (k : Key)
    (h : k.index ≠ c'.index) : Store.get (Writer.clear c' s) k = Store.get s k := by
  by_cases hk : k.wf
  · exact Writer.get_clear_other c' s k hk hi' h
  · have h1 := Store.get_none_of_not_wf hw hk
    rw [h1]
    unfold Writer.clear Store.deletePrefix
    exact Store.get_filter_of_none _ _ _ h1

theorem IndexInv_clear {c c' : Cfg} {s : Store} (hinv : IndexInv c s) (hi' : c'.index < 65536) :
    IndexInv c (Writer.clear c' s) := by
  by_cases he : c.index = c'.index
  · refine ⟨⟨Writer.clear_sorted hinv.1.1, Writer.clear_wf hinv.1.2.1, C05.C05_inv_clear c' c s hinv.1.2.2.1,
      Or.inl ⟨Writer.get_clear_same c' s _ he, fun id => Writer.get_clear_same c' s _ he⟩⟩, ?_⟩
    intro name dims items roots hm
    rw [Writer.get_clear_same c' s _ he] at hm
    cases hm
  · have hg : ∀ k : Key, k.index = c.index → Store.get (Writer.clear c' s) k = Store.get s k :=
      fun k hk => get_clear_other' c' s hinv.1.2.1 hi' k (by rw [hk]; exact he)
    apply hinv.mutate (Writer.clear_sorted hinv.1.1) (Writer.clear_wf hinv.1.2.1) (C05.C05_inv_clear c' c s hinv.1.2.2.1)
    · intro i; exact hg _ rfl
    · exact hg _ rfl
    · intro id hnone
      rw [hg _ rfl] at hnone
      exact ⟨hnone, by rw [hg _ rfl]⟩

/-! ## the invariant only depends on the index number -/

theorem Forest.congr_index {c c' : Cfg} (h : c'.index = c.index) {s : Store} {roots items : List Nat} {ts : List T}
    (f : Forest c s roots items ts) : Forest c' s roots items ts := by
  have hk : ∀ i, c'.treeKey i = c.treeKey i := by intro i; simp [Cfg.treeKey, h]
  refine ⟨f.refs, ?_, f.ids_nodup, ?_, f.wf, f.items_nodup, f.reach⟩
  · intro t ht cell hc
    rw [hk]; exact f.holds t ht cell hc
  · intro id; rw [hk]; exact f.cover id

theorem IndexInv.congr_index {c c' : Cfg} (h : c'.index = c.index) {s : Store} (hinv : IndexInv c s) :
    IndexInv c' s := by
  have hk : ∀ i, c'.treeKey i = c.treeKey i := by intro i; simp [Cfg.treeKey, h]
  have hm : c'.metaKey = c.metaKey := by simp [Cfg.metaKey, h]
  have hu : ∀ i, c'.updatedKey i = c.updatedKey i := by intro i; simp [Cfg.updatedKey, h]
  have hit : ∀ i, c'.itemKey i = c.itemKey i := by intro i; simp [Cfg.itemKey, h]
  obtain ⟨⟨hs, hw, hl, hb⟩, hrn⟩ := hinv
  refine ⟨⟨hs, hw, ?_, ?_⟩, ?_⟩
  · intro kv hkv hi hmode
    exact hl kv hkv (by rw [hi, h]) hmode
  · rcases hb with ⟨h1, h2⟩ | ⟨name, dims, items, roots, h1, h2, ⟨ts, f⟩, h4⟩
    · exact Or.inl ⟨by rw [hm]; exact h1, fun id => by rw [hk]; exact h2 id⟩
    · refine Or.inr ⟨name, dims, items, roots, by rw [hm]; exact h1, h2, ⟨ts, f.congr_index h⟩, ?_⟩
      intro id
      rw [hu, hit]
      exact h4 id
  · intro name dims items roots hmeta
    rw [hm] at hmeta
    exact hrn name dims items roots hmeta

/-! ## after a successful build -/

theorem BuildOut.invW {c : Cfg} {o : BuildOpts} {s s' : Store} {roots0 roots' : List Nat} {ts0 ts' : List T}
    (b : BuildOut c o s s' roots0 ts0 roots' ts') (hs : Store.Sorted s) (hw : Store.WF s)
    (hl : C05.ItemsAreLeaves c s) (hi : c.index < 65536) : IndexInvW c s' := by
  refine ⟨b.step.sorted hs, b.step.wf hw, b.step.leaves hl, Or.inr ⟨_, _, _, _, b.metadata,
    Store.keysOf_sorted hs hw _ _ hi (by decide), ⟨ts', b.forest⟩, ?_⟩⟩
  intro id _
  rw [Store.mem_keysOf_iff hw _ _ _ hi (by decide), b.present id]
  rfl

theorem BuildOut.rootsNonempty {c : Cfg} {o : BuildOpts} {s s' : Store} {roots0 roots' : List Nat} {ts0 ts' : List T}
    (b : BuildOut c o s s' roots0 ts0 roots' ts') (hn : o.nTrees ≠ some 0) :
    s.keysOf c.index modeItem ≠ [] → roots' ≠ [] := by
  intro hne
  cases hf : fits (Build.cap c o) (s.keysOf c.index modeItem).length
  · have hlen := b.count hf
    have h1 : 1 ≤ Build.targetNTrees o c.dims (s.keysOf c.index modeItem).length roots0.length := by
      cases hnt : o.nTrees with
      | none => exact C15.C15_auto o _ _ _ hnt
      | some n =>
        rw [C15.C15_requested o n _ _ _ hnt]
        have : n ≠ 0 := fun e => hn (by rw [hnt, e])
        omega
    intro e
    rw [e] at hlen
    simp at hlen
    omega
  · rw [(b.single hf).1]
    have : (s.keysOf c.index modeItem).isEmpty = false := by
      cases hk : s.keysOf c.index modeItem with
      | nil => exact absurd hk hne
      | cons a l => rfl
    simp [this]

theorem BuildOut.inv {c : Cfg} {o : BuildOpts} {s s' : Store} {roots0 roots' : List Nat} {ts0 ts' : List T}
    (b : BuildOut c o s s' roots0 ts0 roots' ts') (hs : Store.Sorted s) (hw : Store.WF s)
    (hl : C05.ItemsAreLeaves c s) (hi : c.index < 65536) (hn : o.nTrees ≠ some 0) : IndexInv c s' := by
  refine ⟨b.invW hs hw hl hi, ?_⟩
  intro name dims items roots hm
  rw [b.metadata] at hm
  simp only [Option.some.injEq, Val.metadata.injEq] at hm
  obtain ⟨_, _, rfl, rfl⟩ := hm
  exact b.rootsNonempty hn

/-- a build of index `c` keeps the invariant of every other index -/
theorem BuildOut.inv_other {c c' : Cfg} {o : BuildOpts} {s s' : Store} {roots0 roots' : List Nat} {ts0 ts' : List T}
    (b : BuildOut c o s s' roots0 ts0 roots' ts') (hne : c'.index ≠ c.index) (hinv : IndexInv c' s) :
    IndexInv c' s' := by
  have hs' := b.step.sorted hinv.1.1
  apply hinv.mutate hs' (b.step.wf hinv.1.2.1)
  · intro kv hkv hi hm
    have hg : Store.get s' kv.1 = some kv.2 := (Store.get_eq_some_iff hs' _ _).2 hkv
    rw [b.other kv.1 (by rw [hi]; exact hne)] at hg
    exact hinv.1.2.2.1 kv (Store.mem_of_get hg) hi hm
  · intro i; exact b.other _ hne
  · exact b.other _ hne
  · intro id hnone
    rw [b.other _ hne] at hnone
    exact ⟨hnone, by rw [b.other (c'.itemKey id) hne]⟩

end Arroy
