import ArroyProofs.InsT
import ArroyModel.Build
/-! Specification of `makeT` (the tree-level mirror of `make_tree_in_file`). -/
namespace Arroy
open IdSet Generated

namespace T
/-- the cells in the order `make_tree_in_file` writes them: children first -/
def cellsPost : T → List (Nat × Val)
  | leaf _ => []
  | bucket id s => [(id, .desc s)]
  | node id n l r => l.cellsPost ++ r.cellsPost ++ [(id, .split l.ref r.ref n)]

/-- tree-node ids in post-order -/
def idsPost : T → List Nat
  | leaf _ => []
  | bucket id _ => [id]
  | node id _ l r => l.idsPost ++ r.idsPost ++ [id]

/-- number of split nodes -/
def splits : T → Nat
  | leaf _ => 0
  | bucket _ _ => 0
  | node _ _ l r => 1 + l.splits + r.splits

theorem cellsPost_ids (t : T) : t.cellsPost.map (·.1) = t.idsPost := by
  induction t with
  | leaf i => rfl
  | bucket id s => rfl
  | node id n l r ihl ihr => simp [cellsPost, idsPost, ihl, ihr]

theorem cellsPost_perm (t : T) : t.cellsPost.Perm t.cells := by
  induction t with
  | leaf i => exact List.Perm.refl _
  | bucket id s => exact List.Perm.refl _
  | node id n l r ihl ihr =>
    simp only [cellsPost, cells]
    exact (List.perm_append_singleton _ _).trans (List.Perm.cons _ (List.Perm.append ihl ihr))

theorem idsPost_perm (t : T) : t.idsPost.Perm t.ids := by
  induction t with
  | leaf i => exact List.Perm.refl _
  | bucket id s => exact List.Perm.refl _
  | node id n l r ihl ihr =>
    simp only [idsPost, ids]
    exact (List.perm_append_singleton _ _).trans (List.Perm.cons _ (List.Perm.append ihl ihr))
end T

/-! ## the attempt loop -/

theorem chooseSplit_spec {cx : TreeCtx} {items : List Nat} {attempts : Nat} {normals : List (List Nat)}
    {rs : List Bool} {polls : Nat} {n l r : List Nat} {normals' : List (List Nat)} {rs' : List Bool} {k : Nat}
    (h : chooseSplit cx items attempts normals rs polls = .ok (n, l, r, normals', rs', k)) :
    (∃ rs0, sideSplit cx n items rs0 = .ok (l, r, rs')) ∧ polls + 1 ≤ k ∧ k ≤ polls + attempts + 1 := by
  induction attempts generalizing normals rs polls with
  | zero =>
    unfold chooseSplit at h
    split at h
    · cases h
    · split at h
      · cases h
      · rename_i hs
        split at h
        · cases h; exact ⟨⟨_, hs⟩, by omega, by omega⟩
        · cases h; exact ⟨⟨_, hs⟩, by omega, by omega⟩
  | succ a ih =>
    unfold chooseSplit at h
    split at h
    · cases h
    · split at h
      · cases h
      · rename_i hs
        split at h
        · cases h; exact ⟨⟨_, hs⟩, by omega, by omega⟩
        · obtain ⟨h1, h2, h3⟩ := ih h
          exact ⟨h1, by omega, by omega⟩

/-- how `make_tree_in_file` ends up splitting `items` under normal `n`: by `D::side` against `n`
    (random for undecided items), or, for a too unbalanced split, at random under a zero normal -/
def MakeSplit (cx : TreeCtx) (items n l r : List Nat) : Prop :=
  (∃ rs0 rs1, sideSplit cx n items rs0 = .ok (l, r, rs1)) ∨
  (∃ m rs1 rs2, n = List.replicate m 0 ∧ randomSplit items rs1 = some (l, r, rs2))

theorem MakeSplit.partition {cx : TreeCtx} {items n l r : List Nat} (h : MakeSplit cx items n l r) :
    Partition items l r := by
  rcases h with ⟨rs0, rs1, h⟩ | ⟨m, rs1, rs2, _, h⟩
  · obtain ⟨a, b, c, _⟩ := sideSplit_spec h; exact ⟨a, b, c⟩
  · obtain ⟨a, b, c⟩ := randomSplit_spec h; exact ⟨a, b, c⟩

theorem MakeSplit.routed {cx : TreeCtx} {items n l r : List Nat} (h : MakeSplit cx items n l r)
    (hzero : ∀ m, cx.isZero (List.replicate m 0) = true) (hz : cx.isZero n = false) :
    (∀ x ∈ l, cx.side n x ≠ some (some true)) ∧ (∀ x ∈ r, cx.side n x ≠ some (some false)) := by
  rcases h with ⟨rs0, rs1, h⟩ | ⟨m, rs1, rs2, rfl, h⟩
  · obtain ⟨_, _, _, d⟩ := sideSplit_spec h; exact d
  · rw [hzero m] at hz; cases hz

/-! ## inversion -/

theorem makeT_zero {cx : TreeCtx} {items : List Nat} {g : IdGen} {normals : List (List Nat)} {rs : List Bool}
    {res : MakeRes} (h : makeT cx 0 items g normals rs = .ok res) : False := by
  simp [makeT] at h

theorem makeT_succ_ok {cx : TreeCtx} {fuel : Nat} {items : List Nat} {g : IdGen} {normals : List (List Nat)}
    {rs : List Bool} {res : MakeRes} (h : makeT cx (fuel + 1) items g normals rs = .ok res) :
    (∃ x, items = [x] ∧ res = ⟨.leaf x, [], g, normals, rs, 1, 0⟩) ∨
    (items.length ≠ 1 ∧ fits cx.cap items.length = true ∧ ∃ id g', g.next = .ok (id, g') ∧
      res = ⟨.bucket id items, [(id, .desc items)], g', normals, rs, 1, 1⟩) ∨
    (items.length ≠ 1 ∧ fits cx.cap items.length = false ∧
      ∃ n l r normals1 rs2 k a b id g', MakeSplit cx items n l r ∧ 1 ≤ k ∧ k ≤ splitAttempts + 1 ∧
        makeT cx fuel l g normals1 rs2 = .ok a ∧ makeT cx fuel r a.gen a.normals a.rands = .ok b ∧
        b.gen.next = .ok (id, g') ∧
        res = ⟨.node id n a.tree b.tree, a.puts ++ b.puts ++ [(id, .split a.tree.ref b.tree.ref n)],
               g', b.normals, b.rands, 1 + k + a.polls + b.polls, a.nNew + b.nNew + 1⟩) := by
  simp only [makeT] at h
  split at h
  · cases h; exact Or.inl ⟨_, rfl, rfl⟩
  · rename_i hne
    have hlen : items.length ≠ 1 := by
      intro hl
      match items, hl with
      | [x], _ => exact hne x rfl
    right
    split at h
    · rename_i hfits
      left
      refine ⟨hlen, hfits, ?_⟩
      split at h
      · cases h
      · rename_i id g' hn
        cases h
        exact ⟨id, g', hn, rfl⟩
    · rename_i hfits
      right
      refine ⟨hlen, by simpa using hfits, ?_⟩
      split at h
      · cases h
      · rename_i n l r normals1 rs1 k hcs
        obtain ⟨⟨rs0, hss⟩, hk1, hk2⟩ := chooseSplit_spec hcs
        split at h
        · cases h
        · rename_i n' l' r' rs2 hdec
          have hms : MakeSplit cx items n' l' r' := by
            split at hdec
            · split at hdec
              · rename_i l'' r'' rs2' hrs
                cases hdec
                exact Or.inr ⟨_, _, _, rfl, hrs⟩
              · cases hdec
            · cases hdec
              exact Or.inl ⟨_, _, hss⟩
          split at h
          · cases h
          · rename_i a ha
            split at h
            · cases h
            · rename_i b hb
              split at h
              · cases h
              · rename_i id g' hn
                cases h
                exact ⟨n', l', r', normals1, rs2, k, a, b, id, g', hms, by omega, by omega, ha, hb, hn, rfl⟩

/-! ## items -/

/-- `makeT_items` -/
theorem makeT_items (cx : TreeCtx) (fuel : Nat) (items : List Nat) (g : IdGen) (normals : List (List Nat))
    (rs : List Bool) (res : MakeRes) (h : makeT cx fuel items g normals rs = .ok res) :
    res.tree.items.Perm items ∧ (Sorted items → WF res.tree) := by
  induction fuel generalizing items g normals rs res with
  | zero => exact (makeT_zero h).elim
  | succ fuel ih =>
    rcases makeT_succ_ok h with ⟨x, rfl, rfl⟩ | ⟨_, _, id, g', _, rfl⟩ |
      ⟨_, _, n, l, r, normals1, rs2, k, a, b, id, g', hms, _, _, ha, hb, _, rfl⟩
    · exact ⟨List.Perm.refl _, fun _ => trivial⟩
    · exact ⟨List.Perm.refl _, fun hs => hs⟩
    · have P := hms.partition
      obtain ⟨A1, A2⟩ := ih _ _ _ _ _ ha
      obtain ⟨B1, B2⟩ := ih _ _ _ _ _ hb
      exact ⟨(List.Perm.append A1 B1).trans P.perm, fun hs => ⟨A2 (P.sortedl hs), B2 (P.sortedr hs)⟩⟩

theorem makeT_mem_items (cx : TreeCtx) (fuel : Nat) (items : List Nat) (g : IdGen) (normals : List (List Nat))
    (rs : List Bool) (res : MakeRes) (h : makeT cx fuel items g normals rs = .ok res) (x : Nat) :
    x ∈ res.tree.items ↔ x ∈ items := (makeT_items cx fuel items g normals rs res h).1.mem_iff

theorem makeT_items_nodup (cx : TreeCtx) (fuel : Nat) (items : List Nat) (g : IdGen) (normals : List (List Nat))
    (rs : List Bool) (res : MakeRes) (h : makeT cx fuel items g normals rs = .ok res) (hs : Sorted items) :
    res.tree.items.Nodup := ((makeT_items cx fuel items g normals rs res h).1.nodup_iff).2 hs.nodup

/-! ## ids -/

/-- `makeT_ids`: all node ids are fresh and pairwise distinct -/
theorem makeT_ids (cx : TreeCtx) (fuel : Nat) (items : List Nat) (g : IdGen) (normals : List (List Nat))
    (rs : List Bool) (res : MakeRes) (inUse : List Nat) (h : makeT cx fuel items g normals rs = .ok res)
    (hg : FreshGen inUse g) :
    res.tree.ids.Nodup ∧ (∀ i ∈ res.tree.ids, i ∉ inUse) ∧ FreshGen (res.tree.ids ++ inUse) res.gen := by
  induction fuel generalizing items g normals rs res inUse with
  | zero => exact (makeT_zero h).elim
  | succ fuel ih =>
    rcases makeT_succ_ok h with ⟨x, rfl, rfl⟩ | ⟨_, _, id, g', hn, rfl⟩ |
      ⟨_, _, n, l, r, normals1, rs2, k, a, b, id, g', _, _, _, ha, hb, hn, rfl⟩
    · exact ⟨by simp [T.ids], by simp [T.ids], by simpa [T.ids] using hg⟩
    · obtain ⟨hf, hg'⟩ := hg.step hn
      exact ⟨by simp [T.ids], by simpa [T.ids] using hf, by simpa [T.ids] using hg'⟩
    · obtain ⟨A1, A2, A3⟩ := ih _ _ _ _ _ inUse ha hg
      obtain ⟨B1, B2, B3⟩ := ih _ _ _ _ _ (a.tree.ids ++ inUse) hb A3
      obtain ⟨hf, hg'⟩ := B3.step hn
      simp only [List.mem_append, not_or] at hf B2
      refine ⟨?_, ?_, ?_⟩
      · simp only [T.ids, List.nodup_cons, List.mem_append, List.nodup_append, not_or]
        refine ⟨⟨hf.2.1, hf.1⟩, A1, B1, ?_⟩
        intro x hxa y hyb hxy
        subst hxy
        exact (B2 x hyb).1 hxa
      · intro i hi
        simp only [T.ids, List.mem_cons, List.mem_append] at hi
        rcases hi with rfl | hi | hi
        · exact hf.2.2
        · exact A2 i hi
        · exact (B2 i hi).2
      · refine hg'.mono ?_
        intro i hi
        simp only [T.ids, List.mem_cons, List.mem_append] at hi ⊢
        rcases hi with (rfl | hi | hi) | hi
        · exact Or.inl rfl
        · exact Or.inr (Or.inr (Or.inl hi))
        · exact Or.inr (Or.inl hi)
        · exact Or.inr (Or.inr (Or.inr hi))

/-- `makeT_puts`: the puts are exactly the cells of the tree, children before parents, each once -/
theorem makeT_puts (cx : TreeCtx) (fuel : Nat) (items : List Nat) (g : IdGen) (normals : List (List Nat))
    (rs : List Bool) (res : MakeRes) (h : makeT cx fuel items g normals rs = .ok res) :
    res.puts = res.tree.cellsPost := by
  induction fuel generalizing items g normals rs res with
  | zero => exact (makeT_zero h).elim
  | succ fuel ih =>
    rcases makeT_succ_ok h with ⟨x, rfl, rfl⟩ | ⟨_, _, id, g', hn, rfl⟩ |
      ⟨_, _, n, l, r, normals1, rs2, k, a, b, id, g', _, _, _, ha, hb, hn, rfl⟩
    · rfl
    · rfl
    · simp only [T.cellsPost, ih _ _ _ _ _ ha, ih _ _ _ _ _ hb]

theorem makeT_puts_ids (cx : TreeCtx) (fuel : Nat) (items : List Nat) (g : IdGen) (normals : List (List Nat))
    (rs : List Bool) (res : MakeRes) (h : makeT cx fuel items g normals rs = .ok res) :
    res.puts.map (·.1) = res.tree.idsPost := by
  rw [makeT_puts cx fuel items g normals rs res h, T.cellsPost_ids]

/-- each id is put exactly once -/
theorem makeT_puts_nodup (cx : TreeCtx) (fuel : Nat) (items : List Nat) (g : IdGen) (normals : List (List Nat))
    (rs : List Bool) (res : MakeRes) (inUse : List Nat) (h : makeT cx fuel items g normals rs = .ok res)
    (hg : FreshGen inUse g) : (res.puts.map (·.1)).Nodup := by
  rw [makeT_puts_ids cx fuel items g normals rs res h]
  exact (res.tree.idsPost_perm.nodup_iff).2 (makeT_ids cx fuel items g normals rs res inUse h hg).1

/-- `makeT_adequate`: whatever the store, the staged puts are adequate for the new tree -/
theorem makeT_adequate (c : Cfg) (s : Store) (cx : TreeCtx) (fuel : Nat) (items : List Nat) (g : IdGen)
    (normals : List (List Nat)) (rs : List Bool) (res : MakeRes) (inUse : List Nat)
    (h : makeT cx fuel items g normals rs = .ok res) (hg : FreshGen inUse g) :
    Adequate c [] res.puts s res.tree := by
  have hp := makeT_puts cx fuel items g normals rs res h
  refine adequate_of_cells (makeT_ids cx fuel items g normals rs res inUse h hg).1 ?_ ?_
  · intro p hpm
    rw [hp] at hpm
    exact (res.tree.cellsPost_perm.mem_iff).1 hpm
  · intro cell hc hnp
    exfalso
    apply hnp
    rw [hp]
    exact List.mem_map_of_mem ((res.tree.cellsPost_perm.mem_iff).2 hc)

/-! ## shape, capacity, counters -/

/-- `makeT_capacity`: every bucket made fits -/
theorem makeT_capacity (cx : TreeCtx) (fuel : Nat) (items : List Nat) (g : IdGen) (normals : List (List Nat))
    (rs : List Bool) (res : MakeRes) (h : makeT cx fuel items g normals rs = .ok res) :
    ∀ b ∈ res.tree.buckets, b.2.length ≤ cx.cap := by
  induction fuel generalizing items g normals rs res with
  | zero => exact (makeT_zero h).elim
  | succ fuel ih =>
    rcases makeT_succ_ok h with ⟨x, rfl, rfl⟩ | ⟨_, hf, id, g', hn, rfl⟩ |
      ⟨_, _, n, l, r, normals1, rs2, k, a, b, id, g', _, _, _, ha, hb, hn, rfl⟩
    · simp [T.buckets]
    · simp only [T.buckets, List.mem_singleton]
      rintro _ rfl
      simpa [fits] using hf
    · simp only [T.buckets, List.mem_append]
      rintro p (hp | hp)
      · exact ih _ _ _ _ _ ha p hp
      · exact ih _ _ _ _ _ hb p hp

/-- `makeT_shape` -/
theorem makeT_shape (cx : TreeCtx) (fuel : Nat) (items : List Nat) (g : IdGen) (normals : List (List Nat))
    (rs : List Bool) (res : MakeRes) (h : makeT cx fuel items g normals rs = .ok res) :
    (∀ x, items = [x] → res.tree = .leaf x) ∧
    (items.length ≠ 1 → fits cx.cap items.length = true → ∃ id, res.tree = .bucket id items) ∧
    (items.length ≠ 1 → fits cx.cap items.length = false → ∃ id n l r, res.tree = .node id n l r) := by
  cases fuel with
  | zero => exact (makeT_zero h).elim
  | succ fuel =>
    rcases makeT_succ_ok h with ⟨x, rfl, rfl⟩ | ⟨hl, hf, id, g', hn, rfl⟩ |
      ⟨hl, hf, n, l, r, normals1, rs2, k, a, b, id, g', _, _, _, ha, hb, hn, rfl⟩
    · refine ⟨?_, fun hne => absurd rfl hne, fun hne => absurd rfl hne⟩
      intro y hy; cases hy; rfl
    · refine ⟨?_, fun _ _ => ⟨id, rfl⟩, fun _ hf' => ?_⟩
      · rintro x rfl; exact absurd rfl hl
      · rw [hf] at hf'; cases hf'
    · refine ⟨?_, fun _ hf' => ?_, fun _ _ => ⟨_, _, _, _, rfl⟩⟩
      · rintro x rfl; exact absurd rfl hl
      · rw [hf] at hf'; cases hf'

/-- with a capacity of at least one: more items than the capacity give a split node -/
theorem makeT_shape_node (cx : TreeCtx) (fuel : Nat) (items : List Nat) (g : IdGen) (normals : List (List Nat))
    (rs : List Bool) (res : MakeRes) (h : makeT cx fuel items g normals rs = .ok res)
    (hcap : 1 ≤ cx.cap) (hlen : cx.cap < items.length) : ∃ id n l r, res.tree = .node id n l r :=
  (makeT_shape cx fuel items g normals rs res h).2.2 (by omega) (by simp [fits]; omega)

/-- `makeT_nNew`: the counter of new nodes is the number of tree nodes made -/
theorem makeT_nNew (cx : TreeCtx) (fuel : Nat) (items : List Nat) (g : IdGen) (normals : List (List Nat))
    (rs : List Bool) (res : MakeRes) (h : makeT cx fuel items g normals rs = .ok res) :
    res.nNew = res.tree.ids.length := by
  induction fuel generalizing items g normals rs res with
  | zero => exact (makeT_zero h).elim
  | succ fuel ih =>
    rcases makeT_succ_ok h with ⟨x, rfl, rfl⟩ | ⟨_, _, id, g', hn, rfl⟩ |
      ⟨_, _, n, l, r, normals1, rs2, k, a, b, id, g', _, _, _, ha, hb, hn, rfl⟩
    · rfl
    · rfl
    · simp only [T.ids, List.length_cons, List.length_append, ih _ _ _ _ _ ha, ih _ _ _ _ _ hb]

/-- `makeT_polls`: one poll per call plus one per attempted normal: between 1 and `splitAttempts + 1`
    for each split node -/
theorem makeT_polls (cx : TreeCtx) (fuel : Nat) (items : List Nat) (g : IdGen) (normals : List (List Nat))
    (rs : List Bool) (res : MakeRes) (h : makeT cx fuel items g normals rs = .ok res) :
    res.tree.size + res.tree.splits ≤ res.polls ∧
    res.polls ≤ res.tree.size + (splitAttempts + 1) * res.tree.splits := by
  induction fuel generalizing items g normals rs res with
  | zero => exact (makeT_zero h).elim
  | succ fuel ih =>
    rcases makeT_succ_ok h with ⟨x, rfl, rfl⟩ | ⟨_, _, id, g', hn, rfl⟩ |
      ⟨_, _, n, l, r, normals1, rs2, k, a, b, id, g', _, hk1, hk2, ha, hb, hn, rfl⟩
    · simp [T.size, T.splits]
    · simp [T.size, T.splits]
    · obtain ⟨A1, A2⟩ := ih _ _ _ _ _ ha
      obtain ⟨B1, B2⟩ := ih _ _ _ _ _ hb
      simp only [T.size, T.splits, Nat.mul_add, Nat.mul_one] at A1 A2 B1 B2 ⊢
      omega

theorem makeT_polls_pos (cx : TreeCtx) (fuel : Nat) (items : List Nat) (g : IdGen) (normals : List (List Nat))
    (rs : List Bool) (res : MakeRes) (h : makeT cx fuel items g normals rs = .ok res) : 1 ≤ res.polls := by
  have h1 := (makeT_polls cx fuel items g normals rs res h).1
  have : 1 ≤ res.tree.size := by cases res.tree <;> simp [T.size] <;> omega
  omega

/-! ## routing -/

/-- `makeT_routed`: a new tree routes every item with a decisive margin to the side of its margin
    (the random re-split is stored under an all-zero normal, which `isZero` must recognise) -/
theorem makeT_routed (cx : TreeCtx) (fuel : Nat) (items : List Nat) (g : IdGen) (normals : List (List Nat))
    (rs : List Bool) (res : MakeRes) (h : makeT cx fuel items g normals rs = .ok res)
    (hzero : ∀ m, cx.isZero (List.replicate m 0) = true) : RoutedT cx res.tree := by
  induction fuel generalizing items g normals rs res with
  | zero => exact (makeT_zero h).elim
  | succ fuel ih =>
    rcases makeT_succ_ok h with ⟨x, rfl, rfl⟩ | ⟨_, _, id, g', hn, rfl⟩ |
      ⟨_, _, n, l, r, normals1, rs2, k, a, b, id, g', hms, _, _, ha, hb, hn, rfl⟩
    · trivial
    · trivial
    · refine ⟨fun hz => ?_, ih _ _ _ _ _ ha, ih _ _ _ _ _ hb⟩
      obtain ⟨s1, s2⟩ := hms.routed hzero hz
      exact ⟨fun x hx => s1 x ((makeT_mem_items _ _ _ _ _ _ _ ha x).1 hx),
             fun x hx => s2 x ((makeT_mem_items _ _ _ _ _ _ _ hb x).1 hx)⟩

/-! ## the real `isZero` recognises the all-zero normal of a random re-split -/

theorem Metric.isZero_replicate_zero (m : Metric) (k : Nat) : m.isZero (List.replicate k 0) = true := by
  have h : F32.eq 0 F32.zero = true := by decide +kernel
  unfold Metric.isZero
  split <;> simp [h]

theorem treeCtx_isZero_replicate_zero (c : Cfg) (o : BuildOpts) (s : Store) (k : Nat) :
    (Build.treeCtx c o s).isZero (List.replicate k 0) = true :=
  Metric.isZero_replicate_zero c.metric k

/-! ## non-vacuity: a concrete run -/
namespace MakeTExample
open InsTExample

example : (makeT cx 5 [1, 2, 3, 4, 5] g [[7], [8]] [true, true, false, true]).toOption.map
      (fun r => (r.tree, r.puts.map (·.1), r.polls, r.nNew)) =
    some (.node 5 [7] (.node 3 [8] (.bucket 2 [1, 5]) (.leaf 3)) (.bucket 4 [2, 4]), [2, 3, 4, 5], 7, 4) := by
  decide +kernel

example : Sorted [1, 2, 3, 4, 5] ∧ (∀ m, cx.isZero (List.replicate m 0) = true) :=
  ⟨by decide, fun m => by simp [cx]⟩
end MakeTExample

end Arroy
