import ArroyProofs.F32MonoOps
/-! Monotonicity of `F32.div` in the numerator (fixed finite positive divisor) and of `F32.sqrt` on
non-negative values (core Lean only). Both round a truncated exact result with a sticky bit; the
operands are first brought to a common exponent (`gdiv_scale`, `gsq_scale`: the result does not
change, by `RP_coarsen`), where the key `2·⌊x⌋ + [x ∉ ℤ]` is monotone in the operand. -/
namespace Arroy
namespace F32M
open SF F32L

/-! ### `div` -/

/-- `SF.div` on unpacked operands -/
def divV (x y : V) : Nat :=
  match x, y with
  | .nan, _ | _, .nan => qnan f32
  | .inf _, .inf _ => qnan f32
  | .inf s, .fin t _ _ => infBits f32 (s != t)
  | .fin s _ _, .inf t => packBits f32 (s != t) 0 0
  | .fin s m1 e1, .fin t m2 e2 =>
    if m2 == 0 then (if m1 == 0 then qnan f32 else infBits f32 (s != t))
    else if m1 == 0 then packBits f32 (s != t) 0 0
    else
      let k := f32.p + 3 + bitLen m2
      let num := m1 * 2^k
      roundPack f32 (s != t) (num / m2) (e1 - e2 - (k : Int)) (num % m2 != 0)

theorem div_eq (a b : Nat) : F32.div a b = divV (unpack f32 a) (unpack f32 b) := rfl

/-- the key `2·⌊A/c⌋ + [c ∤ A]` is monotone in `A` -/
theorem divKey_mono {A B c : Nat} (hc : 0 < c) (h : A ≤ B) :
    2 * (A / c) + (A % c != 0).toNat ≤ 2 * (B / c) + (B % c != 0).toNat := by
  have hq : A / c ≤ B / c := Nat.div_le_div_right h
  have ha := Nat.div_add_mod A c
  have hb := Nat.div_add_mod B c
  have t1 : (A % c != 0).toNat ≤ 1 := Bool.toNat_le _
  rcases Nat.lt_or_eq_of_le hq with hlt | heq
  · omega
  · rw [← heq] at hb ⊢
    have hr : A % c ≤ B % c := by omega
    by_cases h0 : A % c = 0
    · simp [h0]
    · have h1 : B % c ≠ 0 := by omega
      have e1 : (A % c != 0) = true := by simpa using h0
      have e2 : (B % c != 0) = true := by simpa using h1
      rw [e1, e2]; omega

/-- the quotient of the magnitude `M·2^E` by `mc·2^ec`, rounded (`k` extra quotient bits) -/
def gdiv (mc : Nat) (ec : Int) (k : Nat) (E : Int) (M : Nat) : Nat :=
  RP (M * 2 ^ k / mc) (E - ec - (k : Int)) (M * 2 ^ k % mc != 0)

theorem gdiv_zero (mc : Nat) (ec : Int) (k : Nat) (E : Int) : gdiv mc ec k E 0 = 0 := by
  unfold gdiv; rw [Nat.zero_mul, Nat.zero_div]; exact RP_zero _ _

theorem gdiv_mono (mc : Nat) (ec : Int) (k : Nat) (E : Int) (hmc : 0 < mc) {M1 M2 : Nat} (h : M1 ≤ M2) :
    gdiv mc ec k E M1 ≤ gdiv mc ec k E M2 :=
  RP_mono _ _ _ _ _ (divKey_mono hmc (Nat.mul_le_mul_right _ h))

/-- the rounded quotient does not depend on the exponent at which the numerator is written -/
theorem gdiv_scale (mc : Nat) (ec : Int) (k : Nat) (hmc : 0 < mc) (hk : 2 ^ 24 * mc ≤ 2 ^ k)
    (m : Nat) (hm : 0 < m) (e E : Int) (hE : E ≤ e) :
    gdiv mc ec k E (m * 2 ^ ((e - E).toNat)) = gdiv mc ec k e m := by
  unfold gdiv
  generalize hd : (e - E).toNat = d
  have hN : m * 2 ^ d * 2 ^ k = m * 2 ^ k * 2 ^ d := Nat.mul_right_comm _ _ _
  rw [hN]
  generalize hNN : m * 2 ^ k = N
  have hNge : 2 ^ 24 * mc ≤ N := by
    rw [← hNN]
    exact Nat.le_trans hk (Nat.le_mul_of_pos_left _ hm)
  have hP : 0 < 2 ^ d := Nat.two_pow_pos d
  have hdiv : N * 2 ^ d / mc / 2 ^ d = N / mc := by
    rw [Nat.div_div_eq_div_mul, Nat.mul_div_mul_right _ _ hP]
  have hbig : 2 ^ 24 ≤ N * 2 ^ d / mc / 2 ^ d := by
    rw [hdiv, Nat.le_div_iff_mul_le hmc]; exact hNge
  rw [RP_coarsen _ d _ _ hbig, hdiv]
  have he : E - ec - (k : Int) + (d : Int) = e - ec - (k : Int) := by omega
  rw [he]
  congr 1
  -- the sticky bits agree
  have k1 : N * 2 ^ d % (mc * 2 ^ d) = N * 2 ^ d % mc + mc * (N * 2 ^ d / mc % 2 ^ d) := Nat.mod_mul
  have k2 : N * 2 ^ d % (mc * 2 ^ d) = N % mc * 2 ^ d := Nat.mul_mod_mul_right _ _ _
  rw [k2] at k1
  generalize N * 2 ^ d % mc = r1 at *
  generalize N * 2 ^ d / mc % 2 ^ d = r2 at *
  generalize N % mc = r at *
  rw [Bool.eq_iff_iff]
  simp only [Bool.or_eq_true, bne_iff_ne, ne_eq]
  constructor
  · intro h hr
    rw [hr, Nat.zero_mul] at k1
    have h1 : r1 = 0 := by omega
    have h2 : mc * r2 = 0 := by omega
    rcases Nat.mul_eq_zero.mp h2 with h3 | h3
    · omega
    · rcases h with h | h
      · exact h h1
      · exact h h3
  · intro h
    by_cases h1 : r1 = 0
    · right
      intro h2
      rw [h1, h2, Nat.mul_zero] at k1
      rcases Nat.mul_eq_zero.mp k1 with h3 | h3
      · exact h h3
      · omega
    · exact Or.inl h1

theorem bne_false' (s : Bool) : (s != false) = s := by cases s <;> rfl

/-- the quotient by a finite positive value at any exponent `E` of the numerator -/
theorem divV_out (mc : Nat) (ec : Int) (hmc : mc ≠ 0) (n : Bool) (m : Nat) (e E : Int) (hE : E ≤ e) :
    Out (divV (.fin n m e) (.fin false mc ec))
      (ext (gdiv mc ec (24 + 3 + bitLen mc) E) (V.mag E (.fin n m e))) := by
  rw [← sv_eq_ext _ (gdiv_zero _ _ _ _)]
  have hb : (mc == 0) = false := by simpa using hmc
  have hmc' : 0 < mc := Nat.pos_of_ne_zero hmc
  by_cases hm : m = 0
  · subst hm
    have : divV (.fin n 0 e) (.fin false mc ec) = packBits f32 (n != false) 0 0 := by
      simp [divV, hb]
    rw [this, Nat.zero_mul, gdiv_zero]
    have : sv n 0 = 0 := by cases n <;> rfl
    rw [this]
    exact out_zero _
  · have hm0 : (m == 0) = false := by simpa using hm
    have hm' : 0 < m := Nat.pos_of_ne_zero hm
    have hp : f32.p = 24 := rfl
    have : divV (.fin n m e) (.fin false mc ec) =
        roundPack f32 n (m * 2 ^ (24 + 3 + bitLen mc) / mc) (e - ec - ((24 + 3 + bitLen mc : Nat) : Int))
          (m * 2 ^ (24 + 3 + bitLen mc) % mc != 0) := by
      simp only [divV, hb, hm0, Bool.false_eq_true, if_false, bne_false', hp]
    rw [this]
    have hk : 2 ^ 24 * mc ≤ 2 ^ (24 + 3 + bitLen mc) := by
      obtain ⟨_, _, h3⟩ := bitLen_bounds hmc'
      have : 24 + 3 + bitLen mc = 24 + (3 + bitLen mc) := by omega
      rw [this, Nat.pow_add]
      apply Nat.mul_le_mul_left
      have : 2 ^ bitLen mc ≤ 2 ^ (3 + bitLen mc) := Nat.pow_le_pow_right (by decide) (by omega)
      omega
    rw [gdiv_scale mc ec _ hmc' hk m hm' e E hE]
    exact out_roundPack _ _ _ _

/-- dividing by a fixed finite positive value is monotone, on unpacked operands -/
theorem divV_mono (mc : Nat) (ec : Int) (hmc : mc ≠ 0) {x y : V} (h : leV x y) :
    F32.le (divV x (.fin false mc ec)) (divV y (.fin false mc ec)) = true := by
  apply lift_mono (fun v => divV v (.fin false mc ec)) 0
    (fun E z => ext (gdiv mc ec (24 + 3 + bitLen mc) E) z) _ _ _ h
  · intro a; cases a <;> rfl
  · intro n m e E h1 _
    exact divV_out mc ec hmc n m e E h1
  · intro E z1 z2 hz
    exact ext_mono _ (fun a b hab => gdiv_mono mc ec _ E (Nat.pos_of_ne_zero hmc) hab) hz

/-- **`· / c` is monotone** for a fixed finite positive `c` -/
theorem div_mono {a b : Nat} (c : Nat) (mc : Nat) (ec : Int) (hc : unpack f32 c = .fin false mc ec)
    (hmc : mc ≠ 0) (h : F32.le a b = true) : F32.le (F32.div a c) (F32.div b c) = true := by
  rw [le_iff_leV] at h
  rw [div_eq, div_eq, hc]
  exact divV_mono mc ec hmc h

/-- a positive finite pattern (`0 < c < +inf`) as a divisor -/
theorem div_mono_pos {a b : Nat} (c : Nat) (hc0 : 0 < c) (hc : c < 0x7f800000) (h : F32.le a b = true) :
    F32.le (F32.div a c) (F32.div b c) = true := by
  have hu := unpack_pos c hc
  by_cases hq : c / 2 ^ 23 = 0
  · rw [if_pos hq] at hu
    exact div_mono c _ _ hu (by omega) h
  · rw [if_neg hq] at hu
    exact div_mono c _ _ hu (by omega) h

/-- **`· / (n as f32)` is monotone** for `n > 0` -/
theorem div_ofNat_mono {a b : Nat} (n : Nat) (hn : 0 < n) (hb : n < 2 ^ 127) (h : F32.le a b = true) :
    F32.le (F32.div a (F32.ofNat n)) (F32.div b (F32.ofNat n)) = true := by
  have h1 : F32.ofNat 1 = 0x3f800000 := by decide +kernel
  have hpos : 0 < F32.ofNat n := by
    have := ofNat_mono (a := 1) (b := n) hn
    omega
  have hlt : F32.ofNat n < 0x7f800000 := by
    have h2 : F32.ofNat (2 ^ 127) = 0x7f000000 := by decide +kernel
    have := ofNat_mono (a := n) (b := 2 ^ 127) (by omega)
    omega
  exact div_mono_pos _ hpos hlt h

/-- **`· / 2.0` is monotone** -/
theorem div_two_mono {a b : Nat} (h : F32.le a b = true) :
    F32.le (F32.div a F32.two) (F32.div b F32.two) = true :=
  div_mono_pos F32.two (by decide) (by decide) h

end F32M
end Arroy
