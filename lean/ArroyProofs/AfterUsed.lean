import ArroyProofs.SingleLeaf
/-! The main path of `build`, after the used tree nodes were listed: extra trees deleted, updated
items removed from and re-inserted into every tree, missing trees created, over-full buckets re-split,
metadata written. -/
namespace Arroy
open BuildM Generated IdSet Transp

/-! ## the two routing predicates agree -/

def sideD (cx : TreeCtx) : List Nat → Nat → Option Bool := fun n x =>
  match cx.side n x with
  | some (some b) => some b
  | _ => none

theorem sideD_ne (cx : TreeCtx) (n : List Nat) (x : Nat) (b : Bool) :
    sideD cx n x ≠ some b ↔ cx.side n x ≠ some (some b) := by
  unfold sideD
  split
  · rename_i b' h; rw [h]; simp
  · rename_i h
    constructor
    · intro _ e; exact h b e
    · intro _ e; cases e

theorem routedT_iff_routedD (cx : TreeCtx) (t : T) : RoutedT cx t ↔ RoutedD cx.isZero (sideD cx) t := by
  induction t with
  | leaf i => simp [RoutedT, RoutedD]
  | bucket id s => simp [RoutedT, RoutedD]
  | node id n l r ihl ihr => simp only [RoutedT, RoutedD, ihl, ihr, sideD_ne]

/-- a side function that ignores the items of `D` (the updated items: their stored vector may have
    changed since the forest was built, and the build removes them from every tree first) -/
def maskSide (D : List Nat) (side : List Nat → Nat → Option Bool) : List Nat → Nat → Option Bool :=
  fun n x => if x ∈ D then none else side n x

theorem RoutedD.mask {isZero : List Nat → Bool} {side : List Nat → Nat → Option Bool} (D : List Nat) {t : T}
    (h : RoutedD isZero side t) : RoutedD isZero (maskSide D side) t := by
  induction t with
  | leaf i => trivial
  | bucket id s => trivial
  | node id n l r ihl ihr =>
    obtain ⟨h1, h2, h3⟩ := h
    refine ⟨fun hz => ⟨fun x hx => ?_, fun x hx => ?_⟩, ihl h2, ihr h3⟩
    · simp only [maskSide]; split
      · simp
      · exact (h1 hz).1 x hx
    · simp only [maskSide]; split
      · simp
      · exact (h1 hz).2 x hx

theorem RoutedD.unmask {isZero : List Nat → Bool} {side : List Nat → Nat → Option Bool} {D : List Nat} {t : T}
    (h : RoutedD isZero (maskSide D side) t) (hD : ∀ x ∈ t.items, x ∉ D) : RoutedD isZero side t := by
  induction t with
  | leaf i => trivial
  | bucket id s => trivial
  | node id n l r ihl ihr =>
    obtain ⟨h1, h2, h3⟩ := h
    have hl : ∀ x ∈ l.items, x ∉ D := fun x hx => hD x (by simp [T.items, hx])
    have hr : ∀ x ∈ r.items, x ∉ D := fun x hx => hD x (by simp [T.items, hx])
    refine ⟨fun hz => ⟨fun x hx => ?_, fun x hx => ?_⟩, ihl h2 hl, ihr h3 hr⟩
    · have := (h1 hz).1 x hx
      simpa only [maskSide, hl x hx, ↓reduceIte] using this
    · have := (h1 hz).2 x hx
      simpa only [maskSide, hr x hx, ↓reduceIte] using this

/-! ## the chain -/

theorem afterUsed_spec (c : Cfg) (o : BuildOpts) (fuel : Nat) (items updated roots used items0 : List Nat)
    (ts0 : List T) (st st' : BState) (hi : c.index < 65536) (hcap : 1 ≤ Build.cap c o)
    (hw : Store.WF st.store)
    (f0 : Forest c st.store roots items0 ts0)
    (hitems : Sorted items) (hupd : Sorted updated)
    (hrel : ∀ x, x ∉ updated → (x ∈ items0 ↔ x ∈ items))
    (hused : ∀ i, (Store.get st.store (c.treeKey i)).isSome = true → i ∈ used)
    (hg : GenOK used (IdGen.new used))
    (h : afterUsed c o fuel items updated roots used st = .ok ((), st')) :
    ∃ (roots' : List Nat) (ts' : List T),
      Store.get st'.store c.metaKey = some (.metadata c.metric.nameBytes c.dims items roots') ∧
      Forest c st'.store roots' items ts' ∧
      StoreStep c st.store st'.store ∧
      (∀ k, (∀ i, k ≠ c.treeKey i) → k ≠ c.metaKey → Store.get st'.store k = Store.get st.store k) ∧
      roots'.length = Build.targetNTrees o c.dims items.length roots.length ∧
      ((∀ t ∈ ts0, RoutedD (Build.treeCtx c o st.store).isZero
          (maskSide updated (sideD (Build.treeCtx c o st.store))) t) →
        ∀ t ∈ ts', RoutedT (Build.treeCtx c o st.store) t) ∧
      ((∀ t ∈ ts0, ∀ bk ∈ t.buckets, bk.2.length ≤ Build.cap c o) →
        ∀ t ∈ ts', ∀ bk ∈ t.buckets, bk.2.length ≤ Build.cap c o) := by
  unfold afterUsed at h
  -- 1. delete the extra trees
  obtain ⟨roots1, st1, h1, k1⟩ := bind_ok_inv h
  clear h
  obtain ⟨ts1, f1, sub1, step1, frame1, len1⟩ := deleteExtraTrees_spec c items0 _ roots ts0 st st1 roots1 f0 h1
  have hw1 := step1.wf hw
  have hin1 : ∀ i ∈ ts1.flatMap T.ids, i ∈ used := by
    intro i hi'
    obtain ⟨t, ht, hit⟩ := List.mem_flatMap.1 hi'
    exact hused i ((f0.holds t (sub1 t ht)).isSome hit)
  -- 2. delete the updated items
  obtain ⟨roots2, st2, h2, k2⟩ := bind_ok_inv k1
  clear k1
  obtain ⟨ts2, f2, sub2, step2, frame2, len2, some2⟩ :=
    deleteItemsFromTrees_forest c o roots1 items0 (IdSet.diff items updated) updated ts1 f1 hcap hupd
      (by
        intro x
        rw [mem_diff hitems hupd]
        constructor
        · rintro ⟨h1', h2'⟩; exact ⟨(hrel x h2').2 h1', h2'⟩
        · rintro ⟨h1', h2'⟩; exact ⟨(hrel x h2').1 h1', h2'⟩)
      hw1 hi h2
  have hw2 := step2.wf hw1
  have hin2 : ∀ i ∈ ts2.flatMap T.ids, i ∈ used := by
    intro i hi'
    exact hin1 i ((f1.cover i).1 (some2 i ((f2.cover i).2 hi')))
  -- 3. insert the updated items that are still stored
  obtain ⟨x3, st3, h3, k3⟩ := bind_ok_inv k2
  clear k2
  obtain ⟨large3, g3⟩ := x3
  simp only at k3
  obtain ⟨ts3, inUse3, f3, hg3, sup3, in3, step3, frame3, rel3, none3, cap3⟩ :=
    insertItems_forest c o roots2 (IdSet.diff items updated) items (IdSet.inter items updated) ts2
      (IdGen.new used) g3 used st2 st3 large3 _ f2 hin2 hg hw2 hi (sorted_inter updated hitems)
      (by
        intro x hx hx'
        exact ((mem_diff hitems hupd).1 hx').2 ((mem_inter hitems hupd).1 hx).2)
      (by
        intro x
        rw [mem_diff hitems hupd, mem_inter hitems hupd]
        constructor
        · intro hx
          by_cases hu : x ∈ updated
          · exact Or.inr ⟨hx, hu⟩
          · exact Or.inl ⟨hx, hu⟩
        · rintro (⟨hx, _⟩ | ⟨hx, _⟩) <;> exact hx)
      h3
  have hw3 := step3.wf hw2
  -- 4. create the missing trees
  obtain ⟨x4, st4, h4, k4⟩ := bind_ok_inv k3
  clear k3
  obtain ⟨roots4, large4, g4⟩ := x4
  simp only at k4
  obtain ⟨ts4, inUse4, f4, len4, hg4, sup4, in4, step4, frame4, new4, lsub4⟩ :=
    newTrees_spec c items hi hitems _ roots2 large3 roots4 large4 ts3 g3 g4 inUse3 st3 st4 f3 in3 hg3 h4
  have hw4 := step4.wf hw3
  -- 5. re-split the over-full buckets
  obtain ⟨u5, st5, h5, k5⟩ := bind_ok_inv k4
  clear k4
  obtain ⟨ts5, f5, step5, frame5, routed5, cap5⟩ :=
    resplit_spec c o roots4 items hi hcap fuel large4 ts4 g4 inUse4 st4 st5 f4 in4 hg4 hw4 h5
  -- 6. the metadata
  have e6 := writeMetadata_ok k5
  have frame04 : TreeFrame c st.store st4.store := ((frame1.trans frame2).trans frame3).trans frame4
  have frame05 : TreeFrame c st.store st5.store := frame04.trans frame5
  have cx2 : Build.treeCtx c o st2.store = Build.treeCtx c o st.store := (frame1.trans frame2).treeCtx o
  have cx4 : Build.treeCtx c o st4.store = Build.treeCtx c o st.store := frame04.treeCtx o
  refine ⟨roots4, ts5, ?_, ?_, ?_, ?_, ?_, ?_, ?_⟩
  · rw [e6, Store.get_put_same]
  · rw [e6]
    exact f5.frame (fun i => Store.get_put_other _ _ _ _ (Ne.symm (c.metaKey_ne_treeKey i)))
  · rw [e6]
    exact ((((step1.trans step2).trans step3).trans step4).trans step5).put_tree _ _ (c.metaKey_wf hi) c.metaKey_mode
  · intro k hk1 hk2
    rw [e6, Store.get_put_other _ _ _ _ hk2]
    exact frame05 k hk1
  · rw [len4, len2, len1]
    have := Nat.le_total roots.length (Build.targetNTrees o c.dims items.length roots.length)
    omega
  · intro hr
    rw [cx4] at routed5
    apply routed5
    intro t4 ht4
    rcases new4 t4 ht4 with h' | ⟨id, rfl, _⟩
    · obtain ⟨t2, ht2, r23⟩ := rel3.mem_right t4 h'
      rw [cx2] at r23
      apply r23.routed
      obtain ⟨t1, ht1, rfl⟩ := sub2 t2 ht2
      rw [routedT_iff_routedD]
      apply RoutedD.unmask (D := updated) (delT_routed _ _ _ _ t1 (hr t1 (sub1 t1 ht1)))
      intro x hx
      exact ((delT_tree_items hcap hupd ((TWF_iff t1).2 (f1.wf t1 ht1)) (not_leaf_of_refs f1.refs t1 ht1) x).1 hx).2
    · trivial
  · intro hc
    apply cap5
    intro t4 ht4 bk hbk hnf
    rcases new4 t4 ht4 with h' | ⟨id, rfl, hid⟩
    · apply lsub4
      by_cases hno : roots2 = [] ∨ IdSet.inter items updated = []
      · -- nothing was inserted: the trees are those after the deletion
        rw [(none3 hno).1] at h'
        obtain ⟨t1, ht1, rfl⟩ := sub2 t4 h'
        have := delT_capacity (Build.cap c o) updated t1 (fun b hb => hc t1 (sub1 t1 ht1) b hb) bk hbk
        exact absurd (by simpa [fits] using this) hnf
      · simp only [not_or] at hno
        exact cap3 hno.1 hno.2 t4 h' bk hbk hnf
    · simp only [T.buckets, List.mem_singleton] at hbk
      subst hbk
      exact hid

end Arroy
