import ArroyProofs.FrameRels
/-! The DotProduct preprocessing (`DotProduct::preprocess`): it rewrites only the header of the item
leaves of its own index. -/
namespace Arroy
open Generated

namespace Frame

theorem Key.lt_irrefl (a : Key) : a.lt a = false := by
  simp [Key.lt]

theorem Key.lt_trans {a b c : Key} (h1 : a.lt b = true) (h2 : b.lt c = true) : a.lt c = true := by
  rw [Frame.keyLt_iff] at *
  omega

theorem sorted_tail {a : Key × Val} {rest : Store} (h : Store.Sorted (a :: rest)) : Store.Sorted rest := by
  cases rest with
  | nil => trivial
  | cons b rest => exact h.2

theorem sorted_head_lt {a : Key × Val} {rest : Store} (h : Store.Sorted (a :: rest)) :
    ∀ b ∈ rest, a.1.lt b.1 = true := by
  induction rest generalizing a with
  | nil => intro b hb; cases hb
  | cons x rest ih =>
    intro b hb
    rcases List.mem_cons.1 hb with rfl | hb
    · exact h.1
    · exact Key.lt_trans h.1 (ih h.2 b hb)

/-- in a sorted store an entry is what `get` returns -/
theorem get_of_mem_sorted {s : Store} (hs : Store.Sorted s) {k : Key} {v : Val} (h : (k, v) ∈ s) :
    Store.get s k = some v := by
  induction s with
  | nil => cases h
  | cons a rest ih =>
    obtain ⟨k0, v0⟩ := a
    simp only [Store.get]
    rcases List.mem_cons.1 h with e | h'
    · simp only [Prod.mk.injEq] at e
      obtain ⟨rfl, rfl⟩ := e
      simp
    · have hlt := sorted_head_lt hs _ h'
      have hne : k0 ≠ k := by
        intro e; subst e
        rw [Key.lt_irrefl] at hlt; cases hlt
      rw [if_neg hne]
      exact ih (sorted_tail hs) h'

end Frame

/-- induction principle for the DotProduct preprocessing: it is a sequence of `put`s of a leaf with a
    new header and the **same** vector words, under item keys of the index that hold a leaf in `s` -/
theorem Build.preprocessDot_inv (P : Store → Prop) (c : Cfg) (s : Store) (h0 : P s)
    (hstep : ∀ st k hdr h v, (k, Val.leaf h v) ∈ s →
      isPrefixOf (encodePrefix c.index (some modeItem)) (encodeKey k) = true →
      P st → P (Store.put st k (.leaf hdr v))) :
    P (Build.preprocessDot c s) := by
  unfold Build.preprocessDot
  dsimp only
  generalize hl : (List.filterMap (fun kv : Key × Val =>
      match kv.2 with | .leaf _ v => some (kv.1, v) | _ => none)
      (Store.prefixIter s c.index (some modeItem))) = leaves
  have hmem : ∀ kv ∈ leaves, ∃ h, (kv.1, Val.leaf h kv.2) ∈ s ∧
      isPrefixOf (encodePrefix c.index (some modeItem)) (encodeKey kv.1) = true := by
    subst hl
    intro kv hkv
    rw [List.mem_filterMap] at hkv
    obtain ⟨⟨k0, v0⟩, hin, hv⟩ := hkv
    simp only [Store.prefixIter, List.mem_filter] at hin
    cases v0 with
    | leaf h v =>
      simp only [Option.some.injEq] at hv
      subst hv
      exact ⟨h, hin.1, hin.2⟩
    | _ => simp at hv
  clear hl
  generalize List.foldl (fun mx (kv : Key × List Nat) => F32.max mx (c.metric.normNoHeader c.host kv.2))
    F32.zero leaves = maxNorm
  suffices hgen : ∀ st, P st → P (List.foldl (fun st (kv : Key × List Nat) =>
      let nn := c.metric.normNoHeader c.host kv.2
      let diff := F32.sub (F32.mul maxNorm maxNorm) (F32.mul nn nn)
      let hdr := c.metric.header.map fun
        | .norm => F32.mul maxNorm maxNorm
        | .extraDim => F32.sqrt diff
        | _ => F32.zero
      Store.put st kv.1 (.leaf hdr kv.2)) st leaves) from hgen s h0
  induction leaves with
  | nil => intro st h; exact h
  | cons kv rest ih =>
    intro st h
    simp only [List.foldl_cons]
    apply ih (fun kv' hkv' => hmem kv' (List.mem_cons_of_mem _ hkv'))
    obtain ⟨hh, h1, h2⟩ := hmem kv List.mem_cons_self
    exact hstep st kv.1 _ hh kv.2 h1 h2 h

end Arroy

namespace Arroy
open Generated

theorem Build.preprocessDot_otherSame (c : Cfg) (hi : c.index < 65536) (s : Store) :
    OtherSame c.index s (Build.preprocessDot c s) := by
  apply Build.preprocessDot_inv (fun st => OtherSame c.index s st) c s ((OtherSame.storeRel _).refl s)
  intro st k hdr h v _ hp hst
  refine (OtherSame.storeRel _).trans hst ?_
  apply Frame.filter_put (fun k => k.index % 65536 != c.index)
  have := ((isPrefixOf_kind_all c.index modeItem k).1 hp).1
  rw [Nat.mod_eq_of_lt hi] at this
  simp [this]

theorem Build.preprocessDot_noNewUpdated (c : Cfg) (s : Store) :
    NoNewUpdated c.index s (Build.preprocessDot c s) := by
  apply Build.preprocessDot_inv (fun st => NoNewUpdated c.index s st) c s ((NoNewUpdated.storeRel _).refl s)
  intro st k hdr h v _ hp hst
  refine (NoNewUpdated.storeRel _).trans hst ?_
  intro k' hp' hk'
  rcases Frame.mem_keys_put hk' with e | e
  · subst e
    have h1 := ((isPrefixOf_kind_all c.index modeItem _).1 hp).2
    have h2 := ((isPrefixOf_kind_all c.index modeUpdated _).1 hp').2
    rw [h1] at h2
    simp [modeItem, modeUpdated] at h2
  · exact e

/-- on a sorted store the preprocessing changes, for **every** key, at most the header of a leaf, and
    nothing outside the item keys of its index -/
theorem Build.preprocessDot_header (c : Cfg) (s : Store) (hs : Store.Sorted s) (k : Key) :
    SameUpToHeader (Store.get s k) (Store.get (Build.preprocessDot c s) k) ∧
    (isPrefixOf (encodePrefix c.index (some modeItem)) (encodeKey k) = false →
      Store.get (Build.preprocessDot c s) k = Store.get s k) := by
  apply Build.preprocessDot_inv (fun st => SameUpToHeader (Store.get s k) (Store.get st k) ∧
    (isPrefixOf (encodePrefix c.index (some modeItem)) (encodeKey k) = false → Store.get st k = Store.get s k)) c s
    ⟨SameUpToHeader.refl _, fun _ => rfl⟩
  intro st k' hdr h v hmem hp ⟨h1, h2⟩
  by_cases e : k = k'
  · subst e
    rw [Store.get_put_same]
    refine ⟨?_, fun hn => ?_⟩
    · rw [Frame.get_of_mem_sorted hs hmem]
      exact Or.inr ⟨h, hdr, v, rfl, rfl⟩
    · rw [hp] at hn; cases hn
  · rw [Store.get_put_other _ _ _ _ e]
    exact ⟨h1, h2⟩

theorem Build.preprocessDot_onlyTreeMarksMeta (c : Cfg) (hi : c.index < 65536) (s : Store) (hs : Store.Sorted s) :
    OnlyTreeMarksMeta c.index s (Build.preprocessDot c s) := by
  intro k hk hn
  obtain ⟨h1, h2⟩ := Build.preprocessDot_header c s hs k
  refine ⟨fun _ => h1, fun hm => h2 ?_⟩
  cases hp : isPrefixOf (encodePrefix c.index (some modeItem)) (encodeKey k)
  · rfl
  · exact absurd ((isPrefixOf_kind c.index modeItem k hk hi (by decide)).1 hp).2 hm

end Arroy
