import ArroyProofs.SoftFloatReal
import ArroyProofs.KernelRoundOn
/-! The soft-float binary32 arithmetic of the kernels (`f32Arith`) satisfies the conditional standard
model with `val = toReal`, `ok = Finite`, `P = NormalOrZero`, `u = 2^-24`. -/
namespace Arroy
namespace SFR
open SF

theorem unpack_negZero : unpack f32 F32.negZero = .fin true 0 (-149) := by
  simp [unpack, F32.negZero, f32, Fmt.width, Fmt.emaxField, Fmt.qmin, Fmt.bias]

theorem unpack_zero' : unpack f32 F32.zero = .fin false 0 (-149) := unpack_zero

theorem toReal_negZero : toReal F32.negZero = 0 := by rw [toReal_of_unpack unpack_negZero]; simp
theorem toReal_zero : toReal F32.zero = 0 := by rw [toReal_of_unpack unpack_zero']; simp

/-- **the conditional standard model holds for the arithmetic of the kernels** -/
theorem f32_std_model_on : StdModelOn f32Arith toReal Finite NormalOrZero u where
  u_nonneg := u_nonneg
  sumInit := ⟨finite_of_unpack unpack_negZero, toReal_negZero⟩
  zero := ⟨finite_of_unpack unpack_zero', toReal_zero⟩
  add := fun x y hx hy hP => add_std x y hx hy hP
  sub := fun x y hx hy hP => sub_std x y hx hy hP
  mul := fun x y hx hy hP => mul_std x y hx hy hP
  fma := fun x y z hx hy hz hP => fma_std x y z hx hy hz hP

/-- clearing the sign bit is the absolute value -/
theorem abs_unpack (a : Nat) (n : Bool) (m : Nat) (e : Int) (h : unpack f32 a = .fin n m e) :
    unpack f32 (F32.abs a) = .fin false m e := by
  obtain ⟨c1, c2, c3, c4, c5⟩ := f32_consts
  unfold F32.abs SF.abs
  unfold unpack at h ⊢
  simp only [c1, c2, c3, c4, c5, f32_ebits, Nat.reduceSub, Nat.reducePow] at h ⊢
  have a1 : a % 2147483648 % 8388608 = a % 8388608 := by omega
  have a2 : a % 2147483648 / 8388608 % 256 = a / 8388608 % 256 := by omega
  have a3 : a % 2147483648 / 2147483648 % 2 = 0 := by omega
  rw [a1, a2, a3]
  generalize a / 8388608 % 256 = ex at *
  generalize a % 8388608 = fr at *
  generalize (a / 2147483648 % 2 == 1) = sg at *
  by_cases h1 : (ex == 255) = true
  · simp only [h1, if_true] at h
    split at h <;> cases h
  · simp only [h1, Bool.false_eq_true, if_false] at h ⊢
    by_cases h2 : (ex == 0) = true
    · simp only [h2, if_true] at h ⊢
      cases h; rfl
    · simp only [h2, Bool.false_eq_true, if_false] at h ⊢
      cases h; rfl

theorem abs_real (a : Nat) (ha : Finite a) : Finite (F32.abs a) ∧ toReal (F32.abs a) = |toReal a| := by
  obtain ⟨n, m, e, hu⟩ := (finite_iff a).1 ha
  have h := abs_unpack a n m e hu
  refine ⟨finite_of_unpack h, ?_⟩
  rw [toReal_of_unpack h, toReal_of_unpack hu, abs_mul, abs_mul, abs_sgn]
  have h1 : (0 : ℝ) ≤ m := Nat.cast_nonneg m
  have h2 := two_zpow_pos e
  rw [abs_of_nonneg h1, abs_of_pos h2]
  simp [sgn]

end SFR
end Arroy
