import ArroyProofs.Staged
import ArroyProofs.Properties.C05
/-! Inversion lemmas for `.ok` runs of `BuildM` programs, a pointwise list relation, and the
structural closure `StoreStep` (puts of well-formed keys and filters) that carries `Store.Sorted`,
`Store.WF` and `ItemsAreLeaves` through a build. -/
namespace Arroy
open BuildM Generated

/-! ## inversion of `bind` -/

theorem bind_ok_inv {α β : Type} {m : BuildM α} {f : α → BuildM β} {st : BState} {r : β × BState}
    (h : (m >>= f) st = .ok r) : ∃ a st1, m st = .ok (a, st1) ∧ f a st1 = .ok r := by
  simp only [bind, bind'] at h
  split at h
  · rename_i a st1 h1; exact ⟨a, st1, h1, h⟩
  · cases h

theorem bind'_ok_inv {α β : Type} {m : BuildM α} {f : α → BuildM β} {st : BState} {r : β × BState}
    (h : bind' m f st = .ok r) : ∃ a st1, m st = .ok (a, st1) ∧ f a st1 = .ok r := by
  simp only [bind'] at h
  split at h
  · rename_i a st1 h1; exact ⟨a, st1, h1, h⟩
  · cases h

theorem pure_ok_inv {α : Type} {a : α} {st : BState} {r : α × BState}
    (h : (pure a : BuildM α) st = .ok r) : r = (a, st) := by
  simp only [pure, pure'] at h; cases h; rfl

theorem getStore_ok {st : BState} {r : Store × BState} (h : getStore st = .ok r) : r = (st.store, st) := by
  simp only [getStore] at h; cases h; rfl

theorem setStore_ok {s : Store} {st : BState} {r : Unit × BState} (h : setStore s st = .ok r) :
    r = ((), { st with store := s }) := by
  simp only [setStore] at h; cases h; rfl

theorem modifyStore_ok {f : Store → Store} {st : BState} {r : Unit × BState} (h : modifyStore f st = .ok r) :
    r = ((), { st with store := f st.store }) := by
  simp only [modifyStore] at h; cases h; rfl

theorem liftExcept_ok {α : Type} {x : Except Err α} {st : BState} {r : α × BState}
    (h : BuildM.liftExcept x st = .ok r) : x = .ok r.1 ∧ r.2 = st := by
  unfold BuildM.liftExcept at h
  cases x with
  | ok a => simp only at h; cases h; exact ⟨rfl, rfl⟩
  | error e => simp only at h; cases h

theorem fail_ok {α : Type} {e : Err} {st : BState} {r : α × BState} (h : (fail e : BuildM α) st = .ok r) : False := by
  simp only [fail] at h; cases h

theorem nextBatch_ok {st : BState} {r : Nat × BState} (h : nextBatch st = .ok r) : r.2.store = st.store := by
  unfold nextBatch at h
  split at h
  · cases h
  · cases h; rfl

theorem poll_store {st : BState} {r : Unit × BState} (h : poll st = .ok r) : r.2.store = st.store := by
  obtain ⟨u, st'⟩ := r
  rw [poll_ok h]

theorem pollN_store {k : Nat} {st : BState} {r : Unit × BState} (h : pollN k st = .ok r) : r.2.store = st.store := by
  obtain ⟨u, st'⟩ := r
  rw [pollN_ok h]

theorem forEach_nil_ok {α : Type} {f : α → BuildM Unit} {st : BState} {r : Unit × BState}
    (h : forEach ([] : List α) f st = .ok r) : r = ((), st) := by
  simp only [forEach, pure, pure'] at h; cases h; rfl

theorem forEach_cons_ok {α : Type} {x : α} {xs : List α} {f : α → BuildM Unit} {st : BState} {r : Unit × BState}
    (h : forEach (x :: xs) f st = .ok r) : ∃ st1, f x st = .ok ((), st1) ∧ forEach xs f st1 = .ok r := by
  simp only [forEach] at h
  obtain ⟨a, st1, h1, h2⟩ := bind'_ok_inv h
  exact ⟨st1, h1, h2⟩

/-! the same, with the result given as a pair and equations oriented for `subst` -/

theorem pure_ok' {α : Type} {a b : α} {st st' : BState} (h : (pure a : BuildM α) st = .ok (b, st')) :
    a = b ∧ st = st' := by
  simp only [pure, pure'] at h; cases h; exact ⟨rfl, rfl⟩

theorem getStore_ok' {st st' : BState} {s : Store} (h : getStore st = .ok (s, st')) : st.store = s ∧ st = st' := by
  simp only [getStore] at h; cases h; exact ⟨rfl, rfl⟩

theorem setStore_ok' {s : Store} {st st' : BState} {u : Unit} (h : setStore s st = .ok (u, st')) :
    { st with store := s } = st' := by
  simp only [setStore] at h; cases h; rfl

theorem modifyStore_ok' {f : Store → Store} {st st' : BState} {u : Unit} (h : modifyStore f st = .ok (u, st')) :
    { st with store := f st.store } = st' := by
  simp only [modifyStore] at h; cases h; rfl

theorem liftExcept_ok' {α : Type} {x : Except Err α} {st st' : BState} {a : α}
    (h : BuildM.liftExcept x st = .ok (a, st')) : x = .ok a ∧ st = st' := by
  unfold BuildM.liftExcept at h
  cases x with
  | ok a => simp only at h; cases h; exact ⟨rfl, rfl⟩
  | error e => simp only at h; cases h

theorem poll_store' {st st' : BState} {u : Unit} (h : poll st = .ok (u, st')) : st'.store = st.store := by
  rw [poll_ok h]

theorem pollN_store' {k : Nat} {st st' : BState} {u : Unit} (h : pollN k st = .ok (u, st')) :
    st'.store = st.store := by
  rw [pollN_ok h]

theorem nextBatch_ok' {st st' : BState} {k : Nat} (h : nextBatch st = .ok (k, st')) : st'.store = st.store :=
  nextBatch_ok h

/-- peeking at the state -/
theorem peek_ok' {st st1 st' : BState} (h : (fun s => .ok (s, s) : BuildM BState) st = .ok (st1, st')) :
    st = st1 ∧ st = st' := by
  simp only at h; cases h; exact ⟨rfl, rfl⟩

/-! ## a pointwise relation between two lists -/

def All2 {α β : Type} (R : α → β → Prop) : List α → List β → Prop
  | [], [] => True
  | a :: as, b :: bs => R a b ∧ All2 R as bs
  | _, _ => False

namespace All2
variable {α β γ : Type}

theorem nil {R : α → β → Prop} : All2 R [] [] := trivial

theorem cons {R : α → β → Prop} {a : α} {b : β} {as : List α} {bs : List β} (h : R a b) (t : All2 R as bs) :
    All2 R (a :: as) (b :: bs) := ⟨h, t⟩

theorem length {R : α → β → Prop} : ∀ {as : List α} {bs : List β}, All2 R as bs → as.length = bs.length
  | [], [], _ => rfl
  | _ :: _, _ :: _, h => by simp [length h.2]
  | [], _ :: _, h => h.elim
  | _ :: _, [], h => h.elim

theorem mono {R S : α → β → Prop} (hRS : ∀ a b, R a b → S a b) :
    ∀ {as : List α} {bs : List β}, All2 R as bs → All2 S as bs
  | [], [], _ => trivial
  | _ :: _, _ :: _, h => ⟨hRS _ _ h.1, mono hRS h.2⟩
  | [], _ :: _, h => h.elim
  | _ :: _, [], h => h.elim

/-- like `mono`, but the implication may use membership -/
theorem mono_mem {R S : α → β → Prop} :
    ∀ {as : List α} {bs : List β}, All2 R as bs → (∀ a ∈ as, ∀ b ∈ bs, R a b → S a b) → All2 S as bs
  | [], [], _, _ => trivial
  | a :: as, b :: bs, h, hRS =>
    ⟨hRS a (by simp) b (by simp) h.1,
      mono_mem h.2 (fun a' ha b' hb => hRS a' (List.mem_cons_of_mem _ ha) b' (List.mem_cons_of_mem _ hb))⟩
  | [], _ :: _, h, _ => h.elim
  | _ :: _, [], h, _ => h.elim

theorem refl {R : α → α → Prop} (h : ∀ a, R a a) : ∀ (as : List α), All2 R as as
  | [] => trivial
  | _ :: as => ⟨h _, refl h as⟩

theorem refl_mem {R : α → α → Prop} : ∀ (as : List α), (∀ a ∈ as, R a a) → All2 R as as
  | [], _ => trivial
  | a :: as, h => ⟨h a (by simp), refl_mem as (fun x hx => h x (List.mem_cons_of_mem _ hx))⟩

theorem comp {R : α → β → Prop} {S : β → γ → Prop} {Q : α → γ → Prop} (hQ : ∀ a b c, R a b → S b c → Q a c) :
    ∀ {as : List α} {bs : List β} {cs : List γ}, All2 R as bs → All2 S bs cs → All2 Q as cs
  | [], [], [], _, _ => trivial
  | _ :: _, _ :: _, _ :: _, h1, h2 => ⟨hQ _ _ _ h1.1 h2.1, comp hQ h1.2 h2.2⟩
  | [], _ :: _, _, h, _ => h.elim
  | _ :: _, [], _, h, _ => h.elim
  | [], [], _ :: _, _, h => h.elim
  | _ :: _, _ :: _, [], _, h => h.elim

theorem and {R S : α → β → Prop} : ∀ {as : List α} {bs : List β}, All2 R as bs → All2 S as bs →
    All2 (fun a b => R a b ∧ S a b) as bs
  | [], [], _, _ => trivial
  | _ :: _, _ :: _, h1, h2 => ⟨⟨h1.1, h2.1⟩, and h1.2 h2.2⟩
  | [], _ :: _, h, _ => h.elim
  | _ :: _, [], h, _ => h.elim

theorem mem_right {R : α → β → Prop} : ∀ {as : List α} {bs : List β}, All2 R as bs → ∀ b ∈ bs, ∃ a ∈ as, R a b
  | [], [], _, b, hb => by cases hb
  | a :: as, b' :: bs, h, b, hb => by
    rcases List.mem_cons.1 hb with rfl | hb
    · exact ⟨a, by simp, h.1⟩
    · obtain ⟨a', ha', hr⟩ := mem_right h.2 b hb
      exact ⟨a', List.mem_cons_of_mem _ ha', hr⟩
  | [], _ :: _, h, _, _ => h.elim
  | _ :: _, [], h, _, _ => h.elim

theorem mem_left {R : α → β → Prop} : ∀ {as : List α} {bs : List β}, All2 R as bs → ∀ a ∈ as, ∃ b ∈ bs, R a b
  | [], [], _, a, ha => by cases ha
  | a' :: as, b :: bs, h, a, ha => by
    rcases List.mem_cons.1 ha with rfl | ha
    · exact ⟨b, by simp, h.1⟩
    · obtain ⟨b', hb', hr⟩ := mem_left h.2 a ha
      exact ⟨b', List.mem_cons_of_mem _ hb', hr⟩
  | [], _ :: _, h, _, _ => h.elim
  | _ :: _, [], h, _, _ => h.elim

/-- a function of the related pairs that agrees gives equal maps -/
theorem map_eq {R : α → β → Prop} {f : α → γ} {g : β → γ} (hfg : ∀ a b, R a b → g b = f a) :
    ∀ {as : List α} {bs : List β}, All2 R as bs → bs.map g = as.map f
  | [], [], _ => rfl
  | _ :: _, _ :: _, h => by simp [hfg _ _ h.1, map_eq hfg h.2]
  | [], _ :: _, h => h.elim
  | _ :: _, [], h => h.elim

theorem of_map {R : α → β → Prop} (f : α → β) : ∀ (as : List α), (∀ a ∈ as, R a (f a)) → All2 R as (as.map f)
  | [], _ => trivial
  | a :: as, h => ⟨h a (by simp), of_map f as (fun x hx => h x (List.mem_cons_of_mem _ hx))⟩

end All2

/-! ## stores reachable by well-formed puts and filters -/

/-- `s'` is obtained from `s` by puts (of well-formed keys; a leaf under an item key of index `c`)
    and filters -/
inductive StoreStep (c : Cfg) : Store → Store → Prop
  | refl (s : Store) : StoreStep c s s
  | put {s s' : Store} (k : Key) (v : Val) : k.wf → (k.index = c.index → k.mode = modeItem → C05.isLeaf v = true) →
      StoreStep c s s' → StoreStep c s (s'.put k v)
  | filter {s s' : Store} (p : Key × Val → Bool) : StoreStep c s s' → StoreStep c s (s'.filter p)

namespace StoreStep

theorem trans {c : Cfg} {s1 s2 s3 : Store} (h1 : StoreStep c s1 s2) (h2 : StoreStep c s2 s3) : StoreStep c s1 s3 := by
  induction h2 with
  | refl => exact h1
  | put k v hk hl _ ih => exact .put k v hk hl ih
  | filter p _ ih => exact .filter p ih

theorem erase {c : Cfg} {s s' : Store} (h : StoreStep c s s') (k : Key) : StoreStep c s (s'.erase k) :=
  .filter _ h

theorem deleteRange {c : Cfg} {s s' : Store} (h : StoreStep c s s') (lo hi : Key) :
    StoreStep c s (s'.deleteRange lo hi) := .filter _ h

theorem sorted {c : Cfg} {s s' : Store} (h : StoreStep c s s') (hs : Store.Sorted s) : Store.Sorted s' := by
  induction h with
  | refl => exact hs
  | put k v _ _ _ ih => exact Store.put_sorted ih k v
  | filter p _ ih => exact Store.filter_sorted ih p

theorem wf {c : Cfg} {s s' : Store} (h : StoreStep c s s') (hs : Store.WF s) : Store.WF s' := by
  induction h with
  | refl => exact hs
  | put k v hk _ _ ih => exact Store.put_wf ih hk v
  | filter p _ ih => exact Store.filter_wf ih p

theorem leaves {c : Cfg} {s s' : Store} (h : StoreStep c s s') (hs : C05.ItemsAreLeaves c s) :
    C05.ItemsAreLeaves c s' := by
  induction h with
  | refl => exact hs
  | put k v _ hl _ ih =>
    intro kv hkv hi hm
    rcases Store.mem_put hkv with rfl | hmem
    · exact hl hi hm
    · exact ih kv hmem hi hm
  | filter p _ ih =>
    intro kv hkv hi hm
    exact ih kv (List.mem_filter.1 hkv).1 hi hm

/-- putting a non-item key of the index -/
theorem put_tree {c : Cfg} {s s' : Store} (h : StoreStep c s s') (k : Key) (v : Val) (hk : k.wf)
    (hm : k.mode ≠ modeItem) : StoreStep c s (s'.put k v) :=
  .put k v hk (fun _ e => absurd e hm) h

end StoreStep

theorem Cfg.treeKey_wf (c : Cfg) (id : Nat) (hi : c.index < 65536) (hid : id < 4294967296) : (c.treeKey id).wf := by
  simp only [Cfg.treeKey, Key.mkTree, Key.wf, modeTree]
  omega

theorem Cfg.treeKey_mode (c : Cfg) (id : Nat) : (c.treeKey id).mode ≠ modeItem := by
  simp [Cfg.treeKey, Key.mkTree, modeTree, modeItem]

theorem StoreStep.eraseAll {c : Cfg} {s s' : Store} (h : StoreStep c s s') (ids : List Nat) :
    StoreStep c s (eraseAll c s' ids) := by
  induction ids generalizing s' with
  | nil => exact h
  | cons i ids ih => exact ih (h.erase _)

theorem StoreStep.putAllMap {c : Cfg} {s s' : Store} (h : StoreStep c s s') (remap : Nat → Nat)
    (ps : List (Nat × Val)) (hi : c.index < 65536) (hps : ∀ p ∈ ps, remap p.1 < 4294967296) :
    StoreStep c s (putAllMap c remap s' ps) := by
  induction ps generalizing s' with
  | nil => exact h
  | cons p ps ih =>
    exact ih (h.put_tree _ _ (c.treeKey_wf _ hi (hps p (by simp))) (c.treeKey_mode _))
      (fun q hq => hps q (List.mem_cons_of_mem _ hq))

end Arroy
