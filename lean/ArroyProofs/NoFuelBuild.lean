import ArroyProofs.NoFuel
import ArroyProofs.PreprocessFrame
import ArroyProofs.PrefixLemmas
/-! `build` on a store whose metadata roots are a forest (held trees, pairwise distinct node ids): the only
fuel that can be reported exhausted is the budget of the re-split loop.  `delete_extra_trees` deletes one held
tree after the other; each deletion leaves the other trees held (their node ids are disjoint). -/
namespace Arroy
open BuildM Generated

/-! ## deleting the extra trees of a forest -/

/-- the roots are pairwise distinct and each is the root of a tree of a held forest with distinct node ids -/
def DeletableRoots (c : Cfg) (s : Store) (roots : List Nat) : Prop :=
  roots.Nodup ∧ ∃ ts : List T, (ts.flatMap T.ids).Nodup ∧ (∀ t ∈ ts, Holds c s t) ∧
    ∀ root ∈ roots, ∃ t ∈ ts, t.ref = NodeId.mkTree root

theorem flatMap_nodup_disjoint {α β : Type} (f : α → List β) : ∀ (l : List α), (l.flatMap f).Nodup →
    ∀ a ∈ l, ∀ b ∈ l, a ≠ b → ∀ x ∈ f a, x ∉ f b := by
  intro l
  induction l with
  | nil => intro _ a ha; cases ha
  | cons y ys ih =>
    intro hnd a ha b hb hab x hxa hxb
    simp only [List.flatMap_cons, List.nodup_append] at hnd
    obtain ⟨_, hys, hdj⟩ := hnd
    simp only [List.mem_cons] at ha hb
    rcases ha with rfl | ha <;> rcases hb with rfl | hb
    · exact hab rfl
    · exact hdj x hxa x (List.mem_flatMap.2 ⟨b, hb, hxb⟩) rfl
    · exact hdj x hxb x (List.mem_flatMap.2 ⟨a, ha, hxa⟩) rfl
    · exact ih hys a ha b hb hab x hxa hxb

theorem flatMap_nodup_mem {α β : Type} (f : α → List β) (l : List α) (h : (l.flatMap f).Nodup) (a : α) (ha : a ∈ l) :
    (f a).Nodup := by
  obtain ⟨l₁, l₂, rfl⟩ := List.append_of_mem ha
  simp only [List.flatMap_append, List.flatMap_cons, List.nodup_append] at h
  exact h.2.1.1

theorem filter_flatMap_sublist {α β : Type} (f : α → List β) (p : α → Bool) (l : List α) :
    ((l.filter p).flatMap f).Sublist (l.flatMap f) := by
  induction l with
  | nil => simp
  | cons y ys ih =>
    simp only [List.filter_cons]
    split
    · simp only [List.flatMap_cons]; exact List.Sublist.append (List.Sublist.refl _) ih
    · simp only [List.flatMap_cons]; exact ih.trans (List.sublist_append_right _ _)

theorem swapRemove0_perm (root : Nat) (rest : List Nat) : (Build.swapRemove0 (root :: rest)).Perm rest := by
  cases rest with
  | nil => exact List.Perm.refl _
  | cons a as =>
    show (((a :: as).getLast?.toList) ++ (a :: as).dropLast).Perm (a :: as)
    have hne : (a :: as) ≠ [] := by simp
    rw [List.getLast?_eq_some_getLast hne]
    have h : (a :: as).dropLast ++ [(a :: as).getLast hne] = a :: as := List.dropLast_concat_getLast hne
    refine (List.perm_append_comm).trans ?_
    show ((a :: as).dropLast ++ [(a :: as).getLast hne]).Perm (a :: as)
    rw [h]

theorem poll_store_nf {st st' : BState} {u : Unit} (h : BuildM.poll st = .ok (u, st')) : st'.store = st.store :=
  NoWrite.poll st u st' h

/-- on a forest `delete_extra_trees` never runs `delete_tree` out of fuel -/
theorem deleteExtraTrees_noFuel_of_forest (c : Cfg) (k : Nat) : ∀ (roots : List Nat) (st : BState),
    DeletableRoots c st.store roots → NoFuelAt (Build.deleteExtraTrees c k roots) st := by
  induction k with
  | zero => intro roots st _; unfold Build.deleteExtraTrees; exact (NoFuelErr.pure _).at st
  | succ k ih =>
    intro roots st hD
    unfold Build.deleteExtraTrees
    refine NoFuelAt.bind (NoFuelErr.poll.at st) (fun u st1 hp => ?_)
    have hs1 : st1.store = st.store := poll_store_nf hp
    cases roots with
    | nil => exact (NoFuelErr.pure _).at st1
    | cons root rest =>
      dsimp only
      obtain ⟨hrn, ts, hnd, hholds, hroots⟩ := hD
      obtain ⟨t0, ht0, href⟩ := hroots root (by simp)
      have ht0nd : t0.ids.Nodup := flatMap_nodup_mem T.ids ts hnd t0 ht0
      obtain ⟨s', hdel, hgone, hframe⟩ := deleteTree_ok_of_holds_nodup c st.store t0 (hholds t0 ht0) ht0nd
      rw [href] at hdel
      apply NoFuelAt.getStore_bind
      rw [hs1]
      refine NoFuelAt.bind ?_ (fun s2 st2 hl => ?_)
      · intro w h
        simp only [BuildM.liftExcept, hdel] at h
        cases h
      · have e2 : s2 = s' ∧ st2 = st1 := by
          simp only [BuildM.liftExcept, hdel, Except.ok.injEq, Prod.mk.injEq] at hl
          exact ⟨hl.1.symm, hl.2.symm⟩
        obtain ⟨rfl, rfl⟩ := e2
        refine NoFuelAt.bind ((NoFuelErr.setStore _).at _) (fun u3 st3 hset => ?_)
        have e3 : st3.store = s2 := by
          simp only [BuildM.setStore, Except.ok.injEq, Prod.mk.injEq] at hset
          rw [← hset.2]
        apply ih
        rw [e3]
        have hperm := swapRemove0_perm root rest
        rw [List.nodup_cons] at hrn
        refine ⟨hperm.nodup_iff.2 hrn.2, ts.filter (fun t => decide (t ≠ t0)), ?_, ?_, ?_⟩
        · exact List.Nodup.sublist (filter_flatMap_sublist _ _ _) hnd
        · intro t ht
          obtain ⟨htm, hne⟩ := List.mem_filter.1 ht
          have hne' : t ≠ t0 := by simpa using hne
          refine (hholds t htm).frame (fun i hi => hframe _ (fun j hj e => ?_))
          have := Cfg.treeKey_inj.1 e
          subst this
          exact flatMap_nodup_disjoint T.ids ts hnd t htm t0 ht0 hne' i hi hj
        · intro r hr
          have hr' : r ∈ rest := hperm.mem_iff.1 hr
          obtain ⟨t, ht, hrf⟩ := hroots r (List.mem_cons_of_mem _ hr')
          refine ⟨t, List.mem_filter.2 ⟨ht, ?_⟩, hrf⟩
          have : t ≠ t0 := by
            rintro rfl
            rw [href] at hrf
            have : root = r := by simpa [NodeId.mkTree] using hrf
            subst this
            exact hrn.1 hr'
          simpa using this

/-! ## the first steps of `build` keep the tree cells and the metadata entry -/

/-- every tree cell and the metadata entry of index `c.index` are the same in both stores -/
def TreeKeep (c : Cfg) (s s' : Store) : Prop :=
  (∀ id, Store.get s' (c.treeKey id) = Store.get s (c.treeKey id)) ∧ Store.get s' c.metaKey = Store.get s c.metaKey

theorem TreeKeep.storeRel (c : Cfg) : StoreRel (TreeKeep c) where
  refl := fun _ => ⟨fun _ => rfl, rfl⟩
  trans := fun h1 h2 => ⟨fun id => (h2.1 id).trans (h1.1 id), h2.2.trans h1.2⟩

theorem TreeKeep.put_item (c : Cfg) (s : Store) (k : Key) (v : Val)
    (hk : isPrefixOf (encodePrefix c.index (some modeItem)) (encodeKey k) = true) : TreeKeep c s (Store.put s k v) := by
  have hm := ((isPrefixOf_kind_all c.index modeItem k).1 hk).2
  refine ⟨fun id => Store.get_put_other _ _ _ _ ?_, Store.get_put_other _ _ _ _ ?_⟩
  · intro e
    rw [← e] at hm
    have hmode : (c.treeKey id).mode = modeTree := rfl
    rw [hmode] at hm
    revert hm; decide
  · intro e
    rw [← e] at hm
    have hmode : c.metaKey.mode = modeMetadata := rfl
    rw [hmode] at hm
    revert hm; decide

theorem TreeKeep.erase_updated (c : Cfg) (s : Store) (id : Nat) : TreeKeep c s (Store.erase s (c.updatedKey id)) := by
  refine ⟨fun i => Store.get_erase_other _ _ _ ?_, Store.get_erase_other _ _ _ ?_⟩
  · intro e
    have : modeTree = modeUpdated := congrArg Key.mode e
    revert this; decide
  · intro e
    have : modeMetadata = modeUpdated := congrArg Key.mode e
    revert this; decide

theorem preProcessItems_treeKeep (c : Cfg) : StorePres (TreeKeep c) (Build.preProcessItems c) := by
  unfold Build.preProcessItems
  refine StorePres.bind (TreeKeep.storeRel c) (StorePres.poll (TreeKeep.storeRel c)) (fun _ => ?_)
  split
  · refine StorePres.modifyStore _ (fun s => ?_)
    apply Build.preprocessDot_inv (fun st => TreeKeep c s st) c s ((TreeKeep.storeRel c).refl s)
    intro st k hdr h v _ hp hst
    exact (TreeKeep.storeRel c).trans hst (TreeKeep.put_item c st k _ hp)
  · exact StorePres.pure (TreeKeep.storeRel c) _

theorem resetUpdated_treeKeep (c : Cfg) : StorePres (TreeKeep c) (Build.resetUpdated c) := by
  have hR := TreeKeep.storeRel c
  unfold Build.resetUpdated
  refine StorePres.bind hR (StorePres.getStore hR) (fun s => ?_)
  refine StorePres.bind hR (StorePres.forEach hR _ _ (fun id => ?_)) (fun _ => StorePres.pure hR _)
  exact StorePres.bind hR (StorePres.poll hR) (fun _ => StorePres.modifyStore _ (fun s => TreeKeep.erase_updated c s id))

theorem TreeKeep.holds {c : Cfg} {s s' : Store} (h : TreeKeep c s s') {t : T} (ht : Holds c s t) : Holds c s' t :=
  ht.frame (fun i _ => h.1 i)

theorem TreeKeep.rootsOf {c : Cfg} {s s' : Store} (h : TreeKeep c s s') : Transp.rootsOf c s' = Transp.rootsOf c s := by
  unfold Transp.rootsOf; rw [h.2]

/-! ## the whole build -/

/-- the metadata roots of the store are pairwise distinct roots of a held forest with distinct node ids -/
def RootsForest (c : Cfg) (s : Store) : Prop := DeletableRoots c s (Transp.rootsOf c s)

theorem DeletableRoots.keep {c : Cfg} {s s' : Store} {roots : List Nat} (h : DeletableRoots c s roots)
    (hk : TreeKeep c s s') : DeletableRoots c s' roots := by
  obtain ⟨h1, ts, h2, h3, h4⟩ := h
  exact ⟨h1, ts, h2, fun t ht => hk.holds (h3 t ht), h4⟩

/-- what `ForestWith` provides -/
theorem deletableRoots_of_forest (c : Cfg) (s : Store) (roots : List Nat) (ts : List T)
    (hrefs : ts.map T.ref = roots.map NodeId.mkTree) (hholds : ∀ t ∈ ts, Holds c s t)
    (hnd : (ts.flatMap T.ids).Nodup) : DeletableRoots c s roots := by
  refine ⟨?_, ts, hnd, hholds, ?_⟩
  · clear hholds
    induction ts generalizing roots with
    | nil =>
      cases roots with
      | nil => exact List.nodup_nil
      | cons r rs => simp at hrefs
    | cons t ts ih =>
      cases roots with
      | nil => simp at hrefs
      | cons r rs =>
        simp only [List.map_cons, List.cons.injEq] at hrefs
        simp only [List.flatMap_cons, List.nodup_append] at hnd
        refine List.nodup_cons.2 ⟨?_, ih rs hrefs.2 hnd.2.1⟩
        intro hr
        have hmem : NodeId.mkTree r ∈ ts.map T.ref := by rw [hrefs.2]; exact List.mem_map_of_mem hr
        obtain ⟨t', ht', hrf'⟩ := List.mem_map.1 hmem
        have h1 := (T.ref_eq_mkTree_of_not_leaf (T.not_leaf_of_ref hrefs.1)).2
        have h2 := (T.ref_eq_mkTree_of_not_leaf (T.not_leaf_of_ref hrf')).2
        rw [hrefs.1] at h1
        rw [hrf'] at h2
        exact hnd.2.2 _ h1 _ (List.mem_flatMap.2 ⟨t', ht', h2⟩) rfl
  · intro root hr
    have hmem : NodeId.mkTree root ∈ ts.map T.ref := by rw [hrefs]; exact List.mem_map_of_mem hr
    obtain ⟨t, ht, hrf⟩ := List.mem_map.1 hmem
    exact ⟨t, ht, hrf⟩

/-- every `.fuel` error of the run from `st` carries a label satisfying `P` -/
def FuelOnlyAt {α : Type} (P : String → Prop) (m : BuildM α) (st : BState) : Prop :=
  ∀ w, m st = .error (.fuel w) → P w

theorem FuelOnlyAt.bind' {α β : Type} {P : String → Prop} {m : BuildM α} {f : α → BuildM β} {st : BState}
    (hm : FuelOnlyAt P m st) (hf : ∀ a st1, m st = .ok (a, st1) → FuelOnlyAt P (f a) st1) :
    FuelOnlyAt P (BuildM.bind' m f) st := by
  intro w h
  cases hms : m st with
  | error e =>
    rw [Transp.bind'_err hms] at h
    injection h with h
    subst h
    exact hm w hms
  | ok r =>
    obtain ⟨a, st1⟩ := r
    rw [Transp.bind'_ok hms] at h
    exact hf a st1 hms w h

theorem FuelOnly.at {α : Type} {P : String → Prop} {m : BuildM α} (h : FuelOnly P m) (st : BState) :
    FuelOnlyAt P m st := h st

theorem NoFuelAt.fuelOnlyAt {α : Type} {m : BuildM α} {st : BState} (h : NoFuelAt m st) (P : String → Prop) :
    FuelOnlyAt P m st := fun w e => (h w e).elim

theorem afterUsed_fuelOnly_of_forest (c : Cfg) (o : BuildOpts) (fuel : Nat) (items updated roots used : List Nat)
    (st : BState) (hD : DeletableRoots c st.store roots) :
    FuelOnlyAt (fun w => w = "incremental_index_large_descendants")
      (Transp.afterUsed c o fuel items updated roots used) st := by
  unfold Transp.afterUsed
  dsimp only
  refine FuelOnlyAt.bind' ((deleteExtraTrees_noFuel_of_forest c _ roots st hD).fuelOnlyAt _) (fun roots1 st1 _ => FuelOnly.at ?_ st1)
  refine FuelOnly.bind ((deleteItemsFromTrees_noFuel _ _ _ _).fuelOnly _) (fun roots2 => ?_)
  refine FuelOnly.bind ((insertItemsInCurrentTrees_noFuel _ _ _ _ _ _ (Nat.lt_succ_self _)).fuelOnly _) (fun x => ?_)
  refine FuelOnly.bind ((newTrees_noFuel _ _ _ _ _ _).fuelOnly _) (fun y => ?_)
  refine FuelOnly.bind (incrementalIndexLargeDescendants_fuelOnly _ _ _ _ _) (fun _ => ?_)
  exact (writeMetadata_noFuel _ _ _).fuelOnly _

/-- **`build` on a forest**: the only fuel that can be reported exhausted is the budget of the re-split loop -/
theorem build_fuelOnly_of_forest (c : Cfg) (o : BuildOpts) (loopFuel : Nat) (st : BState)
    (hF : RootsForest c st.store) (w : String) (h : Build.build c o loopFuel st = .error (.fuel w)) :
    w = "incremental_index_large_descendants" := by
  have hR := TreeKeep.storeRel c
  revert w h
  show FuelOnlyAt (fun w => w = "incremental_index_large_descendants") (Build.build c o loopFuel) st
  rw [Transp.build_eq]
  refine FuelOnlyAt.bind' (((preProcessItems_noFuel c).at st).fuelOnlyAt _) (fun _ st1 h1 => ?_)
  have k1 : TreeKeep c st.store st1.store := preProcessItems_treeKeep c st _ st1 h1
  refine FuelOnlyAt.bind' (((itemIndices_noFuel c).at st1).fuelOnlyAt _) (fun items st2 h2 => ?_)
  have k2 : st2.store = st1.store := Build.itemIndices_noWrite c st1 items st2 h2
  refine FuelOnlyAt.bind' (((resetUpdated_noFuel c).at st2).fuelOnlyAt _) (fun updated st3 h3 => ?_)
  have k3 : TreeKeep c st2.store st3.store := resetUpdated_treeKeep c st2 _ st3 h3
  have k : TreeKeep c st.store st3.store := by
    rw [k2] at k3
    exact hR.trans k1 k3
  split
  · exact ((singleLeaf_noFuel c items).at st3).fuelOnlyAt _
  · refine FuelOnlyAt.bind' ((NoFuelErr.getStore.at st3).fuelOnlyAt _) (fun s st4 h4 => ?_)
    have e4 : s = st3.store ∧ st4 = st3 := by
      simp only [BuildM.getStore, Except.ok.injEq, Prod.mk.injEq] at h4
      exact ⟨h4.1.symm, h4.2.symm⟩
    obtain ⟨rfl, rfl⟩ := e4
    refine FuelOnlyAt.bind' (((NoFuelErr.usedTreeNode c).at _).fuelOnlyAt _) (fun used st5 h5 => ?_)
    have k5 : st5.store = st4.store := NoWrite.usedTreeNode c st4 used st5 h5
    apply afterUsed_fuelOnly_of_forest
    rw [k5, k.rootsOf]
    exact hF.keep k

end Arroy
