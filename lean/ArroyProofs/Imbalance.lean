import ArroyProofs.SoftFloatRange
import ArroyProofs.SoftFloatSymm
import ArroyModel.Tree
/-! `split_imbalance` (binary64) when one side is empty: for `1 ≤ n < 2^53`, `splitImbalance n 0` and
`splitImbalance 0 n` exceed 0.99, so an empty side always triggers the random split of `make_tree_in_file`.
Core Lean only; the soft-float operations are evaluated symbolically on normalised values. -/
namespace Arroy.SF

theorem f64_consts : f64.p = 53 ∧ f64.bias = 1023 ∧ f64.emaxField = 2047 ∧ f64.qmin = -1074 ∧ f64.width = 64 := by
  decide

/-- the bits of the positive normal number `M · 2^E` (`2^52 ≤ M < 2^53`) -/
def norm64 (M : Nat) (E : Int) : Nat := (E + 1075).toNat * 2^52 + (M - 2^52)

theorem unpack_norm64 (M : Nat) (E : Int) (hM1 : 2^52 ≤ M) (hM2 : M < 2^53) (hE1 : -1074 ≤ E) (hE2 : E ≤ 971) :
    unpack f64 (norm64 M E) = .fin false M E := by
  unfold norm64
  obtain ⟨ex, hex⟩ : ∃ ex : Nat, (E + 1075).toNat = ex := ⟨_, rfl⟩
  have hexE : (ex : Int) = E + 1075 := by omega
  have h1 : 1 ≤ ex := by omega
  have h2 : ex ≤ 2046 := by omega
  rw [hex]
  have hf : M - 2^52 < 2^52 := by omega
  generalize hfr : M - 2^52 = frac at *
  have hb1 : (ex * 2^52 + frac) % 2^52 = frac := by
    rw [Nat.mul_comm, Nat.mul_add_mod]; exact Nat.mod_eq_of_lt hf
  have hb2 : (ex * 2^52 + frac) / 2^52 = ex := by
    rw [Nat.mul_comm, Nat.mul_add_div (Nat.two_pow_pos _), Nat.div_eq_of_lt hf, Nat.add_zero]
  have hb3 : (ex * 2^52 + frac) / 2^63 = 0 := by
    apply Nat.div_eq_of_lt
    have : ex * 2^52 ≤ 2046 * 2^52 := Nat.mul_le_mul_right _ h2
    omega
  have hb4 : ex % 2^11 = ex := Nat.mod_eq_of_lt (by omega)
  unfold unpack
  simp only [f64, Fmt.emaxField, Fmt.qmin, Fmt.bias, Fmt.width, Nat.reduceSub, Nat.reduceAdd, hb1, hb2, hb3, hb4]
  have e1 : (ex == 2 ^ 11 - 1) = false := by simp; omega
  have e2 : (ex == 0) = false := by simp; omega
  simp only [e1, e2, Bool.false_eq_true, if_false]
  have e3 : ((0 : Nat) % 2 == 1) = false := by decide
  simp only [e3]
  have c1 : ((2 ^ 10 - 1 : Nat) : Int) = 1023 := by decide
  have c2 : ((53 : Nat) : Int) = 53 := rfl
  rw [c1, c2]
  have hm : frac + 2 ^ 52 = M := by omega
  have he : (ex : Int) - 1023 - (53 - 1) = E := by omega
  rw [hm, he]

theorem bitLen_eq_of_bounds {m L : Nat} (hL : 0 < L) (h1 : 2^(L-1) ≤ m) (h2 : m < 2^L) : bitLen m = L := by
  have hm : 0 < m := Nat.lt_of_lt_of_le (Nat.two_pow_pos _) h1
  obtain ⟨b0, b1, b2⟩ := bitLen_bounds hm
  rcases Nat.lt_trichotomy (bitLen m) L with h | h | h
  · exfalso
    have : 2^(bitLen m) ≤ 2^(L-1) := Nat.pow_le_pow_right (by omega) (by omega)
    omega
  · exact h
  · exfalso
    have : 2^L ≤ 2^(bitLen m - 1) := Nat.pow_le_pow_right (by omega) (by omega)
    omega

theorem finish_norm64 (M : Nat) (q : Int) (hM1 : 2^52 ≤ M) (hq1 : -1074 ≤ q) (hq2 : q ≤ 971) :
    finish f64 false M q = norm64 M q := by
  unfold finish norm64 packBits
  simp only [f64, Fmt.emaxField, Fmt.bias, Nat.reduceSub]
  have c1 : ((2 ^ 10 - 1 : Nat) : Int) = 1023 := by decide
  have c2 : ((2 ^ 11 - 1 : Nat) : Int) = 2047 := by decide
  have c3 : ((53 : Nat) : Int) = 53 := rfl
  simp only [c1, c2, c3]
  have h1 : ¬ M < 2^52 := by omega
  have h2 : ¬ (q + 1075 ≥ 2047) := by omega
  have h3 : q + 1023 + (53 - 1) = q + 1075 := by omega
  simp only [if_neg h1, h3, if_neg h2, Bool.false_eq_true, if_false, Nat.zero_add]

/-- rounding down: `M · 2^s + d` with the discarded part `d` below one half of the last kept bit (or a tie
    with `M` even) rounds to `M`, and `M · 2^(e+s)` is representable -/
theorem roundPack_down (M s d : Nat) (e : Int) (hM1 : 2^52 ≤ M) (hM2 : M < 2^53) (hd : d < 2^s)
    (hdown : s = 0 ∨ d < 2^(s-1) ∨ (d = 2^(s-1) ∧ M % 2 = 0))
    (hE1 : -1074 ≤ e + s) (hE2 : e + s ≤ 971) :
    roundPack f64 false (M * 2^s + d) e false = norm64 M (e + s) := by
  have hP : 0 < 2^s := Nat.two_pow_pos s
  have hlo : 2^(53 + s - 1) ≤ M * 2^s + d := by
    have : 2^(53 + s - 1) = 2^52 * 2^s := by rw [← Nat.pow_add]; congr 1; omega
    rw [this]
    exact Nat.le_trans (Nat.mul_le_mul_right _ hM1) (Nat.le_add_right _ _)
  have hhi : M * 2^s + d < 2^(53 + s) := by
    have : 2^(53 + s) = 2^53 * 2^s := by rw [← Nat.pow_add]
    rw [this]
    have : (M + 1) * 2^s ≤ 2^53 * 2^s := Nat.mul_le_mul_right _ hM2
    rw [Nat.add_mul, Nat.one_mul] at this
    omega
  have hbl : bitLen (M * 2^s + d) = 53 + s := bitLen_eq_of_bounds (by omega) hlo hhi
  have hm0 : ((M * 2^s + d == 0) && !false) = false := by
    have : M * 2^s + d ≠ 0 := by
      have := Nat.two_pow_pos (53 + s - 1)
      omega
    have hb : (M * 2^s + d == 0) = false := by rw [beq_eq_false_iff_ne]; exact this
    rw [hb]; rfl
  have hq : qOf f64 (M * 2^s + d) e = e + s := by
    unfold qOf
    rw [hbl, f64_consts.1, f64_consts.2.2.2.1]
    have : e + ((53 + s : Nat) : Int) - ((53 : Nat) : Int) = e + s := by omega
    rw [this]
    omega
  have hdiv : (M * 2^s + d) / 2^s = M := by
    rw [Nat.mul_comm, Nat.mul_add_div hP, Nat.div_eq_of_lt hd, Nat.add_zero]
  have hmod : (M * 2^s + d) % 2^s = d := by
    rw [Nat.mul_comm, Nat.mul_add_mod]; exact Nat.mod_eq_of_lt hd
  rw [roundPack_eq f64 false _ e false hm0, hq]
  have hsub : e + (s : Int) - e = s := by omega
  rw [hsub]
  by_cases hs : s = 0
  · subst hs
    have hd0 : d = 0 := by simpa using hd
    subst hd0
    simp only [Int.natCast_zero, Int.le_refl, if_true, Int.natAbs_zero, Nat.pow_zero, Nat.mul_one, Nat.add_zero,
      Int.add_zero]
    exact finish_norm64 M e hM1 (by simpa using hE1) (by simpa using hE2)
  · have hpos : ¬ ((s : Int) ≤ 0) := by omega
    rw [if_neg hpos, Int.toNat_natCast]
    have hrm : roundMant (M * 2^s + d) s false = M := by
      unfold roundMant
      rw [hdiv, hmod]
      have hcond : (decide (d > 2^(s-1)) || (d == 2^(s-1) && (false || M % 2 == 1))) = false := by
        rcases hdown with h | h | ⟨h1, h2⟩
        · exact absurd h hs
        · have h1 : ¬ d > 2^(s-1) := by omega
          have h2 : (d == 2^(s-1)) = false := by simp; omega
          simp [h1, h2]
        · have h3 : ¬ d > 2^(s-1) := by omega
          have h4 : (M % 2 == 1) = false := by simp [h2]
          simp [h3, h4]
      rw [hcond]
      simp
    rw [hrm]
    have hne : (M == 2 ^ f64.p) = false := by
      rw [f64_consts.1]; simp; omega
    rw [hne]
    simp only [Bool.false_eq_true, if_false]
    exact finish_norm64 M (e + s) hM1 hE1 hE2

/-- `n as f64` for `1 ≤ n < 2^53` is exact: the normalised `n · 2^(53-L) · 2^(L-53)` -/
theorem ofNat64_small (n : Nat) (h0 : 0 < n) (hn : n < 2^53) :
    SF.ofNat f64 n = norm64 (n * 2^(53 - bitLen n)) ((bitLen n : Int) - 53) ∧
    2^52 ≤ n * 2^(53 - bitLen n) ∧ n * 2^(53 - bitLen n) < 2^53 ∧ 1 ≤ bitLen n ∧ bitLen n ≤ 53 := by
  obtain ⟨hL1, hlo, hhi⟩ := bitLen_bounds h0
  have hL53 : bitLen n ≤ 53 := by
    rcases Nat.lt_or_ge 53 (bitLen n) with h | h
    · exfalso
      have : 2^53 ≤ 2^(bitLen n - 1) := Nat.pow_le_pow_right (by omega) (by omega)
      omega
    · exact h
  generalize bitLen n = L at *
  have e1 : 2 ^ (L - 1) * 2 ^ (53 - L) = 2 ^ 52 := by rw [← Nat.pow_add]; congr 1; omega
  have e2 : 2 ^ L * 2 ^ (53 - L) = 2 ^ 53 := by rw [← Nat.pow_add]; congr 1; omega
  have hm1 : 2 ^ 52 ≤ n * 2 ^ (53 - L) := by rw [← e1]; exact Nat.mul_le_mul_right _ hlo
  have hm2 : n * 2 ^ (53 - L) < 2 ^ 53 := by rw [← e2]; exact Nat.mul_lt_mul_of_pos_right hhi (Nat.two_pow_pos _)
  refine ⟨?_, hm1, hm2, hL1, hL53⟩
  have hb : bitLen n = L := bitLen_eq_of_bounds (by omega) hlo hhi
  have hm0 : ((n == 0) && !false) = false := by
    have hb : (n == 0) = false := by rw [beq_eq_false_iff_ne]; omega
    rw [hb]; rfl
  have hq : qOf f64 n 0 = (L : Int) - 53 := by
    unfold qOf
    rw [hb, f64_consts.1, f64_consts.2.2.2.1]
    have : (0 : Int) + (L : Int) - ((53 : Nat) : Int) = (L : Int) - 53 := by omega
    rw [this]
    omega
  unfold SF.ofNat
  rw [roundPack_eq f64 false n 0 false hm0, hq]
  have hle : (L : Int) - 53 - 0 ≤ 0 := by omega
  have hna : ((L : Int) - 53 - 0).natAbs = 53 - L := by omega
  rw [if_pos hle, hna]
  exact finish_norm64 _ _ hm1 (by omega) (by omega)

theorem unpack64_zero : unpack f64 0 = .fin false 0 (-1074) := by
  simp [unpack, f64, Fmt.width, Fmt.emaxField, Fmt.qmin, Fmt.bias]

theorem unpack64_epsilon : unpack f64 F64.epsilon = .fin false (2^52) (-104) := by
  simp [unpack, F64.epsilon, f64, Fmt.width, Fmt.emaxField, Fmt.bias]

/-- exact sum of two non-negative values -/
theorem exactAdd_pos (m1 : Nat) (e1 : Int) (m2 : Nat) (e2 : Int) :
    exactAdd false m1 e1 false m2 e2 =
      (false, m1 * 2^((e1 - Min.min e1 e2).toNat) + m2 * 2^((e2 - Min.min e1 e2).toNat), Min.min e1 e2) := by
  unfold exactAdd
  simp only [Bool.false_eq_true, if_false]
  generalize m1 * 2^((e1 - Min.min e1 e2).toNat) = a
  generalize m2 * 2^((e2 - Min.min e1 e2).toNat) = b
  have h1 : ¬ ((a : Int) + (b : Int) < 0) := by omega
  have h2 : ((a : Int) + (b : Int)).natAbs = a + b := by omega
  simp [h1, h2]

/-- `x + 0 = x` for a positive normal `x` -/
theorem add64_zero (M : Nat) (E : Int) (hM1 : 2^52 ≤ M) (hM2 : M < 2^53) (hE1 : -1074 ≤ E) (hE2 : E ≤ 971) :
    SF.add f64 (norm64 M E) 0 = norm64 M E := by
  unfold SF.add
  rw [unpack_norm64 M E hM1 hM2 hE1 hE2, unpack64_zero]
  simp only [addV, exactAdd_pos]
  have hmin : Min.min E (-1074) = -1074 := by omega
  rw [hmin]
  have hz : (-1074 - -1074 : Int).toNat = 0 := by omega
  rw [hz]
  simp only [Nat.zero_mul, Nat.add_zero]
  have hpos : 0 < M * 2 ^ (E - -1074).toNat := Nat.mul_pos (by omega) (Nat.two_pow_pos _)
  have hb : (M * 2 ^ (E - -1074).toNat == 0) = false := by rw [beq_eq_false_iff_ne]; omega
  simp only [hb, Bool.false_eq_true, if_false]
  have := roundPack_down M (E - -1074).toNat 0 (-1074) hM1 hM2 (Nat.two_pow_pos _)
    (by
      by_cases h : (E - -1074).toNat = 0
      · exact Or.inl h
      · exact Or.inr (Or.inl (Nat.two_pow_pos _)))
    (by omega) (by omega)
  rw [Nat.add_zero] at this
  rw [this]
  congr 1
  omega

/-- `x + ε = x` for a normal `x ≥ 2` (a tie at `x ∈ [2, 4)` goes to the even mantissa) -/
theorem add64_epsilon (M : Nat) (E : Int) (hM1 : 2^52 ≤ M) (hM2 : M < 2^53) (hE1 : -51 ≤ E) (hE2 : E ≤ 971)
    (heven : E = -51 → M % 2 = 0) :
    SF.add f64 (norm64 M E) F64.epsilon = norm64 M E := by
  unfold SF.add
  rw [unpack_norm64 M E hM1 hM2 (by omega) hE2, unpack64_epsilon]
  simp only [addV, exactAdd_pos]
  have hmin : Min.min E (-104) = -104 := by omega
  rw [hmin]
  have hz : (-104 - -104 : Int).toNat = 0 := by omega
  rw [hz]
  simp only [Nat.pow_zero, Nat.mul_one]
  obtain ⟨s, hs⟩ : ∃ s : Nat, (E - -104).toNat = s := ⟨_, rfl⟩
  rw [hs]
  have hsE : (s : Int) = E + 104 := by omega
  have hs53 : 53 ≤ s := by omega
  have hpos : 0 < M * 2 ^ s + 2^52 := by have := Nat.two_pow_pos 52; omega
  have hb : (M * 2 ^ s + 2^52 == 0) = false := by rw [beq_eq_false_iff_ne]; omega
  simp only [hb, Bool.false_eq_true, if_false]
  have hd : 2^52 < 2^s := Nat.pow_lt_pow_right (by omega) (by omega)
  have := roundPack_down M s (2^52) (-104) hM1 hM2 hd
    (by
      right
      by_cases h : s = 53
      · right
        subst h
        exact ⟨rfl, heven (by omega)⟩
      · left
        exact Nat.pow_lt_pow_right (by omega) (by omega))
    (by omega) (by omega)
  rw [this]
  congr 1
  omega


theorem div_fin (f : Fmt) (a b : Nat) (s t : Bool) (m1 m2 : Nat) (e1 e2 : Int)
    (ha : unpack f a = .fin s m1 e1) (hb : unpack f b = .fin t m2 e2) (h1 : (m1 == 0) = false) (h2 : (m2 == 0) = false) :
    SF.div f a b = roundPack f (s != t) (m1 * 2^(f.p + 3 + bitLen m2) / m2)
      (e1 - e2 - ((f.p + 3 + bitLen m2 : Nat) : Int)) (m1 * 2^(f.p + 3 + bitLen m2) % m2 != 0) := by
  unfold SF.div
  rw [ha, hb]
  simp only [h1, h2, Bool.false_eq_true, if_false]

theorem div_zero_fin (f : Fmt) (a b : Nat) (s t : Bool) (m2 : Nat) (e1 e2 : Int)
    (ha : unpack f a = .fin s 0 e1) (hb : unpack f b = .fin t m2 e2) (h2 : (m2 == 0) = false) :
    SF.div f a b = packBits f (s != t) 0 0 := by
  unfold SF.div
  rw [ha, hb]
  simp only [h2, Bool.false_eq_true, if_false, beq_self_eq_true, if_true]

/-- `x / x = 1` for a positive normal `x` -/
theorem div64_self (M : Nat) (E : Int) (hM1 : 2^52 ≤ M) (hM2 : M < 2^53) (hE1 : -1074 ≤ E) (hE2 : E ≤ 971) :
    SF.div f64 (norm64 M E) (norm64 M E) = F64.one := by
  have hM0 : (M == 0) = false := by rw [beq_eq_false_iff_ne]; omega
  have hu := unpack_norm64 M E hM1 hM2 hE1 hE2
  rw [div_fin f64 _ _ false false M M E E hu hu hM0 hM0]
  have hbl : bitLen M = 53 := bitLen_eq_of_bounds (by omega) hM1 hM2
  rw [hbl, f64_consts.1]
  have hMpos : 0 < M := by omega
  have hdiv : M * 2 ^ (53 + 3 + 53) / M = 2^52 * 2^57 + 0 := by
    rw [Nat.mul_div_cancel_left _ hMpos, Nat.add_zero, ← Nat.pow_add]
  have hmod : M * 2 ^ (53 + 3 + 53) % M = 0 := Nat.mul_mod_right _ _
  have hee : E - E - ((53 + 3 + 53 : Nat) : Int) = -109 := by omega
  rw [hdiv, hmod, hee]
  have hst : ((0 : Nat) != 0) = false := by decide
  have hbb : (false != false) = false := rfl
  rw [hst, hbb]
  rw [roundPack_down (2^52) 57 0 (-109) (Nat.le_refl _) (Nat.pow_lt_pow_right (by omega) (by omega))
    (Nat.two_pow_pos _) (Or.inr (Or.inl (Nat.two_pow_pos _))) (by omega) (by omega)]
  decide

/-- `0 / x = 0` for a positive normal `x` -/
theorem div64_zero (M : Nat) (E : Int) (hM1 : 2^52 ≤ M) (hM2 : M < 2^53) (hE1 : -1074 ≤ E) (hE2 : E ≤ 971) :
    SF.div f64 0 (norm64 M E) = 0 := by
  have hM0 : (M == 0) = false := by rw [beq_eq_false_iff_ne]; omega
  rw [div_zero_fin f64 _ _ false false M _ _ unpack64_zero (unpack_norm64 M E hM1 hM2 hE1 hE2) hM0]
  rfl

end Arroy.SF

namespace Arroy
open SF

/-- the shape of `n as f64` used below -/
theorem F64.ofNat_norm (n : Nat) (h2 : 2 ≤ n) (hn : n < 2^53) :
    ∃ M E, F64.ofNat n = norm64 M E ∧ 2^52 ≤ M ∧ M < 2^53 ∧ -51 ≤ E ∧ E ≤ 0 ∧ (E = -51 → M % 2 = 0) := by
  obtain ⟨h1, h3, h4, h5, h6⟩ := ofNat64_small n (by omega) hn
  have hL2 : 2 ≤ bitLen n := by
    rcases Nat.lt_or_ge (bitLen n) 2 with h | h
    · exfalso
      have hb := (bitLen_bounds (m := n) (by omega)).2.2
      have : 2^(bitLen n) ≤ 2^1 := Nat.pow_le_pow_right (by omega) (by omega)
      omega
    · exact h
  refine ⟨_, _, h1, h3, h4, by omega, by omega, ?_⟩
  intro hE
  have hL : bitLen n = 2 := by omega
  rw [hL]
  have : (2 : Nat)^(53 - 2) = 2^50 * 2 := by rw [← Nat.pow_succ]
  rw [this, ← Nat.mul_assoc]
  exact Nat.mul_mod_left _ _

theorem F64.ofNat_zero : F64.ofNat 0 = 0 := by decide

/-- for `2 ≤ n < 2^53`: `n / (n + 0 + ε)` is exactly one -/
theorem splitImbalance_left (n : Nat) (h2 : 2 ≤ n) (hn : n < 2^53) :
    splitImbalance n 0 = F64.max F64.one (F64.sub F64.one F64.one) := by
  obtain ⟨M, E, hx, hM1, hM2, hE1, hE2, hev⟩ := F64.ofNat_norm n h2 hn
  unfold splitImbalance
  simp only [F64.ofNat_zero, hx]
  show F64.max (SF.div f64 (norm64 M E) (SF.add f64 (SF.add f64 (norm64 M E) 0) F64.epsilon))
      (F64.sub F64.one (SF.div f64 (norm64 M E) (SF.add f64 (SF.add f64 (norm64 M E) 0) F64.epsilon))) = _
  rw [add64_zero M E hM1 hM2 (by omega) (by omega), add64_epsilon M E hM1 hM2 hE1 (by omega) hev,
    div64_self M E hM1 hM2 (by omega) (by omega)]

/-- for `2 ≤ n < 2^53`: `0 / (0 + n + ε)` is exactly zero -/
theorem splitImbalance_right (n : Nat) (h2 : 2 ≤ n) (hn : n < 2^53) :
    splitImbalance 0 n = F64.max 0 (F64.sub F64.one 0) := by
  obtain ⟨M, E, hx, hM1, hM2, hE1, hE2, hev⟩ := F64.ofNat_norm n h2 hn
  unfold splitImbalance
  simp only [F64.ofNat_zero, hx]
  show F64.max (SF.div f64 0 (SF.add f64 (SF.add f64 0 (norm64 M E)) F64.epsilon))
      (F64.sub F64.one (SF.div f64 0 (SF.add f64 (SF.add f64 0 (norm64 M E)) F64.epsilon))) = _
  rw [SF.add_comm f64 0 (norm64 M E), add64_zero M E hM1 hM2 (by omega) (by omega),
    add64_epsilon M E hM1 hM2 hE1 (by omega) hev, div64_zero M E hM1 hM2 (by omega) (by omega)]

/-- **an empty side always triggers the random split**: for `1 ≤ n < 2^53` the imbalance of `(n, 0)` and of
    `(0, n)` is above `imbalanceRandom = 0.99` (it is exactly 1.0, or 1 - 2^-52 for `n = 1`), and not below
    `imbalanceRetry = 0.95` -/
theorem splitImbalance_empty_side (n : Nat) (h1 : 1 ≤ n) (hn : n < 2^53) :
    F64.gt (splitImbalance n 0) (F64.ofRat Generated.imbalanceRandom) = true ∧
    F64.gt (splitImbalance 0 n) (F64.ofRat Generated.imbalanceRandom) = true ∧
    F64.lt (splitImbalance n 0) (F64.ofRat Generated.imbalanceRetry) = false ∧
    F64.lt (splitImbalance 0 n) (F64.ofRat Generated.imbalanceRetry) = false := by
  by_cases h : n = 1
  · subst h
    decide +kernel
  · rw [splitImbalance_left n (by omega) hn, splitImbalance_right n (by omega) hn]
    decide +kernel

/-! ## comparisons with a NaN are false -/

theorem F32.lt_nan_left {a b : Nat} (h : F32.isNaN a = true) : F32.lt a b = false := by
  unfold F32.isNaN SF.isNaN at h
  unfold F32.lt SF.lt
  split at h
  · rename_i hu; rw [hu]; rfl
  · cases h

theorem F32.lt_nan_right {a b : Nat} (h : F32.isNaN b = true) : F32.lt a b = false := by
  unfold F32.isNaN SF.isNaN at h
  unfold F32.lt SF.lt
  split at h
  · rename_i hu
    rw [hu]
    cases SF.unpack F32.fmt a <;> rfl
  · cases h


end Arroy
