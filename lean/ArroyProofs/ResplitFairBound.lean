import ArroyProofs.ResplitFairBuild
/-! An a-priori bound for the measure of the queue of the re-split loop.

* `forest_loopMeasure_le`: in a store holding a forest, the measure `Σ (size - 1)` of a duplicate-free queue is at
  most `(number of trees) * (number of items - 1)`: a queued id with a non-zero size is a bucket of one of the
  trees, the bucket ids of the forest are distinct, and the buckets of one tree hold at most its items.
* `buildPrefix_spec_ext`: `buildPrefix_spec` with what it leaves out: the items are the stored items of the input,
  the number of roots at loop entry is `Build.targetNTrees`, and the queue is sorted. -/
namespace Arroy
open BuildM Generated IdSet Transp

/-! ## sums over duplicate-free lists -/

/-- a sum over a duplicate-free list whose non-zero terms come from `m` is at most the sum over `m` -/
theorem sum_map_le_of_support (f : Nat → Nat) :
    ∀ (l m : List Nat), l.Nodup → (∀ i ∈ l, f i ≠ 0 → i ∈ m) → (l.map f).sum ≤ (m.map f).sum
  | [], m, _, _ => by simp
  | x :: l, m, hnd, hsup => by
    have hnd' := List.nodup_cons.1 hnd
    simp only [List.map_cons, List.sum_cons]
    by_cases hx : f x = 0
    · have := sum_map_le_of_support f l m hnd'.2 (fun i hi => hsup i (List.mem_cons_of_mem _ hi))
      omega
    · have hxm : x ∈ m := hsup x List.mem_cons_self hx
      have hp : (m.map f).sum = f x + ((m.erase x).map f).sum := by
        have := ((List.perm_cons_erase hxm).map f).sum_nat
        simpa using this
      have := sum_map_le_of_support f l (m.erase x) hnd'.2 (fun i hi hfi => by
        have him := hsup i (List.mem_cons_of_mem _ hi) hfi
        have hne : i ≠ x := fun e => hnd'.1 (e ▸ hi)
        exact (List.mem_erase_of_ne hne).2 him)
      omega

/-! ## the buckets of a forest -/

/-- a node id of a held tree whose store entry is a descendants node is one of its buckets -/
theorem holds_desc_bucket {c : Cfg} {s : Store} {t : T} (hh : Holds c s t) {i : Nat} {ids : List Nat}
    (hi : i ∈ t.ids) (hget : Store.get s (c.treeKey i) = some (.desc ids)) : (i, ids) ∈ t.buckets := by
  induction t with
  | leaf j => simp [T.ids] at hi
  | bucket id s0 =>
    simp only [T.ids, List.mem_singleton] at hi
    subst hi
    have := hh.bucket
    rw [hget] at this
    simp only [Option.some.injEq, Val.desc.injEq] at this
    subst this
    simp [T.buckets]
  | node id n l r ihl ihr =>
    simp only [T.ids, List.mem_cons, List.mem_append] at hi
    simp only [T.buckets, List.mem_append]
    rcases hi with rfl | hi | hi
    · have := hh.root
      rw [hget] at this
      cases this
    · exact Or.inl (ihl hh.left hi)
    · exact Or.inr (ihr hh.right hi)

/-- the sizes read in the store at the bucket ids of a held tree are the lengths of its buckets -/
theorem holds_sum_buckets {c : Cfg} {s : Store} {t : T} (hh : Holds c s t) :
    ((t.buckets.map (·.1)).map (fun i => bucketSize c s i - 1)).sum = (t.buckets.map (fun p => p.2.length - 1)).sum := by
  rw [List.map_map]
  congr 1
  apply List.map_congr_left
  intro p hp
  simp only [Function.comp, bucketSize, holds_bucket hh hp]

theorem sum_flatMap_le_mul {α : Type} (f : α → List Nat) (k : Nat) :
    ∀ (l : List α), (∀ a ∈ l, (f a).sum ≤ k) → (l.flatMap f).sum ≤ l.length * k
  | [], _ => by simp
  | a :: l, h => by
    have h1 := h a List.mem_cons_self
    have h2 := sum_flatMap_le_mul f k l (fun b hb => h b (List.mem_cons_of_mem _ hb))
    simp only [List.flatMap_cons, List.sum_append, List.length_cons, Nat.add_mul, Nat.one_mul]
    omega

/-- **the measure of a duplicate-free queue in a forest** is at most `trees * (items - 1)` -/
theorem forest_loopMeasure_le {c : Cfg} {s : Store} {roots items : List Nat} {ts : List T}
    (f : Forest c s roots items ts) (hitems : items.Nodup) (large : List Nat) (hl : large.Nodup) :
    loopMeasure c s large ≤ roots.length * (items.length - 1) := by
  -- the bucket ids of the forest
  have h1 : loopMeasure c s large ≤
      ((ts.flatMap (fun t => t.buckets.map (·.1))).map (fun i => bucketSize c s i - 1)).sum := by
    apply sum_map_le_of_support _ _ _ hl
    intro i _ hne
    have hb : bucketSize c s i ≠ 0 := by omega
    unfold bucketSize at hb
    split at hb
    · rename_i ids hget
      have hsome : (Store.get s (c.treeKey i)).isSome = true := by rw [hget]; rfl
      obtain ⟨t, ht, hit⟩ := List.mem_flatMap.1 ((f.cover i).1 hsome)
      exact List.mem_flatMap.2 ⟨t, ht, List.mem_map.2 ⟨(i, ids), holds_desc_bucket (f.holds t ht) hit hget, rfl⟩⟩
    · exact absurd rfl hb
  -- tree by tree
  have h2 : ((ts.flatMap (fun t => t.buckets.map (·.1))).map (fun i => bucketSize c s i - 1)).sum ≤
      ts.length * (items.length - 1) := by
    rw [List.map_flatMap]
    apply sum_flatMap_le_mul
    intro t ht
    rw [holds_sum_buckets (f.holds t ht)]
    have hlen : t.items.length = items.length :=
      ((List.perm_ext_iff_of_nodup (f.items_nodup t ht) hitems).2 (f.reach t ht)).length_eq
    rw [← hlen]
    exact T.sum_buckets_le t
  rw [← f.length]
  exact Nat.le_trans h1 h2

/-! ## the state at loop entry: number of roots, sorted queue, the stored items -/

/-- `newTrees` keeps the queue sorted -/
theorem newTrees_sorted (c : Cfg) (items : List Nat) (k : Nat) :
    ∀ (roots large roots' large' : List Nat) (g g' : IdGen) (st st' : BState),
    Build.newTrees c items k roots large g st = .ok ((roots', large', g'), st') → Sorted large → Sorted large' := by
  induction k with
  | zero =>
    intro roots large roots' large' g g' st st' h hs
    simp only [Build.newTrees] at h
    obtain ⟨e1, rfl⟩ := pure_ok' h
    simp only [Prod.mk.injEq] at e1
    obtain ⟨rfl, rfl, rfl⟩ := e1
    exact hs
  | succ k ih =>
    intro roots large roots' large' g g' st st' h hs
    simp only [Build.newTrees] at h
    obtain ⟨x, st1, h1, k1⟩ := bind_ok_inv h
    clear h
    obtain ⟨id, g1⟩ := x
    simp only at k1
    obtain ⟨u2, st2, h2, k2⟩ := bind_ok_inv k1
    clear k1
    exact ih _ _ _ _ _ _ _ _ k2 (sorted_insert hs)

/-- `afterUsedPrefix_spec`, with the number of roots and the sortedness of the queue -/
theorem afterUsedPrefix_spec_ext (c : Cfg) (o : BuildOpts) (items updated roots used items0 : List Nat)
    (ts0 : List T) (st st' : BState) (roots' large : List Nat) (g : IdGen) (hi : c.index < 65536)
    (hcap : 1 ≤ Build.cap c o) (hw : Store.WF st.store)
    (f0 : Forest c st.store roots items0 ts0)
    (hitems : Sorted items) (hupd : Sorted updated)
    (hrel : ∀ x, x ∉ updated → (x ∈ items0 ↔ x ∈ items))
    (hused : ∀ i, (Store.get st.store (c.treeKey i)).isSome = true → i ∈ used)
    (hg : GenOK used (IdGen.new used))
    (h : afterUsedPrefix c o items updated roots used st = .ok ((roots', large, g), st')) :
    ∃ (ts' : List T) (inUse : List Nat),
      Forest c st'.store roots' items ts' ∧ (∀ i ∈ ts'.flatMap T.ids, i ∈ inUse) ∧ GenOK inUse g ∧
      Store.WF st'.store ∧ (∀ i ∈ large, i ∈ inUse) ∧
      roots'.length = Build.targetNTrees o c.dims items.length roots.length ∧ Sorted large := by
  obtain ⟨ts', inUse, a1, a2, a3, a4, a5⟩ :=
    afterUsedPrefix_spec c o items updated roots used items0 ts0 st st' roots' large g hi hcap hw f0 hitems hupd hrel
      hused hg h
  refine ⟨ts', inUse, a1, a2, a3, a4, a5, ?_⟩
  unfold afterUsedPrefix at h
  -- 1. delete the extra trees
  obtain ⟨roots1, st1, h1, k1⟩ := bind_ok_inv h
  clear h
  obtain ⟨ts1, f1, sub1, step1, frame1, len1⟩ := deleteExtraTrees_spec c items0 _ roots ts0 st st1 roots1 f0 h1
  have hw1 := step1.wf hw
  have hin1 : ∀ i ∈ ts1.flatMap T.ids, i ∈ used := by
    intro i hi'
    obtain ⟨t, ht, hit⟩ := List.mem_flatMap.1 hi'
    exact hused i ((f0.holds t (sub1 t ht)).isSome hit)
  -- 2. delete the updated items
  obtain ⟨roots2, st2, h2, k2⟩ := bind_ok_inv k1
  clear k1
  obtain ⟨ts2, f2, sub2, step2, frame2, len2, some2⟩ :=
    deleteItemsFromTrees_forest c o roots1 items0 (IdSet.diff items updated) updated ts1 f1 hcap hupd
      (by
        intro x
        rw [mem_diff hitems hupd]
        constructor
        · rintro ⟨h1', h2'⟩; exact ⟨(hrel x h2').2 h1', h2'⟩
        · rintro ⟨h1', h2'⟩; exact ⟨(hrel x h2').1 h1', h2'⟩)
      hw1 hi h2
  have hw2 := step2.wf hw1
  have hin2 : ∀ i ∈ ts2.flatMap T.ids, i ∈ used := by
    intro i hi'
    exact hin1 i ((f1.cover i).1 (some2 i ((f2.cover i).2 hi')))
  -- 3. insert the updated items that are still stored
  obtain ⟨x3, st3, h3, k3⟩ := bind_ok_inv k2
  clear k2
  obtain ⟨large3, g3⟩ := x3
  simp only at k3
  have hs3 : Sorted large3 := by
    obtain ⟨_, _, _, _, _, _, _, _, _, _, _, _, _, _, _, _, _, c16⟩ :=
      insertAll_grow c o roots2 hi _ (IdSet.inter items updated) ts2 (IdGen.new used) g3 used st2 st3 large3
        f2.refs f2.holds f2.ids_nodup hin2 hg hw2 (sorted_inter updated hitems) h3
    exact c16
  -- 4. create the missing trees
  have hs4 := newTrees_sorted c items _ roots2 large3 roots' large g3 g st3 st' k3 hs3
  obtain ⟨f4, ⟨len4, _⟩⟩ : True ∧ (roots'.length = roots2.length +
      (Build.targetNTrees o c.dims items.length roots.length - roots2.length) ∧ True) := by
    obtain ⟨ts3, inUse3, f3, hg3, sup3, in3, step3, lin3⟩ :=
      insertItems_forest_large c o roots2 (IdSet.diff items updated) items (IdSet.inter items updated) ts2
        (IdGen.new used) g3 used st2 st3 large3 _ f2 hin2 hg hw2 hi (sorted_inter updated hitems)
        (by
          intro x hx hx'
          exact ((mem_diff hitems hupd).1 hx').2 ((mem_inter hitems hupd).1 hx).2)
        (by
          intro x
          rw [mem_diff hitems hupd, mem_inter hitems hupd]
          constructor
          · intro hx
            by_cases hu : x ∈ updated
            · exact Or.inr ⟨hx, hu⟩
            · exact Or.inl ⟨hx, hu⟩
          · rintro (⟨hx, _⟩ | ⟨hx, _⟩) <;> exact hx)
        h3
    obtain ⟨ts4, inUse4, f4, len4, _⟩ :=
      newTrees_spec c items hi hitems _ roots2 large3 roots' large ts3 g3 g inUse3 st3 st' f3 in3 hg3 k3
    exact ⟨trivial, len4, trivial⟩
  refine ⟨?_, hs4⟩
  rw [len4, len2, len1]
  omega

/-- `buildPrefix_spec`, with what it leaves out: the items are the stored items of the input, the number of roots
    at loop entry is `Build.targetNTrees` (of the number of stored items and of recorded roots), the queue is
    sorted -/
theorem buildPrefix_spec_ext (c : Cfg) (o : BuildOpts) (st st1 : BState) (roots0 items0 : List Nat) (ts0 : List T)
    (items roots large : List Nat) (g : IdGen)
    (hi : c.index < 65536) (hcap : 1 ≤ Build.cap c o)
    (hs : Store.Sorted st.store) (hw : Store.WF st.store)
    (old : Old c st.store roots0 items0 ts0) (hnone : st.cancelAt = none) (hfresh : FreshSupply)
    (h : buildPrefix c o st = .ok (some (items, roots, large, g), st1)) :
    ∃ (ts : List T) (inUse : List Nat),
      Forest c st1.store roots items ts ∧ (∀ i ∈ ts.flatMap T.ids, i ∈ inUse) ∧ GenOK inUse g ∧
      Store.WF st1.store ∧ (∀ i ∈ large, i ∈ inUse) ∧
      items = st.store.keysOf c.index modeItem ∧
      roots.length = Build.targetNTrees o c.dims items.length (rootsOf c st.store).length ∧ Sorted large := by
  unfold buildPrefix at h
  obtain ⟨u1, st1', h1, k1⟩ := bind'_ok_inv h
  clear h
  obtain ⟨kept1, c1⟩ := preProcessItems_spec c h1 hs hw hi
  have hs1 := kept1.step.sorted hs
  have hw1 := kept1.step.wf hw
  obtain ⟨items', st2, h2, k2⟩ := bind'_ok_inv k1
  clear k1
  obtain ⟨e2a, e2b, c2⟩ := itemIndices_spec c h2
  obtain ⟨updated, st3, h3, k3⟩ := bind'_ok_inv k2
  clear k2
  obtain ⟨e3a, e3b, c3⟩ := resetUpdated_spec c h3
  rw [e2b] at e3a e3b
  have hitems : items' = st.store.keysOf c.index modeItem := by rw [e2a, kept1.keysOf_item hs hw hi]
  have hupdated : updated = st.store.keysOf c.index modeUpdated := by rw [e3a, kept1.keysOf_updated hs hw hi]
  have hmarks := eraseMarks_all c st1'.store hw1 hi
  rw [← e3a, ← e3b] at hmarks
  obtain ⟨marks_none, marks_other⟩ := hmarks
  have step03 : StoreStep c st.store st3.store := by
    rw [e3b]; exact eraseMarks_step c kept1.step _
  have hw3 := step03.wf hw
  have htree3 : ∀ i, Store.get st3.store (c.treeKey i) = Store.get st.store (c.treeKey i) := by
    intro i
    rw [marks_other _ (fun id => Ne.symm (c.updatedKey_ne_treeKey id i)), kept1.tree]
  have hmeta3 : Store.get st3.store c.metaKey = Store.get st.store c.metaKey := by
    rw [marks_other _ (fun id => c.metaKey_ne_updatedKey c id), kept1.meta]
  have hsitems : Sorted items' := by rw [hitems]; exact Store.keysOf_sorted hs hw _ _ hi (by decide)
  have hsupd : Sorted updated := by rw [hupdated]; exact Store.keysOf_sorted hs hw _ _ hi (by decide)
  have hcancel3 : st3.cancelAt = none := by rw [c3, c2, c1, hnone]
  split at k3
  · -- the single-leaf path returns `none`
    obtain ⟨u4, st4, h4, k4⟩ := bind'_ok_inv k3
    cases k4
  · obtain ⟨s, st4, h4, k4⟩ := bind'_ok_inv k3
    clear k3
    obtain ⟨rfl, rfl⟩ := getStore_ok' h4
    obtain ⟨used, st5, h5, k5⟩ := bind'_ok_inv k4
    clear k4
    have hns : ¬ Swallows c st3 := by
      rintro ⟨n, hn, _⟩
      rw [hcancel3] at hn; cases hn
    rw [usedTreeNode_noswallow c hns] at h5
    simp only [Except.ok.injEq, Prod.mk.injEq] at h5
    obtain ⟨hused_eq, hst5⟩ := h5
    have hst5s : st5.store = st3.store := by rw [← hst5]
    subst hused_eq
    have hroots : rootsOf c st3.store = roots0 := by rw [rootsOf_congr hmeta3, old.roots_eq]
    rw [hroots] at k5
    have hused_lt : ∀ i ∈ st3.store.keysOf c.index modeTree, i < 4294967296 := by
      intro i hi'
      rw [Store.mem_keysOf_iff hw3 _ _ _ hi (by decide)] at hi'
      exact lt_of_isSome_tree hw3 hi'
    obtain ⟨x, st6, h6, k6⟩ := bind'_ok_inv k5
    clear k5
    obtain ⟨roots6, large6, g6⟩ := x
    have e6 : (some (items', roots6, large6, g6), st6) = (some (items, roots, large, g), st1) := by
      cases k6; rfl
    simp only [Prod.mk.injEq, Option.some.injEq] at e6
    obtain ⟨⟨rfl, rfl, rfl, rfl⟩, rfl⟩ := e6
    obtain ⟨ts, inUse, b1, b2, b3, b4, b5, b6, b7⟩ := afterUsedPrefix_spec_ext c o _ updated roots0 _ items0 ts0 st5 st6 _ _ _ hi hcap (by rw [hst5s]; exact hw3)
      (by rw [hst5s]; exact old.forest.frame htree3) hsitems hsupd
      (by
        intro x hx
        rw [hupdated, Store.mem_keysOf_iff hw _ _ _ hi (by decide)] at hx
        have := old.marks x (by
          simp only [Cfg.updatedKey, Key.mkUpdated]
          cases hg' : Store.get st.store ⟨c.index, modeUpdated, x⟩ with
          | none => rfl
          | some v => rw [hg'] at hx; simp at hx)
        rw [this, hitems, Store.mem_keysOf_iff hw _ _ _ hi (by decide)]
        rfl)
      (by
        intro i hi'
        rw [hst5s] at hi'
        exact (Store.mem_keysOf_iff hw3 _ _ _ hi (by decide)).2 hi')
      (hfresh _ (Store.keysOf_sorted (step03.sorted hs) hw3 _ _ hi (by decide)) hused_lt)
      h6
    refine ⟨ts, inUse, b1, b2, b3, b4, b5, hitems, ?_, b7⟩
    rw [b6, old.roots_eq]

end Arroy
