import ArroyProofs.GrowForest
/-! Tree surgery: replacing the bucket with id `b` by a tree `u` rooted at `b`. -/
namespace Arroy
open Generated IdSet

namespace T

/-- replace the bucket `b` by `u` -/
def subst : T → Nat → T → T
  | .leaf i, _, _ => .leaf i
  | .bucket id s, b, u => if id = b then u else .bucket id s
  | .node id n l r, b, u => .node id n (l.subst b u) (r.subst b u)

/-- `b` is not a node of `t`, or it is a bucket of `t` holding `its` -/
def At (b : Nat) (its : List Nat) (t : T) : Prop := b ∉ t.ids ∨ (b, its) ∈ t.buckets

theorem buckets_ids {t : T} {b : Nat} {its : List Nat} (h : (b, its) ∈ t.buckets) : b ∈ t.ids := by
  induction t with
  | leaf i => simp [buckets] at h
  | bucket id s => simp only [buckets, List.mem_singleton, Prod.mk.injEq] at h; simp [ids, h.1]
  | node id n l r ihl ihr =>
    simp only [buckets, List.mem_append] at h
    simp only [ids, List.mem_cons, List.mem_append]
    rcases h with h | h
    · exact Or.inr (Or.inl (ihl h))
    · exact Or.inr (Or.inr (ihr h))

theorem subst_of_not_mem {b : Nat} (u : T) {t : T} (h : b ∉ t.ids) : t.subst b u = t := by
  induction t with
  | leaf i => rfl
  | bucket id s =>
    simp only [ids, List.mem_singleton] at h
    simp only [subst]
    exact if_neg (fun e : id = b => h e.symm)
  | node id n l r ihl ihr =>
    simp only [ids, List.mem_cons, List.mem_append, not_or] at h
    simp only [subst, ihl h.2.1, ihr h.2.2]

theorem At.node {b : Nat} {its : List Nat} {id : Nat} {n : List Nat} {l r : T}
    (hnd : (T.node id n l r).ids.Nodup) (h : At b its (.node id n l r)) :
    id ≠ b ∧ l.ids.Nodup ∧ r.ids.Nodup ∧ At b its l ∧ At b its r ∧ (b ∈ l.ids → b ∉ r.ids) := by
  simp only [ids, List.nodup_cons, List.nodup_append, List.mem_append, not_or] at hnd
  obtain ⟨⟨hidl, hidr⟩, hndl, hndr, hdisj⟩ := hnd
  refine ⟨?_, hndl, hndr, ?_, ?_, fun hl hr => hdisj b hl b hr rfl⟩
  · rcases h with h | h
    · intro e; exact h (by simp [ids, e])
    · simp only [buckets, List.mem_append] at h
      intro e
      subst e
      rcases h with h | h
      · exact hidl (buckets_ids h)
      · exact hidr (buckets_ids h)
  · rcases h with h | h
    · exact Or.inl (fun hm => h (by simp [ids, hm]))
    · simp only [buckets, List.mem_append] at h
      rcases h with h | h
      · exact Or.inr h
      · exact Or.inl (fun hm => hdisj b hm b (buckets_ids h) rfl)
  · rcases h with h | h
    · exact Or.inl (fun hm => h (by simp [ids, hm]))
    · simp only [buckets, List.mem_append] at h
      rcases h with h | h
      · exact Or.inl (fun hm => hdisj b (buckets_ids h) b hm rfl)
      · exact Or.inr h

theorem subst_ref {b : Nat} {u : T} (hu : u.ref = NodeId.mkTree b) (t : T) : (t.subst b u).ref = t.ref := by
  cases t with
  | leaf i => rfl
  | bucket id s =>
    simp only [subst]
    split
    · rename_i e; subst e; exact hu
    · rfl
  | node id n l r => rfl

theorem mem_ids_subst {b : Nat} {its : List Nat} {u : T} {t : T} (hnd : t.ids.Nodup) (hat : At b its t) (i : Nat) :
    i ∈ (t.subst b u).ids ↔ (i ∈ t.ids ∧ i ≠ b) ∨ (b ∈ t.ids ∧ i ∈ u.ids) := by
  induction t with
  | leaf j => simp [subst, ids]
  | bucket id s =>
    simp only [subst]
    split
    · rename_i e; subst e
      simp only [ids, List.mem_singleton, true_and]
      constructor
      · intro h; exact Or.inr h
      · rintro (⟨h1, h2⟩ | h)
        · exact absurd h1 h2
        · exact h
    · rename_i e
      simp only [ids, List.mem_singleton]
      constructor
      · intro h; subst h; exact Or.inl ⟨rfl, e⟩
      · rintro (⟨h1, _⟩ | ⟨h1, _⟩)
        · exact h1
        · exact absurd h1.symm e
  | node id n l r ihl ihr =>
    obtain ⟨hne, hndl, hndr, hal, har, _⟩ := hat.node hnd
    simp only [subst, ids, List.mem_cons, List.mem_append, ihl hndl hal, ihr hndr har]
    constructor
    · rintro (h | (⟨h1, h2⟩ | ⟨h1, h2⟩) | (⟨h1, h2⟩ | ⟨h1, h2⟩))
      · subst h; exact Or.inl ⟨Or.inl rfl, hne⟩
      · exact Or.inl ⟨Or.inr (Or.inl h1), h2⟩
      · exact Or.inr ⟨Or.inr (Or.inl h1), h2⟩
      · exact Or.inl ⟨Or.inr (Or.inr h1), h2⟩
      · exact Or.inr ⟨Or.inr (Or.inr h1), h2⟩
    · rintro (⟨h1 | h1 | h1, h2⟩ | ⟨h1 | h1 | h1, h2⟩)
      · exact Or.inl h1
      · exact Or.inr (Or.inl (Or.inl ⟨h1, h2⟩))
      · exact Or.inr (Or.inr (Or.inl ⟨h1, h2⟩))
      · exact absurd h1.symm hne
      · exact Or.inr (Or.inl (Or.inr ⟨h1, h2⟩))
      · exact Or.inr (Or.inr (Or.inr ⟨h1, h2⟩))

theorem nodup_subst {b : Nat} {its : List Nat} {u : T} {t : T} (hnd : t.ids.Nodup) (hat : At b its t)
    (hu : u.ids.Nodup) (hfresh : ∀ i ∈ u.ids, i = b ∨ i ∉ t.ids) : (t.subst b u).ids.Nodup := by
  induction t with
  | leaf j => simp [subst, ids]
  | bucket id s =>
    simp only [subst]
    split
    · exact hu
    · simp [ids]
  | node id n l r ihl ihr =>
    obtain ⟨hne, hndl, hndr, hal, har, hlr⟩ := hat.node hnd
    have hnd' := hnd
    simp only [ids, List.nodup_cons, List.nodup_append, List.mem_append, not_or] at hnd'
    obtain ⟨⟨hidl, hidr⟩, _, _, hdisj⟩ := hnd'
    have hfl : ∀ i ∈ u.ids, i = b ∨ i ∉ l.ids := fun i hi' => (hfresh i hi').imp (fun h => h) (fun h hm => h (by simp [ids, hm]))
    have hfr : ∀ i ∈ u.ids, i = b ∨ i ∉ r.ids := fun i hi' => (hfresh i hi').imp (fun h => h) (fun h hm => h (by simp [ids, hm]))
    simp only [subst, ids, List.nodup_cons, List.nodup_append, List.mem_append,
      mem_ids_subst hndl hal, mem_ids_subst hndr har]
    refine ⟨fun hh => hh.elim ?_ ?_, ihl hndl hal hfl, ihr hndr har hfr, ?_⟩
    · rintro (⟨h1, _⟩ | ⟨_, h2⟩)
      · exact hidl h1
      · rcases hfresh id h2 with h | h
        · exact hne h
        · exact h (by simp [ids])
    · rintro (⟨h1, _⟩ | ⟨_, h2⟩)
      · exact hidr h1
      · rcases hfresh id h2 with h | h
        · exact hne h
        · exact h (by simp [ids])
    · intro a ha c hc e
      subst e
      rcases ha with ⟨h1, h2⟩ | ⟨h1, h2⟩
      · rcases hc with ⟨h3, _⟩ | ⟨_, h4⟩
        · exact hdisj a h1 a h3 rfl
        · rcases hfl a h4 with h | h
          · exact h2 h
          · exact h h1
      · rcases hc with ⟨h3, h4⟩ | ⟨h3, _⟩
        · rcases hfr a h2 with h | h
          · exact h4 h
          · exact h h3
        · exact hlr h1 h3

theorem mem_items_subst {b : Nat} {its : List Nat} {u : T} {t : T} (hnd : t.ids.Nodup) (hat : At b its t)
    (hu : ∀ x, x ∈ u.items ↔ x ∈ its) (x : Nat) : x ∈ (t.subst b u).items ↔ x ∈ t.items := by
  induction t with
  | leaf j => rfl
  | bucket id s =>
    simp only [subst]
    split
    · rename_i e; subst e
      rcases hat with h | h
      · exact absurd (by simp [ids]) h
      · simp only [buckets, List.mem_singleton, Prod.mk.injEq, true_and] at h
        subst h
        simp only [items]; exact hu x
    · rfl
  | node id n l r ihl ihr =>
    obtain ⟨_, hndl, hndr, hal, har, _⟩ := hat.node hnd
    simp only [subst, items, List.mem_append, ihl hndl hal, ihr hndr har]

theorem items_nodup_subst {b : Nat} {its : List Nat} {u : T} {t : T} (hnd : t.ids.Nodup) (hat : At b its t)
    (hu : ∀ x, x ∈ u.items ↔ x ∈ its) (hun : u.items.Nodup) (htn : t.items.Nodup) : (t.subst b u).items.Nodup := by
  induction t with
  | leaf j => exact htn
  | bucket id s =>
    simp only [subst]
    split
    · exact hun
    · exact htn
  | node id n l r ihl ihr =>
    obtain ⟨_, hndl, hndr, hal, har, _⟩ := hat.node hnd
    simp only [items, List.nodup_append] at htn
    simp only [subst, items, List.nodup_append]
    refine ⟨ihl hndl hal htn.1, ihr hndr har htn.2.1, ?_⟩
    intro a ha c hc
    exact htn.2.2 a ((mem_items_subst hndl hal hu a).1 ha) c ((mem_items_subst hndr har hu c).1 hc)

theorem wf_subst {b : Nat} {u : T} {t : T} (hu : Arroy.WF u) (ht : Arroy.WF t) : Arroy.WF (t.subst b u) := by
  induction t with
  | leaf j => exact ht
  | bucket id s =>
    simp only [subst]
    split
    · exact hu
    · exact ht
  | node id n l r ihl ihr => exact ⟨ihl ht.1, ihr ht.2⟩

theorem routed_subst {cx : TreeCtx} {b : Nat} {its : List Nat} {u : T} {t : T} (hnd : t.ids.Nodup) (hat : At b its t)
    (hu : ∀ x, x ∈ u.items ↔ x ∈ its) (hur : RoutedT cx u) (ht : RoutedT cx t) : RoutedT cx (t.subst b u) := by
  induction t with
  | leaf j => exact ht
  | bucket id s =>
    simp only [subst]
    split
    · exact hur
    · exact ht
  | node id n l r ihl ihr =>
    obtain ⟨_, hndl, hndr, hal, har, _⟩ := hat.node hnd
    obtain ⟨h1, h2, h3⟩ := ht
    refine ⟨?_, ihl hndl hal h2, ihr hndr har h3⟩
    intro hz
    obtain ⟨ha, hb⟩ := h1 hz
    exact ⟨fun x hx => ha x ((mem_items_subst hndl hal hu x).1 hx),
      fun x hx => hb x ((mem_items_subst hndr har hu x).1 hx)⟩

theorem buckets_subst {b : Nat} {u : T} {t : T} (p : Nat × List Nat) (h : p ∈ (t.subst b u).buckets) :
    p ∈ u.buckets ∨ (p ∈ t.buckets ∧ p.1 ≠ b) := by
  induction t with
  | leaf j => simp [subst, buckets] at h
  | bucket id s =>
    simp only [subst] at h
    split at h
    · exact Or.inl h
    · rename_i e
      simp only [buckets, List.mem_singleton] at h
      subst h
      exact Or.inr ⟨by simp [buckets], e⟩
  | node id n l r ihl ihr =>
    simp only [subst, buckets, List.mem_append] at h ⊢
    rcases h with h | h
    · exact (ihl h).imp (fun h => h) (fun ⟨h1, h2⟩ => ⟨Or.inl h1, h2⟩)
    · exact (ihr h).imp (fun h => h) (fun ⟨h1, h2⟩ => ⟨Or.inr h1, h2⟩)

end T

theorem holds_subst {c : Cfg} {s s' : Store} {b : Nat} {its : List Nat} {u : T} {t : T}
    (hnd : t.ids.Nodup) (hat : T.At b its t) (hh : Holds c s t) (hu : Holds c s' u) (href : u.ref = NodeId.mkTree b)
    (agree : ∀ i ∈ t.ids, i ≠ b → Store.get s' (c.treeKey i) = Store.get s (c.treeKey i)) :
    Holds c s' (t.subst b u) := by
  induction t with
  | leaf j => intro cell hc; simp [T.subst, T.cells] at hc
  | bucket id s0 =>
    simp only [T.subst]
    split
    · exact hu
    · rename_i e
      exact hh.frame (fun i hi => by
        simp only [T.ids, List.mem_singleton] at hi
        subst hi
        exact agree i (by simp [T.ids]) e)
  | node id n l r ihl ihr =>
    obtain ⟨hne, hndl, hndr, hal, har, _⟩ := hat.node hnd
    have hl := ihl hndl hal hh.left (fun i hi => agree i (by simp [T.ids, hi]))
    have hr := ihr hndr har hh.right (fun i hi => agree i (by simp [T.ids, hi]))
    intro cell hc
    simp only [T.subst, T.cells, List.mem_cons, List.mem_append] at hc
    rcases hc with rfl | hc | hc
    · simp only
      rw [T.subst_ref href, T.subst_ref href, agree id (by simp [T.ids]) hne]
      exact hh.root
    · exact hl cell hc
    · exact hr cell hc

/-- a node whose cell is a bucket cell is a bucket of the tree -/
theorem bucket_of_holds {c : Cfg} {s : Store} {t : T} {b : Nat} {its : List Nat} (hh : Holds c s t)
    (hb : b ∈ t.ids) (hg : Store.get s (c.treeKey b) = some (.desc its)) : (b, its) ∈ t.buckets := by
  induction t with
  | leaf j => simp [T.ids] at hb
  | bucket id s0 =>
    simp only [T.ids, List.mem_singleton] at hb
    subst hb
    have := hh.bucket
    rw [hg] at this
    simp only [Option.some.injEq, Val.desc.injEq] at this
    simp [T.buckets, this]
  | node id n l r ihl ihr =>
    simp only [T.ids, List.mem_cons, List.mem_append] at hb
    simp only [T.buckets, List.mem_append]
    rcases hb with rfl | hb | hb
    · have := hh.root
      rw [hg] at this
      simp at this
    · exact Or.inl (ihl hh.left hb)
    · exact Or.inr (ihr hh.right hb)

/-! ## the forest after replacing one bucket -/

theorem Forest.subst {c : Cfg} {s s' : Store} {roots items : List Nat} {ts : List T} (f : Forest c s roots items ts)
    {b : Nat} {its : List Nat} {u : T}
    (hg : Store.get s (c.treeKey b) = some (.desc its))
    (href : u.ref = NodeId.mkTree b) (hund : u.ids.Nodup)
    (hfresh : ∀ i ∈ u.ids, i = b ∨ i ∉ ts.flatMap T.ids)
    (hu : Holds c s' u)
    (frame : ∀ k, (∀ i ∈ u.ids, k ≠ c.treeKey i) → Store.get s' k = Store.get s k)
    (huwf : WF u) (huin : u.items.Nodup) (huit : ∀ x, x ∈ u.items ↔ x ∈ its) :
    Forest c s' roots items (ts.map (fun t => t.subst b u)) ∧ (∀ t ∈ ts, T.At b its t) := by
  have hbu : b ∈ u.ids := by
    have := (T.ref_eq_mkTree_of_not_leaf (T.not_leaf_of_ref href)).2
    rw [href] at this
    exact this
  have hbold : b ∈ ts.flatMap T.ids := (f.cover b).1 (by rw [hg]; rfl)
  have hat : ∀ t ∈ ts, T.At b its t := by
    intro t ht
    by_cases hb : b ∈ t.ids
    · exact Or.inr (bucket_of_holds (f.holds t ht) hb hg)
    · exact Or.inl hb
  have hmem : ∀ i, i ∈ (ts.map (fun t => t.subst b u)).flatMap T.ids ↔ (i ∈ ts.flatMap T.ids ∧ i ≠ b) ∨ i ∈ u.ids := by
    intro i
    rw [List.flatMap_map]
    simp only [List.mem_flatMap]
    constructor
    · rintro ⟨t, ht, hi⟩
      rcases (T.mem_ids_subst (f.tree_nodup ht) (hat t ht) i).1 hi with ⟨h1, h2⟩ | ⟨_, h2⟩
      · exact Or.inl ⟨⟨t, ht, h1⟩, h2⟩
      · exact Or.inr h2
    · rintro (⟨⟨t, ht, h1⟩, h2⟩ | h)
      · exact ⟨t, ht, (T.mem_ids_subst (f.tree_nodup ht) (hat t ht) i).2 (Or.inl ⟨h1, h2⟩)⟩
      · obtain ⟨t, ht, hbt⟩ := List.mem_flatMap.1 hbold
        exact ⟨t, ht, (T.mem_ids_subst (f.tree_nodup ht) (hat t ht) i).2 (Or.inr ⟨hbt, h⟩)⟩
  refine ⟨⟨?_, ?_, ?_, ?_, ?_, ?_, ?_⟩, hat⟩
  · rw [List.map_map, ← f.refs]
    apply List.map_congr_left
    intro t _
    exact T.subst_ref href t
  · intro t' ht'
    obtain ⟨t, ht, rfl⟩ := List.mem_map.1 ht'
    apply holds_subst (f.tree_nodup ht) (hat t ht) (f.holds t ht) hu href
    intro i hi hne
    apply frame
    intro j hj e
    have := Cfg.treeKey_inj.1 e
    subst this
    rcases hfresh i hj with h | h
    · exact hne h
    · exact h (List.mem_flatMap.2 ⟨t, ht, hi⟩)
  · have hnd := f.ids_nodup
    rw [List.flatMap_map]
    rw [List.nodup_iff_pairwise_ne, List.pairwise_flatMap] at hnd ⊢
    refine ⟨?_, ?_⟩
    · intro t ht
      rw [← List.nodup_iff_pairwise_ne]
      exact T.nodup_subst (f.tree_nodup ht) (hat t ht) hund
        (fun i hi => (hfresh i hi).imp (fun h => h) (fun h hm => h (List.mem_flatMap.2 ⟨t, ht, hm⟩)))
    · apply hnd.2.imp_of_mem
      intro t1 t2 ht1 ht2 hR x hx y hy e
      subst e
      rcases (T.mem_ids_subst (f.tree_nodup ht1) (hat t1 ht1) x).1 hx with ⟨h1, h2⟩ | ⟨h1, h2⟩
      · rcases (T.mem_ids_subst (f.tree_nodup ht2) (hat t2 ht2) x).1 hy with ⟨h3, _⟩ | ⟨_, h4⟩
        · exact hR x h1 x h3 rfl
        · rcases hfresh x h4 with h | h
          · exact h2 h
          · exact h (List.mem_flatMap.2 ⟨t1, ht1, h1⟩)
      · rcases (T.mem_ids_subst (f.tree_nodup ht2) (hat t2 ht2) x).1 hy with ⟨h3, h4⟩ | ⟨h3, _⟩
        · rcases hfresh x h2 with h | h
          · exact h4 h
          · exact h (List.mem_flatMap.2 ⟨t2, ht2, h3⟩)
        · exact hR b h1 b h3 rfl
  · intro id
    rw [hmem]
    constructor
    · intro hsome
      by_cases hid : id ∈ u.ids
      · exact Or.inr hid
      · rw [frame _ (fun i hi e => hid (by rw [Cfg.treeKey_inj.1 e]; exact hi))] at hsome
        refine Or.inl ⟨(f.cover id).1 hsome, ?_⟩
        intro e; subst e; exact hid hbu
    · rintro (⟨h1, _⟩ | h)
      · by_cases hid : id ∈ u.ids
        · exact hu.isSome hid
        · rw [frame _ (fun i hi e => hid (by rw [Cfg.treeKey_inj.1 e]; exact hi))]
          exact (f.cover id).2 h1
      · exact hu.isSome h
  · intro t' ht'
    obtain ⟨t, ht, rfl⟩ := List.mem_map.1 ht'
    exact T.wf_subst huwf (f.wf t ht)
  · intro t' ht'
    obtain ⟨t, ht, rfl⟩ := List.mem_map.1 ht'
    exact T.items_nodup_subst (f.tree_nodup ht) (hat t ht) huit huin (f.items_nodup t ht)
  · intro t' ht' x
    obtain ⟨t, ht, rfl⟩ := List.mem_map.1 ht'
    rw [T.mem_items_subst (f.tree_nodup ht) (hat t ht) huit, f.reach t ht x]

end Arroy
