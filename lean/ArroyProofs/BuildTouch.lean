import ArroyProofs.PreprocessFrame
/-! Instances of the framework: for every helper of `Build.lean` and for `Build.build`,
`StorePres (Untouched c.index)` (frame), `StorePres (OtherSame c.index)` (frame, dump form),
`StorePres (OnlyTreeMarksMeta c.index)` (what a build may touch) and `StorePres (NoNewUpdated c.index)`. -/
namespace Arroy
open Generated

theorem Untouched.opsClosed (c : Cfg) (hi : c.index < 65536) : OpsClosed c (Untouched c.index) :=
  (FrameNI.opsClosed c hi).mono (Untouched.storeRel _) (fun _ _ h => h.untouched)

theorem OnlyTreeMarksMeta.opsClosed (c : Cfg) (hi : c.index < 65536) : OpsClosed c (OnlyTreeMarksMeta c.index) :=
  (FrameNI.opsClosed c hi).mono (OnlyTreeMarksMeta.storeRel _) (fun _ _ h => h.onlyTreeMarksMeta)

namespace Build
variable (c : Cfg) (hi : c.index < 65536)
include hi

/-! ### `pre_process_items` -/
theorem preProcessItems_otherSame : StorePres (OtherSame c.index) (preProcessItems c) :=
  preProcessItems_pres (OtherSame.storeRel _) (fun _ s => preprocessDot_otherSame c hi s)
theorem preProcessItems_untouched : StorePres (Untouched c.index) (preProcessItems c) :=
  (preProcessItems_otherSame c hi).mono (fun _ _ h => h.untouched)
omit hi in
theorem preProcessItems_noNewUpdated : StorePres (NoNewUpdated c.index) (preProcessItems c) :=
  preProcessItems_pres (NoNewUpdated.storeRel _) (fun _ s => preprocessDot_noNewUpdated c s)
/-- needs a sorted store: with duplicate keys the rewrite of a header could resurrect a shadowed vector -/
theorem preProcessItems_onlyTreeMarksMeta :
    StorePresFrom Store.Sorted (OnlyTreeMarksMeta c.index) (preProcessItems c) := by
  intro st a st' hs e
  unfold preProcessItems at e
  obtain ⟨u, st1, h1, h2⟩ := BuildM.bind_ok.1 e
  have e1 := NoWrite.poll _ _ _ h1
  split at h2
  · simp only [BuildM.modifyStore, Except.ok.injEq, Prod.mk.injEq] at h2
    rw [← h2.2, e1]
    exact preprocessDot_onlyTreeMarksMeta c hi _ hs
  · rw [NoWrite.pure _ _ _ _ h2, e1]
    exact (OnlyTreeMarksMeta.storeRel _).refl _
omit hi in
theorem preProcessItems_frameNI (hm : c.metric ≠ .dot) : StorePres (FrameNI c.index) (preProcessItems c) :=
  StorePres.of_noWrite (FrameNI.storeRel _) (preProcessItems_noWrite hm)

/-! ### the other helpers: `Untouched` -/
omit hi in
theorem itemIndices_untouched : StorePres (Untouched c.index) (itemIndices c) :=
  itemIndices_pres (Untouched.storeRel _) c
theorem resetUpdated_untouched : StorePres (Untouched c.index) (resetUpdated c) :=
  resetUpdated_pres (Untouched.opsClosed c hi)
theorem singleLeaf_untouched (items : List Nat) : StorePres (Untouched c.index) (singleLeaf c items) :=
  singleLeaf_pres (Untouched.opsClosed c hi) items
omit hi in
theorem usedTreeNode_untouched : StorePres (Untouched c.index) (usedTreeNode c) :=
  StorePres.usedTreeNode (Untouched.storeRel _) c
theorem deleteTree_untouched (fuel : Nat) (ref : NodeId) (s s' : Store) (e : deleteTree c fuel ref s = .ok s') :
    Untouched c.index s s' := deleteTree_rel (Untouched.opsClosed c hi) fuel ref s s' e
theorem deleteExtraTrees_untouched (k : Nat) (roots : List Nat) :
    StorePres (Untouched c.index) (deleteExtraTrees c k roots) :=
  deleteExtraTrees_pres (Untouched.opsClosed c hi) k roots
theorem writeBack_untouched (removed : List Nat) (puts : List (Nat × Val)) (remap : Nat → Nat) :
    StorePres (Untouched c.index) (writeBack c removed puts remap) :=
  writeBack_pres (Untouched.opsClosed c hi) removed puts remap
omit hi in
theorem deleteLoop_untouched (o : BuildOpts) (D : List Nat) (s : Store) (roots : List Nat) :
    StorePres (Untouched c.index) (deleteLoop c o D s roots) :=
  deleteLoop_pres (Untouched.storeRel _) c o D s roots
theorem deleteItemsFromTrees_untouched (o : BuildOpts) (roots D : List Nat) :
    StorePres (Untouched c.index) (deleteItemsFromTrees c o roots D) :=
  deleteItemsFromTrees_pres (Untouched.opsClosed c hi) o roots D
omit hi in
theorem insertRoots_untouched (o : BuildOpts) (snapshot : Store) (batch roots : List Nat) (g : IdGen) :
    StorePres (Untouched c.index) (insertRoots c o snapshot batch roots g) :=
  insertRoots_pres (Untouched.storeRel _) c o snapshot batch roots g
theorem insertItemsInCurrentTrees_untouched (o : BuildOpts) (roots : List Nat) (fuel : Nat) (toInsert : List Nat)
    (g : IdGen) : StorePres (Untouched c.index) (insertItemsInCurrentTrees c o roots fuel toInsert g) :=
  insertItemsInCurrentTrees_pres (Untouched.opsClosed c hi) o roots fuel toInsert g
theorem newTrees_untouched (items : List Nat) (k : Nat) (roots large : List Nat) (g : IdGen) :
    StorePres (Untouched c.index) (newTrees c items k roots large g) :=
  newTrees_pres (Untouched.opsClosed c hi) items k roots large g
theorem incrementalIndexLargeDescendants_untouched (o : BuildOpts) (fuel : Nat) (large : List Nat) (g : IdGen) :
    StorePres (Untouched c.index) (incrementalIndexLargeDescendants c o fuel large g) :=
  incrementalIndexLargeDescendants_pres (Untouched.opsClosed c hi) o fuel large g
theorem writeMetadata_untouched (items roots : List Nat) : StorePres (Untouched c.index) (writeMetadata c items roots) :=
  writeMetadata_pres (Untouched.opsClosed c hi) items roots

/-! ### the other helpers: `OnlyTreeMarksMeta` -/
omit hi in
theorem itemIndices_onlyTreeMarksMeta : StorePres (OnlyTreeMarksMeta c.index) (itemIndices c) :=
  itemIndices_pres (OnlyTreeMarksMeta.storeRel _) c
theorem resetUpdated_onlyTreeMarksMeta : StorePres (OnlyTreeMarksMeta c.index) (resetUpdated c) :=
  resetUpdated_pres (OnlyTreeMarksMeta.opsClosed c hi)
theorem singleLeaf_onlyTreeMarksMeta (items : List Nat) : StorePres (OnlyTreeMarksMeta c.index) (singleLeaf c items) :=
  singleLeaf_pres (OnlyTreeMarksMeta.opsClosed c hi) items
omit hi in
theorem usedTreeNode_onlyTreeMarksMeta : StorePres (OnlyTreeMarksMeta c.index) (usedTreeNode c) :=
  StorePres.usedTreeNode (OnlyTreeMarksMeta.storeRel _) c
theorem deleteTree_onlyTreeMarksMeta (fuel : Nat) (ref : NodeId) (s s' : Store)
    (e : deleteTree c fuel ref s = .ok s') : OnlyTreeMarksMeta c.index s s' :=
  deleteTree_rel (OnlyTreeMarksMeta.opsClosed c hi) fuel ref s s' e
theorem deleteExtraTrees_onlyTreeMarksMeta (k : Nat) (roots : List Nat) :
    StorePres (OnlyTreeMarksMeta c.index) (deleteExtraTrees c k roots) :=
  deleteExtraTrees_pres (OnlyTreeMarksMeta.opsClosed c hi) k roots
theorem writeBack_onlyTreeMarksMeta (removed : List Nat) (puts : List (Nat × Val)) (remap : Nat → Nat) :
    StorePres (OnlyTreeMarksMeta c.index) (writeBack c removed puts remap) :=
  writeBack_pres (OnlyTreeMarksMeta.opsClosed c hi) removed puts remap
omit hi in
theorem deleteLoop_onlyTreeMarksMeta (o : BuildOpts) (D : List Nat) (s : Store) (roots : List Nat) :
    StorePres (OnlyTreeMarksMeta c.index) (deleteLoop c o D s roots) :=
  deleteLoop_pres (OnlyTreeMarksMeta.storeRel _) c o D s roots
theorem deleteItemsFromTrees_onlyTreeMarksMeta (o : BuildOpts) (roots D : List Nat) :
    StorePres (OnlyTreeMarksMeta c.index) (deleteItemsFromTrees c o roots D) :=
  deleteItemsFromTrees_pres (OnlyTreeMarksMeta.opsClosed c hi) o roots D
omit hi in
theorem insertRoots_onlyTreeMarksMeta (o : BuildOpts) (snapshot : Store) (batch roots : List Nat) (g : IdGen) :
    StorePres (OnlyTreeMarksMeta c.index) (insertRoots c o snapshot batch roots g) :=
  insertRoots_pres (OnlyTreeMarksMeta.storeRel _) c o snapshot batch roots g
theorem insertItemsInCurrentTrees_onlyTreeMarksMeta (o : BuildOpts) (roots : List Nat) (fuel : Nat)
    (toInsert : List Nat) (g : IdGen) :
    StorePres (OnlyTreeMarksMeta c.index) (insertItemsInCurrentTrees c o roots fuel toInsert g) :=
  insertItemsInCurrentTrees_pres (OnlyTreeMarksMeta.opsClosed c hi) o roots fuel toInsert g
theorem newTrees_onlyTreeMarksMeta (items : List Nat) (k : Nat) (roots large : List Nat) (g : IdGen) :
    StorePres (OnlyTreeMarksMeta c.index) (newTrees c items k roots large g) :=
  newTrees_pres (OnlyTreeMarksMeta.opsClosed c hi) items k roots large g
theorem incrementalIndexLargeDescendants_onlyTreeMarksMeta (o : BuildOpts) (fuel : Nat) (large : List Nat)
    (g : IdGen) : StorePres (OnlyTreeMarksMeta c.index) (incrementalIndexLargeDescendants c o fuel large g) :=
  incrementalIndexLargeDescendants_pres (OnlyTreeMarksMeta.opsClosed c hi) o fuel large g
theorem writeMetadata_onlyTreeMarksMeta (items roots : List Nat) :
    StorePres (OnlyTreeMarksMeta c.index) (writeMetadata c items roots) :=
  writeMetadata_pres (OnlyTreeMarksMeta.opsClosed c hi) items roots

/-- Why `OnlyTreeMarksMeta` excludes *every* non-item key of the index and not only the three kinds
    tree / updated / metadata: `delete_tree` erases the key `(index, kind, id)` of a child id of **any**
    kind but item. Here a split node points to a child of kind 7 and the entry under `(0, 7, 0)` goes.
    (Unreachable in the crate: `NodeId::from_bytes` only yields the four kinds.) -/
example : ∃ s', deleteTree ⟨0, .euclidean, 2, {}⟩ 3 (NodeId.mkTree 0)
      [(⟨0, modeTree, 0⟩, .split ⟨7, 0⟩ ⟨modeItem, 5⟩ []), (⟨0, 7, 0⟩, .desc [])] = .ok s' ∧
    Store.get s' ⟨0, 7, 0⟩ = none := ⟨_, rfl, rfl⟩

/-! ### `Build.build` -/
theorem build_otherSame (o : BuildOpts) (fuel : Nat) : StorePres (OtherSame c.index) (build c o fuel) :=
  build_pres (OtherSame.opsClosed c hi) (preProcessItems_otherSame c hi) o fuel

theorem build_untouched (o : BuildOpts) (fuel : Nat) : StorePres (Untouched c.index) (build c o fuel) :=
  build_pres (Untouched.opsClosed c hi) (preProcessItems_untouched c hi) o fuel

omit hi in
theorem build_noNewUpdated (o : BuildOpts) (fuel : Nat) : StorePres (NoNewUpdated c.index) (build c o fuel) :=
  build_pres (NoNewUpdated.opsClosed c) (preProcessItems_noNewUpdated c) o fuel

/-- from a sorted store (needed by the DotProduct preprocessing only) -/
theorem build_onlyTreeMarksMeta (o : BuildOpts) (fuel : Nat) :
    StorePresFrom Store.Sorted (OnlyTreeMarksMeta c.index) (build c o fuel) :=
  build_presFrom (OnlyTreeMarksMeta.opsClosed c hi) (preProcessItems_onlyTreeMarksMeta c hi) o fuel

/-- for every metric but DotProduct a build changes no item value and no key of another index,
    whatever the store -/
theorem build_frameNI (hm : c.metric ≠ .dot) (o : BuildOpts) (fuel : Nat) :
    StorePres (FrameNI c.index) (build c o fuel) :=
  build_pres (FrameNI.opsClosed c hi) (preProcessItems_frameNI c hm) o fuel

end Build
end Arroy
