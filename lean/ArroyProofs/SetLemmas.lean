import ArroyModel.Sets
/-! Laws of the sorted-list set algebra `IdSet` (the model of `RoaringBitmap`). -/
namespace Arroy
namespace IdSet

/-! ## `Sorted` -/

theorem sorted_cons {a : Nat} {l : List Nat} : Sorted (a :: l) ↔ (∀ x ∈ l, a < x) ∧ Sorted l := by
  induction l generalizing a with
  | nil => simp [Sorted]
  | cons b rest ih =>
    constructor
    · intro ⟨hab, hs⟩
      refine ⟨?_, hs⟩
      intro x hx
      rcases List.mem_cons.1 hx with rfl | hx
      · exact hab
      · exact Nat.lt_trans hab ((ih.1 hs).1 x hx)
    · intro ⟨h1, hs⟩
      exact ⟨h1 b (by simp), hs⟩

theorem sorted_iff_pairwise {l : List Nat} : Sorted l ↔ l.Pairwise (· < ·) := by
  induction l with
  | nil => simp [Sorted]
  | cons a l ih => rw [sorted_cons, List.pairwise_cons, ih]

theorem Sorted.nodup {l : List Nat} (h : Sorted l) : l.Nodup := by
  rw [sorted_iff_pairwise] at h
  exact h.imp (fun hab => Nat.ne_of_lt hab)

theorem Sorted.sublist {l l' : List Nat} (h : Sorted l) (hs : l'.Sublist l) : Sorted l' := by
  rw [sorted_iff_pairwise] at h ⊢
  exact h.sublist hs

theorem Sorted.tail {a : Nat} {l : List Nat} (h : Sorted (a :: l)) : Sorted l := (sorted_cons.1 h).2

theorem Sorted.head_lt {a : Nat} {l : List Nat} (h : Sorted (a :: l)) : ∀ x ∈ l, a < x := (sorted_cons.1 h).1

theorem sorted_nil : Sorted [] := trivial
theorem sorted_singleton (a : Nat) : Sorted [a] := trivial

theorem isSorted_iff {l : List Nat} : isSorted l = true ↔ Sorted l := by
  induction l with
  | nil => simp [isSorted, Sorted]
  | cons a l ih =>
    cases l with
    | nil => simp [isSorted, Sorted]
    | cons b rest => simp only [isSorted, Sorted, Bool.and_eq_true, decide_eq_true_eq, ih]

/-- two strictly increasing lists with the same members are equal -/
theorem sorted_ext {a b : List Nat} (ha : Sorted a) (hb : Sorted b) (h : ∀ x, x ∈ a ↔ x ∈ b) : a = b := by
  induction a generalizing b with
  | nil =>
    cases b with
    | nil => rfl
    | cons y ys => exact absurd ((h y).2 (by simp)) (by simp)
  | cons x xs ih =>
    cases b with
    | nil => exact absurd ((h x).1 (by simp)) (by simp)
    | cons y ys =>
      have hx := sorted_cons.1 ha
      have hy := sorted_cons.1 hb
      have hxy : x = y := by
        have h1 := (h x).1 (by simp)
        have h2 := (h y).2 (by simp)
        rcases List.mem_cons.1 h1 with e | h1
        · exact e
        · rcases List.mem_cons.1 h2 with e | h2
          · exact e.symm
          · have := hy.1 x h1
            have := hx.1 y h2
            omega
      subst hxy
      congr 1
      apply ih hx.2 hy.2
      intro z
      constructor
      · intro hz
        have := (h z).1 (List.mem_cons_of_mem _ hz)
        rcases List.mem_cons.1 this with e | h'
        · have := hx.1 z hz; omega
        · exact h'
      · intro hz
        have := (h z).2 (List.mem_cons_of_mem _ hz)
        rcases List.mem_cons.1 this with e | h'
        · have := hy.1 z hz; omega
        · exact h'

/-! ## `insert` -/

theorem mem_insert {x : Nat} {l : List Nat} {z : Nat} : z ∈ insert x l ↔ z = x ∨ z ∈ l := by
  induction l with
  | nil => simp [insert]
  | cons y ys ih =>
    simp only [insert]
    split
    · simp
    · split
      · rename_i h1 h2; subst h2; simp
      · simp only [List.mem_cons, ih]
        constructor
        · rintro (h | h | h) <;> simp [h]
        · rintro (h | h | h) <;> simp [h]

theorem sorted_insert {x : Nat} {l : List Nat} (h : Sorted l) : Sorted (insert x l) := by
  induction l with
  | nil => simp [insert, Sorted]
  | cons y ys ih =>
    have hy := sorted_cons.1 h
    simp only [insert]
    split
    · rename_i hxy
      rw [sorted_cons]
      refine ⟨?_, h⟩
      intro z hz
      rcases List.mem_cons.1 hz with rfl | hz
      · exact hxy
      · exact Nat.lt_trans hxy (hy.1 z hz)
    · split
      · exact h
      · rename_i h1 h2
        rw [sorted_cons]
        refine ⟨?_, ih hy.2⟩
        intro z hz
        rcases mem_insert.1 hz with rfl | hz
        · omega
        · exact hy.1 z hz

theorem length_insert_le (x : Nat) (l : List Nat) : (insert x l).length ≤ l.length + 1 := by
  induction l with
  | nil => simp [insert]
  | cons y ys ih =>
    simp only [insert]
    split
    · simp
    · split
      · simp
      · simp only [List.length_cons]; omega

/-! ## `union` -/

/-- membership in a union (no sortedness needed) -/
theorem mem_union {a b : List Nat} {z : Nat} : z ∈ union a b ↔ z ∈ a ∨ z ∈ b := by
  fun_induction union a b with
  | case1 b => simp
  | case2 a => simp
  | case3 x xs y ys h ih => simp only [List.mem_cons, ih]; grind
  | case4 x xs y ys h1 h2 ih => simp only [List.mem_cons, ih]; grind
  | case5 x xs y ys h1 h2 ih =>
    have : x = y := by omega
    subst this
    simp only [List.mem_cons, ih]; grind

@[simp] theorem union_nil_left (b : List Nat) : union [] b = b := by simp [union]
@[simp] theorem union_nil_right (a : List Nat) : union a [] = a := by cases a <;> simp [union]

theorem sorted_union {a b : List Nat} (ha : Sorted a) (hb : Sorted b) : Sorted (union a b) := by
  fun_induction union a b with
  | case1 b => exact hb
  | case2 a => exact ha
  | case3 x xs y ys h ih =>
    have hx := sorted_cons.1 ha
    have hy := sorted_cons.1 hb
    rw [sorted_cons]
    refine ⟨?_, ih hx.2 hb⟩
    intro z hz
    rcases mem_union.1 hz with hz | hz
    · exact hx.1 z hz
    · rcases List.mem_cons.1 hz with rfl | hz
      · exact h
      · exact Nat.lt_trans h (hy.1 z hz)
  | case4 x xs y ys h1 h2 ih =>
    have hx := sorted_cons.1 ha
    have hy := sorted_cons.1 hb
    rw [sorted_cons]
    refine ⟨?_, ih ha hy.2⟩
    intro z hz
    rcases mem_union.1 hz with hz | hz
    · rcases List.mem_cons.1 hz with rfl | hz
      · exact h2
      · exact Nat.lt_trans h2 (hx.1 z hz)
    · exact hy.1 z hz
  | case5 x xs y ys h1 h2 ih =>
    have : x = y := by omega
    subst this
    have hx := sorted_cons.1 ha
    have hy := sorted_cons.1 hb
    rw [sorted_cons]
    refine ⟨?_, ih hx.2 hy.2⟩
    intro z hz
    rcases mem_union.1 hz with hz | hz
    · exact hx.1 z hz
    · exact hy.1 z hz

theorem length_union_le (a b : List Nat) : (union a b).length ≤ a.length + b.length := by
  fun_induction union a b with
  | case1 b => simp
  | case2 a => simp
  | case3 x xs y ys h ih => simp only [List.length_cons] at ih ⊢; omega
  | case4 x xs y ys h1 h2 ih => simp only [List.length_cons] at ih ⊢; omega
  | case5 x xs y ys h1 h2 ih => simp only [List.length_cons] at ih ⊢; omega

theorem sublist_union_left (a b : List Nat) : a.Sublist (union a b) := by
  fun_induction union a b with
  | case1 b => simp
  | case2 a => simp
  | case3 x xs y ys h ih => exact ih.cons_cons _
  | case4 x xs y ys h1 h2 ih => exact ih.cons _
  | case5 x xs y ys h1 h2 ih => exact ih.cons_cons _

theorem sublist_union_right (a b : List Nat) : b.Sublist (union a b) := by
  fun_induction union a b with
  | case1 b => simp
  | case2 a => simp
  | case3 x xs y ys h ih => exact ih.cons _
  | case4 x xs y ys h1 h2 ih => exact ih.cons_cons _
  | case5 x xs y ys h1 h2 ih =>
    have : x = y := by omega
    subst this
    exact ih.cons_cons _

theorem length_le_union_left (a b : List Nat) : a.length ≤ (union a b).length :=
  (sublist_union_left a b).length_le

theorem length_le_union_right (a b : List Nat) : b.length ≤ (union a b).length :=
  (sublist_union_right a b).length_le

/-! ## `diff` -/

theorem diff_sublist (a b : List Nat) : (diff a b).Sublist a := by
  fun_induction diff a b with
  | case1 b => simp
  | case2 a => simp
  | case3 x xs y ys h ih => exact ih.cons_cons _
  | case4 x xs y ys h1 h2 ih => exact ih
  | case5 x xs y ys h1 h2 ih => exact ih.cons _

@[simp] theorem diff_nil_left (b : List Nat) : diff [] b = [] := by simp [diff]
@[simp] theorem diff_nil_right (a : List Nat) : diff a [] = a := by cases a <;> simp [diff]

theorem mem_of_mem_diff {a b : List Nat} {z : Nat} (h : z ∈ diff a b) : z ∈ a := (diff_sublist a b).subset h

theorem sorted_diff {a : List Nat} (b : List Nat) (ha : Sorted a) : Sorted (diff a b) := ha.sublist (diff_sublist a b)

theorem length_diff_le (a b : List Nat) : (diff a b).length ≤ a.length := (diff_sublist a b).length_le

/-- `diff` that does not shrink has removed nothing -/
theorem diff_eq_of_length_eq {a b : List Nat} (h : (diff a b).length = a.length) : diff a b = a :=
  (diff_sublist a b).eq_of_length h

theorem mem_diff {a b : List Nat} (ha : Sorted a) (hb : Sorted b) {z : Nat} :
    z ∈ diff a b ↔ z ∈ a ∧ z ∉ b := by
  fun_induction diff a b with
  | case1 b => simp
  | case2 a => simp
  | case3 x xs y ys h ih =>
    have hx := sorted_cons.1 ha
    have hy := sorted_cons.1 hb
    simp only [List.mem_cons, ih hx.2 hb, not_or]
    constructor
    · rintro (rfl | ⟨h1, h2, h3⟩)
      · refine ⟨Or.inl rfl, by omega, ?_⟩
        intro hz; have := hy.1 _ hz; omega
      · exact ⟨Or.inr h1, h2, h3⟩
    · rintro ⟨rfl | h1, h2, h3⟩
      · exact Or.inl rfl
      · exact Or.inr ⟨h1, h2, h3⟩
  | case4 x xs y ys h1 h2 ih =>
    have hx := sorted_cons.1 ha
    have hy := sorted_cons.1 hb
    rw [ih ha hy.2]
    simp only [List.mem_cons, not_or]
    constructor
    · rintro ⟨h3, h4⟩
      refine ⟨h3, ?_, h4⟩
      rintro rfl
      rcases h3 with rfl | h3
      · omega
      · have := hx.1 _ h3; omega
    · rintro ⟨h3, _, h4⟩
      exact ⟨h3, h4⟩
  | case5 x xs y ys h1 h2 ih =>
    have : x = y := by omega
    subst this
    have hx := sorted_cons.1 ha
    have hy := sorted_cons.1 hb
    rw [ih hx.2 hy.2]
    simp only [List.mem_cons, not_or]
    constructor
    · rintro ⟨h3, h4⟩
      refine ⟨Or.inr h3, ?_, h4⟩
      rintro rfl
      have := hx.1 _ h3; omega
    · rintro ⟨h3 | h3, h4, h5⟩
      · exact absurd h3 h4
      · exact ⟨h3, h5⟩

/-- `diff s D = s` exactly when `s` and `D` are disjoint -/
theorem diff_eq_self_iff {a b : List Nat} (ha : Sorted a) (hb : Sorted b) :
    diff a b = a ↔ ∀ x ∈ a, x ∉ b := by
  constructor
  · intro h x hx
    rw [← h] at hx
    exact ((mem_diff ha hb).1 hx).2
  · intro h
    apply sorted_ext (sorted_diff b ha) ha
    intro z
    rw [mem_diff ha hb]
    exact ⟨fun h' => h'.1, fun h' => ⟨h', h z h'⟩⟩

/-! ## `inter` -/

theorem inter_sublist (a b : List Nat) : (inter a b).Sublist a := by
  fun_induction inter a b with
  | case1 b => simp
  | case2 a => simp
  | case3 x xs y ys h ih => exact ih.cons _
  | case4 x xs y ys h1 h2 ih => exact ih
  | case5 x xs y ys h1 h2 ih => exact ih.cons_cons _

theorem sorted_inter {a : List Nat} (b : List Nat) (ha : Sorted a) : Sorted (inter a b) := ha.sublist (inter_sublist a b)

theorem length_inter_le (a b : List Nat) : (inter a b).length ≤ a.length := (inter_sublist a b).length_le

theorem mem_inter {a b : List Nat} (ha : Sorted a) (hb : Sorted b) {z : Nat} :
    z ∈ inter a b ↔ z ∈ a ∧ z ∈ b := by
  fun_induction inter a b with
  | case1 b => simp
  | case2 a => simp
  | case3 x xs y ys h ih =>
    have hx := sorted_cons.1 ha
    have hy := sorted_cons.1 hb
    rw [ih hx.2 hb]
    simp only [List.mem_cons]
    constructor
    · rintro ⟨h1, h2⟩; exact ⟨Or.inr h1, h2⟩
    · rintro ⟨rfl | h1, h2⟩
      · rcases h2 with rfl | h2
        · omega
        · have := hy.1 _ h2; omega
      · exact ⟨h1, h2⟩
  | case4 x xs y ys h1 h2 ih =>
    have hx := sorted_cons.1 ha
    have hy := sorted_cons.1 hb
    rw [ih ha hy.2]
    simp only [List.mem_cons]
    constructor
    · rintro ⟨h3, h4⟩; exact ⟨h3, Or.inr h4⟩
    · rintro ⟨h3, rfl | h4⟩
      · rcases h3 with rfl | h3
        · omega
        · have := hx.1 _ h3; omega
      · exact ⟨h3, h4⟩
  | case5 x xs y ys h1 h2 ih =>
    have : x = y := by omega
    subst this
    have hx := sorted_cons.1 ha
    have hy := sorted_cons.1 hb
    simp only [List.mem_cons, ih hx.2 hy.2]
    constructor
    · rintro (rfl | ⟨h3, h4⟩)
      · exact ⟨Or.inl rfl, Or.inl rfl⟩
      · exact ⟨Or.inr h3, Or.inr h4⟩
    · rintro ⟨rfl | h3, h4⟩
      · exact Or.inl rfl
      · rcases h4 with rfl | h4
        · exact Or.inl rfl
        · exact Or.inr ⟨h3, h4⟩

/-! ## `dedup`, `ofList` -/

theorem mem_dedup {l : List Nat} {z : Nat} : z ∈ dedup l ↔ z ∈ l := by
  fun_induction dedup l with
  | case1 => simp
  | case2 a => simp
  | case3 a rest ih => rw [ih]; simp
  | case4 a b rest h ih => simp only [List.mem_cons, ih]

theorem dedup_sublist (l : List Nat) : (dedup l).Sublist l := by
  fun_induction dedup l with
  | case1 => simp
  | case2 a => simp
  | case3 a rest ih => exact ih.cons _
  | case4 a b rest h ih => exact ih.cons_cons _

theorem sorted_dedup {l : List Nat} (h : l.Pairwise (· ≤ ·)) : Sorted (dedup l) := by
  fun_induction dedup l with
  | case1 => trivial
  | case2 a => trivial
  | case3 a rest ih => exact ih (List.pairwise_cons.1 h).2
  | case4 a b rest hab ih =>
    have h' := List.pairwise_cons.1 h
    rw [sorted_cons]
    refine ⟨?_, ih h'.2⟩
    intro z hz
    have hz' := mem_dedup.1 hz
    have h1 := h'.1 z hz'
    have h2 := (List.pairwise_cons.1 h'.2).1
    rcases List.mem_cons.1 hz' with rfl | hz''
    · omega
    · have := h2 z hz''
      have := h'.1 b (by simp)
      omega

theorem dedup_eq_self {l : List Nat} (h : Sorted l) : dedup l = l := by
  fun_induction dedup l with
  | case1 => rfl
  | case2 a => rfl
  | case3 a rest ih => exact absurd h.1 (Nat.lt_irrefl _)
  | case4 a b rest hab ih => rw [ih h.2]

theorem mergeSort_pairwise (l : List Nat) : (l.mergeSort (fun a b => decide (a ≤ b))).Pairwise (· ≤ ·) := by
  have := List.pairwise_mergeSort (le := fun a b => decide (a ≤ b))
    (by intro a b c; simp only [decide_eq_true_eq]; omega)
    (by intro a b; simp only [Bool.or_eq_true, decide_eq_true_eq]; omega) l
  exact this.imp (by simp)

theorem sorted_ofList (l : List Nat) : Sorted (ofList l) := sorted_dedup (mergeSort_pairwise l)

theorem mem_ofList {l : List Nat} {z : Nat} : z ∈ ofList l ↔ z ∈ l := by
  unfold ofList
  rw [mem_dedup, List.mem_mergeSort]

theorem length_ofList_le (l : List Nat) : (ofList l).length ≤ l.length := by
  unfold ofList
  have := (dedup_sublist (l.mergeSort (fun a b => decide (a ≤ b)))).length_le
  rwa [List.length_mergeSort] at this

/-- on a duplicate-free list, `ofList` is a permutation (sorting only) -/
theorem ofList_perm {l : List Nat} (h : l.Nodup) : (ofList l).Perm l := by
  unfold ofList
  have hp := List.mergeSort_perm l (fun a b => decide (a ≤ b))
  have hnd : (l.mergeSort (fun a b => decide (a ≤ b))).Nodup := hp.nodup_iff.2 h
  have hs : Sorted (l.mergeSort (fun a b => decide (a ≤ b))) := by
    rw [sorted_iff_pairwise]
    have h1 := mergeSort_pairwise l
    have h2 : (l.mergeSort (fun a b => decide (a ≤ b))).Pairwise (· ≠ ·) := hnd
    exact (h1.and h2).imp (by intro a b ⟨h3, h4⟩; omega)
  rw [dedup_eq_self hs]
  exact hp

theorem length_ofList {l : List Nat} (h : l.Nodup) : (ofList l).length = l.length := (ofList_perm h).length_eq

theorem ofList_eq_self {l : List Nat} (h : Sorted l) : ofList l = l :=
  sorted_ext (sorted_ofList l) h (fun _ => mem_ofList)

end IdSet
end Arroy
