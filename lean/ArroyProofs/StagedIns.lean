import ArroyProofs.Staged
/-! `lastPut` / `Adequate` of the write-back library (same definitions as `ArroyProofs/Staged.lean`
of the delete side; to be merged), and the way the insert / make-tree routines establish
adequacy: every put is a cell of the result, and every cell that is not put is an old cell. -/
namespace Arroy

theorem lastPut_eq_none_iff (ps : List (Nat × Val)) (i : Nat) :
    lastPut ps i = none ↔ i ∉ ps.map (·.1) := by
  simp only [lastPut, Option.map_eq_none_iff, List.find?_eq_none, List.mem_reverse, List.mem_map,
    decide_eq_true_eq, not_exists, not_and]

theorem mem_of_lastPut_eq_some {ps : List (Nat × Val)} {i : Nat} {v : Val}
    (h : lastPut ps i = some v) : (i, v) ∈ ps := by
  simp only [lastPut, Option.map_eq_some_iff] at h
  obtain ⟨p, hp, rfl⟩ := h
  have h1 := List.mem_of_find?_eq_some hp
  have h2 := List.find?_some hp
  simp only [decide_eq_true_eq] at h2
  subst h2
  exact List.mem_reverse.1 h1

/-- cells are functional in their id when the ids are distinct -/
theorem cells_functional {t : T} (hnd : t.ids.Nodup) {i : Nat} {v w : Val}
    (hv : (i, v) ∈ t.cells) (hw : (i, w) ∈ t.cells) : v = w := by
  rw [← cells_ids] at hnd
  generalize t.cells = cs at hnd hv hw
  induction cs with
  | nil => cases hv
  | cons c cs ih =>
    simp only [List.map_cons, List.nodup_cons, List.mem_map, not_exists, not_and] at hnd
    rcases List.mem_cons.1 hv with hv' | hv' <;> rcases List.mem_cons.1 hw with hw' | hw'
    · rw [← hv'] at hw'; cases hw'; rfl
    · subst hv'; exact absurd rfl (hnd.1 (i, w) hw')
    · subst hw'; exact absurd rfl (hnd.1 (i, v) hv')
    · exact ih hnd.2 hv' hw'

/-- how the structural routines establish adequacy -/
theorem adequate_of_cells {c : Cfg} {puts : List (Nat × Val)} {s : Store} {t' : T}
    (hnd : t'.ids.Nodup) (hputs : ∀ p ∈ puts, p ∈ t'.cells)
    (hold : ∀ cell ∈ t'.cells, cell.1 ∉ puts.map (·.1) → s.get (c.treeKey cell.1) = some cell.2) :
    Adequate c [] puts s t' := by
  intro cell hc
  refine ⟨by simp, ?_⟩
  cases hl : lastPut puts cell.1 with
  | none => exact Or.inr ⟨rfl, hold cell hc ((lastPut_eq_none_iff _ _).1 hl)⟩
  | some v =>
    left
    have hm := hputs _ (mem_of_lastPut_eq_some hl)
    rw [cells_functional hnd hm (show (cell.1, cell.2) ∈ t'.cells from hc)]

end Arroy
