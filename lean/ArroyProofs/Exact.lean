import ArroyProofs.Nns
/-! Exact search: on a valid forest, with a budget that cannot stop the traversal, `nnsByLeaf` returns the
exact answer over the items that pass the filter. Shared by C02 (no filter) and C03 (filter). -/
namespace Arroy
namespace Reader

/-- the budget when `search_k = usize::MAX` -/
theorem budget_unlimited (m : Metric) (n : Nat) (q : QueryOpts) (hk : q.searchK = some usizeMax)
    (ho : q.oversampling ≠ some 0) : budget m n q = usizeMax := by
  unfold budget satMul
  rw [hk]
  simp only [Option.getD_some]
  have h1 : 1 ≤ q.oversampling.getD m.oversampling := by
    cases h : q.oversampling with
    | none => simp only [Option.getD_none]; cases m <;> decide
    | some k => simp only [Option.getD_some]; cases k with
      | zero => exact absurd h ho
      | succ k => omega
  have : usizeMax ≤ usizeMax * q.oversampling.getD m.oversampling := Nat.le_mul_of_pos_right _ h1
  exact Nat.min_eq_right this

/-- the budget when `count × trees` saturates -/
theorem budget_saturated (m : Metric) (n : Nat) (q : QueryOpts) (hk : q.searchK = none)
    (hc : usizeMax ≤ q.count * n) (ho : q.oversampling ≠ some 0) : budget m n q = usizeMax := by
  unfold budget
  rw [hk]
  simp only [Option.getD_none]
  have : satMul q.count n = usizeMax := by unfold satMul; exact Nat.min_eq_right hc
  rw [this]
  have h1 : 1 ≤ q.oversampling.getD m.oversampling := by
    cases h : q.oversampling with
    | none => simp only [Option.getD_none]; cases m <;> decide
    | some k => simp only [Option.getD_some]; cases k with
      | zero => exact absurd h ho
      | succ k => omega
  unfold satMul
  exact Nat.min_eq_right (Nat.le_mul_of_pos_right _ h1)

/-- the filter of `q` is usable by the merge-based intersection: it is sorted, and so are the buckets -/
def FilterOK (c : Cfg) (s : Store) (q : QueryOpts) : Prop :=
  q.candidates = none ∨ (DescSorted c s ∧ ∀ cs, q.candidates = some cs → IdSet.Sorted cs)

theorem mem_collect_of_filterOK {c : Cfg} {s : Store} {q : QueryOpts} (hf : FilterOK c s q) (t : T)
    (ht : Holds c s t) (x : Nat) : x ∈ t.collect q ↔ (x ∈ t.items ∧ inCandidates q x = true) := by
  rcases hf with hn | ⟨hd, hc⟩
  · rw [collect_none q hn]; simp [inCandidates, hn]
  · exact mem_collect q t (bucketsSorted_of_descSorted hd t ht) hc x

/-- on a valid forest, under a budget admitting trees × items candidates, the deduplicated candidate list
is the item list restricted to the filter -/
theorem candidates_exact {c : Cfg} {s : Store} {rd : ReaderState} {ts : List T} (F : ForestWith c s rd ts)
    (qv : List Nat) (q : QueryOpts) (hf : FilterOK c s q)
    (hb : rd.roots.length * rd.items.length ≤ budget c.metric rd.roots.length q) :
    ∃ nns, traverse c s qv q (budget c.metric rd.roots.length q) (2 * s.length + rd.roots.length + 2)
        (rd.roots.map fun r => (F32.inf, NodeId.mkTree r)) [] = .ok nns ∧
      IdSet.ofList nns = rd.items.filter (inCandidates q) := by
  obtain ⟨nns, hn, hm⟩ := traverse_unlimited F qv q _ (Nat.le_trans (forest_candidates_le F q) hb)
  refine ⟨nns, hn, ?_⟩
  apply IdSet.ofList_eq_of_mem (F.sorted.pairwise.filter _)
  intro x
  rw [hm x, List.mem_filter]
  constructor
  · rintro ⟨t, ht, hx⟩
    have := (mem_collect_of_filterOK hf t (F.holds t ht) x).1 hx
    exact ⟨(F.reach t ht x).1 this.1, this.2⟩
  · rintro ⟨hx, hc⟩
    have hne : rd.items ≠ [] := List.ne_nil_of_mem hx
    have hr := F.roots_ne hne
    have hl : ts.length = rd.roots.length := by
      have := congrArg List.length F.refs
      simpa using this
    cases hts : ts with
    | nil => rw [hts] at hl; exact absurd (List.length_eq_zero_iff.1 hl.symm) hr
    | cons t ts' =>
      have ht : t ∈ ts := by rw [hts]; exact List.mem_cons_self
      rw [← hts]
      exact ⟨t, ht, (mem_collect_of_filterOK hf t (F.holds t ht) x).2 ⟨(F.reach t ht x).2 hx, hc⟩⟩

theorem exactOver_nil (c : Cfg) (s : Store) (dims : Nat) (qh qv : List Nat) (count : Nat) :
    exactOver c s dims qh qv count [] = [] := by
  simp [exactOver, sortedScored, scored]

/-- **exact search**: valid forest + budget ≥ trees × items ⇒ `nnsByLeaf` is the exact answer over the items
inside the filter -/
theorem nnsByLeaf_exact {c : Cfg} {s : Store} {rd : ReaderState} (F : ForestOK c s rd)
    (qh qv : List Nat) (q : QueryOpts) (hf : FilterOK c s q)
    (hb : rd.roots.length * rd.items.length ≤ budget c.metric rd.roots.length q) :
    nnsByLeaf c s rd qh qv q =
      .ok (exactOver c s rd.dims qh qv q.count (rd.items.filter (inCandidates q))) := by
  obtain ⟨ts, F⟩ := F
  by_cases hne : rd.items = []
  · unfold nnsByLeaf
    simp [hne, exactOver_nil]
  · obtain ⟨nns, hn, he⟩ := candidates_exact F qv q hf hb
    rw [← he]
    apply nnsByLeaf_of_traverse c s rd qh qv q nns hne hn
    intro id hid
    rw [he, List.mem_filter] at hid
    exact F.stored id hid.1

/-- no filter: the filter keeps everything -/
theorem filter_none (q : QueryOpts) (hq : q.candidates = none) (l : List Nat) :
    l.filter (inCandidates q) = l := by
  apply List.filter_eq_self.2
  intro x _; simp [inCandidates, hq]

/-- the metrics whose `built_distance` does not read the headers -/
def headerless (m : Metric) : Bool := m != .cosine && m != .bqCosine

theorem builtDistance_headerless (m : Metric) (hm : headerless m = true) (host : Host) (ph ph' pv qh qv : List Nat) :
    m.builtDistance host ph pv qh qv = m.builtDistance host ph' pv qh qv := by
  cases m <;> first | rfl | exact absurd hm (by decide)

theorem scoreAll_headerless (c : Cfg) (s : Store) (hm : headerless c.metric = true) (qh qh' qv : List Nat)
    (ids : List Nat) : scoreAll c s qh qv ids = scoreAll c s qh' qv ids := by
  induction ids with
  | nil => rfl
  | cons id rest ih =>
    simp only [scoreAll, ih, builtDistance_headerless c.metric hm c.host qh qh']

/-- for Euclidean, Manhattan, dot-product and their quantised variants the header of the query leaf is
irrelevant -/
theorem nnsByLeaf_headerless (c : Cfg) (s : Store) (rd : ReaderState) (hm : headerless c.metric = true)
    (qh qh' qv : List Nat) (q : QueryOpts) : nnsByLeaf c s rd qh qv q = nnsByLeaf c s rd qh' qv q := by
  unfold nnsByLeaf
  simp only [scoreAll_headerless c s hm qh qh']

end Reader
end Arroy
