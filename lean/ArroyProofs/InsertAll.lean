import ArroyProofs.InsertRoots
/-! `insert_items_in_current_trees` over a family of held, node-disjoint trees, all batches. -/
namespace Arroy
open BuildM Generated IdSet

theorem All2.map_right {α β γ : Type} {R : α → γ → Prop} (f : β → γ) :
    ∀ {as : List α} {bs : List β}, All2 (fun a b => R a (f b)) as bs → All2 R as (bs.map f)
  | [], [], _ => trivial
  | _ :: _, _ :: _, h => ⟨h.1, All2.map_right f h.2⟩
  | [], _ :: _, h => h.elim
  | _ :: _, [], h => h.elim

/-- what inserting `ins` does to one tree -/
structure InsRel (cx : TreeCtx) (ins : List Nat) (t t' : T) : Prop where
  items : ∀ x, x ∈ t'.items ↔ x ∈ t.items ∨ x ∈ ins
  wf : Sorted ins → WF t → WF t'
  nodup : Sorted ins → WF t → t.items.Nodup → (∀ x ∈ ins, x ∉ t.items) → t'.items.Nodup
  routed : RoutedT cx t → RoutedT cx t'
  bucket : ∀ id s, t = .bucket id s → ∃ s', t' = .bucket id s'

theorem InsRel.of_insertT {cx : TreeCtx} {t : T} {ins : List Nat} {g : IdGen} {rs : List Bool} {res : InsRes}
    (h : insertT cx t ins g rs = .ok res) : InsRel cx ins t res.tree := by
  obtain ⟨h1, h2, h3⟩ := insertT_items cx t ins g rs res h
  refine ⟨h1, fun hs hw => h2 hw hs, fun hs hw hn hd => h3 hw hs hn hd, insertT_routed cx t ins g rs res h, ?_⟩
  intro id s ht
  subst ht
  rcases insertT_bucket_ok h with ⟨_, rfl⟩ | ⟨_, rfl⟩
  · exact ⟨_, rfl⟩
  · exact ⟨_, rfl⟩

theorem InsRel.refl (cx : TreeCtx) (t : T) : InsRel cx [] t t :=
  ⟨fun x => by simp, fun _ h => h, fun _ _ h _ => h, fun h => h, fun id s h => ⟨s, h⟩⟩

theorem InsRel.comp {cx : TreeCtx} {a b : List Nat} {t t1 t2 : T} (h1 : InsRel cx a t t1) (h2 : InsRel cx b t1 t2) :
    InsRel cx (a ++ b) t t2 := by
  refine ⟨?_, ?_, ?_, fun h => h2.routed (h1.routed h), ?_⟩
  · intro x
    rw [h2.items, h1.items, List.mem_append, or_assoc]
  · intro hs hw
    exact h2.wf (hs.sublist (List.sublist_append_right a b)) (h1.wf (hs.sublist (List.sublist_append_left a b)) hw)
  · intro hs hw hn hd
    have hsa := hs.sublist (List.sublist_append_left a b)
    have hsb := hs.sublist (List.sublist_append_right a b)
    refine h2.nodup hsb (h1.wf hsa hw) (h1.nodup hsa hw hn (fun x hx => hd x (List.mem_append_left _ hx))) ?_
    intro x hx hx1
    rcases (h1.items x).1 hx1 with h' | h'
    · exact hd x (List.mem_append_right _ hx) h'
    · exact (List.nodup_append.1 hs.nodup).2.2 x h' x hx rfl
  · intro id s ht
    obtain ⟨s1, h1'⟩ := h1.bucket id s ht
    exact h2.bucket id s1 h1'

/-! ## one batch -/

theorem insertBatch_spec (c : Cfg) (o : BuildOpts) (batch roots : List Nat) (us : List T) (g g1 : IdGen)
    (inUse : List Nat) (st st1 st2 : BState) (putss : List (List (Nat × Val))) (large : List Nat)
    (hrefs : us.map T.ref = roots.map NodeId.mkTree)
    (hholds : ∀ t ∈ us, Holds c st.store t)
    (hnd : (us.flatMap T.ids).Nodup)
    (hin : ∀ i ∈ us.flatMap T.ids, i ∈ inUse)
    (hg : GenOK inUse g) (hw : Store.WF st.store) (hi : c.index < 65536)
    (h1 : Build.insertRoots c o st.store batch roots g st = .ok ((putss, large, g1), st1))
    (h2 : forEach putss (fun puts => Build.writeBack c [] puts id) st1 = .ok ((), st2)) :
    ∃ us' : List T,
      us'.map T.ref = roots.map NodeId.mkTree ∧
      (∀ t ∈ us', Holds c st2.store t) ∧
      (us'.flatMap T.ids).Nodup ∧
      (∀ i ∈ us'.flatMap T.ids, i ∈ us.flatMap T.ids ∨ (i ∉ inUse ∧ i < 4294967296)) ∧
      (∀ i ∈ us.flatMap T.ids, i ∈ us'.flatMap T.ids) ∧
      GenOK (us'.flatMap T.ids ++ inUse) g1 ∧
      (∀ k, (∀ i ∈ us'.flatMap T.ids, k ≠ c.treeKey i) → Store.get st2.store k = Store.get st.store k) ∧
      StoreStep c st.store st2.store ∧
      All2 (InsRel (Build.treeCtx c o st.store) batch) us us' ∧
      (∀ t' ∈ us', ∀ b ∈ t'.buckets, ¬ fits (Build.cap c o) b.2.length → b.1 ∈ large) := by
  obtain ⟨rs, r1, r2, r3, r4, r5, r6, r7, r8, r9, r10⟩ :=
    insertRoots_spec c o st.store batch roots us g inUse st st1 putss large g1 hrefs hholds hnd hin hg h1
  have hputs : ∀ r ∈ rs, ∀ p ∈ r.puts, p.1 ∈ r.tree.ids := by
    intro r hr p hp
    obtain ⟨t, _, g0, rs0, hins⟩ := r1.mem_right r hr
    exact insertT_puts _ t batch g0 rs0 r hins p hp
  have hput_in : ∀ ps ∈ putss, ∀ p ∈ ps, p.1 ∈ (rs.map (·.tree)).flatMap T.ids := by
    intro ps hps p hp
    rw [r2] at hps
    obtain ⟨r, hr, rfl⟩ := List.mem_map.1 hps
    exact List.mem_flatMap.2 ⟨r.tree, List.mem_map_of_mem hr, hputs r hr p hp⟩
  have hbound : ∀ i ∈ (rs.map (·.tree)).flatMap T.ids, i < 4294967296 := by
    intro i hi'
    rcases r5 i hi' with h' | ⟨_, h'⟩
    · obtain ⟨t, ht, hit⟩ := List.mem_flatMap.1 h'
      exact lt_of_isSome_tree hw ((hholds t ht).isSome hit)
    · exact h'
  obtain ⟨hstep, hget⟩ := forEach_writeBack_spec c hi putss st1 st2 h2
    (fun ps hps p hp => hbound _ (hput_in ps hps p hp))
  rw [r10] at hstep hget
  refine ⟨rs.map (·.tree), r9, ?_, r4, r5, r6, r7, ?_, hstep, ?_, ?_⟩
  · intro t' ht'
    obtain ⟨r, hr, rfl⟩ := List.mem_map.1 ht'
    exact holds_after_writeBack c st.store st2.store rs r4 hputs r8 (by rw [← r2]; exact hget) r hr
  · intro k hk
    rw [hget]
    apply get_putAll_of_not
    intro p hp
    obtain ⟨ps, hps, hpp⟩ := List.mem_flatten.1 hp
    exact hk _ (hput_in ps hps p hpp)
  · apply All2.map_right
    exact r1.mono (fun t r ⟨g0, rs0, hins⟩ => InsRel.of_insertT hins)
  · intro t' ht' b hb hnf
    obtain ⟨r, hr, rfl⟩ := List.mem_map.1 ht'
    obtain ⟨t, _, g0, rs0, hins⟩ := r1.mem_right r hr
    rw [r3]
    apply mem_unionAll.2
    refine ⟨r.large, List.mem_map_of_mem hr, ?_⟩
    exact ((insertT_large _ t batch g0 rs0 r hins).2 b.1).2 ⟨b.2, hb, hnf⟩

/-! ## all batches -/

theorem insertAll_spec (c : Cfg) (o : BuildOpts) (roots : List Nat) (hi : c.index < 65536) (fuel : Nat) :
    ∀ (ins : List Nat) (us : List T) (g g' : IdGen) (inUse : List Nat) (st st' : BState) (large : List Nat),
    us.map T.ref = roots.map NodeId.mkTree →
    (∀ t ∈ us, Holds c st.store t) →
    (us.flatMap T.ids).Nodup →
    (∀ i ∈ us.flatMap T.ids, i ∈ inUse) →
    GenOK inUse g → Store.WF st.store → Sorted ins →
    Build.insertItemsInCurrentTrees c o roots fuel ins g st = .ok ((large, g'), st') →
    ∃ (us' : List T) (inUse' : List Nat),
      us'.map T.ref = roots.map NodeId.mkTree ∧
      (∀ t ∈ us', Holds c st'.store t) ∧
      (us'.flatMap T.ids).Nodup ∧
      (∀ i ∈ us'.flatMap T.ids, i ∈ us.flatMap T.ids ∨ (i ∉ inUse ∧ i < 4294967296)) ∧
      (∀ i ∈ us.flatMap T.ids, i ∈ us'.flatMap T.ids) ∧
      GenOK inUse' g' ∧ (∀ i ∈ inUse, i ∈ inUse') ∧ (∀ i ∈ us'.flatMap T.ids, i ∈ inUse') ∧
      (∀ k, (∀ i ∈ us'.flatMap T.ids, k ≠ c.treeKey i) → Store.get st'.store k = Store.get st.store k) ∧
      StoreStep c st.store st'.store ∧
      All2 (InsRel (Build.treeCtx c o st.store) ins) us us' ∧
      ((roots = [] ∨ ins = []) → us' = us ∧ large = [] ∧ st'.store = st.store) ∧
      (roots ≠ [] → ins ≠ [] → ∀ t' ∈ us', ∀ b ∈ t'.buckets, ¬ fits (Build.cap c o) b.2.length → b.1 ∈ large) := by
  induction fuel with
  | zero =>
    intro ins us g g' inUse st st' large _ _ _ _ _ _ _ h
    simp only [Build.insertItemsInCurrentTrees] at h
    exact (fail_ok h).elim
  | succ fuel ih =>
    intro ins us g g' inUse st st' large hrefs hholds hnd hin hg hw hs h
    simp only [Build.insertItemsInCurrentTrees] at h
    split at h
    · -- nothing to do
      rename_i hemp
      obtain ⟨e1, rfl⟩ := pure_ok' h
      simp only [Prod.mk.injEq] at e1
      obtain ⟨rfl, rfl⟩ := e1
      have hemp' : roots = [] ∨ ins = [] := by
        simpa [List.isEmpty_iff] using hemp
      refine ⟨us, inUse, hrefs, hholds, hnd, fun i hi' => Or.inl hi', fun i hi' => hi', hg, fun i hi' => hi', hin,
        fun _ _ => rfl, .refl _, ?_, fun _ => ⟨rfl, rfl, rfl⟩, ?_⟩
      · rcases hemp' with rfl | rfl
        · have : us = [] := by
            have := congrArg List.length hrefs; simpa using this
          subst this
          trivial
        · exact All2.refl (InsRel.refl _) us
      · intro h1 h2
        rcases hemp' with h' | h'
        · exact absurd h' h1
        · exact absurd h' h2
    · rename_i hemp
      have hne : roots ≠ [] ∧ ins ≠ [] := by
        simpa [List.isEmpty_iff, not_or] using hemp
      obtain ⟨u1, st1, h1, k1⟩ := bind_ok_inv h
      clear h
      have e1 := poll_store' h1
      obtain ⟨snap, st2, h2, k2⟩ := bind_ok_inv k1
      clear k1
      obtain ⟨e2a, e2b⟩ := getStore_ok' h2
      obtain ⟨k, st3, h3, k3⟩ := bind_ok_inv k2
      clear k2
      have e3 := nextBatch_ok' h3
      split at k3
      · exact (fail_ok k3).elim
      · rename_i hk
        obtain ⟨x, st4, h4, k4⟩ := bind_ok_inv k3
        clear k3
        obtain ⟨putss, large1, g1⟩ := x
        simp only at k4
        obtain ⟨u5, st5, h5, k5⟩ := bind_ok_inv k4
        clear k4
        obtain ⟨y, st6, h6, k6⟩ := bind_ok_inv k5
        clear k5
        obtain ⟨large2, g2⟩ := y
        simp only at k6
        obtain ⟨e7, e8⟩ := pure_ok' k6
        simp only [Prod.mk.injEq] at e7
        obtain ⟨rfl, rfl⟩ := e7
        subst e8
        have hsnap : snap = st.store := by rw [← e2a, e1]
        have hst3 : st3.store = st.store := by rw [e3, ← e2b, e1]
        subst hsnap
        -- first batch
        have hb := insertBatch_spec c o (ins.take k) roots us g g1 inUse st3 st4 st5 putss large1
          (by rw [hst3] at *; exact hrefs) (by rw [hst3]; exact hholds) hnd hin hg (by rw [hst3]; exact hw) hi
          (by rw [hst3]; exact h4) h5
        rw [hst3] at hb
        obtain ⟨us1, b1, b2, b3, b4, b5, b6, b7, b8, b9, b10⟩ := hb
        have hframe1 : TreeFrame c st.store st5.store := fun k' hk' => b7 k' (fun i _ => hk' i)
        have hcx : Build.treeCtx c o st5.store = Build.treeCtx c o st.store := hframe1.treeCtx o
        -- the remaining batches
        obtain ⟨us', inUse', c1, c2, c3, c4, c5, c6, c7, c8, c9, c10, c11, c12, c13⟩ :=
          ih (ins.drop k) us1 g1 g2 (us1.flatMap T.ids ++ inUse) st5 st6 large2 b1 b2 b3
            (fun i hi' => List.mem_append_left _ hi') b6 (b8.wf hw) (hs.sublist (List.drop_sublist k ins)) h6
        rw [hcx] at c11
        refine ⟨us', inUse', c1, c2, c3, ?_, fun i hi' => c5 i (b5 i hi'), c6,
          fun i hi' => c7 i (List.mem_append_right _ hi'), c8, ?_, b8.trans c10, ?_, ?_, ?_⟩
        · intro i hi'
          rcases c4 i hi' with h' | ⟨h', hlt⟩
          · exact b4 i h'
          · exact Or.inr ⟨fun hm => h' (List.mem_append_right _ hm), hlt⟩
        · intro k' hk'
          rw [c9 k' hk', b7 k' (fun i hi' => hk' i (c5 i hi'))]
        · have := All2.comp (fun a b d (h1 : InsRel _ (ins.take k) a b) (h2 : InsRel _ (ins.drop k) b d) => h1.comp h2) b9 c11
          rw [List.take_append_drop] at this
          exact this
        · intro h'
          rcases h' with h' | h'
          · exact absurd h' hne.1
          · exact absurd h' hne.2
        · intro _ _ t' ht' b hb hnf
          apply mem_union.2
          by_cases hd : ins.drop k = []
          · obtain ⟨e1', _, _⟩ := c12 (Or.inr hd)
            rw [e1'] at ht'
            exact Or.inl (b10 t' ht' b hb hnf)
          · exact Or.inr (c13 hne.1 hd t' ht' b hb hnf)

end Arroy
