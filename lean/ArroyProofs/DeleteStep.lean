import ArroyProofs.ExtraTrees
/-! `delete_items_from_trees` on a forest: the result is a forest on the new roots that reaches the
old items minus the deleted ones. -/
namespace Arroy
open BuildM Generated IdSet

theorem lt_of_isSome_tree {c : Cfg} {s : Store} (hw : Store.WF s) {i : Nat}
    (h : (Store.get s (c.treeKey i)).isSome = true) : i < 4294967296 := by
  obtain ⟨v, hv⟩ := (Store.get_isSome_iff s _).1 h
  have := (hw _ hv).2.2
  simpa [Cfg.treeKey, Key.mkTree] using this

/-- a list whose image is a permutation of `r` can be reordered to have image `r` -/
theorem exists_perm_map {α β : Type} [DecidableEq α] (f : α → β) :
    ∀ (r : List β) (l : List α), (l.map f).Perm r → ∃ l' : List α, l'.Perm l ∧ l'.map f = r := by
  intro r
  induction r with
  | nil =>
    intro l h
    have : l = [] := by
      have := h.length_eq; simpa using this
    exact ⟨[], by rw [this], rfl⟩
  | cons b r ih =>
    intro l h
    have hb : b ∈ l.map f := h.mem_iff.2 (by simp)
    obtain ⟨a, ha, hfa⟩ := List.mem_map.1 hb
    have hp : l.Perm (a :: l.erase a) := List.perm_cons_erase ha
    have h2 : ((a :: l.erase a).map f).Perm (b :: r) := (hp.symm.map f).trans h
    simp only [List.map_cons, hfa] at h2
    obtain ⟨l', hl', hm⟩ := ih (l.erase a) h2.cons_inv
    exact ⟨a :: l', (hl'.cons a).trans hp.symm, by simp [hm, hfa]⟩

theorem deleteItemsFromTrees_step (c : Cfg) (o : BuildOpts) (roots : List Nat) (D : List Nat) (ts : List T)
    {st st' : BState} {roots' : List Nat}
    (hroots : ts.map T.ref = roots.map NodeId.mkTree)
    (hholds : ∀ t ∈ ts, Holds c st.store t)
    (hnd : (ts.flatMap T.ids).Nodup)
    (hw : Store.WF st.store) (hi : c.index < 65536)
    (h : Build.deleteItemsFromTrees c o roots D st = .ok (roots', st')) :
    StoreStep c st.store st'.store := by
  unfold Build.deleteItemsFromTrees at h
  obtain ⟨s, st1, h1, h⟩ := bind_ok_inv h
  obtain ⟨rfl, rfl⟩ := getStore_ok' h1
  obtain ⟨x, st2, hloop, h⟩ := bind_ok_inv h
  obtain ⟨r0, puts, removed⟩ := x
  simp only at h
  obtain ⟨u, st3, hwb, h⟩ := bind_ok_inv h
  obtain ⟨_, rfl⟩ := pure_ok' h
  obtain ⟨ts', hr', hres, e1⟩ := deleteLoop_spec c o D st.store roots hloop
  have hts : ts' = ts := by
    have e : roots.map (fun root => reify c st.store (st.store.length + 1) (NodeId.mkTree root)) = ts.map some := by
      have e0 : roots.map (fun root => reify c st.store (st.store.length + 1) (NodeId.mkTree root)) =
          (roots.map NodeId.mkTree).map (fun ref => reify c st.store (st.store.length + 1) ref) := by
        rw [List.map_map]; rfl
      rw [e0, ← hroots, List.map_map]
      apply List.map_congr_left
      intro t ht
      have tnd : t.ids.Nodup := by
        rw [List.Nodup, List.pairwise_flatMap] at hnd
        exact hnd.1 t ht
      exact reify_of_holds_nodup c st.store t (hholds t ht) tnd
    rw [e] at hr'
    exact (map_some_inj hr').symm
  subst hts
  simp only [Prod.mk.injEq] at hres
  obtain ⟨_, h2, _⟩ := hres
  have hs := writeBack_eq c removed puts id hwb
  rw [hs]
  have hs2 : st2.store = st.store := by rw [e1]
  simp only [hs2]
  apply StoreStep.putAllMap ((StoreStep.refl _).eraseAll _) id _ hi
  intro p hp
  have hp' := (List.mem_filter.1 hp).1
  rw [h2] at hp'
  have hid := forestPuts_sub (Build.cap c o) D ts' p hp'
  obtain ⟨t, ht, hit⟩ := List.mem_flatMap.1 hid
  exact lt_of_isSome_tree hw ((hholds t ht).isSome hit)

/-- what the deletion step does to one tree -/
def DelRel (cx : TreeCtx) (D : List Nat) (t t' : T) : Prop := t' = (delT cx.cap D t).tree

theorem deleteItemsFromTrees_forest (c : Cfg) (o : BuildOpts) (roots items items' D : List Nat) (ts : List T)
    {st st' : BState} {roots' : List Nat}
    (f : Forest c st.store roots items ts)
    (hcap : 1 ≤ Build.cap c o) (hD : Sorted D)
    (hitems : ∀ x, x ∈ items' ↔ x ∈ items ∧ x ∉ D)
    (hw : Store.WF st.store) (hi : c.index < 65536)
    (h : Build.deleteItemsFromTrees c o roots D st = .ok (roots', st')) :
    ∃ ts', Forest c st'.store roots' items' ts' ∧
      (∀ t' ∈ ts', ∃ t ∈ ts, t' = (delT (Build.cap c o) D t).tree) ∧
      StoreStep c st.store st'.store ∧ TreeFrame c st.store st'.store ∧
      roots'.length = roots.length ∧
      (∀ i, (Store.get st'.store (c.treeKey i)).isSome = true → (Store.get st.store (c.treeKey i)).isSome = true) := by
  have spec := deleteItemsFromTrees_spec c o roots D ts f.refs f.holds f.ids_nodup h
  have hroots := deleteItemsFromTrees_roots c o roots D ts hcap f.refs f.holds f.ids_nodup h
  have hstep := deleteItemsFromTrees_step c o roots D ts f.refs f.holds f.ids_nodup hw hi h
  have hnl := not_leaf_of_refs f.refs
  -- the forest of the new trees, in the order of the old ones
  have hids : (ts.map (fun t => (delT (Build.cap c o) D t).tree)).flatMap T.ids =
      forestNewIds (Build.cap c o) D ts := by
    rw [List.flatMap_map]; rfl
  have hcover : ∀ id, (Store.get st'.store (c.treeKey id)).isSome = true ↔ id ∈ forestNewIds (Build.cap c o) D ts := by
    intro id
    constructor
    · intro hsome
      by_cases hnew : id ∈ forestNewIds (Build.cap c o) D ts
      · exact hnew
      · exfalso
        by_cases hold : id ∈ ts.flatMap T.ids
        · have := spec.perm.mem_iff.2 hold
          rcases List.mem_append.1 this with hm | hm
          · exact hnew hm
          · rw [spec.gone id hm] at hsome; simp at hsome
        · rw [spec.frame _ (fun i hi' e => hold (by rw [Cfg.treeKey_inj.1 e]; exact hi'))] at hsome
          exact hold ((f.cover id).1 hsome)
    · intro hm
      obtain ⟨t, ht, hit⟩ := List.mem_flatMap.1 hm
      exact (spec.holds t ht).isSome hit
  have f1 : Forest c st'.store ((ts.map (fun t => (delT (Build.cap c o) D t).tree)).map (fun t => t.ref.item)) items'
      (ts.map (fun t => (delT (Build.cap c o) D t).tree)) := by
    refine ⟨?_, ?_, ?_, ?_, ?_, ?_, ?_⟩
    · apply refs_of_not_leaf
      intro t' ht'
      obtain ⟨t, ht, rfl⟩ := List.mem_map.1 ht'
      exact delT_ref_tree hcap (hnl t ht)
    · intro t' ht'
      obtain ⟨t, ht, rfl⟩ := List.mem_map.1 ht'
      exact spec.holds t ht
    · rw [hids]; exact spec.nodup
    · intro id; rw [hids]; exact hcover id
    · intro t' ht'
      obtain ⟨t, ht, rfl⟩ := List.mem_map.1 ht'
      exact (TWF_iff _).1 (delT_wf _ D t hD ((TWF_iff t).2 (f.wf t ht)))
    · intro t' ht'
      obtain ⟨t, ht, rfl⟩ := List.mem_map.1 ht'
      exact delT_nodup_items _ D t hD ((TWF_iff t).2 (f.wf t ht)) (f.items_nodup t ht)
    · intro t' ht' x
      obtain ⟨t, ht, rfl⟩ := List.mem_map.1 ht'
      rw [delT_tree_items hcap hD ((TWF_iff t).2 (f.wf t ht)) (hnl t ht), f.reach t ht x, hitems]
  -- reorder to the sorted roots
  have hperm : ((ts.map (fun t => (delT (Build.cap c o) D t).tree)).map (fun t => t.ref.item)).Perm roots' := by
    rw [spec.roots_eq, List.map_map]
    exact (ofList_perm hroots.1).symm
  obtain ⟨ts', hp', hm'⟩ := exists_perm_map (fun t : T => t.ref.item) roots' _ hperm
  have f2 := f1.perm hp'
  rw [hm'] at f2
  refine ⟨ts', f2, ?_, hstep, ?_, hroots.2.1, ?_⟩
  · intro t' ht'
    obtain ⟨t, ht, rfl⟩ := List.mem_map.1 (hp'.mem_iff.1 ht')
    exact ⟨t, ht, rfl⟩
  · intro k hk
    exact spec.frame k (fun i _ => hk i)
  · intro i hsome
    have := (hcover i).1 hsome
    exact (f.cover i).2 (forestNewIds_sub _ _ _ i this)

end Arroy
