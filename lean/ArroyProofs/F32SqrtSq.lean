import ArroyProofs.F32Order
/-! Helper lemmas for C12 (repaired BQ-cosine): `SF.roundPack` with a right shift as a closed formula,
`sqrt(x * x) = x` in binary32 (no overflow / underflow), `x / x = 1`. -/
namespace Arroy
namespace F32L
open SF

theorem bitLen_eq {n L : Nat} (hL : 0 < L) (h1 : 2 ^ (L - 1) ≤ n) (h2 : n < 2 ^ L) : bitLen n = L := by
  have hn : 0 < n := Nat.lt_of_lt_of_le (Nat.two_pow_pos _) h1
  obtain ⟨a, b, c⟩ := bitLen_spec hn
  have p1 : 2 ^ (bitLen n - 1) < 2 ^ L := by omega
  have p2 : 2 ^ (L - 1) < 2 ^ bitLen n := by omega
  have q1 := (Nat.pow_lt_pow_iff_right (by decide : 1 < 2)).mp p1
  have q2 := (Nat.pow_lt_pow_iff_right (by decide : 1 < 2)).mp p2
  omega

/-- rounding step of `roundPack` with a right shift by `j` bits -/
def rnd (j : Nat) (st : Bool) (m : Nat) : Nat :=
  if (decide (m % 2 ^ j > 2 ^ (j - 1)) || (m % 2 ^ j == 2 ^ (j - 1) && (st || m / 2 ^ j % 2 == 1)))
  then m / 2 ^ j + 1 else m / 2 ^ j

/-- `roundPack` of a positive value whose significand has `24 + j` bits (`j > 0`), normal result -/
theorem roundPack_shift (m : Nat) (e : Int) (st : Bool) (j : Nat) (hj : 0 < j)
    (hL : bitLen m = 24 + j) (hlo : 1 ≤ e + j + 150) (hhi : e + j + 150 < 254) :
    SF.roundPack F32.fmt false m e st = (e + j + 150).toNat * 2 ^ 23 + (rnd j st m - 2 ^ 23)
    ∧ 2 ^ 23 ≤ rnd j st m ∧ rnd j st m ≤ 2 ^ 24 := by
  have h0 : 0 < m := by
    rcases Nat.eq_zero_or_pos m with h | h
    · subst h; simp [bitLen] at hL; omega
    · exact h
  obtain ⟨hLp, hlo', hhi'⟩ := bitLen_spec h0
  rw [hL] at hlo' hhi'
  have hm : 2 ^ 23 ≤ m / 2 ^ j ∧ m / 2 ^ j < 2 ^ 24 := by
    have e1 : 2 ^ 23 * 2 ^ j = 2 ^ (24 + j - 1) := by
      rw [← Nat.pow_add]; congr 1; omega
    have e2 : 2 ^ 24 * 2 ^ j = 2 ^ (24 + j) := by
      rw [← Nat.pow_add]
    constructor
    · rw [Nat.le_div_iff_mul_le (Nat.two_pow_pos _), e1]; exact hlo'
    · rw [Nat.div_lt_iff_lt_mul (Nat.two_pow_pos _), e2]; exact hhi'
  have hr : 2 ^ 23 ≤ rnd j st m ∧ rnd j st m ≤ 2 ^ 24 := by
    unfold rnd; split <;> omega
  refine ⟨?_, hr⟩
  unfold SF.roundPack
  simp only [fmt_qmin, fmt_p, fmt_bias, fmt_emax, hL]
  have hq : max (e + ((24 + j : Nat) : Int) - ((24 : Nat) : Int)) (-149) = e + j := by omega
  simp only [hq]
  have hle : ¬ (e + (j : Int) - e ≤ 0) := by omega
  have hna : (e + (j : Int) - e).toNat = j := by omega
  simp only [if_neg hle, hna]
  have hn0 : (m == 0 && !st) = false := by
    have : m ≠ 0 := by omega
    simp [this]
  simp only [hn0]
  have hrd : (if (decide (m % 2 ^ j > 2 ^ (j - 1)) || (m % 2 ^ j == 2 ^ (j - 1) && (st || m / 2 ^ j % 2 == 1))) = true
      then m / 2 ^ j + 1 else m / 2 ^ j) = rnd j st m := rfl
  simp only [hrd]
  generalize rnd j st m = r at *
  simp only [Bool.false_eq_true, if_false, packBits, infBits, fmt_p, fmt_emax, beq_iff_eq]
  by_cases hc : r = 2 ^ 24
  · simp only [if_pos hc]
    have hlt : ¬ ((2:Nat) ^ (24 - 1) < 2 ^ (24 - 1)) := by omega
    simp only [if_neg hlt]
    have : ¬ (e + (j : Int) + 1 + ((127 : Nat) : Int) + (((24 : Nat) : Int) - 1) ≥ ((255 : Nat) : Int)) := by omega
    have hex : (e + (j : Int) + 1 + ((127 : Nat) : Int) + (((24 : Nat) : Int) - 1)).toNat = (e + j + 150).toNat + 1 := by omega
    simp only [if_neg this, hex]; omega
  · simp only [if_neg hc]
    have hlt : ¬ (r < 2 ^ (24 - 1)) := by omega
    simp only [if_neg hlt]
    have : ¬ (e + (j : Int) + ((127 : Nat) : Int) + (((24 : Nat) : Int) - 1) ≥ ((255 : Nat) : Int)) := by omega
    have hex : (e + (j : Int) + ((127 : Nat) : Int) + (((24 : Nat) : Int) - 1)).toNat = (e + j + 150).toNat := by omega
    simp only [if_neg this, hex]; omega

theorem rnd_err (j : Nat) (st : Bool) (m : Nat) (hj : 0 < j) :
    rnd j st m * 2 ^ j ≤ m + 2 ^ (j - 1) ∧ m ≤ rnd j st m * 2 ^ j + 2 ^ (j - 1) := by
  have hp : 2 ^ j = 2 * 2 ^ (j - 1) := by
    have : j = (j - 1) + 1 := by omega
    rw (occs := .pos [1]) [this]; rw [Nat.pow_succ]; omega
  have hd := Nat.div_add_mod m (2 ^ j)
  have hr := Nat.mod_lt m (Nat.two_pow_pos j)
  have hmul : (m / 2 ^ j + 1) * 2 ^ j = 2 ^ j * (m / 2 ^ j) + 2 ^ j := by
    rw [Nat.add_mul, Nat.mul_comm]; omega
  have hmul' : (m / 2 ^ j) * 2 ^ j = 2 ^ j * (m / 2 ^ j) := Nat.mul_comm _ _
  unfold rnd
  by_cases c : (decide (m % 2 ^ j > 2 ^ (j - 1)) || (m % 2 ^ j == 2 ^ (j - 1) && (st || m / 2 ^ j % 2 == 1))) = true
  · rw [if_pos c, hmul]
    simp only [Bool.or_eq_true, Bool.and_eq_true, decide_eq_true_eq, beq_iff_eq] at c
    omega
  · rw [if_neg c, hmul']
    simp only [Bool.or_eq_true, Bool.and_eq_true, decide_eq_true_eq, beq_iff_eq, not_or, not_and] at c
    omega

theorem sq_expand (a : Nat) : (a + 1) * (a + 1) = a * a + 2 * a + 1 := by
  rw [Nat.add_mul, Nat.mul_add]; omega

theorem lt_of_sq_lt {a b : Nat} (h : a * a < b * b) : a < b := by
  apply Nat.lt_of_not_le
  intro hba
  have := Nat.mul_le_mul hba hba
  omega

theorem aux53 (T : Nat) (hT0 : 2 ^ 23 ≤ T) : 2 ^ 38 * 2 ^ 38 ≤ T * 2 ^ 53 := by omega
theorem aux52 (T : Nat) (hT0 : 2 ^ 23 ≤ T) : 2 ^ 37 * 2 ^ 37 ≤ T * 2 ^ 52 := by omega

theorem sqrt_core (M T s j kk : Nat) (hs : (s = 23 ∧ j = 15 ∧ kk = 53) ∨ (s = 24 ∧ j = 14 ∧ kk = 52))
    (hM1 : 2 ^ 23 ≤ M) (hM2 : M < 2 ^ 24) (hMs : s = 24 → 2 ^ 47 ≤ M * M)
    (hT0 : 2 ^ 23 ≤ T)
    (hT1 : T * 2 ^ s ≤ M * M + 2 ^ (s - 1)) (hT2 : M * M ≤ T * 2 ^ s + 2 ^ (s - 1)) :
    rnd j (Nat.sqrt (T * 2 ^ kk) * Nat.sqrt (T * 2 ^ kk) != T * 2 ^ kk)
        (Nat.sqrt (T * 2 ^ kk)) = M
    ∧ bitLen (Nat.sqrt (T * 2 ^ kk)) = 24 + j := by
  have hr1 := Nat.sqrt_le (T * 2 ^ kk)
  have hr2 : T * 2 ^ kk < (Nat.sqrt (T * 2 ^ kk) + 1) * (Nat.sqrt (T * 2 ^ kk) + 1) :=
    Nat.lt_succ_sqrt (T * 2 ^ kk)
  generalize Nat.sqrt (T * 2 ^ kk) = r at *
  have hr2' : ∀ x, x * x ≤ T * 2 ^ kk → x ≤ r :=
    fun x hx => Nat.le_of_lt_succ (lt_of_sq_lt (Nat.lt_of_le_of_lt hx hr2))
  have hr1' : ∀ x, T * 2 ^ kk < x * x → r < x :=
    fun x hx => lt_of_sq_lt (Nat.lt_of_le_of_lt hr1 hx)
  clear hr2
  generalize hP : M * M = P at *
  have hMlow : s = 24 → 2 ^ 23 + 1 ≤ M := by
    intro h24
    have := hMs h24
    apply Nat.lt_of_le_of_ne hM1
    intro e; subst e; subst hP; omega
  -- a = 2M - 1, b = 2M + 1
  have ha : (2 * M - 1) * (2 * M - 1) + 2 * (2 * M - 1) + 1 = 4 * P := by
    have := sq_expand (2 * M - 1)
    have e : 2 * M - 1 + 1 = 2 * M := by omega
    rw [e] at this
    rw [← this, ← hP, Nat.mul_mul_mul_comm]
  have hb : (2 * M + 1) * (2 * M + 1) = 4 * P + 4 * M + 1 := by
    rw [sq_expand, ← hP, Nat.mul_mul_mul_comm]; omega
  generalize hA : (2 * M - 1) * (2 * M - 1) = A at *
  generalize hB : (2 * M + 1) * (2 * M + 1) = B at *
  rcases hs with ⟨rfl, rfl, rfl⟩ | ⟨rfl, rfl, rfl⟩
  ·
    have hlo2 : ((2 * M - 1) * 2 ^ 14) * ((2 * M - 1) * 2 ^ 14) = A * 2 ^ 28 := by
      rw [Nat.mul_mul_mul_comm, hA]
    have hup2 : ((2 * M + 1) * 2 ^ 14) * ((2 * M + 1) * 2 ^ 14) = B * 2 ^ 28 := by
      rw [Nat.mul_mul_mul_comm, hB]
    have hms := hMlow
    have h1 : (2 * M - 1) * 2 ^ 14 ≤ r := by
      apply hr2'
      rw [hlo2]
      have : A * 2 ^ 28 < T * 2 ^ 53 := by omega
      exact Nat.le_of_lt this
    have h2 : r < (2 * M + 1) * 2 ^ 14 := by
      apply hr1'
      rw [hup2]
      omega
    have h3 : 2 ^ 38 ≤ r := by
      exact hr2' _ (aux53 T hT0)
    have hst : r = (2 * M - 1) * 2 ^ 14 → (r * r != T * 2 ^ 53) = true := by
      intro e
      have : r * r = A * 2 ^ 28 := by rw [e]; exact hlo2
      rw [this]
      have : A * 2 ^ 28 ≠ T * 2 ^ 53 := by omega
      simpa using this
    constructor
    · unfold rnd
      by_cases hge : M * 2 ^ 15 ≤ r
      · have c : ¬ ((decide (r % 2 ^ 15 > 2 ^ (15 - 1)) || (r % 2 ^ 15 == 2 ^ (15 - 1) &&
            ((r * r != T * 2 ^ 53) || r / 2 ^ 15 % 2 == 1))) = true) := by
          simp only [Bool.or_eq_true, Bool.and_eq_true, decide_eq_true_eq, beq_iff_eq, not_or, not_and]
          omega
        rw [if_neg c]; omega
      · have c : (decide (r % 2 ^ 15 > 2 ^ (15 - 1)) || (r % 2 ^ 15 == 2 ^ (15 - 1) &&
            ((r * r != T * 2 ^ 53) || r / 2 ^ 15 % 2 == 1))) = true := by
          by_cases hrl : r = (2 * M - 1) * 2 ^ 14
          · rw [hst hrl]
            simp only [Bool.or_eq_true, Bool.and_eq_true, decide_eq_true_eq, beq_iff_eq, Bool.true_or, and_true]
            omega
          · simp only [Bool.or_eq_true, Bool.and_eq_true, decide_eq_true_eq, beq_iff_eq]
            omega
        rw [if_pos c]; omega
    · apply bitLen_eq (by omega)
      · show 2 ^ (24 + 15 - 1) ≤ r
        omega
      · show r < 2 ^ (24 + 15)
        omega
  ·
    have hlo2 : ((2 * M - 1) * 2 ^ 13) * ((2 * M - 1) * 2 ^ 13) = A * 2 ^ 26 := by
      rw [Nat.mul_mul_mul_comm, hA]
    have hup2 : ((2 * M + 1) * 2 ^ 13) * ((2 * M + 1) * 2 ^ 13) = B * 2 ^ 26 := by
      rw [Nat.mul_mul_mul_comm, hB]
    have hms := hMlow
    have h1 : (2 * M - 1) * 2 ^ 13 ≤ r := by
      apply hr2'
      rw [hlo2]
      have : A * 2 ^ 26 < T * 2 ^ 52 := by omega
      exact Nat.le_of_lt this
    have h2 : r < (2 * M + 1) * 2 ^ 13 := by
      apply hr1'
      rw [hup2]
      omega
    have h3 : 2 ^ 37 ≤ r := by
      exact hr2' _ (aux52 T hT0)
    have hst : r = (2 * M - 1) * 2 ^ 13 → (r * r != T * 2 ^ 52) = true := by
      intro e
      have : r * r = A * 2 ^ 26 := by rw [e]; exact hlo2
      rw [this]
      have : A * 2 ^ 26 ≠ T * 2 ^ 52 := by omega
      simpa using this
    constructor
    · unfold rnd
      by_cases hge : M * 2 ^ 14 ≤ r
      · have c : ¬ ((decide (r % 2 ^ 14 > 2 ^ (14 - 1)) || (r % 2 ^ 14 == 2 ^ (14 - 1) &&
            ((r * r != T * 2 ^ 52) || r / 2 ^ 14 % 2 == 1))) = true) := by
          simp only [Bool.or_eq_true, Bool.and_eq_true, decide_eq_true_eq, beq_iff_eq, not_or, not_and]
          omega
        rw [if_neg c]; omega
      · have c : (decide (r % 2 ^ 14 > 2 ^ (14 - 1)) || (r % 2 ^ 14 == 2 ^ (14 - 1) &&
            ((r * r != T * 2 ^ 52) || r / 2 ^ 14 % 2 == 1))) = true := by
          by_cases hrl : r = (2 * M - 1) * 2 ^ 13
          · rw [hst hrl]
            simp only [Bool.or_eq_true, Bool.and_eq_true, decide_eq_true_eq, beq_iff_eq, Bool.true_or, and_true]
            omega
          · simp only [Bool.or_eq_true, Bool.and_eq_true, decide_eq_true_eq, beq_iff_eq]
            omega
        rw [if_pos c]; omega
    · apply bitLen_eq (by omega)
      · show 2 ^ (24 + 14 - 1) ≤ r
        omega
      · show r < 2 ^ (24 + 14)
        omega

theorem unpack_normal (x : Nat) (hx : x < 0x7f800000) (h0 : x / 2 ^ 23 ≠ 0) :
    SF.unpack F32.fmt x = .fin false (x % 2 ^ 23 + 2 ^ 23) (((x / 2 ^ 23 : Nat) : Int) - 150) := by
  rw [unpack_pos x hx, if_neg h0]

/-- no carry out of the significand when squaring -/
theorem rnd_sq_lt (M : Nat) (hM1 : 2 ^ 23 ≤ M) (hM2 : M < 2 ^ 24) :
    (M * M < 2 ^ 47 → rnd 23 false (M * M) < 2 ^ 24) ∧ (2 ^ 47 ≤ M * M → rnd 24 false (M * M) < 2 ^ 24) := by
  constructor
  · intro hP
    have hM3 : M ≤ 11863283 := by
      apply Nat.le_of_lt_succ
      apply lt_of_sq_lt
      omega
    have : M * M ≤ 11863283 * 11863283 := Nat.mul_le_mul hM3 hM3
    generalize M * M = P at *
    unfold rnd
    by_cases c : (decide (P % 2 ^ 23 > 2 ^ (23 - 1)) || (P % 2 ^ 23 == 2 ^ (23 - 1) && (false || P / 2 ^ 23 % 2 == 1))) = true
    · rw [if_pos c]
      simp only [Bool.or_eq_true, Bool.and_eq_true, decide_eq_true_eq, beq_iff_eq] at c
      omega
    · rw [if_neg c]; omega
  · intro hP
    have : M * M ≤ (2 ^ 24 - 1) * (2 ^ 24 - 1) := Nat.mul_le_mul (by omega) (by omega)
    generalize M * M = P at *
    unfold rnd
    split <;> omega

theorem mul_self_eq (x : Nat) (hx : x < 0x7f800000) (h0 : x / 2 ^ 23 ≠ 0) :
    F32.mul x x = SF.roundPack F32.fmt false ((x % 2 ^ 23 + 2 ^ 23) * (x % 2 ^ 23 + 2 ^ 23))
      ((((x / 2 ^ 23 : Nat) : Int) - 150) + (((x / 2 ^ 23 : Nat) : Int) - 150)) false := by
  unfold F32.mul SF.mul
  rw [unpack_normal x hx h0]
  rfl

theorem sqrt_even (y T : Nat) (e : Int) (hy : SF.unpack F32.fmt y = .fin false T e) (hT : T ≠ 0)
    (he : (e - 52) % 2 = 0) :
    F32.sqrt y = SF.roundPack F32.fmt false (Nat.sqrt (T * 2 ^ 52)) ((e - 52) / 2)
      (Nat.sqrt (T * 2 ^ 52) * Nat.sqrt (T * 2 ^ 52) != T * 2 ^ 52) := by
  unfold F32.sqrt SF.sqrt
  rw [hy]
  have : (T == 0) = false := by simpa using hT
  have hc : ((e - ((2 * (24 + 2) : Nat) : Int)) % 2 == 0) = true := by
    simp; omega
  simp only [this, Bool.false_eq_true, if_false, fmt_p, hc, if_true]
  rfl

theorem sqrt_odd (y T : Nat) (e : Int) (hy : SF.unpack F32.fmt y = .fin false T e) (hT : T ≠ 0)
    (he : (e - 52) % 2 = 1) :
    F32.sqrt y = SF.roundPack F32.fmt false (Nat.sqrt (T * 2 ^ 53)) ((e - 53) / 2)
      (Nat.sqrt (T * 2 ^ 53) * Nat.sqrt (T * 2 ^ 53) != T * 2 ^ 53) := by
  unfold F32.sqrt SF.sqrt
  rw [hy]
  have : (T == 0) = false := by simpa using hT
  have hc : ((e - ((2 * (24 + 2) : Nat) : Int)) % 2 == 0) = false := by
    simp; omega
  simp only [this, Bool.false_eq_true, if_false, fmt_p, hc]
  have e1 : e - ((2 * (24 + 2) : Nat) : Int) - 1 = e - 53 := by omega
  rw [e1]

/-- unpacking a pattern given by exponent field and significand -/
theorem unpack_fields (E1 T : Nat) (hE1 : 1 ≤ E1) (hE2 : E1 ≤ 254) (hT1 : 2 ^ 23 ≤ T) (hT2 : T < 2 ^ 24) :
    SF.unpack F32.fmt (E1 * 2 ^ 23 + (T - 2 ^ 23)) = .fin false T ((E1 : Int) - 150) := by
  have hy : E1 * 2 ^ 23 + (T - 2 ^ 23) < 0x7f800000 := by omega
  have hq : (E1 * 2 ^ 23 + (T - 2 ^ 23)) / 2 ^ 23 = E1 := by omega
  have hr : (E1 * 2 ^ 23 + (T - 2 ^ 23)) % 2 ^ 23 = T - 2 ^ 23 := by omega
  have ht : T - 2 ^ 23 + 2 ^ 23 = T := by omega
  rw [unpack_normal _ hy (by omega), hq, hr, ht]

/-- `sqrt(x * x) = x` for a normal positive binary32 whose square neither overflows nor is subnormal:
    squaring rounds by at most half an ulp, and the square root brings it back inside the rounding
    interval of `x` -/
theorem sqrt_mul_self (x : Nat) (h1 : 64 ≤ x / 2 ^ 23) (h2 : x / 2 ^ 23 ≤ 189) :
    F32.sqrt (F32.mul x x) = x := by
  have hx : x < 0x7f800000 := by omega
  have hd := Nat.div_add_mod x (2 ^ 23)
  have hf := Nat.mod_lt x (Nat.two_pow_pos 23)
  rw [mul_self_eq x hx (by omega)]
  generalize hex : x / 2 ^ 23 = ex at *
  generalize hfr : x % 2 ^ 23 = f at *
  generalize hM : f + 2 ^ 23 = M at *
  have hM1 : 2 ^ 23 ≤ M := by omega
  have hM2 : M < 2 ^ 24 := by omega
  have hP1 : 2 ^ 23 * 2 ^ 23 ≤ M * M := Nat.mul_le_mul hM1 hM1
  have hP2 : M * M ≤ (2 ^ 24 - 1) * (2 ^ 24 - 1) := Nat.mul_le_mul (by omega) (by omega)
  obtain ⟨nc23, nc24⟩ := rnd_sq_lt M hM1 hM2
  by_cases hP : M * M < 2 ^ 47
  · -- 47-bit product: shift 23, then odd exponent in sqrt
    have hL : bitLen (M * M) = 24 + 23 := bitLen_eq (by omega) (by omega) (by omega)
    obtain ⟨hy, hT0, -⟩ := roundPack_shift (M * M) (((ex : Int) - 150) + ((ex : Int) - 150)) false 23
      (by omega) hL (by omega) (by omega)
    obtain ⟨e1, e2⟩ := rnd_err 23 false (M * M) (by omega)
    have hT2 := nc23 hP
    rw [hy]
    generalize rnd 23 false (M * M) = T at *
    have hE : (((ex : Int) - 150) + ((ex : Int) - 150) + ((23 : Nat) : Int) + 150).toNat = 2 * ex - 127 := by omega
    rw [hE]
    have uy := unpack_fields (2 * ex - 127) T (by omega) (by omega) hT0 hT2
    rw [sqrt_odd _ T _ uy (by omega) (by omega)]
    obtain ⟨c1, c2⟩ := sqrt_core M T 23 15 53 (Or.inl ⟨rfl, rfl, rfl⟩) hM1 hM2 (by omega) hT0 e1 e2
    obtain ⟨hz, -, -⟩ := roundPack_shift (Nat.sqrt (T * 2 ^ 53)) ((((2 * ex - 127 : Nat) : Int) - 150 - 53) / 2)
      (Nat.sqrt (T * 2 ^ 53) * Nat.sqrt (T * 2 ^ 53) != T * 2 ^ 53) 15 (by omega) c2 (by omega) (by omega)
    rw [hz, c1]
    omega
  · have hL : bitLen (M * M) = 24 + 24 := bitLen_eq (by omega) (by omega) (by omega)
    obtain ⟨hy, hT0, -⟩ := roundPack_shift (M * M) (((ex : Int) - 150) + ((ex : Int) - 150)) false 24
      (by omega) hL (by omega) (by omega)
    obtain ⟨e1, e2⟩ := rnd_err 24 false (M * M) (by omega)
    have hT2 := nc24 (by omega)
    rw [hy]
    generalize rnd 24 false (M * M) = T at *
    have hE : (((ex : Int) - 150) + ((ex : Int) - 150) + ((24 : Nat) : Int) + 150).toNat = 2 * ex - 126 := by omega
    rw [hE]
    have uy := unpack_fields (2 * ex - 126) T (by omega) (by omega) hT0 hT2
    rw [sqrt_even _ T _ uy (by omega) (by omega)]
    obtain ⟨c1, c2⟩ := sqrt_core M T 24 14 52 (Or.inr ⟨rfl, rfl, rfl⟩) hM1 hM2 (by omega) hT0 e1 e2
    obtain ⟨hz, -, -⟩ := roundPack_shift (Nat.sqrt (T * 2 ^ 52)) ((((2 * ex - 126 : Nat) : Int) - 150 - 52) / 2)
      (Nat.sqrt (T * 2 ^ 52) * Nat.sqrt (T * 2 ^ 52) != T * 2 ^ 52) 14 (by omega) c2 (by omega) (by omega)
    rw [hz, c1]
    omega

/-- exponent field of `n as f32` for `0 < n < 2^62` -/
theorem ofNat_field {n : Nat} (h0 : 0 < n) (hn : n < 2 ^ 62) :
    127 ≤ F32.ofNat n / 2 ^ 23 ∧ F32.ofNat n / 2 ^ 23 ≤ 189 := by
  obtain ⟨a, b, c⟩ := bitLen_spec h0
  have hL : bitLen n ≤ 62 := by
    have : 2 ^ (bitLen n - 1) < 2 ^ 62 := by omega
    have := (Nat.pow_lt_pow_iff_right (by decide : 1 < 2)).mp this
    omega
  have sb := sig_bounds h0
  rw [ofNat_eq_min h0]
  unfold enc
  generalize sig n = s at *
  generalize bitLen n = L at *
  omega

/-- `sqrt((n as f32) * (n as f32)) = n as f32` -/
theorem sqrt_mul_ofNat (n : Nat) (hn : n < 2 ^ 62) :
    F32.sqrt (F32.mul (F32.ofNat n) (F32.ofNat n)) = F32.ofNat n := by
  rcases Nat.eq_zero_or_pos n with h | h
  · subst h; decide +kernel
  · obtain ⟨a, b⟩ := ofNat_field h hn
    exact sqrt_mul_self _ (by omega) b

/-- `x / x = 1.0` for a normal positive `x` -/
theorem div_self (x : Nat) (h1 : 1 ≤ x / 2 ^ 23) (h2 : x / 2 ^ 23 ≤ 254) : F32.div x x = F32.one := by
  have hx : x < 0x7f800000 := by omega
  have hf := Nat.mod_lt x (Nat.two_pow_pos 23)
  unfold F32.div SF.div
  rw [unpack_normal x hx (by omega)]
  generalize hM : x % 2 ^ 23 + 2 ^ 23 = M at *
  have hM1 : 2 ^ 23 ≤ M := by omega
  have hM2 : M < 2 ^ 24 := by omega
  have hL : bitLen M = 24 := bitLen_eq (by omega) (by omega) (by omega)
  have hM0 : (M == 0) = false := by
    have : M ≠ 0 := by omega
    simpa using this
  simp only [hM0, Bool.false_eq_true, if_false, fmt_p, hL]
  have hq : M * 2 ^ (24 + 3 + 24) / M = 2 ^ 51 := by
    rw [Nat.mul_comm]; exact Nat.mul_div_cancel _ (by omega)
  have hr : M * 2 ^ (24 + 3 + 24) % M = 0 := Nat.mul_mod_right _ _
  rw [hq, hr]
  have hL51 : bitLen (2 ^ 51) = 24 + 28 := bitLen_eq (by omega) (by omega) (by omega)
  generalize ((x / 2 ^ 23 : Nat) : Int) - 150 = E
  have he : E - E - ((24 + 3 + 24 : Nat) : Int) = -51 := by omega
  rw [he]
  obtain ⟨hz, -, -⟩ := roundPack_shift (2 ^ 51) (-51) false 28 (by omega) hL51 (by omega) (by omega)
  have hst : ((0 : Nat) != 0) = false := by decide
  have hs : (false != false) = false := by decide
  rw [hst, hs, hz]
  have : rnd 28 false (2 ^ 51) = 2 ^ 23 := by decide +kernel
  rw [this]
  decide +kernel

end F32L
end Arroy
