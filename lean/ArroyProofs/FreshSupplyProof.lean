import ArroyProofs.BuildCore
import ArroyProofs.FreshNew
/-! The id-generator hypothesis of the build theorems, discharged by theorem C13. -/
namespace Arroy

/-- `FreshSupply` holds: the generator a build creates from the tree keys in use hands out only
    fresh, pairwise distinct, 32-bit ids (C13, for the sequential refinement of the generator). -/
theorem freshSupply : FreshSupply := by
  intro used hs hu
  refine ⟨freshGen_new used hs hu, ?_⟩
  intro k ids g' e
  have hp : used.Pairwise (· < ·) := (IdSet.sorted_iff_pairwise).1 hs
  rw [← nextN_eq] at e
  obtain ⟨_, _, hfr⟩ := (C13.C13_fresh_supply used hp hu k).2 ids g' e
  exact fun i hi => (hfr i hi).2

end Arroy
