import ArroyProofs.DeleteStep
import ArroyProofs.InsT
/-! One batch of `insert_items_in_current_trees`: `insertRoots` over a family of held, node-disjoint
trees (all read from the same snapshot, the id generator threaded through), then the write-back of the
staged puts tree by tree. -/
namespace Arroy
open BuildM Generated IdSet

/-! ## `insertT` with a bounded fresh generator -/

theorem insertT_ids_ok (cx : TreeCtx) (t : T) (ins : List Nat) (g : IdGen) (rs : List Bool) (res : InsRes)
    (inUse : List Nat) (h : insertT cx t ins g rs = .ok res)
    (hnd : t.ids.Nodup) (hin : ∀ i ∈ t.ids, i ∈ inUse) (hg : GenOK inUse g) :
    res.tree.ids.Nodup ∧
    (∀ i ∈ res.tree.ids, i ∈ t.ids ∨ (i ∉ inUse ∧ i < 4294967296)) ∧
    (∀ i ∈ t.ids, i ∈ res.tree.ids) ∧
    ((∀ i, t ≠ .leaf i) → res.tree.ref = t.ref) ∧
    GenOK (res.tree.ids ++ inUse) res.gen := by
  have h0 := insertT_ids cx t ins g rs res inUse h hnd hin hg.1
  refine ⟨h0.1, ?_, h0.2.2.1, ?_, ?_⟩
  · intro i hi
    rcases h0.2.1 i hi with h1 | h1
    · exact Or.inl h1
    · by_cases hlt : i < 4294967296
      · exact Or.inr ⟨h1, hlt⟩
      · have hN := insertT_ids cx t ins g rs res (i :: inUse) h hnd
          (fun j hj => List.mem_cons_of_mem _ (hin j hj)) (hg.big (by omega))
        rcases hN.2.1 i hi with h2 | h2
        · exact Or.inl h2
        · exact absurd List.mem_cons_self h2
  · intro hnl
    rcases h0.2.2.2.1 with h1 | ⟨i, _, _, h1, _⟩
    · exact h1
    · exact absurd h1 (hnl i)
  · apply GenOK.of_big
    intro N hN
    have hN' := insertT_ids cx t ins g rs res (N :: inUse) h hnd
      (fun j hj => List.mem_cons_of_mem _ (hin j hj)) (hg.big hN)
    apply hN'.2.2.2.2.mono
    intro i hi
    rcases List.mem_cons.1 hi with rfl | hi
    · exact List.mem_append_right _ List.mem_cons_self
    · rcases List.mem_append.1 hi with hi | hi
      · exact List.mem_append_left _ hi
      · exact List.mem_append_right _ (List.mem_cons_of_mem _ hi)

/-! ## unions of the `large` sets -/

def unionAll : List (List Nat) → List Nat
  | [] => []
  | l :: ls => IdSet.union l (unionAll ls)

theorem mem_unionAll {ls : List (List Nat)} {z : Nat} : z ∈ unionAll ls ↔ ∃ l ∈ ls, z ∈ l := by
  induction ls with
  | nil => simp [unionAll]
  | cons l ls ih => simp [unionAll, mem_union, ih]

/-! ## `insertRoots` -/

theorem insertRoots_spec (c : Cfg) (o : BuildOpts) (snap : Store) (batch : List Nat) (roots : List Nat) :
    ∀ (us : List T) (g : IdGen) (inUse : List Nat) (st st' : BState)
      (putss : List (List (Nat × Val))) (large : List Nat) (g' : IdGen),
    us.map T.ref = roots.map NodeId.mkTree →
    (∀ t ∈ us, Holds c snap t) →
    (us.flatMap T.ids).Nodup →
    (∀ i ∈ us.flatMap T.ids, i ∈ inUse) →
    GenOK inUse g →
    Build.insertRoots c o snap batch roots g st = .ok ((putss, large, g'), st') →
    ∃ rs : List InsRes,
      All2 (fun t r => ∃ g0 rs0, insertT (Build.treeCtx c o snap) t batch g0 rs0 = .ok r) us rs ∧
      putss = rs.map (·.puts) ∧ large = unionAll (rs.map (·.large)) ∧
      ((rs.map (·.tree)).flatMap T.ids).Nodup ∧
      (∀ i ∈ (rs.map (·.tree)).flatMap T.ids, i ∈ us.flatMap T.ids ∨ (i ∉ inUse ∧ i < 4294967296)) ∧
      (∀ i ∈ us.flatMap T.ids, i ∈ (rs.map (·.tree)).flatMap T.ids) ∧
      GenOK ((rs.map (·.tree)).flatMap T.ids ++ inUse) g' ∧
      (∀ r ∈ rs, Adequate c [] r.puts snap r.tree) ∧
      (rs.map (·.tree)).map T.ref = roots.map NodeId.mkTree ∧
      st'.store = st.store := by
  induction roots with
  | nil =>
    intro us g inUse st st' putss large g' hrefs _ _ _ hg h
    have hus : us = [] := by
      have := congrArg List.length hrefs; simpa using this
    subst hus
    simp only [Build.insertRoots] at h
    obtain ⟨e1, rfl⟩ := pure_ok' h
    simp only [Prod.mk.injEq] at e1
    obtain ⟨rfl, rfl, rfl⟩ := e1
    exact ⟨[], trivial, rfl, rfl, by simp, by simp, by simp, by simpa using hg, by simp, rfl, rfl⟩
  | cons root rest ih =>
    intro us g inUse st st' putss large g' hrefs hholds hnd hin hg h
    cases us with
    | nil => simp at hrefs
    | cons t us =>
    simp only [List.map_cons, List.cons.injEq] at hrefs
    obtain ⟨href, hrefs⟩ := hrefs
    simp only [List.flatMap_cons, List.nodup_append] at hnd
    obtain ⟨hndt, hndus, hdisj⟩ := hnd
    simp only [Build.insertRoots] at h
    obtain ⟨u1, st1, h1, k1⟩ := bind_ok_inv h
    clear h
    have e1 := poll_store' h1
    obtain ⟨t0, st2, h2, k2⟩ := bind_ok_inv k1
    clear k1
    obtain ⟨hre, e2⟩ := reifyRoot_ok h2
    have ht0 : t0 = t := by
      have := reify_of_holds_nodup c snap t (hholds t (by simp)) hndt
      rw [href, hre] at this
      exact Option.some.inj this
    obtain ⟨sp, st3, h3, k3⟩ := bind_ok_inv k2
    clear k2
    obtain ⟨e3a, e3b⟩ := peek_ok' h3
    obtain ⟨r, st4, h4, k4⟩ := bind_ok_inv k3
    clear k3
    obtain ⟨hins, e4⟩ := liftExcept_ok' h4
    obtain ⟨u5, st5, h5, k5⟩ := bind_ok_inv k4
    clear k4
    have e5 : st5.store = st4.store := by
      cases h5; rfl
    obtain ⟨u6, st6, h6, k6⟩ := bind_ok_inv k5
    clear k5
    have e6 := pollN_store' h6
    obtain ⟨x, st7, h7, k7⟩ := bind_ok_inv k6
    clear k6
    obtain ⟨puts7, large7, g7⟩ := x
    simp only at k7
    obtain ⟨e8, e9⟩ := pure_ok' k7
    simp only [Prod.mk.injEq] at e8
    obtain ⟨rfl, rfl, rfl⟩ := e8
    subst ht0 e9
    -- the first tree
    have hint : ∀ i ∈ t0.ids, i ∈ inUse := fun i hi => hin i (by simp [hi])
    obtain ⟨a1, a2, a3, a4, a5⟩ := insertT_ids_ok _ t0 batch g _ r inUse hins hndt hint hg
    have had := insertT_adequate c snap _ t0 batch g _ r inUse hins (hholds t0 (by simp)) hndt hint hg.1
    -- the other trees
    obtain ⟨rs, b1, b2, b3, b4, b5, b6, b7, b8, b9, b10⟩ := ih us r.gen (r.tree.ids ++ inUse) st6 st7 puts7 large7 g7
      hrefs (fun t' ht' => hholds t' (List.mem_cons_of_mem _ ht')) hndus
      (fun i hi => List.mem_append_right _ (hin i (by simp [hi]))) a5 h7
    refine ⟨r :: rs, ⟨⟨_, _, hins⟩, b1⟩, by simp [b2], by simp [unionAll, b3], ?_, ?_, ?_, ?_, ?_, ?_, ?_⟩
    · simp only [List.map_cons, List.flatMap_cons, List.nodup_append]
      refine ⟨a1, b4, ?_⟩
      intro a ha b hb hab
      subst hab
      rcases b5 a hb with h' | ⟨h', _⟩
      · rcases a2 a ha with h'' | ⟨h'', _⟩
        · exact hdisj a h'' a h' rfl
        · exact h'' (hin a (by simp [h']))
      · exact h' (List.mem_append_left _ ha)
    · intro i hi
      simp only [List.map_cons, List.flatMap_cons, List.mem_append] at hi ⊢
      rcases hi with hi | hi
      · rcases a2 i hi with h' | h'
        · exact Or.inl (Or.inl h')
        · exact Or.inr h'
      · rcases b5 i hi with h' | ⟨h', hlt⟩
        · exact Or.inl (Or.inr h')
        · exact Or.inr ⟨fun hm => h' (List.mem_append_right _ hm), hlt⟩
    · intro i hi
      simp only [List.map_cons, List.flatMap_cons, List.mem_append] at hi ⊢
      rcases hi with hi | hi
      · exact Or.inl (a3 i hi)
      · exact Or.inr (b6 i hi)
    · apply b7.mono
      intro i hi
      simp only [List.map_cons, List.flatMap_cons, List.mem_append] at hi ⊢
      rcases hi with (hi | hi) | hi
      · exact Or.inr (Or.inl hi)
      · exact Or.inl hi
      · exact Or.inr (Or.inr hi)
    · intro r' hr'
      rcases List.mem_cons.1 hr' with rfl | hr'
      · exact had
      · exact b8 r' hr'
    · simp only [List.map_cons, List.cons.injEq]
      exact ⟨(a4 (T.not_leaf_of_ref href)).trans href, b9⟩
    · rw [b10, e6, e5, ← e4, ← e3b, e2, e1]

/-! ## writing the staged puts of all trees back -/

theorem applyStaged_nil (c : Cfg) (s : Store) (puts : List (Nat × Val)) : applyStaged c s [] puts = putAll c s puts := by
  simp only [applyStaged, eraseAll, List.foldl_nil, List.contains_nil, Bool.not_false]
  congr 1
  exact List.filter_eq_self.2 (fun _ _ => rfl)

theorem putAll_append (c : Cfg) (s : Store) (a b : List (Nat × Val)) :
    putAll c s (a ++ b) = putAll c (putAll c s a) b := by
  simp [putAll, List.foldl_append]

theorem forEach_writeBack_spec (c : Cfg) (hi : c.index < 65536) (putss : List (List (Nat × Val))) :
    ∀ (st st' : BState), forEach putss (fun puts => Build.writeBack c [] puts id) st = .ok ((), st') →
    (∀ puts ∈ putss, ∀ p ∈ puts, p.1 < 4294967296) →
    StoreStep c st.store st'.store ∧ ∀ k, Store.get st'.store k = Store.get (putAll c st.store putss.flatten) k := by
  induction putss with
  | nil =>
    intro st st' h _
    cases forEach_nil_ok h
    exact ⟨.refl _, fun _ => rfl⟩
  | cons puts rest ih =>
    intro st st' h hb
    obtain ⟨st1, h1, h2⟩ := forEach_cons_ok h
    obtain ⟨hstep, hget⟩ := ih st1 st' h2 (fun ps hps => hb ps (List.mem_cons_of_mem _ hps))
    have hw := (writeBack_store c [] puts h1).1
    have he := writeBack_eq c [] puts id h1
    refine ⟨?_, ?_⟩
    · refine StoreStep.trans ?_ hstep
      rw [he]
      apply StoreStep.putAllMap ((StoreStep.refl _).eraseAll _) id _ hi
      intro p hp
      exact hb puts (by simp) p (List.mem_filter.1 hp).1
    · intro k
      rw [hget, List.flatten_cons, putAll_append]
      apply get_putAll_congr
      intro k'
      rw [hw, applyStaged_nil]

theorem nodup_flatMap_split {α β : Type} (f : α → List β) {l1 l2 : List α} {a : α}
    (h : ((l1 ++ a :: l2).flatMap f).Nodup) :
    (∀ b ∈ l1, ∀ x ∈ f b, x ∉ f a) ∧ (∀ b ∈ l2, ∀ x ∈ f b, x ∉ f a) := by
  simp only [List.flatMap_append, List.flatMap_cons, List.nodup_append] at h
  obtain ⟨_, ⟨_, _, h2⟩, h3⟩ := h
  refine ⟨?_, ?_⟩
  · intro b hb x hx hxa
    exact h3 x (List.mem_flatMap.2 ⟨b, hb, hx⟩) x (List.mem_append_left _ hxa) rfl
  · intro b hb x hx hxa
    exact h2 x hxa x (List.mem_flatMap.2 ⟨b, hb, hx⟩) rfl

/-- after the write-back every new tree is held -/
theorem holds_after_writeBack (c : Cfg) (snap s' : Store) (rs : List InsRes)
    (hnd : ((rs.map (·.tree)).flatMap T.ids).Nodup)
    (hputs : ∀ r ∈ rs, ∀ p ∈ r.puts, p.1 ∈ r.tree.ids)
    (had : ∀ r ∈ rs, Adequate c [] r.puts snap r.tree)
    (hget : ∀ k, Store.get s' k = Store.get (putAll c snap (rs.map (·.puts)).flatten) k) :
    ∀ r ∈ rs, Holds c s' r.tree := by
  intro r hr
  obtain ⟨rs1, rs2, rfl⟩ := List.append_of_mem hr
  have hnd' : ((rs1 ++ r :: rs2).flatMap (fun r => r.tree.ids)).Nodup := by
    rw [List.flatMap_map] at hnd; exact hnd
  obtain ⟨d1, d2⟩ := nodup_flatMap_split (fun r : InsRes => r.tree.ids) hnd'
  have hflat : ((rs1 ++ r :: rs2).map (·.puts)).flatten =
      (rs1.map (·.puts)).flatten ++ r.puts ++ (rs2.map (·.puts)).flatten := by
    simp [List.flatten_append]
  have ad := (had r hr).extend (rs1.map (·.puts)).flatten (rs2.map (·.puts)).flatten []
    (by
      intro p hp
      obtain ⟨ps, hps, hpp⟩ := List.mem_flatten.1 hp
      obtain ⟨r1, hr1, rfl⟩ := List.mem_map.1 hps
      exact d1 r1 hr1 p.1 (hputs r1 (by simp [hr1]) p hpp))
    (by
      intro p hp
      obtain ⟨ps, hps, hpp⟩ := List.mem_flatten.1 hp
      obtain ⟨r2, hr2, rfl⟩ := List.mem_map.1 hps
      exact d2 r2 hr2 p.1 (hputs r2 (by simp [hr2]) p hpp))
    (by intro i hi; cases hi)
  have := writeback ad
  rw [applyStaged_nil, ← hflat] at this
  exact this.frame (fun i _ => hget _)

end Arroy
