import ArroyProofs.StoreLemmas
import ArroyProofs.Properties.C16
import ArroyModel.Sets
/-! More laws of `Store`: `Key.lt` is a strict total order, `Sorted` / `WF` and their preservation,
`get` after deletes, `putAppend`, characterisation of prefixes, `keysOf`. -/
namespace Arroy

/-! ## `Key.lt` is a strict total order (on all keys, well-formed or not) -/
namespace Key

theorem lt_iff (a b : Key) : a.lt b = true ↔
    a.index < b.index ∨ (a.index = b.index ∧ (a.mode < b.mode ∨ (a.mode = b.mode ∧ a.item < b.item))) := by
  simp [lt]

theorem lt_irrefl (a : Key) : a.lt a = false := by
  have := lt_iff a a
  cases h : a.lt a
  · rfl
  · rw [h] at this; have := this.1 rfl; omega

theorem lt_trans {a b c : Key} (h1 : a.lt b = true) (h2 : b.lt c = true) : a.lt c = true := by
  rw [lt_iff] at *; omega

theorem lt_asymm {a b : Key} (h : a.lt b = true) : b.lt a = false := by
  cases h' : b.lt a
  · rfl
  · rw [lt_iff] at *; omega

theorem eq_of_fields {a b : Key} (h1 : a.index = b.index) (h2 : a.mode = b.mode) (h3 : a.item = b.item) :
    a = b := by
  cases a; cases b; simp_all

theorem lt_trichotomy (a b : Key) : a.lt b = true ∨ a = b ∨ b.lt a = true := by
  by_cases h1 : a.lt b = true
  · exact Or.inl h1
  · by_cases h2 : b.lt a = true
    · exact Or.inr (Or.inr h2)
    · refine Or.inr (Or.inl ?_)
      rw [lt_iff] at h1 h2
      apply eq_of_fields <;> omega

theorem ne_of_lt {a b : Key} (h : a.lt b = true) : a ≠ b := by
  intro e; subst e; rw [lt_irrefl] at h; cases h

/-- `le` is the reflexive closure of `lt` -/
theorem le_iff (a b : Key) : a.le b = true ↔ a.lt b = true ∨ a = b := by
  unfold le
  rcases lt_trichotomy a b with h | h | h
  · simp [h, lt_asymm h]
  · subst h; simp [lt_irrefl]
  · simp [h, lt_asymm h]
    intro e; subst e; rw [lt_irrefl] at h; cases h

end Key

namespace Store

/-! ## `contains`, membership and `get` -/

theorem contains_iff (s : Store) (k : Key) : s.contains k = true ↔ Store.get s k ≠ none := by
  unfold contains
  cases Store.get s k <;> simp

theorem contains_eq_false_iff (s : Store) (k : Key) : s.contains k = false ↔ Store.get s k = none := by
  unfold contains
  cases Store.get s k <;> simp

theorem mem_of_get {s : Store} {k : Key} {v : Val} (h : Store.get s k = some v) : (k, v) ∈ s := by
  induction s with
  | nil => simp [get] at h
  | cons kv rest ih =>
    obtain ⟨k0, v0⟩ := kv
    by_cases hk : k0 = k
    · subst hk; simp [get] at h; subst h; simp
    · simp only [get, hk, if_false] at h
      exact List.mem_cons_of_mem _ (ih h)

theorem get_eq_none_iff (s : Store) (k : Key) : Store.get s k = none ↔ ∀ v, (k, v) ∉ s := by
  induction s with
  | nil => simp [get]
  | cons kv rest ih =>
    obtain ⟨k0, v0⟩ := kv
    by_cases hk : k0 = k
    · subst hk
      simp only [get, if_true]
      constructor
      · intro h; cases h
      · intro h; exact absurd (List.mem_cons_self ..) (h v0)
    · simp only [get, hk, if_false, ih, List.mem_cons, Prod.mk.injEq]
      constructor
      · intro h v hv
        rcases hv with ⟨e, _⟩ | hv
        · exact hk e.symm
        · exact h v hv
      · intro h v hv; exact h v (Or.inr hv)

theorem get_isSome_iff (s : Store) (k : Key) : (Store.get s k).isSome = true ↔ ∃ v, (k, v) ∈ s := by
  constructor
  · intro h
    cases hg : Store.get s k with
    | none => rw [hg] at h; cases h
    | some v => exact ⟨v, mem_of_get hg⟩
  · intro ⟨v, hv⟩
    cases hg : Store.get s k with
    | none => exact absurd hv ((get_eq_none_iff s k).1 hg v)
    | some v => rfl

/-! ## `get` after `put`, key-predicate filters, deletes -/

theorem get_put (s : Store) (k k' : Key) (v : Val) :
    Store.get (s.put k v) k' = if k' = k then some v else Store.get s k' := by
  by_cases h : k' = k
  · subst h; simp [get_put_same]
  · simp [h, get_put_other s k k' v h]

/-- `get` after a filter that only looks at the key -/
theorem get_filter_key (s : Store) (p : Key → Bool) (k : Key) :
    Store.get (s.filter (fun kv => p kv.1)) k = if p k = true then Store.get s k else none := by
  by_cases h : p k = true
  · rw [if_pos h]; exact get_filter s _ k (fun _ => h)
  · rw [if_neg h]; exact get_filter_none s _ k (fun _ => by simpa using h)

theorem get_erase (s : Store) (k k' : Key) :
    Store.get (s.erase k) k' = if k' = k then none else Store.get s k' := by
  by_cases h : k' = k
  · subst h; simp [get_erase_same]
  · simp [h, get_erase_other s k k' h]

theorem delete_fst (s : Store) (k : Key) : (s.delete k).1 = s.erase k := rfl
theorem delete_snd (s : Store) (k : Key) : (s.delete k).2 = s.contains k := rfl

theorem get_delete (s : Store) (k k' : Key) :
    Store.get (s.delete k).1 k' = if k' = k then none else Store.get s k' := get_erase s k k'

/-- deleting reports whether the key was there -/
theorem delete_reports (s : Store) (k : Key) : (s.delete k).2 = (Store.get s k).isSome := rfl

theorem get_deletePrefix (s : Store) (i : Nat) (m : Option Nat) (k : Key) :
    Store.get (s.deletePrefix i m) k =
      if isPrefixOf (encodePrefix i m) (encodeKey k) = true then none else Store.get s k := by
  unfold deletePrefix
  rw [get_filter_key s (fun k => !(isPrefixOf (encodePrefix i m) (encodeKey k))) k]
  cases isPrefixOf (encodePrefix i m) (encodeKey k) <;> simp

theorem get_prefixIter (s : Store) (i : Nat) (m : Option Nat) (k : Key) :
    Store.get (s.prefixIter i m) k =
      if isPrefixOf (encodePrefix i m) (encodeKey k) = true then Store.get s k else none := by
  unfold prefixIter
  exact get_filter_key s (fun k => isPrefixOf (encodePrefix i m) (encodeKey k)) k

/-- `delete_range` in byte order, by predicate on the encoded key -/
theorem get_deleteRange_bytes (s : Store) (lo hi k : Key) :
    Store.get (s.deleteRange lo hi) k =
      if (lexLt (encodeKey k) (encodeKey lo) || lexLt (encodeKey hi) (encodeKey k)) = true
      then Store.get s k else none := by
  unfold deleteRange
  exact get_filter_key s (fun k => lexLt (encodeKey k) (encodeKey lo) || lexLt (encodeKey hi) (encodeKey k)) k

/-- `delete_range lo ..= hi` removes exactly the keys with `lo ≤ k ≤ hi` in `Key` order (well-formed keys) -/
theorem get_deleteRange (s : Store) (lo hi k : Key) (hlo : lo.wf) (hhi : hi.wf) (hk : k.wf) :
    Store.get (s.deleteRange lo hi) k =
      if (lo.le k && k.le hi) = true then none else Store.get s k := by
  rw [get_deleteRange_bytes, C16.C16_key_order k lo hk hlo, C16.C16_key_order hi k hhi hk]
  unfold Key.le
  cases k.lt lo <;> cases hi.lt k <;> simp

/-- a filter that keeps everything is the identity -/
theorem filter_eq_self_of_get_none (s : Store) (k : Key) (h : Store.get s k = none) : s.erase k = s := by
  unfold erase
  rw [List.filter_eq_self]
  intro kv hkv
  obtain ⟨k0, v0⟩ := kv
  have := (get_eq_none_iff s k).1 h v0
  simp only [ne_eq, decide_not, Bool.not_eq_eq_eq_not, Bool.not_true, decide_eq_false_iff_not]
  intro e; subst e; exact this hkv

/-- deleting an absent key changes nothing, literally -/
theorem delete_absent (s : Store) (k : Key) (h : Store.get s k = none) : s.delete k = (s, false) := by
  unfold delete
  rw [filter_eq_self_of_get_none s k h, (contains_eq_false_iff s k).2 h]

/-! ## `Sorted` as `Pairwise`, well-formed stores -/

theorem sorted_iff_pairwise (s : Store) : Sorted s ↔ s.Pairwise (fun a b => a.1.lt b.1 = true) := by
  induction s with
  | nil => simp [Sorted]
  | cons a rest ih =>
    cases rest with
    | nil => simp [Sorted]
    | cons b rest' =>
      simp only [Sorted, ih, List.pairwise_cons]
      constructor
      · intro ⟨hab, hb, hr⟩
        refine ⟨?_, hb, hr⟩
        intro x hx
        rcases List.mem_cons.1 hx with e | hx
        · subst e; exact hab
        · exact Key.lt_trans hab (hb x hx)
      · intro ⟨ha, hb, hr⟩
        exact ⟨ha b (List.mem_cons_self ..), hb, hr⟩

/-- every key of the store is a well-formed key (fits `u16`/`u8`/`u32`) -/
def WF (s : Store) : Prop := ∀ kv ∈ s, kv.1.wf

theorem sorted_nil : Sorted ([] : Store) := trivial
theorem wf_nil : WF ([] : Store) := by intro kv h; cases h

theorem mem_put {s : Store} {k : Key} {v : Val} {x : Key × Val} (h : x ∈ s.put k v) : x = (k, v) ∨ x ∈ s := by
  induction s with
  | nil => simp [put] at h; exact Or.inl h
  | cons kv rest ih =>
    obtain ⟨k0, v0⟩ := kv
    simp only [put] at h
    split at h
    · rcases List.mem_cons.1 h with e | h
      · exact Or.inl e
      · exact Or.inr h
    · split at h
      · rcases List.mem_cons.1 h with e | h
        · exact Or.inl e
        · exact Or.inr (List.mem_cons_of_mem _ h)
      · rcases List.mem_cons.1 h with e | h
        · exact Or.inr (e ▸ List.mem_cons_self ..)
        · rcases ih h with e | h
          · exact Or.inl e
          · exact Or.inr (List.mem_cons_of_mem _ h)

theorem put_sorted {s : Store} (hs : Sorted s) (k : Key) (v : Val) : Sorted (s.put k v) := by
  rw [sorted_iff_pairwise] at *
  induction s with
  | nil => simp [put]
  | cons kv rest ih =>
    obtain ⟨k0, v0⟩ := kv
    have ⟨h0, hr⟩ := List.pairwise_cons.1 hs
    simp only [put]
    split
    · rename_i hlt
      refine List.pairwise_cons.2 ⟨?_, hs⟩
      intro x hx
      rcases List.mem_cons.1 hx with e | hx
      · subst e; exact hlt
      · exact Key.lt_trans hlt (h0 x hx)
    · split
      · rename_i _ he
        subst he
        exact List.pairwise_cons.2 ⟨h0, hr⟩
      · rename_i hnlt hne
        have hlt : k0.lt k = true := by
          rcases Key.lt_trichotomy k0 k with h | h | h
          · exact h
          · exact absurd h hne
          · exact absurd h hnlt
        refine List.pairwise_cons.2 ⟨?_, ih hr⟩
        intro x hx
        rcases mem_put hx with e | hx
        · subst e; exact hlt
        · exact h0 x hx

theorem put_wf {s : Store} (hs : WF s) {k : Key} (hk : k.wf) (v : Val) : WF (s.put k v) := by
  intro x hx
  rcases mem_put hx with e | hx
  · subst e; exact hk
  · exact hs x hx

theorem filter_sorted {s : Store} (hs : Sorted s) (p : Key × Val → Bool) : Sorted (s.filter p) := by
  rw [sorted_iff_pairwise] at *
  exact hs.filter p

theorem filter_wf {s : Store} (hs : WF s) (p : Key × Val → Bool) : WF (s.filter p) := by
  intro x hx; exact hs x (List.mem_filter.1 hx).1

theorem erase_sorted {s : Store} (hs : Sorted s) (k : Key) : Sorted (s.erase k) := filter_sorted hs _
theorem erase_wf {s : Store} (hs : WF s) (k : Key) : WF (s.erase k) := filter_wf hs _
theorem delete_sorted {s : Store} (hs : Sorted s) (k : Key) : Sorted (s.delete k).1 := filter_sorted hs _
theorem delete_wf {s : Store} (hs : WF s) (k : Key) : WF (s.delete k).1 := filter_wf hs _
theorem deletePrefix_sorted {s : Store} (hs : Sorted s) (i : Nat) (m : Option Nat) :
    Sorted (s.deletePrefix i m) := filter_sorted hs _
theorem deletePrefix_wf {s : Store} (hs : WF s) (i : Nat) (m : Option Nat) : WF (s.deletePrefix i m) :=
  filter_wf hs _
theorem prefixIter_sorted {s : Store} (hs : Sorted s) (i : Nat) (m : Option Nat) :
    Sorted (s.prefixIter i m) := filter_sorted hs _
theorem prefixIter_wf {s : Store} (hs : WF s) (i : Nat) (m : Option Nat) : WF (s.prefixIter i m) :=
  filter_wf hs _
theorem deleteRange_sorted {s : Store} (hs : Sorted s) (lo hi : Key) : Sorted (s.deleteRange lo hi) :=
  filter_sorted hs _
theorem deleteRange_wf {s : Store} (hs : WF s) (lo hi : Key) : WF (s.deleteRange lo hi) := filter_wf hs _

/-- in a sorted store every key occurs once: `get` is membership -/
theorem get_eq_some_iff {s : Store} (hs : Sorted s) (k : Key) (v : Val) :
    Store.get s k = some v ↔ (k, v) ∈ s := by
  refine ⟨mem_of_get, ?_⟩
  rw [sorted_iff_pairwise] at hs
  induction s with
  | nil => intro h; cases h
  | cons kv rest ih =>
    obtain ⟨k0, v0⟩ := kv
    have ⟨h0, hr⟩ := List.pairwise_cons.1 hs
    intro h
    rcases List.mem_cons.1 h with e | h
    · cases e; simp [get]
    · have : k0 ≠ k := Key.ne_of_lt (h0 _ h)
      simp only [get, this, if_false]
      exact ih hr h

/-! ## `putAppend` -/

theorem maxKey?_nil : maxKey? ([] : Store) = none := rfl

theorem maxKey?_eq_none_iff (s : Store) : maxKey? s = none ↔ s = [] := by
  unfold maxKey?
  cases s with
  | nil => simp
  | cons a r => simp [List.getLast?_eq_none_iff]

/-- in a sorted store, the last key dominates all the others -/
theorem maxKey?_spec {s : Store} (hs : Sorted s) {m : Key} (h : maxKey? s = some m) :
    (∃ v, (m, v) ∈ s) ∧ ∀ kv ∈ s, kv.1 = m ∨ kv.1.lt m = true := by
  rw [sorted_iff_pairwise] at hs
  unfold maxKey? at h
  cases hl : s.getLast? with
  | none => rw [hl] at h; cases h
  | some last =>
    rw [hl] at h
    simp only [Option.map_some, Option.some.injEq] at h
    obtain ⟨init, rfl⟩ : ∃ init, s = init ++ [last] := by
      have := List.getLast?_eq_some_iff.1 hl
      exact this
    subst h
    refine ⟨⟨last.2, by simp⟩, ?_⟩
    intro kv hkv
    rcases List.mem_append.1 hkv with h | h
    · right
      have := List.pairwise_append.1 hs
      exact this.2.2 kv h last (by simp)
    · left; simp at h; rw [h]

/-- `put_with_flags(APPEND)` succeeds iff the new key is greater than every key of the database -/
theorem putAppend_isSome_iff {s : Store} (hs : Sorted s) (k : Key) (v : Val) :
    (∃ s', s.putAppend k v = some s') ↔ ∀ kv ∈ s, kv.1.lt k = true := by
  unfold putAppend
  cases hm : maxKey? s with
  | none =>
    have : s = [] := (maxKey?_eq_none_iff s).1 hm
    subst this; simp
  | some m =>
    have ⟨⟨vm, hmem⟩, hdom⟩ := maxKey?_spec hs hm
    simp only
    constructor
    · intro ⟨s', h⟩
      split at h
      · rename_i hlt
        intro kv hkv
        rcases hdom kv hkv with e | h'
        · rw [e]; exact hlt
        · exact Key.lt_trans h' hlt
      · cases h
    · intro h
      have : m.lt k = true := h (m, vm) hmem
      simp [this]

theorem putAppend_eq_none_iff {s : Store} (hs : Sorted s) (k : Key) (v : Val) :
    s.putAppend k v = none ↔ ∃ kv ∈ s, k.le kv.1 = true := by
  have h := putAppend_isSome_iff hs k v
  constructor
  · intro hn
    apply Classical.byContradiction
    intro hne
    have : ∀ kv ∈ s, kv.1.lt k = true := by
      intro kv hkv
      cases hlt : kv.1.lt k
      · exact absurd ⟨kv, hkv, by simp [Key.le, hlt]⟩ hne
      · rfl
    obtain ⟨s', hs'⟩ := h.2 this
    rw [hn] at hs'; cases hs'
  · intro ⟨kv, hkv, hle⟩
    cases hp : s.putAppend k v with
    | none => rfl
    | some s' =>
      have := h.1 ⟨s', hp⟩ kv hkv
      simp [Key.le, this] at hle

/-- putting a key greater than all the others appends it -/
theorem put_eq_append {s : Store} (k : Key) (v : Val) (h : ∀ kv ∈ s, kv.1.lt k = true) :
    s.put k v = s ++ [(k, v)] := by
  induction s with
  | nil => rfl
  | cons kv rest ih =>
    obtain ⟨k0, v0⟩ := kv
    have h0 : k0.lt k = true := h (k0, v0) (List.mem_cons_self ..)
    simp only [put, Key.lt_asymm h0, Key.ne_of_lt h0, if_false, Bool.false_eq_true, List.cons_append]
    rw [ih (fun kv hkv => h kv (List.mem_cons_of_mem _ hkv))]

/-- a successful `putAppend` is literally `put` -/
theorem putAppend_eq_put {s s' : Store} (hs : Sorted s) {k : Key} {v : Val} (h : s.putAppend k v = some s') :
    s' = s.put k v := by
  have hall := (putAppend_isSome_iff hs k v).1 ⟨s', h⟩
  rw [put_eq_append k v hall]
  unfold putAppend at h
  cases hm : maxKey? s with
  | none =>
    have : s = [] := (maxKey?_eq_none_iff s).1 hm
    subst this
    rw [hm] at h; simp at h; simp [h]
  | some m =>
    rw [hm] at h
    simp only at h
    split at h
    · simp at h; exact h.symm
    · cases h

theorem get_putAppend {s s' : Store} (hs : Sorted s) {k : Key} {v : Val} (h : s.putAppend k v = some s')
    (k' : Key) : Store.get s' k' = Store.get (s.put k v) k' := by
  rw [putAppend_eq_put hs h]

theorem putAppend_sorted {s s' : Store} (hs : Sorted s) {k : Key} {v : Val} (h : s.putAppend k v = some s') :
    Sorted s' := by
  rw [putAppend_eq_put hs h]; exact put_sorted hs k v

theorem putAppend_wf {s s' : Store} (hs : Sorted s) (hw : WF s) {k : Key} (hk : k.wf) {v : Val}
    (h : s.putAppend k v = some s') : WF s' := by
  rw [putAppend_eq_put hs h]; exact put_wf hw hk v

/-! ## prefixes -/

theorem isPrefixOf_append {a b c d : Bytes} (h : a.length = b.length) :
    isPrefixOf (a ++ c) (b ++ d) = (a == b && isPrefixOf c d) := by
  unfold isPrefixOf
  induction a generalizing b with
  | nil => cases b with
    | nil => simp
    | cons _ _ => simp at h
  | cons x xs ih => cases b with
    | nil => simp at h
    | cons y ys =>
      simp only [List.length_cons, Nat.add_right_cancel_iff] at h
      simp only [List.cons_append, List.isPrefixOf, ih h]
      by_cases hxy : x = y
      · subst hxy; simp
      · have : (x == y) = false := by simpa using hxy
        simp [this]

theorem isPrefixOf_nil (l : Bytes) : isPrefixOf [] l = true := by
  unfold isPrefixOf; simp

theorem isPrefix_index (i : Nat) (k : Key) :
    isPrefixOf (encodePrefix i none) (encodeKey k) = (be 2 i == be 2 k.index) := by
  rw [C16.encodeKey_eq]
  unfold encodePrefix
  rw [isPrefixOf_append (by simp [be_length]), isPrefixOf_nil, Bool.and_true]

theorem isPrefix_index_mode (i m : Nat) (k : Key) :
    isPrefixOf (encodePrefix i (some m)) (encodeKey k) = (be 2 i == be 2 k.index && be 1 m == be 1 k.mode) := by
  rw [C16.encodeKey_eq]
  unfold encodePrefix
  simp only
  rw [isPrefixOf_append (by simp [be_length])]
  have h3 : isPrefixOf (be 1 m) (be 1 k.mode ++ (be 4 k.item ++ [0])) = (be 1 m == be 1 k.mode) := by
    have := @isPrefixOf_append (be 1 m) (be 1 k.mode) [] (be 4 k.item ++ [0]) (by simp [be_length])
    rw [isPrefixOf_nil, Bool.and_true, List.append_nil] at this
    exact this
  rw [h3]

/-- keys of index `i` always match the index prefix (no well-formedness needed) -/
theorem isPrefix_index_self (k : Key) : isPrefixOf (encodePrefix k.index none) (encodeKey k) = true := by
  rw [isPrefix_index]; simp

theorem isPrefix_index_mode_self (k : Key) :
    isPrefixOf (encodePrefix k.index (some k.mode)) (encodeKey k) = true := by
  rw [isPrefix_index_mode]; simp

/-- the index prefix selects exactly the keys of that index -/
theorem isPrefix_index_iff (i : Nat) (k : Key) (hk : k.wf) (hi : i < 65536) :
    isPrefixOf (encodePrefix i none) (encodeKey k) = true ↔ k.index = i := by
  rw [isPrefix_index, beq_be 2 _ _ hi hk.1, beq_iff_eq]
  exact eq_comm

/-- the (index, mode) prefix selects exactly the keys of that index and mode -/
theorem isPrefix_index_mode_iff (i m : Nat) (k : Key) (hk : k.wf) (hi : i < 65536) (hm : m < 256) :
    isPrefixOf (encodePrefix i (some m)) (encodeKey k) = true ↔ k.index = i ∧ k.mode = m := by
  rw [isPrefix_index_mode, beq_be 2 _ _ hi hk.1, beq_be 1 _ _ (by simpa using hm) hk.2.1,
    Bool.and_eq_true, beq_iff_eq, beq_iff_eq]
  exact ⟨fun ⟨a, b⟩ => ⟨a.symm, b.symm⟩, fun ⟨a, b⟩ => ⟨a.symm, b.symm⟩⟩

theorem mem_prefixIter_iff {s : Store} (hw : WF s) (i m : Nat) (hi : i < 65536) (hm : m < 256)
    (kv : Key × Val) : kv ∈ s.prefixIter i (some m) ↔ kv ∈ s ∧ kv.1.index = i ∧ kv.1.mode = m := by
  unfold prefixIter
  rw [List.mem_filter]
  constructor
  · intro ⟨h1, h2⟩
    exact ⟨h1, (isPrefix_index_mode_iff i m kv.1 (hw kv h1) hi hm).1 h2⟩
  · intro ⟨h1, h2⟩
    exact ⟨h1, (isPrefix_index_mode_iff i m kv.1 (hw kv h1) hi hm).2 h2⟩

/-- without well-formedness: entries of that index and mode are always visited -/
theorem mem_prefixIter_of_mem {s : Store} {kv : Key × Val} (h : kv ∈ s) :
    kv ∈ s.prefixIter kv.1.index (some kv.1.mode) := by
  unfold prefixIter
  exact List.mem_filter.2 ⟨h, isPrefix_index_mode_self kv.1⟩

/-! ## `keysOf` -/

theorem idSorted_iff_pairwise (l : List Nat) : IdSet.Sorted l ↔ l.Pairwise (· < ·) := by
  induction l with
  | nil => simp [IdSet.Sorted]
  | cons a rest ih =>
    cases rest with
    | nil => simp [IdSet.Sorted]
    | cons b rest' =>
      simp only [IdSet.Sorted, ih, List.pairwise_cons]
      constructor
      · intro ⟨hab, hb, hr⟩
        refine ⟨?_, hb, hr⟩
        intro x hx
        rcases List.mem_cons.1 hx with e | hx
        · subst e; exact hab
        · exact Nat.lt_trans hab (hb x hx)
      · intro ⟨ha, hb, hr⟩
        exact ⟨ha b (List.mem_cons_self ..), hb, hr⟩

/-- the ids under one (index, mode) of a sorted store come out strictly increasing -/
theorem keysOf_sorted {s : Store} (hs : Sorted s) (hw : WF s) (i m : Nat) (hi : i < 65536) (hm : m < 256) :
    IdSet.Sorted (keysOf s i m) := by
  rw [idSorted_iff_pairwise]
  unfold keysOf
  rw [List.pairwise_map]
  have hp := (sorted_iff_pairwise _).1 (prefixIter_sorted hs i (some m))
  refine hp.imp_of_mem ?_
  intro a b ha hb hlt
  have ha' := (mem_prefixIter_iff hw i m hi hm a).1 ha
  have hb' := (mem_prefixIter_iff hw i m hi hm b).1 hb
  rw [Key.lt_iff] at hlt
  omega

theorem mem_keysOf_iff {s : Store} (hw : WF s) (i m id : Nat) (hi : i < 65536) (hm : m < 256) :
    id ∈ keysOf s i m ↔ (Store.get s ⟨i, m, id⟩).isSome = true := by
  rw [get_isSome_iff]
  unfold keysOf
  rw [List.mem_map]
  constructor
  · intro ⟨kv, hkv, hid⟩
    have ⟨h1, h2, h3⟩ := (mem_prefixIter_iff hw i m hi hm kv).1 hkv
    refine ⟨kv.2, ?_⟩
    have : kv.1 = ⟨i, m, id⟩ := Key.eq_of_fields h2 h3 hid
    rw [← this]; exact h1
  · intro ⟨v, hv⟩
    exact ⟨(⟨i, m, id⟩, v), (mem_prefixIter_iff hw i m hi hm _).2 ⟨hv, rfl, rfl⟩, rfl⟩

theorem prefixIter_eq_nil_iff {s : Store} (hw : WF s) (i m : Nat) (hi : i < 65536) (hm : m < 256) :
    s.prefixIter i (some m) = [] ↔ ∀ id, Store.get s ⟨i, m, id⟩ = none := by
  constructor
  · intro h id
    rw [get_eq_none_iff]
    intro v hv
    have := (mem_prefixIter_iff hw i m hi hm (⟨i, m, id⟩, v)).2 ⟨hv, rfl, rfl⟩
    rw [h] at this; cases this
  · intro h
    rw [List.eq_nil_iff_forall_not_mem]
    intro kv hkv
    have ⟨h1, h2, h3⟩ := (mem_prefixIter_iff hw i m hi hm kv).1 hkv
    have : kv.1 = ⟨i, m, kv.1.item⟩ := Key.eq_of_fields h2 h3 rfl
    have hn := (get_eq_none_iff s _).1 (h kv.1.item) kv.2
    rw [← this] at hn
    exact hn h1

/-- one direction holds for every store: a present key makes its prefix iterator non-empty -/
theorem prefixIter_ne_nil_of_get {s : Store} {k : Key} (h : (Store.get s k).isSome = true) :
    s.prefixIter k.index (some k.mode) ≠ [] := by
  obtain ⟨v, hv⟩ := (get_isSome_iff s k).1 h
  intro e
  have := mem_prefixIter_of_mem hv
  simp only at this
  rw [e] at this; cases this

/-- `deletePrefix` by predicate on the key: the whole index … -/
theorem get_deletePrefix_index (s : Store) (i : Nat) (k : Key) (hk : k.wf) (hi : i < 65536) :
    Store.get (s.deletePrefix i none) k = if k.index = i then none else Store.get s k := by
  rw [get_deletePrefix]
  by_cases h : k.index = i
  · rw [if_pos ((isPrefix_index_iff i k hk hi).2 h), if_pos h]
  · rw [if_neg (fun e => h ((isPrefix_index_iff i k hk hi).1 e)), if_neg h]

/-- … or one kind of one index -/
theorem get_deletePrefix_index_mode (s : Store) (i m : Nat) (k : Key) (hk : k.wf) (hi : i < 65536)
    (hm : m < 256) :
    Store.get (s.deletePrefix i (some m)) k = if k.index = i ∧ k.mode = m then none else Store.get s k := by
  rw [get_deletePrefix]
  by_cases h : k.index = i ∧ k.mode = m
  · rw [if_pos ((isPrefix_index_mode_iff i m k hk hi hm).2 h), if_pos h]
  · rw [if_neg (fun e => h ((isPrefix_index_mode_iff i m k hk hi hm).1 e)), if_neg h]

theorem get_prefixIter_index_mode (s : Store) (i m : Nat) (k : Key) (hk : k.wf) (hi : i < 65536)
    (hm : m < 256) :
    Store.get (s.prefixIter i (some m)) k = if k.index = i ∧ k.mode = m then Store.get s k else none := by
  rw [get_prefixIter]
  by_cases h : k.index = i ∧ k.mode = m
  · rw [if_pos ((isPrefix_index_mode_iff i m k hk hi hm).2 h), if_pos h]
  · rw [if_neg (fun e => h ((isPrefix_index_mode_iff i m k hk hi hm).1 e)), if_neg h]

/-! ## filters through `put` / `erase` / `deletePrefix` (frame laws for prefix iteration) -/

/-- putting a key the (key-only) filter rejects does not change the filtered store -/
theorem filter_put_of_false (s : Store) (p : Key → Bool) (k : Key) (v : Val) (h : p k = false) :
    (s.put k v).filter (fun kv => p kv.1) = s.filter (fun kv => p kv.1) := by
  induction s with
  | nil => simp [put, h]
  | cons kv rest ih =>
    obtain ⟨k0, v0⟩ := kv
    simp only [put]
    split
    · simp [List.filter_cons, h]
    · split
      · rename_i _ he
        subst he
        simp [List.filter_cons, h]
      · simp only [List.filter_cons, ih]

theorem prefixIter_put_other (s : Store) (k : Key) (v : Val) (i : Nat) (m : Option Nat)
    (h : isPrefixOf (encodePrefix i m) (encodeKey k) = false) :
    (s.put k v).prefixIter i m = s.prefixIter i m :=
  filter_put_of_false s (fun k => isPrefixOf (encodePrefix i m) (encodeKey k)) k v h

theorem prefixIter_erase_other (s : Store) (k : Key) (i : Nat) (m : Option Nat)
    (h : isPrefixOf (encodePrefix i m) (encodeKey k) = false) :
    (s.erase k).prefixIter i m = s.prefixIter i m := by
  unfold prefixIter erase
  rw [List.filter_filter]
  apply List.filter_congr
  intro kv _
  by_cases hk : kv.1 = k
  · rw [hk, h]; rfl
  · simp [hk]

/-- deleting all of index `j` does not change what a prefix cursor of another index sees -/
theorem prefixIter_deletePrefix_other {s : Store} (hw : WF s) (i j m : Nat) (hi : i < 65536) (hj : j < 65536)
    (hm : m < 256) (hne : i ≠ j) :
    (s.deletePrefix j none).prefixIter i (some m) = s.prefixIter i (some m) := by
  unfold prefixIter deletePrefix
  rw [List.filter_filter]
  apply List.filter_congr
  intro kv hkv
  cases hp : isPrefixOf (encodePrefix i (some m)) (encodeKey kv.1) with
  | false => rfl
  | true =>
    have h1 := ((isPrefix_index_mode_iff i m kv.1 (hw kv hkv) hi hm).1 hp).1
    have : ¬ isPrefixOf (encodePrefix j none) (encodeKey kv.1) = true := by
      rw [isPrefix_index_iff j kv.1 (hw kv hkv) hj]; omega
    simp [this]

end Store
end Arroy
