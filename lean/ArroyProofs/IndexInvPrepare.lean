import ArroyProofs.IndexInvOps
import ArroyProofs.Mutates
import ArroyProofs.Properties.C18
/-! `IndexInv` and `Writer.prepareChangingDistance`: the metric change keeps the invariant of every index.
For the changed index nothing of the forest and no metadata is left (`Unbuilt`), the items stay leaves;
the keys of the other indexes do not move (`C18_change`). -/
namespace Arroy
open Generated IdSet Transp

/-- a metric change of index `c'` (another metric) leaves index `c'` unbuilt -/
theorem prepare_unbuilt {c c' : Cfg} {m' : Metric} {s s' : Store} (hne : m' ≠ c'.metric)
    (hw : Store.WF s) (hs : Store.Sorted s) (hi' : c'.index < 65536) (hl : C05.ItemsAreLeaves c' s)
    (he : c.index = c'.index) (h : Writer.prepareChangingDistance c' m' s = .ok s') :
    Unbuilt c s' ∧ Store.Sorted s' ∧ Store.WF s' ∧ C05.ItemsAreLeaves c s' := by
  obtain ⟨s'', h', ⟨ht, hm, _⟩, _, _, _, hs', hw', hl'⟩ := C18.C18_change c' m' s hne hw hs hi' hl
  rw [h] at h'
  cases h'
  have hk : ∀ i, c.treeKey i = c'.treeKey i := by intro i; simp [Cfg.treeKey, he]
  have hmk : c.metaKey = c'.metaKey := by simp [Cfg.metaKey, he]
  refine ⟨⟨by rw [hmk]; exact hm, fun id => by rw [hk]; exact ht id⟩, hs', hw', ?_⟩
  intro kv hkv hidx hmode
  exact hl' kv hkv (by rw [hidx, he]) hmode

/-- a metric change of index `c'` does not touch the keys of another index -/
theorem prepare_other {c' : Cfg} {m' : Metric} {s s' : Store}
    (hw : Store.WF s) (hs : Store.Sorted s) (hi' : c'.index < 65536) (hl : C05.ItemsAreLeaves c' s)
    (h : Writer.prepareChangingDistance c' m' s = .ok s') (k : Key) (hk : k.index ≠ c'.index) :
    Store.get s' k = Store.get s k := by
  by_cases hne : m' = c'.metric
  · subst hne
    rw [C18.C18_same] at h
    cases h; rfl
  · obtain ⟨s'', h', _, _, _, ho, _⟩ := C18.C18_change c' m' s hne hw hs hi' hl
    rw [h] at h'
    cases h'
    exact ho k (Or.inl hk)

theorem prepare_sorted_wf {c' : Cfg} {m' : Metric} {s s' : Store}
    (hw : Store.WF s) (hs : Store.Sorted s) (hi' : c'.index < 65536) (hl : C05.ItemsAreLeaves c' s)
    (h : Writer.prepareChangingDistance c' m' s = .ok s') : Store.Sorted s' ∧ Store.WF s' := by
  by_cases hne : m' = c'.metric
  · subst hne
    rw [C18.C18_same] at h
    cases h; exact ⟨hs, hw⟩
  · obtain ⟨s'', h', _, _, _, _, hs', hw', _⟩ := C18.C18_change c' m' s hne hw hs hi' hl
    rw [h] at h'
    cases h'
    exact ⟨hs', hw'⟩

/-- what a metric change of another index does to index `c`: nothing -/
theorem Mutates.prepare_other {c c' : Cfg} {m' : Metric} {s s' : Store}
    (hw : Store.WF s) (hs : Store.Sorted s) (hi' : c'.index < 65536) (hl : C05.ItemsAreLeaves c' s)
    (h : Writer.prepareChangingDistance c' m' s = .ok s') (hne : c.index ≠ c'.index) : Mutates c s s' :=
  Mutates.of_same (fun k hk => Arroy.prepare_other hw hs hi' hl h k (by rw [hk]; exact hne))

/-- **the metric change preserves the invariant of every index** (`hinv'`: the invariant of the changed
    index, needed for the call to succeed at all: its item keys hold leaves) -/
theorem IndexInv_prepare {c c' : Cfg} {m' : Metric} {s s' : Store} (hinv : IndexInv c s) (hinv' : IndexInv c' s)
    (hi' : c'.index < 65536) (h : Writer.prepareChangingDistance c' m' s = .ok s') : IndexInv c s' := by
  have hs := hinv.1.1
  have hw := hinv.1.2.1
  have hl' := hinv'.1.2.2.1
  by_cases hne : m' = c'.metric
  · subst hne
    rw [C18.C18_same] at h
    cases h; exact hinv
  · by_cases he : c.index = c'.index
    · obtain ⟨hu, hs', hw', hl⟩ := prepare_unbuilt (c := c) hne hw hs hi' hl' he h
      refine ⟨⟨hs', hw', hl, Or.inl hu⟩, ?_⟩
      intro name dims items roots hm
      rw [hu.1] at hm
      cases hm
    · obtain ⟨hs', hw'⟩ := prepare_sorted_wf hw hs hi' hl' h
      have ho := fun k hk => prepare_other hw hs hi' hl' h k hk
      apply hinv.mutate hs' hw'
      · intro kv hkv hi hm
        have hg : Store.get s' kv.1 = some kv.2 := (Store.get_eq_some_iff hs' _ _).2 hkv
        rw [ho kv.1 (by rw [hi]; exact he)] at hg
        exact hinv.1.2.2.1 kv (Store.mem_of_get hg) hi hm
      · intro i; exact ho _ he
      · exact ho _ he
      · intro id hnone
        rw [ho _ he] at hnone
        exact ⟨hnone, by rw [ho (c.itemKey id) he]⟩

end Arroy
