import ArroyProofs.ResplitFairRound
import ArroyProofs.BuildM
import ArroyProofs.NoFuel
/-! Termination of `incremental_index_large_descendants` under fair splits.

* `resplitRound`: the body of one round of the loop as a `BuildM` program that additionally returns the
  facts of the round (`RoundFact`); `loop_succ_cons`: the model loop is `resplitRound` followed by the loop.
* `loopTraced`: the loop instrumented with the list of the facts of the rounds it ran (also when it fails);
  `loopTraced_snd`: its result is the result of the model loop, for every fuel.
* `loopMeasure`: `Σ (size of the queued bucket - 1)`; a fair round decreases it (`RoundOut.measure_step`).
* `loop_fair_noFuel`: with more fuel than the measure, a run all of whose rounds are fair does not end in
  `.fuel`. -/
namespace Arroy
open BuildM Generated IdSet

/-! ## definitions -/

/-- number of items of the bucket `i` of the store (0 if `i` is not a bucket) -/
def bucketSize (c : Cfg) (s : Store) (i : Nat) : Nat :=
  match Store.get s (c.treeKey i) with
  | some (.desc ids) => ids.length
  | _ => 0

/-- the measure of the queue of the re-split loop: `Σ (size - 1)` over the queued bucket ids -/
def loopMeasure (c : Cfg) (s : Store) (large : List Nat) : Nat :=
  (large.map (fun i => bucketSize c s i - 1)).sum

/-- what happened in one round of the re-split loop -/
structure RoundFact where
  /-- the bucket taken from the queue -/
  bucket : Nat
  /-- number of items it held -/
  size : Nat
  /-- the batch length the oracle dictated -/
  batch : Nat
  /-- number of items on the two sides of the root split of the tree made from the batch
      (both 0 if `make_tree_in_file` did not return a split node) -/
  left : Nat
  right : Nat
  /-- the bucket ids queued by the nested insertion, with their sizes after the round -/
  queued : List (Nat × Nat)
  deriving Repr, DecidableEq

/-- the sizes of the two sides of a root split -/
def T.sides : T → Nat × Nat
  | .node _ _ l r => (l.items.length, r.items.length)
  | _ => (0, 0)

/-- a round is fair when the tree made from the batch has a root split with two non-empty sides -/
def RoundFact.fair (f : RoundFact) : Prop := 0 < f.left ∧ 0 < f.right

instance : DecidablePred RoundFact.fair := fun f => inferInstanceAs (Decidable (0 < f.left ∧ 0 < f.right))

/-- the body of one round of `Build.incrementalIndexLargeDescendants` on the bucket `b` (a literal copy),
    returning the facts of the round, the queued ids and the id generator -/
def resplitRound (c : Cfg) (o : BuildOpts) (b : Nat) (g : IdGen) : BuildM (RoundFact × List Nat × IdGen) := do
  poll
  let s ← getStore
  match s.get (c.treeKey b) with
  | some (.desc ids) =>
    let k ← nextBatch
    if k = 0 ∨ k > ids.length then fail (.oracle "batch length out of range") else
    let batch := ids.take k
    let rest := ids.drop k
    let st ← (fun s => .ok (s, s) : BuildM BState)
    let r ← liftExcept (makeT (Build.treeCtx c o s) (st.normals.length + 2) batch g st.normals st.rands)
    (fun s => .ok ((), { s with normals := r.normals, rands := r.rands }) : BuildM Unit)
    pollN r.polls
    let rootId := r.tree.ref.item
    Build.writeBack c [] r.puts (fun id => if id = rootId then b else id)
    let (large'', g') ← Build.insertItemsInCurrentTrees c o [b] (rest.length + 1) rest r.gen
    let s' ← getStore
    pure (⟨b, ids.length, k, r.tree.sides.1, r.tree.sides.2, large''.map (fun i => (i, bucketSize c s' i))⟩, large'', g')
  | _ => fail (.panic "large descendant is not a descendants node")

/-- the re-split loop, instrumented: the facts of the rounds that ran to their end, in order, and the
    result of the loop (the trace is kept when the loop fails) -/
def loopTraced (c : Cfg) (o : BuildOpts) :
    Nat → List Nat → IdGen → BState → List RoundFact × Except Err (Unit × BState)
  | 0, large, _, st =>
    ([], if large.isEmpty then .ok ((), st) else .error (.fuel "incremental_index_large_descendants"))
  | _+1, [], _, st => ([], .ok ((), st))
  | fuel+1, b :: large', g, st =>
    match resplitRound c o b g st with
    | .error e => ([], .error e)
    | .ok ((f, large'', g'), st') =>
      let r := loopTraced c o fuel (IdSet.union large' large'') g' st'
      (f :: r.1, r.2)

/-! ## the instrumented loop is the model loop -/

theorem bind'_assoc {α β γ : Type} (m : BuildM α) (f : α → BuildM β) (h : β → BuildM γ) :
    bind' (bind' m f) h = bind' m (fun a => bind' (f a) h) := by
  funext st
  simp only [bind']
  cases m st with
  | error e => rfl
  | ok r => rfl

theorem bind'_fail {α β : Type} (e : Err) (h : α → BuildM β) : bind' (fail e : BuildM α) h = fail e := rfl

theorem bind'_ite {α β : Type} (p : Prop) [Decidable p] (a b : BuildM α) (h : α → BuildM β) :
    bind' (if p then a else b) h = if p then bind' a h else bind' b h := by
  split <;> rfl

/-- one unfolding of the model loop: a round, then the loop on the new queue -/
theorem loop_succ_cons (c : Cfg) (o : BuildOpts) (fuel b : Nat) (large' : List Nat) (g : IdGen) :
    Build.incrementalIndexLargeDescendants c o (fuel + 1) (b :: large') g =
      bind' (resplitRound c o b g)
        (fun x => Build.incrementalIndexLargeDescendants c o fuel (IdSet.union large' x.2.1) x.2.2) := by
  simp only [Build.incrementalIndexLargeDescendants, resplitRound, bind_eq, pure_eq, bind'_assoc]
  refine congrArg (bind' poll) (funext fun _ => congrArg (bind' getStore) (funext fun s => ?_))
  cases hv : Store.get s (c.treeKey b) with
  | none => rfl
  | some v =>
    cases v with
    | desc ids =>
      simp only [bind'_assoc, bind'_ite, bind'_fail]
      rfl
    | _ => rfl

theorem loop_succ_cons_ok (c : Cfg) (o : BuildOpts) (fuel b : Nat) (large' : List Nat) (g : IdGen)
    {st st' : BState} {f : RoundFact} {large'' : List Nat} {g' : IdGen}
    (h : resplitRound c o b g st = .ok ((f, large'', g'), st')) :
    Build.incrementalIndexLargeDescendants c o (fuel + 1) (b :: large') g st =
      Build.incrementalIndexLargeDescendants c o fuel (IdSet.union large' large'') g' st' := by
  rw [loop_succ_cons, Transp.bind'_ok h]

theorem loop_succ_cons_err (c : Cfg) (o : BuildOpts) (fuel b : Nat) (large' : List Nat) (g : IdGen)
    {st : BState} {e : Err} (h : resplitRound c o b g st = .error e) :
    Build.incrementalIndexLargeDescendants c o (fuel + 1) (b :: large') g st = .error e := by
  rw [loop_succ_cons, Transp.bind'_err h]

/-- the instrumented loop computes the model loop: same final state, same error, for every fuel -/
theorem loopTraced_snd (c : Cfg) (o : BuildOpts) (fuel : Nat) (large : List Nat) (g : IdGen) (st : BState) :
    (loopTraced c o fuel large g st).2 = Build.incrementalIndexLargeDescendants c o fuel large g st := by
  induction fuel generalizing large g st with
  | zero =>
    simp only [loopTraced, Build.incrementalIndexLargeDescendants]
    split <;> rfl
  | succ fuel ih =>
    cases large with
    | nil => rfl
    | cons b large' =>
      cases hr : resplitRound c o b g st with
      | error e =>
        rw [loop_succ_cons_err c o fuel b large' g hr]
        simp only [loopTraced, hr]
      | ok x =>
        obtain ⟨⟨f, large'', g'⟩, st'⟩ := x
        rw [loop_succ_cons_ok c o fuel b large' g hr]
        simp only [loopTraced, hr]
        exact ih _ _ _

/-- the trace of a run that gets through a round is the fact of that round, then the trace of the rest -/
theorem loopTraced_fst_cons (c : Cfg) (o : BuildOpts) (fuel b : Nat) (large' : List Nat) (g : IdGen)
    {st st' : BState} {f : RoundFact} {large'' : List Nat} {g' : IdGen}
    (h : resplitRound c o b g st = .ok ((f, large'', g'), st')) :
    (loopTraced c o (fuel + 1) (b :: large') g st).1 =
      f :: (loopTraced c o fuel (IdSet.union large' large'') g' st').1 := by
  simp only [loopTraced, h]

/-! ## a round: inversion, and no `.fuel` -/

theorem resplitRound_noFuel (c : Cfg) (o : BuildOpts) (b : Nat) (g : IdGen) : NoFuelErr (resplitRound c o b g) := by
  unfold resplitRound
  refine NoFuelErr.bind NoFuelErr.poll (fun _ => ?_)
  refine NoFuelErr.bind NoFuelErr.getStore (fun s => ?_)
  split
  · refine NoFuelErr.bind NoFuelErr.nextBatch (fun k => ?_)
    split
    · exact NoFuelErr.fail (by intro w h; cases h)
    · dsimp only
      refine NoFuelErr.bind NoFuelErr.peek (fun st0 => ?_)
      refine NoFuelErr.bind (NoFuelErr.liftExcept (makeT_noFuel _ _ _ _ _ _ (by omega))) (fun r => ?_)
      refine NoFuelErr.bind (NoFuelErr.setNormalsRands _ _) (fun _ => ?_)
      refine NoFuelErr.bind (NoFuelErr.pollN _) (fun _ => ?_)
      refine NoFuelErr.bind (writeBack_noFuel _ _ _ _) (fun _ => ?_)
      refine NoFuelErr.bind (insertItemsInCurrentTrees_noFuel _ _ _ _ _ _ (by omega)) (fun x => ?_)
      refine NoFuelErr.bind NoFuelErr.getStore (fun s' => ?_)
      exact NoFuelErr.pure _
  · exact NoFuelErr.fail (by intro w h; cases h)

/-- the steps of a round, as equations on the model's own functions -/
structure RoundSteps (c : Cfg) (o : BuildOpts) (b : Nat) (g : IdGen) (st : BState) (ids : List Nat) (k : Nat)
    (r : MakeRes) (st1 st2 st3 st4 st' : BState) (large'' : List Nat) (g' : IdGen) : Prop where
  get : Store.get st.store (c.treeKey b) = some (.desc ids)
  poll : BuildM.poll st = .ok ((), st1)
  batch : nextBatch st1 = .ok (k, st2)
  range : ¬ (k = 0 ∨ k > ids.length)
  make : makeT (Build.treeCtx c o st.store) (st2.normals.length + 2) (ids.take k) g st2.normals st2.rands = .ok r
  polls : pollN r.polls { st2 with normals := r.normals, rands := r.rands } = .ok ((), st3)
  write : Build.writeBack c [] r.puts (fun id => if id = r.tree.ref.item then b else id) st3 = .ok ((), st4)
  insert : Build.insertItemsInCurrentTrees c o [b] ((ids.drop k).length + 1) (ids.drop k) r.gen st4 =
    .ok ((large'', g'), st')

/-- the fact recorded for a round -/
def RoundSteps.fact (c : Cfg) (b : Nat) (ids : List Nat) (k : Nat) (r : MakeRes) (st' : BState)
    (large'' : List Nat) : RoundFact :=
  ⟨b, ids.length, k, r.tree.sides.1, r.tree.sides.2, large''.map (fun i => (i, bucketSize c st'.store i))⟩

theorem resplitRound_ok_inv {c : Cfg} {o : BuildOpts} {b : Nat} {g g' : IdGen} {st st' : BState} {f : RoundFact}
    {large'' : List Nat} (h : resplitRound c o b g st = .ok ((f, large'', g'), st')) :
    ∃ ids k r st1 st2 st3 st4, RoundSteps c o b g st ids k r st1 st2 st3 st4 st' large'' g' ∧
      f = RoundSteps.fact c b ids k r st' large'' := by
  simp only [resplitRound] at h
  obtain ⟨u1, st1, h1, k1⟩ := bind_ok_inv h
  clear h
  have e1 := poll_store' h1
  obtain ⟨s, st1', h2, k2⟩ := bind_ok_inv k1
  clear k1
  obtain ⟨e2a, e2b⟩ := getStore_ok' h2
  subst e2b
  have hs : s = st.store := by rw [← e2a, e1]
  subst hs
  generalize hget : Store.get st.store (c.treeKey b) = gv at k2
  cases gv with
  | none => exact (fail_ok k2).elim
  | some v =>
  cases v with
  | desc ids =>
    obtain ⟨k, st2, h3, k3⟩ := bind_ok_inv k2
    clear k2
    split at k3
    · exact (fail_ok k3).elim
    · rename_i hk
      obtain ⟨sp, st2', h4, k4⟩ := bind_ok_inv k3
      clear k3
      obtain ⟨e4a, e4b⟩ := peek_ok' h4
      subst e4a e4b
      obtain ⟨r, st2', h5, k5⟩ := bind_ok_inv k4
      clear k4
      obtain ⟨hm, e5⟩ := liftExcept_ok' h5
      subst e5
      obtain ⟨u6, st6, h6, k6⟩ := bind_ok_inv k5
      clear k5
      have e6 : st6 = { st2 with normals := r.normals, rands := r.rands } := by cases h6; rfl
      subst e6
      obtain ⟨u7, st3, h7, k7⟩ := bind_ok_inv k6
      clear k6
      obtain ⟨u8, st4, h8, k8⟩ := bind_ok_inv k7
      clear k7
      obtain ⟨x, st5, h9, k9⟩ := bind_ok_inv k8
      clear k8
      obtain ⟨large2, g2⟩ := x
      simp only at k9
      obtain ⟨s', st5', h10, k10⟩ := bind_ok_inv k9
      clear k9
      obtain ⟨e10a, e10b⟩ := getStore_ok' h10
      subst e10b
      obtain ⟨e11, e12⟩ := pure_ok' k10
      subst e12
      simp only [Prod.mk.injEq] at e11
      obtain ⟨rfl, rfl, rfl⟩ := e11
      subst e10a
      exact ⟨ids, k, r, st1, st2, st3, st4, ⟨hget, h1, h3, hk, hm, h7, h8, h9⟩, rfl⟩
  | _ => exact (fail_ok k2).elim

theorem resplitRound_ok_of_steps {c : Cfg} {o : BuildOpts} {b : Nat} {g g' : IdGen} {st st1 st2 st3 st4 st' : BState}
    {ids : List Nat} {k : Nat} {r : MakeRes} {large'' : List Nat}
    (h : RoundSteps c o b g st ids k r st1 st2 st3 st4 st' large'' g') :
    resplitRound c o b g st = .ok ((RoundSteps.fact c b ids k r st' large'', large'', g'), st') := by
  have e1 : st1.store = st.store := poll_store' h.poll
  simp only [resplitRound, bind_eq, pure_eq]
  refine BuildM.bind'_ok.2 ⟨(), st1, h.poll, ?_⟩
  refine BuildM.bind'_ok.2 ⟨st1.store, st1, rfl, ?_⟩
  rw [e1, h.get]
  dsimp only
  refine BuildM.bind'_ok.2 ⟨k, st2, h.batch, ?_⟩
  rw [if_neg h.range]
  refine BuildM.bind'_ok.2 ⟨st2, st2, rfl, ?_⟩
  refine BuildM.bind'_ok.2 ⟨r, st2, by rw [h.make]; rfl, ?_⟩
  refine BuildM.bind'_ok.2 ⟨(), _, rfl, ?_⟩
  refine BuildM.bind'_ok.2 ⟨(), st3, h.polls, ?_⟩
  refine BuildM.bind'_ok.2 ⟨(), st4, h.write, ?_⟩
  refine BuildM.bind'_ok.2 ⟨(large'', g'), st', h.insert, ?_⟩
  rfl

/-! ## sums -/

theorem sum_map_le_of_forall {f h : Nat → Nat} : ∀ (l : List Nat), (∀ x ∈ l, f x ≤ h x) → (l.map f).sum ≤ (l.map h).sum
  | [], _ => Nat.le_refl _
  | x :: l, hl => by
    simp only [List.map_cons, List.sum_cons]
    have h1 := hl x (by simp)
    have h2 := sum_map_le_of_forall l (fun y hy => hl y (List.mem_cons_of_mem _ hy))
    omega

/-- a list without duplicates whose elements all occur in `m` sums to at most the sum over `m` -/
theorem sum_map_le_of_nodup_subset (f : Nat → Nat) : ∀ (m l : List Nat), l.Nodup → (∀ x ∈ l, x ∈ m) →
    (l.map f).sum ≤ (m.map f).sum
  | [], l, _, hs => by
    cases l with
    | nil => exact Nat.le_refl _
    | cons x l => exact absurd (hs x (by simp)) (by simp)
  | y :: m, l, hnd, hs => by
    by_cases hy : y ∈ l
    · have hp := List.perm_cons_erase hy
      rw [(hp.map f).sum_nat]
      simp only [List.map_cons, List.sum_cons]
      have hnd' : (l.erase y).Nodup := hnd.erase y
      have := sum_map_le_of_nodup_subset f m (l.erase y) hnd' (by
        intro x hx
        have hxl : x ∈ l := List.mem_of_mem_erase hx
        rcases List.mem_cons.1 (hs x hxl) with rfl | h'
        · exact absurd hx (hnd.not_mem_erase)
        · exact h')
      omega
    · have := sum_map_le_of_nodup_subset f m l hnd (by
        intro x hx
        rcases List.mem_cons.1 (hs x hx) with rfl | h'
        · exact absurd hx hy
        · exact h')
      simp only [List.map_cons, List.sum_cons]
      omega

/-- the merge `IdSet.union` never outputs more copies of an id than its arguments hold -/
theorem sum_map_union_le (f : Nat → Nat) (a b : List Nat) :
    ((IdSet.union a b).map f).sum ≤ (a.map f).sum + (b.map f).sum := by
  fun_induction IdSet.union a b with
  | case1 b => simp
  | case2 a _ => simp
  | case3 x xs y ys h ih => simp only [List.map_cons, List.sum_cons] at ih ⊢; omega
  | case4 x xs y ys h1 h2 ih => simp only [List.map_cons, List.sum_cons] at ih ⊢; omega
  | case5 x xs y ys h1 h2 ih => simp only [List.map_cons, List.sum_cons] at ih ⊢; omega

theorem loopMeasure_union_le (c : Cfg) (s : Store) (a b : List Nat) :
    loopMeasure c s (IdSet.union a b) ≤ loopMeasure c s a + loopMeasure c s b :=
  sum_map_union_le _ a b

theorem loopMeasure_cons (c : Cfg) (s : Store) (b : Nat) (l : List Nat) :
    loopMeasure c s (b :: l) = (bucketSize c s b - 1) + loopMeasure c s l := by
  simp [loopMeasure]

/-! ## buckets of a tree -/

theorem T.bucket_length_le_items {t : T} {p : Nat × List Nat} (hp : p ∈ t.buckets) : p.2.length ≤ t.items.length := by
  induction t with
  | leaf i => simp [T.buckets] at hp
  | bucket id s =>
    simp only [T.buckets, List.mem_singleton] at hp
    subst hp; exact Nat.le_refl _
  | node id n l r ihl ihr =>
    simp only [T.buckets, List.mem_append] at hp
    simp only [T.items, List.length_append]
    rcases hp with hp | hp
    · have := ihl hp; omega
    · have := ihr hp; omega

theorem T.bucket_sub_items {t : T} {p : Nat × List Nat} (hp : p ∈ t.buckets) : ∀ x ∈ p.2, x ∈ t.items := by
  induction t with
  | leaf i => simp [T.buckets] at hp
  | bucket id s =>
    simp only [T.buckets, List.mem_singleton] at hp
    subst hp; exact fun x hx => hx
  | node id n l r ihl ihr =>
    simp only [T.buckets, List.mem_append] at hp
    intro x hx
    simp only [T.items, List.mem_append]
    rcases hp with hp | hp
    · exact Or.inl (ihl hp x hx)
    · exact Or.inr (ihr hp x hx)

theorem holds_bucket {c : Cfg} {s : Store} {t : T} (hh : Holds c s t) {p : Nat × List Nat} (hp : p ∈ t.buckets) :
    Store.get s (c.treeKey p.1) = some (.desc p.2) := by
  induction t with
  | leaf i => simp [T.buckets] at hp
  | bucket id s0 =>
    simp only [T.buckets, List.mem_singleton] at hp
    subst hp; exact hh.bucket
  | node id n l r ihl ihr =>
    simp only [T.buckets, List.mem_append] at hp
    rcases hp with hp | hp
    · exact ihl hh.left hp
    · exact ihr hh.right hp

theorem T.bucket_ids_sublist (t : T) : (t.buckets.map (·.1)).Sublist t.ids := by
  induction t with
  | leaf i => simp [T.buckets, T.ids]
  | bucket id s => simp [T.buckets, T.ids]
  | node id n l r ihl ihr =>
    simp only [T.buckets, T.ids, List.map_append]
    exact List.Sublist.cons _ (List.Sublist.append ihl ihr)

theorem T.sum_buckets_le (t : T) : (t.buckets.map (fun p => p.2.length - 1)).sum ≤ t.items.length - 1 := by
  induction t with
  | leaf i => simp [T.buckets]
  | bucket id s => simp [T.buckets, T.items]
  | node id n l r ihl ihr =>
    simp only [T.buckets, T.items, List.map_append, List.sum_append, List.length_append]
    omega

theorem T.sides_pos {t : T} (h : 0 < t.sides.1 ∧ 0 < t.sides.2) :
    ∃ id n a b, t = .node id n a b ∧ a.items ≠ [] ∧ b.items ≠ [] := by
  cases t with
  | leaf i => simp [T.sides] at h
  | bucket id s => simp [T.sides] at h
  | node id n a b =>
    simp only [T.sides] at h
    exact ⟨id, n, a, b, rfl, List.ne_nil_of_length_pos h.1, List.ne_nil_of_length_pos h.2⟩

/-! ## the parts of a tree: its item children and non-empty buckets -/

/-- number of item children and non-empty buckets -/
def T.parts : T → Nat
  | .leaf _ => 1
  | .bucket _ [] => 0
  | .bucket _ (_ :: _) => 1
  | .node _ _ l r => l.parts + r.parts

/-- `Σ (size - 1)` over the buckets is the number of items minus the number of parts -/
theorem T.sum_buckets_add_parts (t : T) :
    (t.buckets.map (fun p => p.2.length - 1)).sum + t.parts = t.items.length := by
  induction t with
  | leaf i => simp [T.buckets, T.parts, T.items]
  | bucket id s => cases s <;> simp [T.buckets, T.parts, T.items]
  | node id n l r ihl ihr =>
    simp only [T.buckets, T.parts, T.items, List.map_append, List.sum_append, List.length_append]
    omega

theorem Grow.parts_le : ∀ {t t' : T}, Grow t t' → t.parts ≤ t'.parts
  | .leaf _, .leaf _, _ => Nat.le_refl _
  | .leaf _, .bucket _ s, h => by
    simp only [Grow] at h
    cases s with
    | nil => simp at h
    | cons x xs => exact Nat.le_refl _
  | .bucket _ s, .bucket _ s', h => by
    simp only [Grow] at h
    cases s with
    | nil => exact Nat.zero_le _
    | cons x xs =>
      cases s' with
      | nil => have := h.2.2; simp at this
      | cons y ys => exact Nat.le_refl _
  | .node _ _ _ _, .node _ _ _ _, h => by
    simp only [Grow] at h
    simp only [T.parts]
    have := Grow.parts_le h.2.2.1
    have := Grow.parts_le h.2.2.2
    omega
  | .leaf _, .node _ _ _ _, h => by simp [Grow] at h
  | .bucket _ _, .leaf _, h => by simp [Grow] at h
  | .bucket _ _, .node _ _ _ _, h => by simp [Grow] at h
  | .node _ _ _ _, .leaf _, h => by simp [Grow] at h
  | .node _ _ _ _, .bucket _ _, h => by simp [Grow] at h

/-- a tree with items has a part -/
theorem T.parts_pos {t : T} (h : t.items ≠ []) : 0 < t.parts := by
  have := T.sum_buckets_add_parts t
  have h1 := T.sum_buckets_le t
  have h2 : 0 < t.items.length := List.length_pos_iff.2 h
  omega

/-- buckets within the capacity: at most `cap` items per part -/
theorem T.items_le_parts_mul {cap : Nat} (hcap : 1 ≤ cap) (t : T) (h : ∀ p ∈ t.buckets, p.2.length ≤ cap) :
    t.items.length ≤ t.parts * cap := by
  induction t with
  | leaf i => simpa [T.items, T.parts] using hcap
  | bucket id s =>
    cases s with
    | nil => simp [T.items, T.parts]
    | cons x xs => simpa [T.items, T.parts, T.buckets] using h
  | node id n l r ihl ihr =>
    have hl := ihl (fun p hp => h p (by simp [T.buckets, hp]))
    have hr := ihr (fun p hp => h p (by simp [T.buckets, hp]))
    simp only [T.items, T.parts, List.length_append, Nat.add_mul]
    omega

/-- the tree made from a batch longer than the capacity is a split node with at least two parts -/
theorem makeT_two_parts {cx : TreeCtx} {fuel : Nat} {items : List Nat} {g : IdGen} {normals : List (List Nat)}
    {rs : List Bool} {res : MakeRes} (h : makeT cx fuel items g normals rs = .ok res)
    (hcap : 1 ≤ cx.cap) (hlen : cx.cap < items.length) :
    ∃ id n l r, res.tree = .node id n l r ∧ 2 ≤ l.parts + r.parts := by
  obtain ⟨id, n, l, r, e⟩ := makeT_shape_node cx fuel items g normals rs res h hcap hlen
  refine ⟨id, n, l, r, e, ?_⟩
  have h1 := T.items_le_parts_mul hcap res.tree (makeT_capacity cx fuel items g normals rs res h)
  have h2 := (makeT_items cx fuel items g normals rs res h).1.length_eq
  rw [e] at h1 h2
  simp only [T.parts] at h1
  simp only [T.items] at h2
  generalize l.parts + r.parts = m at h1
  match m, h1 with
  | 0, h1 => simp only [T.items, Nat.zero_mul] at h1; omega
  | 1, h1 => simp only [T.items, Nat.one_mul] at h1; omega
  | m + 2, _ => omega

theorem mem_le_sum_map {α : Type} (f : α → Nat) : ∀ {l : List α} {a : α}, a ∈ l → f a ≤ (l.map f).sum
  | x :: l, a, h => by
    simp only [List.map_cons, List.sum_cons]
    rcases List.mem_cons.1 h with rfl | h
    · omega
    · have := mem_le_sum_map f h; omega

/-! ## a round whose made tree has two parts (a batch above the capacity; in particular a fair round) -/

section round
variable {c : Cfg} {o : BuildOpts} {roots items : List Nat} {ts : List T} {s : Store} {b : Nat}
  {ids inUse : List Nat} {g' : IdGen} {stc : BState} {large2 : List Nat} {u' : T} {inUse' : List Nat}
  {n : List Nat} {a0 b0 : T}

/-- the subtree below `b` is still that split node, it holds `ids`, and has at least two parts -/
theorem RoundOut.node_parts
    (out : RoundOut c o roots items ts s b ids inUse g' stc large2 (.node b n a0 b0) u' inUse')
    (hp : 2 ≤ a0.parts + b0.parts) :
    ∃ a' b', u' = .node b n a' b' ∧ Grow a0 a' ∧ Grow b0 b' ∧
      a'.items.length + b'.items.length = ids.length ∧ 2 ≤ u'.parts := by
  obtain ⟨a', b', rfl, ga, gb⟩ := out.grow.node_inv
  refine ⟨a', b', rfl, ga, gb, ?_, ?_⟩
  · have hp := (List.perm_ext_iff_of_nodup out.items_nodup out.sorted_ids.nodup).2 out.items
    have := hp.length_eq
    simpa [T.items] using this
  · have := out.grow.parts_le
    simp only [T.parts] at this ⊢
    omega

theorem RoundOut.sum_buckets
    (out : RoundOut c o roots items ts s b ids inUse g' stc large2 (.node b n a0 b0) u' inUse')
    (hp : 2 ≤ a0.parts + b0.parts) :
    (u'.buckets.map (fun p => p.2.length - 1)).sum + 2 ≤ ids.length := by
  obtain ⟨a', b', e, _, _, hlen, hp'⟩ := out.node_parts hp
  have := T.sum_buckets_add_parts u'
  have hl : u'.items.length = ids.length := by rw [e]; simpa [T.items] using hlen
  omega

/-- every bucket below `b` after the round is stored as such, holds items of `ids` only, and strictly fewer
    than `ids` -/
theorem RoundOut.buckets_small
    (out : RoundOut c o roots items ts s b ids inUse g' stc large2 (.node b n a0 b0) u' inUse')
    (hp : 2 ≤ a0.parts + b0.parts) :
    ∀ p ∈ u'.buckets, Store.get stc.store (c.treeKey p.1) = some (.desc p.2) ∧
      p.2.length < ids.length ∧ (∀ x ∈ p.2, x ∈ ids) := by
  intro p hpm
  refine ⟨holds_bucket out.holds hpm, ?_, fun x hx => (out.items x).1 (T.bucket_sub_items hpm x hx)⟩
  have h1 := out.sum_buckets hp
  have h2 : p.2.length - 1 ≤ (u'.buckets.map (fun p => p.2.length - 1)).sum :=
    mem_le_sum_map (fun p : Nat × List Nat => p.2.length - 1) hpm
  omega

/-- the ids queued by the round weigh at most `|ids| - 2` -/
theorem RoundOut.measure_queued
    (out : RoundOut c o roots items ts s b ids inUse g' stc large2 (.node b n a0 b0) u' inUse')
    (hp : 2 ≤ a0.parts + b0.parts) :
    loopMeasure c stc.store large2 + 2 ≤ ids.length := by
  have h1 : loopMeasure c stc.store large2 ≤ loopMeasure c stc.store (u'.buckets.map (·.1)) := by
    apply sum_map_le_of_nodup_subset _ _ _ out.large_sorted.nodup
    intro i hi
    obtain ⟨t, ht, s0, hs0, _⟩ := out.large i hi
    simp only [List.mem_singleton] at ht
    subst ht
    exact List.mem_map.2 ⟨(i, s0), hs0, rfl⟩
  have h2 : loopMeasure c stc.store (u'.buckets.map (·.1)) = (u'.buckets.map (fun p => p.2.length - 1)).sum := by
    simp only [loopMeasure, List.map_map]
    congr 1
    apply List.map_congr_left
    intro p hp
    simp only [Function.comp, bucketSize, holds_bucket out.holds hp]
  have h3 := out.sum_buckets hp
  omega

/-- **the measure decreases**: the queue after the round weighs strictly less than the queue before it (the
    other queued ids are in use, so the round does not touch their buckets) -/
theorem RoundOut.measure_step
    (out : RoundOut c o roots items ts s b ids inUse g' stc large2 (.node b n a0 b0) u' inUse')
    (hp : 2 ≤ a0.parts + b0.parts)
    (hget : Store.get s (c.treeKey b) = some (.desc ids))
    (large1 : List Nat) (hl1 : ∀ i ∈ large1, i ∈ inUse) :
    loopMeasure c stc.store (IdSet.union large1 large2) < loopMeasure c s (b :: large1) := by
  obtain ⟨a', b', e, _, _, hlen, _⟩ := out.node_parts hp
  have hq := out.measure_queued hp
  have hu := loopMeasure_union_le c stc.store large1 large2
  have hb0 : bucketSize c s b = ids.length := by simp only [bucketSize, hget]
  have hbroot : bucketSize c stc.store b = 0 := by
    subst e
    simp only [bucketSize, out.holds.root]
  have h1 : loopMeasure c stc.store large1 ≤ loopMeasure c s large1 := by
    apply sum_map_le_of_forall
    intro i hi
    by_cases hiu : i ∈ u'.ids
    · rcases out.fresh i hiu with rfl | h'
      · rw [hbroot]; omega
      · exact absurd (hl1 i hi) h'
    · have : Store.get stc.store (c.treeKey i) = Store.get s (c.treeKey i) :=
        out.untouched _ (fun j hj e' => hiu (by rw [Cfg.treeKey_inj.1 e']; exact hj))
      simp only [bucketSize, this]
      exact Nat.le_refl _
  rw [loopMeasure_cons, hb0]
  omega

/-- a fair root split has two parts -/
theorem fair_two_parts (ha : a0.items ≠ []) (hb : b0.items ≠ []) : 2 ≤ a0.parts + b0.parts := by
  have := T.parts_pos ha
  have := T.parts_pos hb
  omega

/-- after a fair round both sides of the split node at `b` are non-empty -/
theorem RoundOut.fair_node
    (out : RoundOut c o roots items ts s b ids inUse g' stc large2 (.node b n a0 b0) u' inUse')
    (ha : a0.items ≠ []) (hb : b0.items ≠ []) :
    ∃ a' b', u' = .node b n a' b' ∧ a'.items ≠ [] ∧ b'.items ≠ [] ∧
      a'.items.length + b'.items.length = ids.length := by
  obtain ⟨a', b', e, ga, gb, hlen, _⟩ := out.node_parts (fair_two_parts ha hb)
  refine ⟨a', b', e, ?_, ?_, hlen⟩
  · obtain ⟨x, hx⟩ := List.exists_mem_of_ne_nil _ ha
    exact List.ne_nil_of_mem (ga.items x hx)
  · obtain ⟨x, hx⟩ := List.exists_mem_of_ne_nil _ hb
    exact List.ne_nil_of_mem (gb.items x hx)

end round

/-- the outcome of a round given by its steps, when the batch is longer than the capacity: the made tree is a
    split node with two parts -/
theorem RoundSteps.out {c : Cfg} {o : BuildOpts} {b : Nat} {g g' : IdGen} {st st1 st2 st3 st4 st' : BState}
    {ids : List Nat} {k : Nat} {r : MakeRes} {large'' : List Nat} {roots items : List Nat} {ts : List T}
    {inUse : List Nat}
    (steps : RoundSteps c o b g st ids k r st1 st2 st3 st4 st' large'' g')
    (hi : c.index < 65536) (hcap : 1 ≤ Build.cap c o)
    (f : Forest c st.store roots items ts) (hin : ∀ i ∈ ts.flatMap T.ids, i ∈ inUse) (hg : GenOK inUse g)
    (hw : Store.WF st.store) (hk : Build.cap c o < k) :
    ∃ id n a0 b0 u' inUse', r.tree = .node id n a0 b0 ∧ 2 ≤ a0.parts + b0.parts ∧
      RoundOut c o roots items ts st.store b ids inUse g' st' large'' (.node b n a0 b0) u' inUse' := by
  have hst3 : st3.store = st.store := by
    rw [pollN_store' steps.polls]
    show st2.store = st.store
    rw [nextBatch_ok' steps.batch, poll_store' steps.poll]
  obtain ⟨u', inUse', out⟩ :=
    resplit_round_out c o roots items ts st.store b ids k g g' inUse _ _ _ _ r st3 st4 st' large''
      f steps.get hin hg hw hi hcap steps.make hst3 steps.write steps.insert
  have hr := steps.range
  obtain ⟨id, n, a0, b0, ert, hp⟩ := makeT_two_parts steps.make hcap (by
    show Build.cap c o < (ids.take k).length
    rw [List.length_take]; omega)
  rw [ert] at out
  exact ⟨id, n, a0, b0, u', inUse', ert, hp, out⟩

/-! ## termination -/

/-- **fuel bound**: on a forest, with a fresh id generator and the queued ids in use, a run of the re-split
    loop with more fuel than the measure of its queue, all of whose rounds have a batch longer than the
    capacity, does not end in `.fuel` -/
theorem loop_aboveCap_noFuel (c : Cfg) (o : BuildOpts) (roots items : List Nat) (hi : c.index < 65536)
    (hcap : 1 ≤ Build.cap c o) (fuel : Nat) :
    ∀ (large : List Nat) (ts : List T) (g : IdGen) (inUse : List Nat) (st : BState),
    Forest c st.store roots items ts →
    (∀ i ∈ ts.flatMap T.ids, i ∈ inUse) → GenOK inUse g → Store.WF st.store →
    (∀ i ∈ large, i ∈ inUse) →
    loopMeasure c st.store large < fuel →
    (∀ f ∈ (loopTraced c o fuel large g st).1, Build.cap c o < f.batch) →
    ∀ w, Build.incrementalIndexLargeDescendants c o fuel large g st ≠ .error (.fuel w) := by
  induction fuel with
  | zero => intro large ts g inUse st _ _ _ _ _ hlt; exact absurd hlt (Nat.not_lt_zero _)
  | succ fuel ih =>
    intro large ts g inUse st f hin hg hw hl hlt hfair w
    cases large with
    | nil =>
      simp only [Build.incrementalIndexLargeDescendants]
      intro h; cases h
    | cons b large1 =>
      cases hr : resplitRound c o b g st with
      | error e =>
        rw [loop_succ_cons_err c o fuel b large1 g hr]
        intro h
        injection h with h
        subst h
        exact resplitRound_noFuel c o b g st w hr
      | ok x =>
        obtain ⟨⟨fact, large2, g2⟩, st'⟩ := x
        rw [loop_succ_cons_ok c o fuel b large1 g hr]
        rw [loopTraced_fst_cons c o fuel b large1 g hr] at hfair
        obtain ⟨ids, k, r, st1, st2, st3, st4, steps, rfl⟩ := resplitRound_ok_inv hr
        have hk : Build.cap c o < k := hfair (RoundSteps.fact c b ids k r st' large2) List.mem_cons_self
        obtain ⟨id, n, a0, b0, u', inUse', _, hp, out'⟩ := steps.out hi hcap f hin hg hw hk
        have hdec := out'.measure_step hp steps.get large1 (fun i hi' => hl i (List.mem_cons_of_mem _ hi'))
        apply ih (IdSet.union large1 large2) (ts.map (fun t => t.subst b u')) g2 inUse' st' out'.forest
        · intro i hi'
          rw [List.flatMap_map] at hi'
          obtain ⟨t, ht, hit⟩ := List.mem_flatMap.1 hi'
          rcases (T.mem_ids_subst (f.tree_nodup ht) (out'.at_b t ht) i).1 hit with ⟨h', _⟩ | ⟨_, h'⟩
          · exact out'.sup i (hin i (List.mem_flatMap.2 ⟨t, ht, h'⟩))
          · exact out'.ids_in i h'
        · exact out'.gen
        · exact out'.step.wf hw
        · intro i hi'
          rcases mem_union.1 hi' with h' | h'
          · exact out'.sup i (hl i (List.mem_cons_of_mem _ h'))
          · obtain ⟨t, ht, s0, hs0, _⟩ := out'.large i h'
            simp only [List.mem_singleton] at ht
            subst ht
            exact out'.ids_in i (T.buckets_ids hs0)
        · omega
        · intro f' hf'
          exact hfair f' (List.mem_cons_of_mem _ hf')

/-! ## consequences for the recorded facts, and the bound in terms of the bucket sizes -/

/-- `make_tree_in_file` returns a split node only for more items than the capacity -/
theorem makeT_node_batch {cx : TreeCtx} {fuel : Nat} {items : List Nat} {g : IdGen} {normals : List (List Nat)}
    {rs : List Bool} {res : MakeRes} {id : Nat} {n : List Nat} {l r : T}
    (h : makeT cx fuel items g normals rs = .ok res) (hn : res.tree = .node id n l r) : cx.cap < items.length := by
  obtain ⟨h1, h2, _⟩ := makeT_shape cx fuel items g normals rs res h
  by_cases hl : items.length = 1
  · match items, hl with
    | [y], _ =>
      have := h1 y rfl
      rw [hn] at this
      cases this
  · by_cases hf : fits cx.cap items.length = true
    · obtain ⟨id', e⟩ := h2 hl hf
      rw [hn] at e
      cases e
    · simp only [fits, decide_eq_true_eq] at hf
      omega

/-- a fair round had a batch above the capacity (and within the bucket) -/
theorem resplitRound_fair_batch {c : Cfg} {o : BuildOpts} {b : Nat} {g g' : IdGen} {st st' : BState} {f : RoundFact}
    {large'' : List Nat} (h : resplitRound c o b g st = .ok ((f, large'', g'), st')) (hf : f.fair) :
    Build.cap c o < f.batch ∧ f.batch ≤ f.size := by
  obtain ⟨ids, k, r, st1, st2, st3, st4, steps, rfl⟩ := resplitRound_ok_inv h
  obtain ⟨id, n, a0, b0, ert, _, _⟩ := T.sides_pos hf
  have hlt : Build.cap c o < (ids.take k).length := makeT_node_batch steps.make ert
  have hk := steps.range
  rw [List.length_take] at hlt
  simp only [RoundSteps.fact]
  constructor <;> omega

theorem loopTraced_fair_batch (c : Cfg) (o : BuildOpts) (fuel : Nat) :
    ∀ (large : List Nat) (g : IdGen) (st : BState), ∀ f ∈ (loopTraced c o fuel large g st).1, f.fair →
      Build.cap c o < f.batch ∧ f.batch ≤ f.size := by
  induction fuel with
  | zero => intro large g st f hf; simp [loopTraced] at hf
  | succ fuel ih =>
    intro large g st f hf
    cases large with
    | nil => simp [loopTraced] at hf
    | cons b large' =>
      cases hr : resplitRound c o b g st with
      | error e => simp [loopTraced, hr] at hf
      | ok x =>
        obtain ⟨⟨f0, large'', g'⟩, st'⟩ := x
        rw [loopTraced_fst_cons c o fuel b large' g hr] at hf
        rcases List.mem_cons.1 hf with rfl | hf
        · exact resplitRound_fair_batch hr
        · exact ih _ _ _ f hf

/-- the loop on an empty queue never reports `.fuel` -/
theorem loop_nil_noFuel (c : Cfg) (o : BuildOpts) (fuel : Nat) (g : IdGen) (st : BState) (w : String) :
    Build.incrementalIndexLargeDescendants c o fuel [] g st ≠ .error (.fuel w) := by
  cases fuel <;> (simp only [Build.incrementalIndexLargeDescendants]; intro h; cases h)

/-- the measure is below the sum of the sizes as soon as the queued buckets are not empty -/
theorem loopMeasure_lt_sizes (c : Cfg) (s : Store) (b : Nat) (l : List Nat)
    (h : ∀ i ∈ b :: l, 0 < bucketSize c s i) :
    loopMeasure c s (b :: l) < ((b :: l).map (bucketSize c s)).sum := by
  have h1 : loopMeasure c s l ≤ (l.map (bucketSize c s)).sum :=
    sum_map_le_of_forall l (fun x _ => Nat.sub_le _ _)
  have h2 := h b (by simp)
  rw [loopMeasure_cons]
  simp only [List.map_cons, List.sum_cons]
  omega

/-- **fuel bound under fair splits**: the same for a run all of whose rounds are fair (a fair round has a batch
    longer than the capacity) -/
theorem loop_fair_noFuel (c : Cfg) (o : BuildOpts) (roots items : List Nat) (hi : c.index < 65536)
    (hcap : 1 ≤ Build.cap c o) (fuel : Nat) (large : List Nat) (ts : List T) (g : IdGen) (inUse : List Nat)
    (st : BState) (f : Forest c st.store roots items ts)
    (hin : ∀ i ∈ ts.flatMap T.ids, i ∈ inUse) (hg : GenOK inUse g) (hw : Store.WF st.store)
    (hl : ∀ i ∈ large, i ∈ inUse) (hlt : loopMeasure c st.store large < fuel)
    (hfair : ∀ f ∈ (loopTraced c o fuel large g st).1, f.fair) (w : String) :
    Build.incrementalIndexLargeDescendants c o fuel large g st ≠ .error (.fuel w) :=
  loop_aboveCap_noFuel c o roots items hi hcap fuel large ts g inUse st f hin hg hw hl hlt
    (fun f' hf' => (loopTraced_fair_batch c o fuel large g st f' hf' (hfair f' hf')).1) w

end Arroy

