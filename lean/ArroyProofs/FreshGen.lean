import ArroyModel.Tree
/-! The id generator, abstractly: `FreshGen inUse g` says that whatever number of ids is drawn
from `g`, they are pairwise distinct and none of them is in `inUse`. -/
namespace Arroy

/-- `k` successive calls of `IdGen.next` -/
def nextN : Nat → IdGen → Except Err (List Nat × IdGen)
  | 0, g => .ok ([], g)
  | k+1, g =>
    match g.next with
    | .error e => .error e
    | .ok (id, g1) =>
      match nextN k g1 with
      | .error e => .error e
      | .ok (ids, g2) => .ok (id :: ids, g2)

def FreshGen (inUse : List Nat) (g : IdGen) : Prop :=
  ∀ (k : Nat) (ids : List Nat) (g' : IdGen), nextN k g = .ok (ids, g') → ids.Nodup ∧ ∀ i ∈ ids, i ∉ inUse

theorem FreshGen.mono {inUse inUse' : List Nat} {g : IdGen} (h : FreshGen inUse g)
    (hs : ∀ i ∈ inUse', i ∈ inUse) : FreshGen inUse' g := by
  intro k ids g' hk
  obtain ⟨h1, h2⟩ := h k ids g' hk
  exact ⟨h1, fun i hi hm => h2 i hi (hs i hm)⟩

/-- the step lemma: one draw is fresh, and the generator stays fresh for the enlarged set -/
theorem FreshGen.step {inUse : List Nat} {g g' : IdGen} {id : Nat} (h : FreshGen inUse g)
    (hn : g.next = .ok (id, g')) : id ∉ inUse ∧ FreshGen (id :: inUse) g' := by
  constructor
  · have h1 : nextN 1 g = .ok ([id], g') := by simp [nextN, hn]
    exact (h 1 [id] g' h1).2 id (by simp)
  · intro k ids g'' hk
    have h1 : nextN (k + 1) g = .ok (id :: ids, g'') := by simp [nextN, hn, hk]
    obtain ⟨hnd, hfr⟩ := h (k + 1) (id :: ids) g'' h1
    rw [List.nodup_cons] at hnd
    refine ⟨hnd.2, ?_⟩
    intro i hi hm
    rcases List.mem_cons.1 hm with rfl | hm
    · exact hnd.1 hi
    · exact hfr i (List.mem_cons_of_mem _ hi) hm

end Arroy
