import ArroyModel.Build
/-! Cancellation transparency of `BuildM` computations (helpers for property C10).

`erase st` forgets the cancel schedule.  `TransparentAt m st` relates the run of `m` from `st`
to the fault-free run from `erase st`; `Transparent m` is the same for every start state.
The predicate is closed under every construct of `ArroyModel/Build.lean` except the swallowed
cancellation of `usedTreeNode`, which is handled by `Doomed` (the firing call has been made,
so every later `poll` fails). -/
namespace Arroy
open BuildM Generated

namespace Transp

/-- forget the cancel schedule -/
def erase (st : BState) : BState := { st with cancelAt := none }

/-- the firing call of the callback has not been made yet -/
def Safe (st : BState) : Prop := ∀ n, st.cancelAt = some n → st.polls ≤ n

/-- the firing call of the callback has been made (and, if we are still running, swallowed) -/
def Doomed (st : BState) : Prop := ∃ n, st.cancelAt = some n ∧ n < st.polls

@[simp] theorem erase_store (st : BState) : (erase st).store = st.store := rfl
@[simp] theorem erase_polls (st : BState) : (erase st).polls = st.polls := rfl
@[simp] theorem erase_cancelAt (st : BState) : (erase st).cancelAt = none := rfl
@[simp] theorem erase_normals (st : BState) : (erase st).normals = st.normals := rfl
@[simp] theorem erase_rands (st : BState) : (erase st).rands = st.rands := rfl
@[simp] theorem erase_batches (st : BState) : (erase st).batches = st.batches := rfl
@[simp] theorem erase_erase (st : BState) : erase (erase st) = erase st := rfl

theorem erase_eq_self {st : BState} (h : st.cancelAt = none) : erase st = st := by
  cases st; simp_all [erase]

theorem safe_erase (st : BState) : Safe (erase st) := by
  intro n h; simp at h

theorem not_safe_of_doomed {st : BState} (h : Doomed st) : ¬ Safe st := by
  intro hs
  obtain ⟨n, h1, h2⟩ := h
  have := hs n h1
  omega

/-- Relation between the run of `m` from `st` and the fault-free run from `erase st`:
* a successful run is also the fault-free run (same result, same final state up to the schedule),
  it never decreases the poll counter, keeps the schedule, and has not made the firing call;
* a failing run either fails with `cancelled` — and then the fault-free run, if it succeeds,
  makes more than `n` polls — or fails exactly like the fault-free run. -/
structure TransparentAt (m : BuildM α) (st : BState) : Prop where
  ok : ∀ a st', m st = .ok (a, st') →
    m (erase st) = .ok (a, erase st') ∧ st.polls ≤ st'.polls ∧ st'.cancelAt = st.cancelAt ∧
      (Safe st → Safe st')
  err : ∀ e, m st = .error e →
    (∃ k, e = .cancelled k ∧
      ∀ n a st', st.cancelAt = some n → m (erase st) = .ok (a, st') → n < st'.polls) ∨
    m (erase st) = .error e

def Transparent (m : BuildM α) : Prop := ∀ st, TransparentAt m st

/-- transparency from the states whose store satisfies `P` -/
def TransparentOn (P : Store → Prop) (m : BuildM α) : Prop := ∀ st, P st.store → TransparentAt m st

/-- `m` maps stores satisfying `P` to stores satisfying `Q` -/
def StorePost (P Q : Store → Prop) (m : BuildM α) : Prop :=
  ∀ st a st', P st.store → m st = .ok (a, st') → Q st'.store

theorem Transparent.on {m : BuildM α} (h : Transparent m) (P : Store → Prop) : TransparentOn P m :=
  fun st _ => h st

/-- the simple form of transparency, as a `match` -/
theorem TransparentAt.simple {m : BuildM α} {st : BState} (h : TransparentAt m st) :
    match m st with
    | .ok (a, st') => m (erase st) = .ok (a, erase st')
    | .error e => (∃ k, e = .cancelled k) ∨ m (erase st) = .error e := by
  cases hm : m st with
  | ok r => obtain ⟨a, st'⟩ := r; exact (h.ok a st' hm).1
  | error e =>
    rcases h.err e hm with ⟨k, hk, _⟩ | h2
    · exact Or.inl ⟨k, hk⟩
    · exact Or.inr h2

/-! ## bind -/

theorem bind'_ok {m : BuildM α} {f : α → BuildM β} {st st1 : BState} {a : α} (h : m st = .ok (a, st1)) :
    bind' m f st = f a st1 := by
  simp [bind', h]

theorem bind'_err {m : BuildM α} {f : α → BuildM β} {st : BState} {e : Err} (h : m st = .error e) :
    bind' m f st = .error e := by
  simp [bind', h]

theorem TransparentAt.bind' {m : BuildM α} {f : α → BuildM β} {st : BState}
    (hm : TransparentAt m st)
    (hf : ∀ a st1, m st = .ok (a, st1) → TransparentAt (f a) st1)
    (hf' : ∀ a st1, m (erase st) = .ok (a, st1) → TransparentAt (f a) st1) :
    TransparentAt (bind' m f) st := by
  constructor
  · intro b st2 h
    cases hms : m st with
    | error e => rw [bind'_err hms] at h; cases h
    | ok r =>
      obtain ⟨a, st1⟩ := r
      rw [bind'_ok hms] at h
      obtain ⟨h1, h2, h3, h4⟩ := hm.ok a st1 hms
      obtain ⟨g1, g2, g3, g4⟩ := (hf a st1 hms).ok b st2 h
      refine ⟨?_, by omega, by rw [g3, h3], fun hs => g4 (h4 hs)⟩
      rw [bind'_ok h1]; exact g1
  · intro e h
    cases hms : m st with
    | error e' =>
      rw [bind'_err hms] at h
      injection h with h
      subst h
      rcases hm.err _ hms with ⟨k, hk, hn⟩ | h2
      · refine Or.inl ⟨k, hk, ?_⟩
        intro n b st2 hc hb
        cases hme : m (erase st) with
        | error e'' => rw [bind'_err hme] at hb; cases hb
        | ok r =>
          obtain ⟨a, st1⟩ := r
          rw [bind'_ok hme] at hb
          have := hn n a st1 hc hme
          have := ((hf' a st1 hme).ok b st2 hb).2.1
          omega
      · exact Or.inr (bind'_err h2)
    | ok r =>
      obtain ⟨a, st1⟩ := r
      rw [bind'_ok hms] at h
      obtain ⟨h1, h2, h3, h4⟩ := hm.ok a st1 hms
      rcases (hf a st1 hms).err e h with ⟨k, hk, hn⟩ | g2
      · refine Or.inl ⟨k, hk, ?_⟩
        intro n b st2 hc hb
        rw [bind'_ok h1] at hb
        exact hn n b st2 (by rw [h3, hc]) hb
      · refine Or.inr ?_
        rw [bind'_ok h1]; exact g2

theorem Transparent.bind' {m : BuildM α} {f : α → BuildM β} (hm : Transparent m)
    (hf : ∀ a, Transparent (f a)) : Transparent (bind' m f) :=
  fun st => TransparentAt.bind' (hm st) (fun a st1 _ => hf a st1) (fun a st1 _ => hf a st1)

theorem Transparent.bind {m : BuildM α} {f : α → BuildM β} (hm : Transparent m)
    (hf : ∀ a, Transparent (f a)) : Transparent (m >>= f) :=
  Transparent.bind' hm hf

theorem TransparentOn.bind' {P Q : Store → Prop} {m : BuildM α} {f : α → BuildM β}
    (hm : TransparentOn P m) (hpost : StorePost P Q m) (hf : ∀ a, TransparentOn Q (f a)) :
    TransparentOn P (bind' m f) := by
  intro st hP
  refine TransparentAt.bind' (hm st hP) (fun a st1 h => hf a st1 (hpost st a st1 hP h)) ?_
  intro a st1 h
  exact hf a st1 (hpost (erase st) a st1 hP h)

/-! ## primitives -/

/-- a pure read-and-update of the state that does not look at the schedule or the counter -/
theorem Transparent.update (g : BState → α) (u : BState → BState)
    (hg : ∀ s, g (erase s) = g s) (hu : ∀ s, u (erase s) = erase (u s))
    (hp : ∀ s, (u s).polls = s.polls) (hc : ∀ s, (u s).cancelAt = s.cancelAt) :
    Transparent (fun s => .ok (g s, u s) : BuildM α) := by
  intro st
  constructor
  · intro a st' h
    cases h
    refine ⟨by simp [hg, hu], by rw [hp]; exact Nat.le_refl _, hc st, ?_⟩
    intro hs n hn
    rw [hc] at hn; rw [hp]; exact hs n hn
  · intro e h; cases h

theorem Transparent.pure' (a : α) : Transparent (pure' a) :=
  Transparent.update (fun _ => a) id (fun _ => rfl) (fun _ => rfl) (fun _ => rfl) (fun _ => rfl)

theorem Transparent.pure (a : α) : Transparent (pure a : BuildM α) := Transparent.pure' a

theorem Transparent.fail (e : Err) : Transparent (fail e : BuildM α) := by
  intro st
  constructor
  · intro a st' h; cases h
  · intro e' h; cases h; exact Or.inr rfl

theorem Transparent.getStore : Transparent getStore :=
  Transparent.update (fun s => s.store) id (fun _ => rfl) (fun _ => rfl) (fun _ => rfl) (fun _ => rfl)

theorem Transparent.setStore (s : Store) : Transparent (setStore s) :=
  Transparent.update (fun _ => ()) (fun st => { st with store := s })
    (fun _ => rfl) (fun _ => rfl) (fun _ => rfl) (fun _ => rfl)

theorem Transparent.modifyStore (f : Store → Store) : Transparent (modifyStore f) :=
  Transparent.update (fun _ => ()) (fun st => { st with store := f st.store })
    (fun _ => rfl) (fun _ => rfl) (fun _ => rfl) (fun _ => rfl)

theorem Transparent.setRands (r : List Bool) :
    Transparent (fun s => .ok ((), { s with rands := r }) : BuildM Unit) :=
  Transparent.update (fun _ => ()) (fun st => { st with rands := r })
    (fun _ => rfl) (fun _ => rfl) (fun _ => rfl) (fun _ => rfl)

theorem Transparent.setNormalsRands (n : List (List Nat)) (r : List Bool) :
    Transparent (fun s => .ok ((), { s with normals := n, rands := r }) : BuildM Unit) :=
  Transparent.update (fun _ => ()) (fun st => { st with normals := n, rands := r })
    (fun _ => rfl) (fun _ => rfl) (fun _ => rfl) (fun _ => rfl)

theorem Transparent.liftExcept (x : Except Err α) : Transparent (liftExcept x) := by
  cases x with
  | ok a => exact Transparent.pure' a
  | error e => exact Transparent.fail e

theorem Transparent.nextBatch : Transparent nextBatch := by
  intro st
  constructor
  · intro a st' h
    unfold BuildM.nextBatch at h ⊢
    cases hb : st.batches with
    | nil => simp [hb] at h
    | cons k rest =>
      simp only [hb] at h
      cases h
      refine ⟨by simp [hb, erase], Nat.le_refl _, rfl, fun hs => hs⟩
  · intro e h
    unfold BuildM.nextBatch at h ⊢
    cases hb : st.batches with
    | nil => simp only [hb] at h; cases h; exact Or.inr (by simp [hb])
    | cons k rest => simp [hb] at h

theorem poll_none {st : BState} (h : st.cancelAt = none) :
    poll st = .ok ((), { st with polls := st.polls + 1 }) := by
  simp [poll, h]

theorem poll_some_lt {st : BState} {n : Nat} (h : st.cancelAt = some n) (hn : st.polls < n) :
    poll st = .ok ((), { st with polls := st.polls + 1 }) := by
  have : ¬ n ≤ st.polls := by omega
  simp [poll, h, this]

theorem poll_some_ge {st : BState} {n : Nat} (h : st.cancelAt = some n) (hn : n ≤ st.polls) :
    poll st = .error (.cancelled (st.polls + 1)) := by
  simp [poll, h, hn]

theorem Transparent.poll : Transparent poll := by
  intro st
  cases hc : st.cancelAt with
  | none =>
    constructor
    · intro a st' h
      rw [poll_none hc] at h; cases h
      refine ⟨by rw [poll_none (erase_cancelAt st)]; rfl, by simp, rfl, ?_⟩
      intro _ n hn
      simp [hc] at hn
    · intro e h; rw [poll_none hc] at h; cases h
  | some n =>
    by_cases hn : n ≤ st.polls
    · constructor
      · intro a st' h; rw [poll_some_ge hc hn] at h; cases h
      · intro e h
        rw [poll_some_ge hc hn] at h; cases h
        refine Or.inl ⟨_, rfl, ?_⟩
        intro n' a st' hc' he
        rw [poll_none (erase_cancelAt st)] at he
        cases he
        rw [hc] at hc'
        cases hc'
        simp; omega
    · have hlt : st.polls < n := by omega
      constructor
      · intro a st' h
        rw [poll_some_lt hc hlt] at h; cases h
        refine ⟨by rw [poll_none (erase_cancelAt st)]; rfl, by simp, rfl, ?_⟩
        intro _ n' hn'
        simp only [hc] at hn'
        cases hn'
        simp; omega
      · intro e h; rw [poll_some_lt hc hlt] at h; cases h

theorem Transparent.pollN (k : Nat) : Transparent (pollN k) := by
  induction k with
  | zero => exact Transparent.pure' ()
  | succ k ih => exact Transparent.bind' Transparent.poll (fun _ => ih)

theorem Transparent.forEach (xs : List α) (f : α → BuildM Unit) (hf : ∀ a, Transparent (f a)) :
    Transparent (forEach xs f) := by
  induction xs with
  | nil => exact Transparent.pure' ()
  | cons x xs ih => exact Transparent.bind' (hf x) (fun _ => ih)

/-- the state-peeking lambdas of `Build.lean`: the continuation may look at the whole state,
    provided it does not look at the schedule -/
theorem Transparent.peek {f : BState → BuildM β} (hf : ∀ s, Transparent (f s))
    (hinv : ∀ s, f (erase s) = f s) :
    Transparent ((fun s => .ok (s, s) : BuildM BState) >>= f) := by
  intro st
  have e1 : ((fun s => .ok (s, s) : BuildM BState) >>= f) st = f st st := rfl
  have e2 : ((fun s => .ok (s, s) : BuildM BState) >>= f) (erase st) = f st (erase st) := by
    show f (erase st) (erase st) = _
    rw [hinv]
  have h := hf st st
  constructor
  · intro a st' hm
    rw [e1] at hm; rw [e2]
    exact h.ok a st' hm
  · intro e hm
    rw [e1] at hm; rw [e2]
    exact h.err e hm

/-! ## doomed states -/

theorem poll_doomed {st : BState} (h : Doomed st) : ∃ k, poll st = .error (.cancelled k) := by
  obtain ⟨n, h1, h2⟩ := h
  exact ⟨_, poll_some_ge h1 (by omega)⟩

/-- `m` keeps the schedule and never decreases the counter: doomedness is preserved -/
theorem Transparent.doomed {m : BuildM α} (hm : Transparent m) {st st' : BState} {a : α}
    (h : m st = .ok (a, st')) (hd : Doomed st) : Doomed st' := by
  obtain ⟨n, h1, h2⟩ := hd
  obtain ⟨_, g2, g3, _⟩ := (hm st).ok a st' h
  exact ⟨n, by rw [g3, h1], by omega⟩

/-- the `match` form of the definition requested by the property sheet -/
theorem Transparent.simple {m : BuildM α} (h : Transparent m) : ∀ st,
    match m st with
    | .ok (a, st') => m (erase st) = .ok (a, erase st')
    | .error e => (∃ k, e = .cancelled k) ∨ m (erase st) = .error e :=
  fun st => (h st).simple

end Transp
end Arroy
