import ArroyProofs.NormalLen
/-! `Writer::build` keeps "every split normal of the index and every normal left in the oracle has `d`
words" (`NInv`), helper by helper, in the style of `ArroyProofs/BuildFrame.lean` but on the whole build
state (the oracle stream is part of the invariant) and with a postcondition on the returned value. -/
namespace Arroy
open Generated BuildM

/-- the invariant of the build state: the store and the oracle -/
def NInv (c : Cfg) (d : Nat) (st : BState) : Prop :=
  SplitLen c d st.store ∧ ∀ n ∈ st.normals, n.length = d

/-- every successful run of `m` from a state satisfying `I` ends in a state satisfying `I`, with a
    result satisfying `Q` -/
def Tr {α : Type} (I : BState → Prop) (m : BuildM α) (Q : α → Prop) : Prop :=
  ∀ st a st', I st → m st = .ok (a, st') → I st' ∧ Q a

namespace Tr
variable {α β : Type} {I : BState → Prop}

theorem pure {Q : α → Prop} (a : α) (h : Q a) : Tr I (Pure.pure a : BuildM α) Q := by
  intro st b st' hI e
  rw [BuildM.pure_ok] at e
  obtain ⟨rfl, rfl⟩ := e
  exact ⟨hI, h⟩

theorem fail {Q : α → Prop} (e : Err) : Tr I (BuildM.fail e : BuildM α) Q := by
  intro st b st' _ h; simp [BuildM.fail] at h

theorem bind' {Q : α → Prop} {Q' : β → Prop} {m : BuildM α} {f : α → BuildM β} (hm : Tr I m Q)
    (hf : ∀ a, Q a → Tr I (f a) Q') : Tr I (BuildM.bind' m f) Q' := by
  intro st b st' hI h
  obtain ⟨a, st1, h1, h2⟩ := BuildM.bind'_ok.1 h
  obtain ⟨hI1, hQ⟩ := hm _ _ _ hI h1
  exact hf a hQ _ _ _ hI1 h2

theorem bind {Q : α → Prop} {Q' : β → Prop} {m : BuildM α} {f : α → BuildM β} (hm : Tr I m Q)
    (hf : ∀ a, Q a → Tr I (f a) Q') : Tr I (m >>= f) Q' := bind' hm hf

theorem weaken {Q Q' : α → Prop} {m : BuildM α} (hm : Tr I m Q) (h : ∀ a, Q a → Q' a) : Tr I m Q' := by
  intro st a st' hI e
  obtain ⟨h1, h2⟩ := hm _ _ _ hI e
  exact ⟨h1, h a h2⟩

theorem ite {Q : α → Prop} {p : Prop} [Decidable p] {a b : BuildM α} (ha : Tr I a Q) (hb : Tr I b Q) :
    Tr I (if p then a else b) Q := by
  split <;> assumption

theorem forEach (l : List α) (f : α → BuildM Unit) (hf : ∀ a ∈ l, Tr I (f a) (fun _ => True)) :
    Tr I (BuildM.forEach l f) (fun _ => True) := by
  induction l with
  | nil => exact pure () trivial
  | cons x xs ih =>
    exact bind' (hf x (by simp)) (fun _ _ => ih (fun a ha => hf a (List.mem_cons_of_mem _ ha)))

/-- a computation that leaves the store and the oracle's normals alone -/
theorem of_same {c : Cfg} {d : Nat} {m : BuildM α}
    (h : ∀ st a st', m st = .ok (a, st') → st'.store = st.store ∧ st'.normals = st.normals) :
    Tr (NInv c d) m (fun _ => True) := by
  intro st a st' hI e
  obtain ⟨h1, h2⟩ := h _ _ _ e
  exact ⟨by unfold NInv; rw [h1, h2]; exact hI, trivial⟩

variable {c : Cfg} {d : Nat}

theorem poll : Tr (NInv c d) BuildM.poll (fun _ => True) := by
  apply of_same
  intro st b st' h
  unfold BuildM.poll at h
  split at h
  · split at h
    · simp at h
    · simp only [Except.ok.injEq, Prod.mk.injEq] at h; rw [← h.2]; exact ⟨rfl, rfl⟩
  · simp only [Except.ok.injEq, Prod.mk.injEq] at h; rw [← h.2]; exact ⟨rfl, rfl⟩

theorem pollN (k : Nat) : Tr (NInv c d) (BuildM.pollN k) (fun _ => True) := by
  induction k with
  | zero => exact pure () trivial
  | succ k ih => exact bind' poll (fun _ _ => ih)

theorem nextBatch : Tr (NInv c d) BuildM.nextBatch (fun _ => True) := by
  apply of_same
  intro st b st' h
  unfold BuildM.nextBatch at h
  split at h
  · simp at h
  · simp only [Except.ok.injEq, Prod.mk.injEq] at h; rw [← h.2]; exact ⟨rfl, rfl⟩

theorem getStore : Tr (NInv c d) BuildM.getStore (fun s => SplitLen c d s) := by
  intro st a st' hI h
  simp only [BuildM.getStore, Except.ok.injEq, Prod.mk.injEq] at h
  obtain ⟨rfl, rfl⟩ := h
  exact ⟨hI, hI.1⟩

theorem peek : Tr (NInv c d) (fun s => .ok (s, s) : BuildM BState) (fun st => NInv c d st) := by
  intro st a st' hI h
  simp only [Except.ok.injEq, Prod.mk.injEq] at h
  obtain ⟨rfl, rfl⟩ := h
  exact ⟨hI, hI⟩

theorem liftExcept (x : Except Err α) : Tr (NInv c d) (BuildM.liftExcept x) (fun a => x = .ok a) := by
  intro st a st' hI h
  cases x with
  | error e => simp [BuildM.liftExcept] at h
  | ok a' =>
    simp only [BuildM.liftExcept, Except.ok.injEq, Prod.mk.injEq] at h
    obtain ⟨rfl, rfl⟩ := h
    exact ⟨hI, rfl⟩

theorem setRands (r : List Bool) :
    Tr (NInv c d) (fun s => .ok ((), { s with rands := r }) : BuildM Unit) (fun _ => True) := by
  apply of_same
  intro st b st' h
  simp only [Except.ok.injEq, Prod.mk.injEq] at h; rw [← h.2]; exact ⟨rfl, rfl⟩

theorem setNormalsRands (ns : List (List Nat)) (r : List Bool) (hns : ∀ n ∈ ns, n.length = d) :
    Tr (NInv c d) (fun s => .ok ((), { s with normals := ns, rands := r }) : BuildM Unit) (fun _ => True) := by
  intro st b st' hI h
  simp only [Except.ok.injEq, Prod.mk.injEq] at h
  rw [← h.2]
  exact ⟨⟨hI.1, hns⟩, trivial⟩

theorem modifyStore (f : Store → Store) (hf : ∀ s, SplitLen c d s → SplitLen c d (f s)) :
    Tr (NInv c d) (BuildM.modifyStore f) (fun _ => True) := by
  intro st b st' hI h
  simp only [BuildM.modifyStore, Except.ok.injEq, Prod.mk.injEq] at h
  rw [← h.2]
  exact ⟨⟨hf _ hI.1, hI.2⟩, trivial⟩

theorem setStore (s : Store) (hs : SplitLen c d s) : Tr (NInv c d) (BuildM.setStore s) (fun _ => True) := by
  intro st b st' hI h
  simp only [BuildM.setStore, Except.ok.injEq, Prod.mk.injEq] at h
  rw [← h.2]
  exact ⟨⟨hs, hI.2⟩, trivial⟩

theorem usedTreeNode (c' : Cfg) : Tr (NInv c d) (Build.usedTreeNode c') (fun _ => True) := by
  apply of_same
  intro st b st' h
  unfold Build.usedTreeNode at h
  dsimp only at h
  split at h
  · split at h <;> (simp only [Except.ok.injEq, Prod.mk.injEq] at h; rw [← h.2]; exact ⟨rfl, rfl⟩)
  · simp only [Except.ok.injEq, Prod.mk.injEq] at h; rw [← h.2]; exact ⟨rfl, rfl⟩

theorem reifyRoot (s : Store) (root : Nat) (hs : SplitLen c d s) :
    Tr (NInv c d) (Build.reifyRoot c s root) (TLen d) := by
  unfold Build.reifyRoot
  split
  · rename_i t ht
    exact pure _ (reify_tlen hs _ _ _ ht)
  · exact fail _

end Tr

namespace Build
variable {c : Cfg} {d : Nat}

theorem splitLen_preprocessDot {s : Store} (h : SplitLen c d s) : SplitLen c d (preprocessDot c s) := by
  unfold preprocessDot
  exact SplitLen.foldl _ (fun st kv hst => by exact hst.put _ _ trivial) _ _ h

theorem preProcessItems_nlen : Tr (NInv c d) (preProcessItems c) (fun _ => True) := by
  unfold preProcessItems
  apply Tr.bind Tr.poll; intro _ _
  split
  · exact Tr.modifyStore _ (fun s hs => splitLen_preprocessDot hs)
  · exact Tr.pure _ trivial

theorem itemIndices_nlen : Tr (NInv c d) (itemIndices c) (fun _ => True) := by
  unfold itemIndices
  apply Tr.bind Tr.getStore; intro s _
  apply Tr.bind (Tr.pollN _); intro _ _
  exact Tr.pure _ trivial

theorem resetUpdated_nlen : Tr (NInv c d) (resetUpdated c) (fun _ => True) := by
  unfold resetUpdated
  apply Tr.bind Tr.getStore; intro _ _
  apply Tr.bind (Q := fun _ => True)
  · apply Tr.forEach; intro id _
    apply Tr.bind Tr.poll; intro _ _
    exact Tr.modifyStore _ (fun s hs => hs.erase _)
  · intro _ _; exact Tr.pure _ trivial

theorem writeMetadata_nlen (items roots : List Nat) : Tr (NInv c d) (writeMetadata c items roots) (fun _ => True) :=
  Tr.modifyStore _ (fun s hs => by exact hs.put _ _ trivial)

theorem singleLeaf_nlen (items : List Nat) : Tr (NInv c d) (singleLeaf c items) (fun _ => True) := by
  unfold singleLeaf
  apply Tr.bind (Tr.modifyStore _ (fun s hs => hs.deleteRange _ _)); intro _ _
  dsimp only
  have hjp : ∀ u : Unit, Tr (NInv c d) ((fun (_ : Unit) => (do
      poll
      writeMetadata c items (if items.isEmpty = true then [] else [0])
      modifyStore fun st => Store.put st c.versionKey
        (.version crateVersion.1 crateVersion.2.1 crateVersion.2.2) : BuildM Unit)) u) (fun _ => True) := by
    intro u
    apply Tr.bind Tr.poll; intro _ _
    apply Tr.bind (writeMetadata_nlen _ _); intro _ _
    exact Tr.modifyStore _ (fun s hs => by exact hs.put _ _ trivial)
  apply Tr.ite
  · apply Tr.bind (Tr.modifyStore _ (fun s hs => by exact hs.put _ _ trivial))
    intro u _; exact hjp u
  · exact hjp ()

theorem deleteTree_splitLen : ∀ (fuel : Nat) (ref : NodeId) (s s' : Store),
    deleteTree c fuel ref s = .ok s' → SplitLen c d s → SplitLen c d s' := by
  intro fuel
  induction fuel with
  | zero => intro ref s s' e; simp [deleteTree] at e
  | succ fuel ih =>
    intro ref s s' e hs
    unfold deleteTree at e
    split at e
    · simp only [Except.ok.injEq] at e; subst e; exact hs
    · split at e
      · simp at e
      · split at e
        · simp at e
        · rename_i s1 h1
          split at e
          · simp at e
          · rename_i s2 h2
            simp only [Except.ok.injEq] at e; subst e
            exact (ih _ _ _ h2 (ih _ _ _ h1 hs)).erase _
      · simp only [Except.ok.injEq] at e; subst e
        exact hs.erase _
      · simp only [Except.ok.injEq] at e; subst e; exact hs

theorem deleteExtraTrees_nlen : ∀ (k : Nat) (roots : List Nat),
    Tr (NInv c d) (deleteExtraTrees c k roots) (fun _ => True) := by
  intro k
  induction k with
  | zero => intro roots; unfold deleteExtraTrees; exact Tr.pure _ trivial
  | succ k ih =>
    intro roots
    unfold deleteExtraTrees
    apply Tr.bind Tr.poll; intro _ _
    split
    · exact Tr.pure _ trivial
    · rename_i root rest
      apply Tr.bind Tr.getStore; intro s hs
      apply Tr.bind (Tr.liftExcept _); intro s' hs'
      apply Tr.bind (Tr.setStore _ (deleteTree_splitLen _ _ _ _ hs' hs)); intro _ _
      exact ih _

theorem writeBack_nlen (removed : List Nat) (puts : List (Nat × Val)) (remap : Nat → Nat) (hp : PutsLen d puts) :
    Tr (NInv c d) (writeBack c removed puts remap) (fun _ => True) := by
  unfold writeBack
  apply Tr.bind (Q := fun _ => True)
  · apply Tr.forEach; intro id _
    apply Tr.bind Tr.poll; intro _ _
    exact Tr.modifyStore _ (fun s hs => hs.erase _)
  · intro _ _
    apply Tr.forEach; intro p hpm
    apply Tr.bind Tr.poll; intro _ _
    exact Tr.modifyStore _ (fun s hs => hs.put _ _ (hp p (List.mem_filter.1 hpm).1))

theorem deleteLoop_nlen (o : BuildOpts) (D : List Nat) (s : Store) (hs : SplitLen c d s) :
    ∀ roots, Tr (NInv c d) (deleteLoop c o D s roots) (fun x => PutsLen d x.2.1) := by
  intro roots
  induction roots with
  | nil => unfold deleteLoop; exact Tr.pure _ (by simp)
  | cons root rest ih =>
    unfold deleteLoop
    apply Tr.bind Tr.poll; intro _ _
    apply Tr.bind (Tr.reifyRoot s root hs); intro t ht
    apply Tr.bind (Tr.pollN _); intro _ _
    apply Tr.bind ih; intro x hx
    obtain ⟨a, b, e⟩ := x
    exact Tr.pure _ (by simp only [putsLen_append]; exact ⟨(delT_normals _ _ _ ht).2, hx⟩)

theorem deleteItemsFromTrees_nlen (o : BuildOpts) (roots D : List Nat) :
    Tr (NInv c d) (deleteItemsFromTrees c o roots D) (fun _ => True) := by
  unfold deleteItemsFromTrees
  apply Tr.bind Tr.getStore; intro s hs
  apply Tr.bind (deleteLoop_nlen o D s hs roots); intro x hx
  obtain ⟨a, b, e⟩ := x
  apply Tr.bind (writeBack_nlen _ _ _ hx); intro _ _
  exact Tr.pure _ trivial

theorem insertRoots_nlen (o : BuildOpts) (snapshot : Store) (hs : SplitLen c d snapshot) (batch : List Nat) :
    ∀ roots g, Tr (NInv c d) (insertRoots c o snapshot batch roots g) (fun x => ∀ puts ∈ x.1, PutsLen d puts) := by
  intro roots
  induction roots with
  | nil => intro g; unfold insertRoots; exact Tr.pure _ (by simp)
  | cons root rest ih =>
    intro g
    unfold insertRoots
    apply Tr.bind Tr.poll; intro _ _
    apply Tr.bind (Tr.reifyRoot snapshot root hs); intro t ht
    apply Tr.bind Tr.peek; intro st _
    apply Tr.bind (Tr.liftExcept _); intro r hr
    apply Tr.bind (Tr.setRands _); intro _ _
    apply Tr.bind (Tr.pollN _); intro _ _
    apply Tr.bind (ih _); intro x hx
    obtain ⟨a, b, e⟩ := x
    refine Tr.pure _ ?_
    intro puts hp
    rcases List.mem_cons.1 hp with rfl | hp
    · exact (insertT_normals _ _ _ _ _ _ hr ht).2
    · exact hx puts hp

theorem insertItemsInCurrentTrees_nlen (o : BuildOpts) (roots : List Nat) :
    ∀ (fuel : Nat) (toInsert : List Nat) (g : IdGen),
      Tr (NInv c d) (insertItemsInCurrentTrees c o roots fuel toInsert g) (fun _ => True) := by
  intro fuel
  induction fuel with
  | zero => intro toInsert g; unfold insertItemsInCurrentTrees; exact Tr.fail _
  | succ fuel ih =>
    intro toInsert g
    unfold insertItemsInCurrentTrees
    apply Tr.ite (Tr.pure _ trivial)
    apply Tr.bind Tr.poll; intro _ _
    apply Tr.bind Tr.getStore; intro snapshot hs
    apply Tr.bind Tr.nextBatch; intro k _
    refine Tr.ite (Tr.fail _) ?_
    apply Tr.bind (insertRoots_nlen o snapshot hs _ _ _); intro x hx
    obtain ⟨putss, large, g'⟩ := x
    apply Tr.bind (Q := fun _ => True)
    · apply Tr.forEach; intro puts hp; exact writeBack_nlen _ _ _ (hx puts hp)
    intro _ _
    apply Tr.bind (ih _ _); intro y _
    obtain ⟨large', g''⟩ := y
    exact Tr.pure _ trivial

theorem newTrees_nlen (items : List Nat) : ∀ (k : Nat) (roots large : List Nat) (g : IdGen),
    Tr (NInv c d) (newTrees c items k roots large g) (fun _ => True) := by
  intro k
  induction k with
  | zero => intro roots large g; unfold newTrees; exact Tr.pure _ trivial
  | succ k ih =>
    intro roots large g
    unfold newTrees
    apply Tr.bind (Tr.liftExcept _); intro x _
    obtain ⟨id, g'⟩ := x
    apply Tr.bind (Tr.modifyStore _ (fun s hs => by exact hs.put _ _ trivial)); intro _ _
    exact ih _ _ _

theorem incrementalIndexLargeDescendants_nlen (o : BuildOpts) :
    ∀ (fuel : Nat) (large : List Nat) (g : IdGen),
      Tr (NInv c d) (incrementalIndexLargeDescendants c o fuel large g) (fun _ => True) := by
  intro fuel
  induction fuel with
  | zero =>
    intro large g; unfold incrementalIndexLargeDescendants
    exact Tr.ite (Tr.pure _ trivial) (Tr.fail _)
  | succ fuel ih =>
    intro large g
    unfold incrementalIndexLargeDescendants
    split
    · exact Tr.pure _ trivial
    · rename_i b large'
      apply Tr.bind Tr.poll; intro _ _
      apply Tr.bind Tr.getStore; intro s _
      split
      · rename_i ids hget
        apply Tr.bind Tr.nextBatch; intro k _
        refine Tr.ite (Tr.fail _) ?_
        apply Tr.bind Tr.peek; intro st hst
        apply Tr.bind (Tr.liftExcept _); intro r hr
        obtain ⟨r1, r2, r3⟩ := makeT_normals_length _ _ _ _ _ _ _ hr hst.2
        apply Tr.bind (Tr.setNormalsRands _ _ r3); intro _ _
        apply Tr.bind (Tr.pollN _); intro _ _
        apply Tr.bind (writeBack_nlen _ _ _ r2); intro _ _
        apply Tr.bind (insertItemsInCurrentTrees_nlen o _ _ _ _); intro x _
        obtain ⟨large'', g'⟩ := x
        exact ih _ _
      · exact Tr.fail _

/-- **one build**: from a store whose split normals (index `c`) all have `d` words, with an oracle whose
    normals all have `d` words, a successful build ends on such a store -/
theorem build_nlen (o : BuildOpts) (fuel : Nat) : Tr (NInv c d) (build c o fuel) (fun _ => True) := by
  unfold build
  apply Tr.bind preProcessItems_nlen; intro _ _
  apply Tr.bind itemIndices_nlen; intro items _
  apply Tr.bind resetUpdated_nlen; intro updated _
  apply Tr.ite (singleLeaf_nlen _)
  dsimp only
  apply Tr.bind Tr.getStore; intro s _
  apply Tr.bind (Tr.usedTreeNode c); intro used _
  apply Tr.bind (deleteExtraTrees_nlen _ _); intro roots _
  apply Tr.bind (deleteItemsFromTrees_nlen o _ _); intro roots' _
  apply Tr.bind (insertItemsInCurrentTrees_nlen o _ _ _ _); intro x _
  obtain ⟨large, g⟩ := x
  apply Tr.bind (newTrees_nlen _ _ _ _ _); intro y _
  obtain ⟨roots'', large', g'⟩ := y
  apply Tr.bind (incrementalIndexLargeDescendants_nlen o _ _ _); intro _ _
  exact writeMetadata_nlen _ _

theorem build_splitLen (o : BuildOpts) (fuel : Nat) (st st' : BState)
    (h : build c o fuel st = .ok ((), st')) (hs : SplitLen c d st.store)
    (hN : ∀ n ∈ st.normals, n.length = d) : SplitLen c d st'.store :=
  (build_nlen o fuel st () st' ⟨hs, hN⟩ h).1.1

end Build

/-- the trees `Check.trees` reads have the normals of the store -/
theorem trees_tlen {c : Cfg} {d : Nat} {s : Store} (hs : SplitLen c d s) : ∀ t ∈ Check.trees c s, TLen d t := by
  intro t ht
  unfold Check.trees at ht
  split at ht
  · obtain ⟨r, _, hr⟩ := List.mem_filterMap.1 ht
    exact reify_tlen hs _ _ _ hr
  · cases ht

end Arroy
