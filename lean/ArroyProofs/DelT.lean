import ArroyProofs.Staged
/-! Specification of `delT` (the tree-level mirror of `delete_items_in_file`): returned bitmap, live
items of the new tree, shape, ids / removals / puts, polls, bucket capacity, routing. -/
namespace Arroy
open IdSet

/-- buckets hold strictly increasing item lists (they are `RoaringBitmap`s) -/
def T.WF : T → Prop
  | .leaf _ => True
  | .bucket _ s => Sorted s
  | .node _ _ l r => l.WF ∧ r.WF

theorem treeId_sub (t : T) : ∀ i ∈ t.treeId?, i ∈ t.ids := by
  intro i h; cases t <;> simp_all [T.treeId?, T.ids]

/-! ## the fields of `delT` on a node that do not depend on the branch -/

theorem delT_node_items (cap : Nat) (D : List Nat) (id : Nat) (n : List Nat) (l r : T) :
    (delT cap D (.node id n l r)).items = union (delT cap D l).items (delT cap D r).items := by
  simp only [delT]
  split
  · rfl
  · split
    · rfl
    · split <;> rfl

theorem delT_node_polls (cap : Nat) (D : List Nat) (id : Nat) (n : List Nat) (l r : T) :
    (delT cap D (.node id n l r)).polls = 1 + (delT cap D l).polls + (delT cap D r).polls := by
  simp only [delT]
  split
  · rfl
  · split
    · rfl
    · split <;> rfl

/-- `delT_polls`: one call of the cancellation callback per tree node visited -/
theorem delT_polls (cap : Nat) (D : List Nat) (t : T) : (delT cap D t).polls = t.ids.length := by
  induction t with
  | leaf i => rfl
  | bucket id s => rfl
  | node id n l r ihl ihr =>
    rw [delT_node_polls, ihl, ihr]
    simp only [T.ids, List.length_cons, List.length_append]
    omega

/-! ## the returned bitmap -/

/-- the returned bitmap only contains items of the tree (no hypotheses) -/
theorem delT_items_sub (cap : Nat) (D : List Nat) (t : T) : ∀ x ∈ (delT cap D t).items, x ∈ t.items := by
  induction t with
  | leaf i => intro x hx; simp only [delT] at hx; split at hx <;> simp_all [T.items]
  | bucket id s => intro x hx; exact mem_of_mem_diff hx
  | node id n l r ihl ihr =>
    intro x hx
    rw [delT_node_items, mem_union] at hx
    simp only [T.items, List.mem_append]
    exact hx.imp (ihl x) (ihr x)

/-- `delT_items`: the returned bitmap is strictly increasing and is exactly `items(t) ∖ D` -/
theorem delT_items (cap : Nat) (D : List Nat) (t : T) (hD : Sorted D) (hw : t.WF) :
    Sorted (delT cap D t).items ∧ ∀ x, x ∈ (delT cap D t).items ↔ x ∈ t.items ∧ x ∉ D := by
  induction t with
  | leaf i =>
    simp only [delT, T.items]
    split
    · rename_i h
      refine ⟨sorted_nil, fun x => ?_⟩
      simp only [List.not_mem_nil, List.mem_singleton, false_iff, not_and, Classical.not_not]
      rintro rfl; simpa using h
    · rename_i h
      refine ⟨sorted_singleton i, fun x => ?_⟩
      simp only [List.mem_singleton, iff_self_and]
      rintro rfl; simpa using h
  | bucket id s =>
    exact ⟨sorted_diff D hw, fun x => mem_diff hw hD⟩
  | node id n l r ihl ihr =>
    obtain ⟨sl, ml⟩ := ihl hw.1
    obtain ⟨sr, mr⟩ := ihr hw.2
    rw [delT_node_items]
    refine ⟨sorted_union sl sr, fun x => ?_⟩
    rw [mem_union, ml, mr]
    simp only [T.items, List.mem_append]
    constructor
    · rintro (⟨h1, h2⟩ | ⟨h1, h2⟩)
      · exact ⟨Or.inl h1, h2⟩
      · exact ⟨Or.inr h1, h2⟩
    · rintro ⟨h1 | h1, h2⟩
      · exact Or.inl ⟨h1, h2⟩
      · exact Or.inr ⟨h1, h2⟩

theorem delT_leaf_items_length (cap : Nat) (D : List Nat) (i : Nat) : (delT cap D (.leaf i)).items.length ≤ 1 := by
  simp only [delT]; split <;> simp

/-! ## shape -/

/-- a result that is an item reference comes from that very item (needs `1 ≤ cap`: a node whose live
    items fit in a bucket is collapsed, so a surviving child always holds at least two items) -/
theorem delT_leaf {cap : Nat} {D : List Nat} {t : T} {i : Nat} (h1 : 1 ≤ cap)
    (h : (delT cap D t).tree = .leaf i) : t = .leaf i := by
  induction t with
  | leaf j => simpa [delT] using h
  | bucket id s => simp [delT] at h
  | node id n l r ihl ihr =>
    exfalso
    simp only [delT] at h
    split at h
    · simp at h
    · rename_i hfit
      split at h
      · rename_i hl
        simp only at h
        have hr := ihr h
        have hl' : (delT cap D l).items = [] := by simpa using hl
        rw [hl', union_nil_left, hr] at hfit
        have := delT_leaf_items_length cap D i
        simp only [fits, decide_eq_true_eq] at hfit
        omega
      · split at h
        · rename_i hr
          simp only at h
          have hl := ihl h
          have hr' : (delT cap D r).items = [] := by simpa using hr
          rw [hr', union_nil_right, hl] at hfit
          have := delT_leaf_items_length cap D i
          simp only [fits, decide_eq_true_eq] at hfit
          omega
        · simp at h

/-- a node is never replaced by an item reference -/
theorem delT_ref_tree {cap : Nat} {D : List Nat} {t : T} (h1 : 1 ≤ cap) (ht : ∀ i, t ≠ .leaf i) :
    ∀ i, (delT cap D t).tree ≠ .leaf i := fun i h => ht i (delT_leaf h1 h)

/-- a result that is a split node holds more than `cap` live items -/
theorem delT_node_big {cap : Nat} {D : List Nat} {t : T} {id : Nat} {n : List Nat} {a b : T}
    (h : (delT cap D t).tree = .node id n a b) : cap < (delT cap D t).items.length := by
  induction t generalizing id n a b with
  | leaf j => simp [delT] at h
  | bucket id s => simp [delT] at h
  | node id' n' l r ihl ihr =>
    rw [delT_node_items]
    simp only [delT] at h
    split at h
    · simp at h
    · rename_i hfit
      simp only [fits, decide_eq_true_eq] at hfit
      omega

/-- a result that is a bucket holds exactly the returned bitmap -/
theorem delT_bucket_items {cap : Nat} {D : List Nat} {t : T} {id : Nat} {s : List Nat}
    (h : (delT cap D t).tree = .bucket id s) : (delT cap D t).items = s := by
  induction t generalizing id s with
  | leaf j => simp [delT] at h
  | bucket id' s' => simp only [delT, T.bucket.injEq] at h ⊢; exact h.2
  | node id' n' l r ihl ihr =>
    rw [delT_node_items]
    simp only [delT] at h
    split at h
    · simp only [T.bucket.injEq] at h; exact h.2
    · split at h
      · rename_i hl
        have hl' : (delT cap D l).items = [] := by simpa using hl
        rw [hl', union_nil_left]; exact ihr h
      · split at h
        · rename_i hr
          have hr' : (delT cap D r).items = [] := by simpa using hr
          rw [hr', union_nil_right]; exact ihl h
        · simp at h

/-- `delT_shape`: the result is the same item, a bucket holding the returned bitmap, or a split node
    holding more than `cap` live items -/
inductive DelShape (cap : Nat) (t : T) : DelRes → Prop
  | leaf (i items puts removed polls) : t = .leaf i → DelShape cap t ⟨.leaf i, items, puts, removed, polls⟩
  | bucket (id items puts removed polls) : DelShape cap t ⟨.bucket id items, items, puts, removed, polls⟩
  | node (id n a b items puts removed polls) : cap < items.length →
      DelShape cap t ⟨.node id n a b, items, puts, removed, polls⟩

theorem delT_shape (cap : Nat) (D : List Nat) (t : T) (h1 : 1 ≤ cap) : DelShape cap t (delT cap D t) := by
  cases h : (delT cap D t).tree with
  | leaf i =>
    have := DelShape.leaf (cap := cap) i (delT cap D t).items (delT cap D t).puts (delT cap D t).removed (delT cap D t).polls
      (delT_leaf h1 h)
    rw [← h] at this; exact this
  | bucket id s =>
    have := DelShape.bucket (cap := cap) (t := t) id (delT cap D t).items (delT cap D t).puts (delT cap D t).removed (delT cap D t).polls
    rw [← delT_bucket_items h] at h
    rw [← h] at this; exact this
  | node id n a b =>
    have := DelShape.node (cap := cap) (t := t) id n a b (delT cap D t).items (delT cap D t).puts (delT cap D t).removed (delT cap D t).polls
      (delT_node_big h)
    rw [← h] at this; exact this

/-- a result whose bitmap fits in a bucket is not a split node: its only tree id is its root
    (this is why removing the root id of a collapsed child is enough) -/
theorem delT_small_ids {cap : Nat} {D : List Nat} {t : T} (h : (delT cap D t).items.length ≤ cap) :
    (delT cap D t).tree.ids = (delT cap D t).tree.treeId? := by
  cases ht : (delT cap D t).tree with
  | leaf i => rfl
  | bucket id s => rfl
  | node id n a b => have := delT_node_big ht; omega

/-! ## the live items of the new tree -/

/-- the returned bitmap describes the new tree: for an item reference it says whether the item is
    deleted; otherwise it has exactly the members of the new tree's items -/
def Live (D : List Nat) (r : DelRes) : Prop :=
  (∀ i, r.tree = .leaf i → r.items = if D.contains i then [] else [i]) ∧
  ((∀ i, r.tree ≠ .leaf i) → ∀ x, x ∈ r.tree.items ↔ x ∈ r.items)

theorem Live.of_nonempty {D : List Nat} {r : DelRes} (h : Live D r) (hne : r.items.isEmpty = false) :
    ∀ x, x ∈ r.tree.items ↔ x ∈ r.items := by
  cases ht : r.tree with
  | leaf i =>
    have := h.1 i ht
    split at this
    · rw [this] at hne; simp at hne
    · rw [this]; simp [T.items]
  | bucket id s => rw [← ht]; exact h.2 (by simp [ht])
  | node id n a b => rw [← ht]; exact h.2 (by simp [ht])

theorem delT_live (cap : Nat) (D : List Nat) (t : T) : Live D (delT cap D t) := by
  induction t with
  | leaf i =>
    refine ⟨?_, fun h => absurd rfl (h i)⟩
    intro j hj
    simp only [delT, T.leaf.injEq] at hj ⊢
    subst hj; rfl
  | bucket id s =>
    refine ⟨fun i hi => by simp [delT] at hi, fun _ x => ?_⟩
    simp [delT, T.items]
  | node id n l r ihl ihr =>
    simp only [delT]
    split
    · refine ⟨fun i hi => by simp at hi, fun _ x => ?_⟩
      simp [T.items]
    · split
      · rename_i hl
        have hl' : (delT cap D l).items = [] := by simpa using hl
        simp only [Live, hl', union_nil_left]
        exact ihr
      · split
        · rename_i hr
          have hr' : (delT cap D r).items = [] := by simpa using hr
          simp only [Live, hr', union_nil_right]
          exact ihl
        · rename_i hl hr
          refine ⟨fun i hi => by simp at hi, fun _ x => ?_⟩
          simp only [T.items, List.mem_append, mem_union]
          rw [ihl.of_nonempty (by simpa using hl), ihr.of_nonempty (by simpa using hr)]

/-- for a tree that is not a bare item: the new tree's items are exactly `items(t) ∖ D` -/
theorem delT_tree_items {cap : Nat} {D : List Nat} {t : T} (h1 : 1 ≤ cap) (hD : Sorted D) (hw : t.WF)
    (ht : ∀ i, t ≠ .leaf i) : ∀ x, x ∈ (delT cap D t).tree.items ↔ x ∈ t.items ∧ x ∉ D := by
  intro x
  rw [(delT_live cap D t).2 (delT_ref_tree h1 ht) x]
  exact (delT_items cap D t hD hw).2 x

/-- items only disappear (no hypotheses) -/
theorem delT_tree_items_sub (cap : Nat) (D : List Nat) (t : T) : ∀ x ∈ (delT cap D t).tree.items, x ∈ t.items := by
  induction t with
  | leaf i => intro x hx; exact hx
  | bucket id s => intro x hx; exact mem_of_mem_diff hx
  | node id n l r ihl ihr =>
    intro x
    simp only [delT, T.items, List.mem_append]
    split
    · intro hx
      simp only [T.items, mem_union] at hx
      exact hx.imp (delT_items_sub cap D l x) (delT_items_sub cap D r x)
    · split
      · exact fun hx => Or.inr (ihr x hx)
      · split
        · exact fun hx => Or.inl (ihl x hx)
        · intro hx
          simp only [T.items, List.mem_append] at hx
          exact hx.imp (ihl x) (ihr x)

/-- buckets of the new tree are strictly increasing -/
theorem delT_wf (cap : Nat) (D : List Nat) (t : T) (hD : Sorted D) (hw : t.WF) : (delT cap D t).tree.WF := by
  induction t with
  | leaf i => trivial
  | bucket id s => exact sorted_diff D hw
  | node id n l r ihl ihr =>
    have hi := (delT_items cap D (.node id n l r) hD hw).1
    rw [delT_node_items] at hi
    simp only [delT]
    split
    · exact hi
    · split
      · exact ihr hw.2
      · split
        · exact ihl hw.1
        · exact ⟨ihl hw.1, ihr hw.2⟩

/-- `delT_nodup_items`: no item occurs twice in the new tree if none did in the old one -/
theorem delT_nodup_items (cap : Nat) (D : List Nat) (t : T) (hD : Sorted D) (hw : t.WF)
    (hnd : t.items.Nodup) : (delT cap D t).tree.items.Nodup := by
  induction t with
  | leaf i => simp [delT, T.items]
  | bucket id s => exact (sorted_diff D hw).nodup
  | node id n l r ihl ihr =>
    have hi := (delT_items cap D (.node id n l r) hD hw).1
    rw [delT_node_items] at hi
    simp only [T.items, List.nodup_append] at hnd
    obtain ⟨nl, nr, dj⟩ := hnd
    simp only [delT]
    split
    · exact hi.nodup
    · split
      · exact ihr hw.2 nr
      · split
        · exact ihl hw.1 nl
        · simp only [T.items, List.nodup_append]
          refine ⟨ihl hw.1 nl, ihr hw.2 nr, ?_⟩
          intro x hx y hy
          exact dj x (delT_tree_items_sub cap D l x hx) y (delT_tree_items_sub cap D r y hy)

/-! ## capacity -/

/-- `delT_capacity`: buckets stay within `cap` -/
theorem delT_capacity (cap : Nat) (D : List Nat) (t : T) (h : ∀ b ∈ t.buckets, b.2.length ≤ cap) :
    ∀ b ∈ (delT cap D t).tree.buckets, b.2.length ≤ cap := by
  induction t with
  | leaf i => simp [delT, T.buckets]
  | bucket id s =>
    intro b hb
    simp only [delT, T.buckets, List.mem_singleton] at hb
    subst hb
    have := h (id, s) (by simp [T.buckets])
    have := length_diff_le s D
    simp only at *
    omega
  | node id n l r ihl ihr =>
    have hl := ihl (fun b hb => h b (by simp [T.buckets, hb]))
    have hr := ihr (fun b hb => h b (by simp [T.buckets, hb]))
    simp only [delT]
    split
    · rename_i hfit
      intro b hb
      simp only [T.buckets, List.mem_singleton] at hb
      subst hb
      simpa [fits] using hfit
    · split
      · exact hr
      · split
        · exact hl
        · intro b hb
          simp only [T.buckets, List.mem_append] at hb
          exact hb.elim (hl b) (hr b)

/-! ## routing (for C04) -/

/-- every item below a split node with a non-zero normal lies on the side of the plane it is stored on
    (`side n x`: `some true` = right, `some false` = left, `none` = undecided) -/
def RoutedD (isZero : List Nat → Bool) (side : List Nat → Nat → Option Bool) : T → Prop
  | .leaf _ => True
  | .bucket _ _ => True
  | .node _ n l r =>
    (isZero n = false → (∀ x ∈ l.items, side n x ≠ some true) ∧ (∀ x ∈ r.items, side n x ≠ some false)) ∧
    RoutedD isZero side l ∧ RoutedD isZero side r

/-- `delT_routed`: deleting preserves the routing invariant (items only disappear; the planes above a
    surviving item are unchanged or removed) -/
theorem delT_routed (isZero : List Nat → Bool) (side : List Nat → Nat → Option Bool) (cap : Nat) (D : List Nat) (t : T)
    (h : RoutedD isZero side t) : RoutedD isZero side (delT cap D t).tree := by
  induction t with
  | leaf i => trivial
  | bucket id s => trivial
  | node id n l r ihl ihr =>
    obtain ⟨h0, hl, hr⟩ := h
    simp only [delT]
    split
    · trivial
    · split
      · exact ihr hr
      · split
        · exact ihl hl
        · refine ⟨fun hz => ⟨fun x hx => (h0 hz).1 x (delT_tree_items_sub cap D l x hx),
            fun x hx => (h0 hz).2 x (delT_tree_items_sub cap D r x hx)⟩, ihl hl, ihr hr⟩

/-! ## ids, removals, puts -/

/-- weak form, no hypotheses: result ids, puts and removals are all at ids of the old tree -/
theorem delT_ids_sub (cap : Nat) (D : List Nat) (t : T) :
    (∀ i ∈ (delT cap D t).tree.ids, i ∈ t.ids) ∧
    (∀ p ∈ (delT cap D t).puts, p.1 ∈ t.ids) ∧
    (∀ i ∈ (delT cap D t).removed, i ∈ t.ids) := by
  induction t with
  | leaf i => simp [delT, T.ids]
  | bucket id s =>
    refine ⟨by simp [delT, T.ids], ?_, by simp [delT]⟩
    intro p hp; simp only [delT] at hp; split at hp <;> simp_all [T.ids]
  | node id n l r ihl ihr =>
    obtain ⟨l1, l2, l3⟩ := ihl
    obtain ⟨r1, r2, r3⟩ := ihr
    have tl := fun i h => l1 i (treeId_sub _ i h)
    have tr := fun i h => r1 i (treeId_sub _ i h)
    simp only [delT]
    split
    · refine ⟨by simp [T.ids], ?_, ?_⟩
      · intro p hp
        simp only [List.mem_append, List.mem_singleton] at hp
        rcases hp with (hp | hp) | hp
        · simp [T.ids, l2 p hp]
        · simp [T.ids, r2 p hp]
        · subst hp; simp [T.ids]
      · intro i hi
        simp only [List.mem_append] at hi
        rcases hi with ((hi | hi) | hi) | hi
        · simp [T.ids, l3 i hi]
        · simp [T.ids, r3 i hi]
        · simp [T.ids, tl i hi]
        · simp [T.ids, tr i hi]
    · split
      · refine ⟨fun i hi => by simp [T.ids, r1 i hi], ?_, ?_⟩
        · intro p hp
          simp only [List.mem_append] at hp
          rcases hp with hp | hp
          · simp [T.ids, l2 p hp]
          · simp [T.ids, r2 p hp]
        · intro i hi
          simp only [List.mem_append, List.mem_singleton] at hi
          rcases hi with ((hi | hi) | hi) | hi
          · simp [T.ids, l3 i hi]
          · simp [T.ids, r3 i hi]
          · simp [T.ids, tl i hi]
          · subst hi; simp [T.ids]
      · split
        · refine ⟨fun i hi => by simp [T.ids, l1 i hi], ?_, ?_⟩
          · intro p hp
            simp only [List.mem_append] at hp
            rcases hp with hp | hp
            · simp [T.ids, l2 p hp]
            · simp [T.ids, r2 p hp]
          · intro i hi
            simp only [List.mem_append, List.mem_singleton] at hi
            rcases hi with ((hi | hi) | hi) | hi
            · simp [T.ids, l3 i hi]
            · simp [T.ids, r3 i hi]
            · simp [T.ids, tr i hi]
            · subst hi; simp [T.ids]
        · refine ⟨?_, ?_, ?_⟩
          · intro i hi
            simp only [T.ids, List.mem_cons, List.mem_append] at hi ⊢
            rcases hi with rfl | hi | hi
            · exact Or.inl rfl
            · exact Or.inr (Or.inl (l1 i hi))
            · exact Or.inr (Or.inr (r1 i hi))
          · intro p hp
            simp only [List.mem_append] at hp
            rcases hp with (hp | hp) | hp
            · simp [T.ids, l2 p hp]
            · simp [T.ids, r2 p hp]
            · split at hp
              · simp at hp; subst hp; simp [T.ids]
              · simp at hp
          · intro i hi
            simp only [List.mem_append] at hi
            rcases hi with hi | hi
            · simp [T.ids, l3 i hi]
            · simp [T.ids, r3 i hi]

/-- nothing leaks: the ids of the new tree together with the removed ids are exactly the ids of the old
    tree, with multiplicity (so, for a tree with distinct ids: disjoint, distinct, covering) -/
theorem delT_ids_perm (cap : Nat) (D : List Nat) (t : T) :
    ((delT cap D t).tree.ids ++ (delT cap D t).removed).Perm t.ids := by
  induction t with
  | leaf i => simp [delT, T.ids]
  | bucket id s => simp [delT, T.ids]
  | node id n l r ihl ihr =>
    rw [List.perm_iff_count] at ihl ihr ⊢
    intro i
    have hl := ihl i
    have hr := ihr i
    simp only [List.count_append] at hl hr
    simp only [delT]
    split
    · rename_i hfit
      simp only [fits, decide_eq_true_eq] at hfit
      have sl : (delT cap D l).items.length ≤ cap := Nat.le_trans (length_le_union_left _ _) hfit
      have sr : (delT cap D r).items.length ≤ cap := Nat.le_trans (length_le_union_right _ _) hfit
      rw [← delT_small_ids sl, ← delT_small_ids sr]
      simp only [T.ids, List.count_append, List.count_cons, List.count_nil]
      omega
    · split
      · rename_i hfit hl'
        have sl : (delT cap D l).items.length ≤ cap := by
          have : (delT cap D l).items = [] := by simpa using hl'
          simp [this]
        rw [← delT_small_ids sl]
        simp only [T.ids, List.count_append, List.count_cons, List.count_nil]
        omega
      · split
        · rename_i hfit _ hr'
          have sr : (delT cap D r).items.length ≤ cap := by
            have : (delT cap D r).items = [] := by simpa using hr'
            simp [this]
          rw [← delT_small_ids sr]
          simp only [T.ids, List.count_append, List.count_cons, List.count_nil]
          omega
        · simp only [T.ids, List.count_append, List.count_cons]
          omega

/-- every put is at an id of the new tree or at a removed id (the latter are dropped by `TmpNodes`) -/
theorem delT_puts (cap : Nat) (D : List Nat) (t : T) :
    ∀ p ∈ (delT cap D t).puts, p.1 ∈ (delT cap D t).tree.ids ∨ p.1 ∈ (delT cap D t).removed := by
  induction t with
  | leaf i => simp [delT]
  | bucket id s =>
    intro p hp; simp only [delT] at hp ⊢; split at hp <;> simp_all [T.ids]
  | node id n l r ihl ihr =>
    simp only [delT]
    split
    · rename_i hfit
      simp only [fits, decide_eq_true_eq] at hfit
      have sl : (delT cap D l).items.length ≤ cap := Nat.le_trans (length_le_union_left _ _) hfit
      have sr : (delT cap D r).items.length ≤ cap := Nat.le_trans (length_le_union_right _ _) hfit
      rw [← delT_small_ids sl, ← delT_small_ids sr]
      intro p hp
      simp only [List.mem_append, List.mem_singleton] at hp
      simp only [T.ids, List.mem_append, List.mem_singleton]
      rcases hp with (hp | hp) | hp
      · rcases ihl p hp with h | h <;> simp [h]
      · rcases ihr p hp with h | h <;> simp [h]
      · subst hp; simp
    · split
      · rename_i hfit hl'
        have sl : (delT cap D l).items.length ≤ cap := by
          have : (delT cap D l).items = [] := by simpa using hl'
          simp [this]
        rw [← delT_small_ids sl]
        intro p hp
        simp only [List.mem_append, List.mem_singleton] at hp ⊢
        rcases hp with hp | hp
        · rcases ihl p hp with h | h <;> simp [h]
        · rcases ihr p hp with h | h <;> simp [h]
      · split
        · rename_i hfit _ hr'
          have sr : (delT cap D r).items.length ≤ cap := by
            have : (delT cap D r).items = [] := by simpa using hr'
            simp [this]
          rw [← delT_small_ids sr]
          intro p hp
          simp only [List.mem_append, List.mem_singleton] at hp ⊢
          rcases hp with hp | hp
          · rcases ihl p hp with h | h <;> simp [h]
          · rcases ihr p hp with h | h <;> simp [h]
        · intro p hp
          simp only [List.mem_append] at hp
          simp only [T.ids, List.mem_cons, List.mem_append]
          rcases hp with (hp | hp) | hp
          · rcases ihl p hp with h | h <;> simp [h]
          · rcases ihr p hp with h | h <;> simp [h]
          · split at hp
            · simp at hp; subst hp; simp
            · simp at hp

/-- `delT_ids`, all the facts about node ids for a tree with pairwise distinct ids -/
structure DelIds (t : T) (r : DelRes) : Prop where
  /-- ids of the new tree are old ids -/
  sub : ∀ i ∈ r.tree.ids, i ∈ t.ids
  /-- still pairwise distinct -/
  nodup : r.tree.ids.Nodup
  /-- puts are at ids of the new tree or at removed ids -/
  puts : ∀ p ∈ r.puts, p.1 ∈ r.tree.ids ∨ p.1 ∈ r.removed
  /-- removals are old ids -/
  rem_sub : ∀ i ∈ r.removed, i ∈ t.ids
  /-- no id is removed twice -/
  rem_nodup : r.removed.Nodup
  /-- no id of the new tree is removed -/
  disj : ∀ i ∈ r.removed, i ∉ r.tree.ids
  /-- nothing leaks: every old id is still in the tree or is removed -/
  cover : ∀ i ∈ t.ids, i ∈ r.tree.ids ∨ i ∈ r.removed

theorem delT_ids (cap : Nat) (D : List Nat) (t : T) (hnd : t.ids.Nodup) : DelIds t (delT cap D t) := by
  have hp := delT_ids_perm cap D t
  have hn := hp.nodup_iff.2 hnd
  rw [List.nodup_append] at hn
  obtain ⟨n1, n2, dj⟩ := hn
  refine ⟨fun i hi => hp.subset (List.mem_append_left _ hi), n1, delT_puts cap D t,
    fun i hi => hp.subset (List.mem_append_right _ hi), n2, ?_, ?_⟩
  · intro i hi hi'
    exact dj i hi' i hi rfl
  · intro i hi
    exact List.mem_append.1 (hp.symm.subset hi)

/-! ## adequacy of the staged writes -/

/-- `delT_adequate`: applying the staged writes of `delT` to a store holding `t` yields a store holding
    the new tree -/
theorem delT_adequate (c : Cfg) (cap : Nat) (D : List Nat) (t : T) (s : Store) (hh : Holds c s t) (hnd : t.ids.Nodup) :
    Adequate c (delT cap D t).removed (delT cap D t).puts s (delT cap D t).tree := by
  induction t with
  | leaf i => intro cell hc; simp [delT, T.cells] at hc
  | bucket id its =>
    intro cell hc
    simp only [delT, T.cells, List.mem_singleton] at hc
    subst hc
    refine ⟨by simp [delT], ?_⟩
    simp only [delT]
    split
    · left; exact lastPut_single _ _
    · rename_i hlen
      right
      refine ⟨by simp [lastPut], ?_⟩
      have hlen' : (diff its D).length = its.length := by
        simp only [ne_eq, Classical.not_not] at hlen; exact hlen.symm
      rw [diff_eq_of_length_eq hlen']
      exact hh.bucket
  | node id n l r ihl ihr =>
    simp only [T.ids, List.nodup_cons, List.mem_append, List.nodup_append] at hnd
    obtain ⟨hid, hl, hr, hdisj⟩ := hnd
    have hself := hh.root
    have AL := ihl hh.left hl
    have AR := ihr hh.right hr
    obtain ⟨l1, l2, l3⟩ := delT_ids_sub cap D l
    obtain ⟨r1, r2, r3⟩ := delT_ids_sub cap D r
    have idl : id ∉ l.ids := fun e => hid (Or.inl e)
    have idr : id ∉ r.ids := fun e => hid (Or.inr e)
    have dj : ∀ i, i ∈ l.ids → i ∉ r.ids := fun i a b => hdisj i a i b rfl
    simp only [delT]
    split
    · -- collapse into a bucket
      intro cell hc
      simp only [T.cells, List.mem_singleton] at hc
      subst hc
      refine ⟨?_, ?_⟩
      · simp only [List.mem_append, not_or]
        exact ⟨⟨⟨fun e => idl (l3 _ e), fun e => idr (r3 _ e)⟩, fun e => idl (l1 _ (treeId_sub _ _ e))⟩,
          fun e => idr (r1 _ (treeId_sub _ _ e))⟩
      · left; rw [lastPut_append]; simp [lastPut_single]
    · split
      · -- point to the right child
        have := AR.extend (delT cap D l).puts []
          ((delT cap D l).removed ++ (delT cap D r).removed ++ (delT cap D l).tree.treeId? ++ [id])
          (fun p hp e => dj _ (l2 p hp) (r1 _ e)) (by simp)
          (by
            intro i hi
            simp only [List.mem_append, List.mem_singleton] at hi
            rcases hi with ((hi | hi) | hi) | hi
            · exact Or.inr (fun e => dj _ (l3 i hi) (r1 _ e))
            · exact Or.inl hi
            · exact Or.inr (fun e => dj _ (l1 _ (treeId_sub _ _ hi)) (r1 _ e))
            · subst hi; exact Or.inr (fun e => idr (r1 _ e)))
        simpa using this
      · split
        · -- point to the left child
          have := AL.extend [] (delT cap D r).puts
            ((delT cap D l).removed ++ (delT cap D r).removed ++ (delT cap D r).tree.treeId? ++ [id])
            (by simp) (fun p hp e => dj _ (l1 _ e) (r2 p hp))
            (by
              intro i hi
              simp only [List.mem_append, List.mem_singleton] at hi
              rcases hi with ((hi | hi) | hi) | hi
              · exact Or.inl hi
              · exact Or.inr (fun e => dj _ (l1 _ e) (r3 i hi))
              · exact Or.inr (fun e => dj _ (l1 _ e) (r1 _ (treeId_sub _ _ hi)))
              · subst hi; exact Or.inr (fun e => idl (l1 _ e)))
          simpa using this
        · -- keep the split
          intro cell hc
          simp only [T.cells, List.mem_cons, List.mem_append] at hc
          rcases hc with rfl | hc | hc
          · -- the node itself
            refine ⟨?_, ?_⟩
            · simp only [List.mem_append, not_or]
              exact ⟨fun e => idl (l3 _ e), fun e => idr (r3 _ e)⟩
            · simp only
              by_cases hch : (delT cap D l).tree.ref ≠ l.ref ∨ (delT cap D r).tree.ref ≠ r.ref
              · left
                rw [if_pos hch, lastPut_append, lastPut_single]; rfl
              · right
                rw [if_neg hch, List.append_nil]
                have hsame : (delT cap D l).tree.ref = l.ref ∧ (delT cap D r).tree.ref = r.ref := by
                  simpa [not_or] using hch
                refine ⟨?_, ?_⟩
                · rw [lastPut_append,
                    lastPut_none (i := id) (fun p hp e => idr (e ▸ r2 p hp)),
                    lastPut_none (i := id) (fun p hp e => idl (e ▸ l2 p hp))]; rfl
                · rw [hsame.1, hsame.2]; exact hself
          · -- a cell of the left subtree
            have := AL.extend [] ((delT cap D r).puts ++
                (if (delT cap D l).tree.ref ≠ l.ref ∨ (delT cap D r).tree.ref ≠ r.ref
                  then [(id, Val.split (delT cap D l).tree.ref (delT cap D r).tree.ref n)] else []))
              ((delT cap D l).removed ++ (delT cap D r).removed) (by simp)
              (by
                intro p hp e
                simp only [List.mem_append] at hp
                rcases hp with hp | hp
                · exact dj _ (l1 _ e) (r2 p hp)
                · split at hp
                  · simp at hp; subst hp; exact idl (l1 _ e)
                  · simp at hp)
              (by
                intro i hi
                rcases List.mem_append.1 hi with hi | hi
                · exact Or.inl hi
                · exact Or.inr (fun e => dj _ (l1 _ e) (r3 i hi)))
            obtain ⟨a, b⟩ := this cell hc
            exact ⟨a, by simpa [List.append_assoc] using b⟩
          · -- a cell of the right subtree
            have := AR.extend (delT cap D l).puts
                (if (delT cap D l).tree.ref ≠ l.ref ∨ (delT cap D r).tree.ref ≠ r.ref
                  then [(id, Val.split (delT cap D l).tree.ref (delT cap D r).tree.ref n)] else [])
              ((delT cap D l).removed ++ (delT cap D r).removed)
              (fun p hp e => dj _ (l2 p hp) (r1 _ e))
              (by
                intro p hp e
                split at hp
                · simp at hp; subst hp; exact idr (r1 _ e)
                · simp at hp)
              (by
                intro i hi
                rcases List.mem_append.1 hi with hi | hi
                · exact Or.inr (fun e => dj _ (l3 i hi) (r1 _ e))
                · exact Or.inl hi)
            exact this cell hc

end Arroy
