import ArroyModel.Reader
/-! The total order of `OrderedFloat<f32>` (`F32.ordLt` / `F32.ordEq`) and the order `scoreLe` of the
result heap, proved from the soft-float definitions: every bit pattern gets a key in `Int × Int`
(class, scaled signed magnitude) and `ordLt` / `ordEq` are `<` / `=` of the keys, lexicographically. -/
namespace Arroy
namespace SF

/-- class of an unpacked value: `-inf < finite < +inf < NaN` -/
def V.cls : V → Int
  | .nan => 2
  | .inf true => -1
  | .inf false => 1
  | .fin _ _ _ => 0

/-- signed magnitude of a finite value in units of `2^q` (0 for the others) -/
def V.mag (q : Int) : V → Int
  | .fin n m e => if n then -((m * 2 ^ ((e - q).toNat) : Nat) : Int) else ((m * 2 ^ ((e - q).toNat) : Nat) : Int)
  | _ => 0

def V.okExp (q : Int) : V → Prop
  | .fin _ _ e => q ≤ e
  | _ => True

def V.notNaN : V → Prop
  | .nan => False
  | _ => True

theorem ltV_fin (q : Int) (n1 : Bool) (m1 : Nat) (e1 : Int) (n2 : Bool) (m2 : Nat) (e2 : Int)
    (h1 : q ≤ e1) (h2 : q ≤ e2) :
    ltV (.fin n1 m1 e1) (.fin n2 m2 e2) = true ↔
      V.mag q (.fin n1 m1 e1) < V.mag q (.fin n2 m2 e2) := by
  simp only [ltV, exactAdd, V.mag]
  generalize he : (Min.min e1 e2 : Int) = e
  have hle1 : e ≤ e1 := by omega
  have hle2 : e ≤ e2 := by omega
  have hq : q ≤ e := by omega
  have hP : 0 < 2 ^ ((e - q).toNat) := Nat.pow_pos (by decide)
  have ha : m1 * 2 ^ ((e1 - q).toNat) = (m1 * 2 ^ ((e1 - e).toNat)) * 2 ^ ((e - q).toNat) := by
    rw [Nat.mul_assoc, ← Nat.pow_add]; congr 2; omega
  have hb : m2 * 2 ^ ((e2 - q).toNat) = (m2 * 2 ^ ((e2 - e).toNat)) * 2 ^ ((e - q).toNat) := by
    rw [Nat.mul_assoc, ← Nat.pow_add]; congr 2; omega
  rw [ha, hb]
  generalize m1 * 2 ^ ((e1 - e).toNat) = A
  generalize m2 * 2 ^ ((e2 - e).toNat) = B
  generalize 2 ^ ((e - q).toNat) = P at hP
  have l1 : A * P < B * P ↔ A < B := Nat.mul_lt_mul_right hP
  have l2 : B * P < A * P ↔ B < A := Nat.mul_lt_mul_right hP
  have l3 : A * P = 0 ↔ A = 0 := by
    constructor
    · intro h; rcases Nat.mul_eq_zero.mp h with h | h <;> omega
    · intro h; simp [h]
  have l4 : B * P = 0 ↔ B = 0 := by
    constructor
    · intro h; rcases Nat.mul_eq_zero.mp h with h | h <;> omega
    · intro h; simp [h]
  generalize A * P = X at *
  generalize B * P = Y at *
  cases n1 <;> cases n2 <;> simp <;> omega

/-- on non-NaN values with exponents at least `q`, `ltV` is the lexicographic order of `(cls, mag q)` -/
theorem ltV_iff (q : Int) (x y : V) (hx : x.okExp q) (hy : y.okExp q) (nx : x.notNaN) (ny : y.notNaN) :
    ltV x y = true ↔ (x.cls < y.cls ∨ (x.cls = y.cls ∧ x.mag q < y.mag q)) := by
  cases x with
  | nan => exact absurd nx id
  | inf a =>
    cases y with
    | nan => exact absurd ny id
    | inf b => cases a <;> cases b <;> simp [ltV, V.cls, V.mag]
    | fin n m e => cases a <;> simp [ltV, V.cls]
  | fin n1 m1 e1 =>
    cases y with
    | nan => exact absurd ny id
    | inf b => cases b <;> simp [ltV, V.cls]
    | fin n2 m2 e2 =>
      rw [ltV_fin q n1 m1 e1 n2 m2 e2 hx hy]
      simp [V.cls]

theorem unpack_okExp (f : Fmt) (a : Nat) : (unpack f a).okExp f.qmin := by
  unfold unpack
  simp only
  split
  · split <;> trivial
  · split
    · simp [V.okExp]
    · rename_i h1 h2
      simp only [V.okExp, Fmt.qmin]
      have : (a / 2 ^ (f.p - 1)) % 2 ^ f.ebits ≠ 0 := by simpa using h2
      omega

/-- the key of a bit pattern: (class, signed magnitude in units of the smallest subnormal) -/
def key (f : Fmt) (a : Nat) : Int × Int := ((unpack f a).cls, (unpack f a).mag f.qmin)

/-- lexicographic `<` on keys -/
def klt (x y : Int × Int) : Prop := x.1 < y.1 ∨ (x.1 = y.1 ∧ x.2 < y.2)

theorem isNaN_iff (f : Fmt) (a : Nat) : isNaN f a = true ↔ (unpack f a).cls = 2 := by
  unfold isNaN
  cases h : unpack f a with
  | nan => simp [V.cls]
  | inf b => cases b <;> simp [V.cls]
  | fin n m e => simp [V.cls]

theorem isNaN_false_iff (f : Fmt) (a : Nat) : isNaN f a = false ↔ (unpack f a).notNaN := by
  unfold isNaN
  cases h : unpack f a <;> simp [V.notNaN]

theorem cls_le_two (x : V) : x.cls ≤ 2 := by
  cases x with
  | nan => simp [V.cls]
  | inf b => cases b <;> simp [V.cls]
  | fin n m e => simp [V.cls]

theorem cls_lt_two_of_notNaN (x : V) (h : x.notNaN) : x.cls < 2 := by
  cases x with
  | nan => exact absurd h id
  | inf b => cases b <;> simp [V.cls]
  | fin n m e => simp [V.cls]

theorem mag_nan (q : Int) (x : V) (h : x.cls = 2) : x.mag q = 0 := by
  cases x with
  | nan => rfl
  | inf b => rfl
  | fin n m e => simp [V.cls] at h

theorem ordLt_iff (f : Fmt) (a b : Nat) : ordLt f a b = true ↔ klt (key f a) (key f b) := by
  unfold ordLt klt key
  simp only
  cases ha : isNaN f a with
  | true =>
    have h2 := (isNaN_iff f a).1 ha
    have hb := cls_le_two (unpack f b)
    have hm := mag_nan f.qmin _ h2
    simp only [if_true]
    constructor
    · intro h; cases h
    · intro h
      rcases h with h | ⟨h, h'⟩
      · omega
      · have := mag_nan f.qmin (unpack f b) (by omega); omega
  | false =>
    have na := (isNaN_false_iff f a).1 ha
    have la := cls_lt_two_of_notNaN _ na
    cases hb : isNaN f b with
    | true =>
      have h2 := (isNaN_iff f b).1 hb
      simp; omega
    | false =>
      have nb := (isNaN_false_iff f b).1 hb
      simp only [Bool.false_eq_true, if_false, lt]
      exact ltV_iff f.qmin _ _ (unpack_okExp f a) (unpack_okExp f b) na nb

theorem lt_iff_of_notNaN (f : Fmt) (a b : Nat) (ha : isNaN f a = false) (hb : isNaN f b = false) :
    lt f a b = true ↔ klt (key f a) (key f b) := by
  rw [← ordLt_iff]; simp [ordLt, ha, hb]

theorem ordEq_iff (f : Fmt) (a b : Nat) : ordEq f a b = true ↔ key f a = key f b := by
  unfold ordEq
  cases ha : isNaN f a with
  | true =>
    have h2 := (isNaN_iff f a).1 ha
    have hm := mag_nan f.qmin _ h2
    simp only [if_true]
    rw [isNaN_iff]
    constructor
    · intro h
      have hm' := mag_nan f.qmin _ h
      simp only [key]; rw [h2, h, hm, hm']
    · intro h
      have : (key f a).1 = (key f b).1 := by rw [h]
      simp only [key] at this; omega
  | false =>
    have na := (isNaN_false_iff f a).1 ha
    have la := cls_lt_two_of_notNaN _ na
    cases hb : isNaN f b with
    | true =>
      have h2 := (isNaN_iff f b).1 hb
      simp only [Bool.false_eq_true, if_false, if_true]
      constructor
      · intro h; cases h
      · intro h
        have : (key f a).1 = (key f b).1 := by rw [h]
        simp only [key] at this; omega
    | false =>
      simp only [Bool.false_eq_true, if_false, eq, le, ha, hb, Bool.not_false, Bool.true_and, Bool.and_eq_true,
        Bool.not_eq_true']
      have l1 := lt_iff_of_notNaN f a b ha hb
      have l2 := lt_iff_of_notNaN f b a hb ha
      have n1 : lt f b a = false ↔ ¬ klt (key f b) (key f a) := by rw [← l2]; simp
      have n2 : lt f a b = false ↔ ¬ klt (key f a) (key f b) := by rw [← l1]; simp
      rw [n1, n2]
      unfold klt
      constructor
      · intro ⟨h1, h2⟩; apply Prod.ext <;> omega
      · intro h; rw [h]; omega

end SF

namespace F32

/-- the key of a binary32 bit pattern in the order of `OrderedFloat` -/
def key (a : Nat) : Int × Int := SF.key SF.f32 a

theorem ordLt_iff (a b : Nat) : ordLt a b = true ↔ SF.klt (key a) (key b) := SF.ordLt_iff _ a b
theorem ordEq_iff (a b : Nat) : ordEq a b = true ↔ key a = key b := SF.ordEq_iff _ a b

theorem ordLt_irrefl (a : Nat) : ordLt a a = false := by
  have := ordLt_iff a a; unfold SF.klt at this
  cases h : ordLt a a
  · rfl
  · have := this.1 h; omega

theorem ordLt_trans {a b c : Nat} (h1 : ordLt a b = true) (h2 : ordLt b c = true) : ordLt a c = true := by
  rw [ordLt_iff] at *; unfold SF.klt at *; omega

theorem ordLt_asymm {a b : Nat} (h1 : ordLt a b = true) : ordLt b a = false := by
  cases h : ordLt b a
  · rfl
  · rw [ordLt_iff] at *; unfold SF.klt at *; omega

/-- totality: two bit patterns are related by `ordLt` one way or the other, or are `ordEq` -/
theorem ord_total (a b : Nat) : ordLt a b = true ∨ ordEq a b = true ∨ ordLt b a = true := by
  rw [ordLt_iff, ordLt_iff, ordEq_iff]; unfold SF.klt
  by_cases h : key a = key b
  · exact Or.inr (Or.inl h)
  · have : ¬ ((key a).1 = (key b).1 ∧ (key a).2 = (key b).2) := fun ⟨x, y⟩ => h (Prod.ext x y)
    omega

theorem ordEq_refl (a : Nat) : ordEq a a = true := by rw [ordEq_iff]
theorem ordEq_symm {a b : Nat} (h : ordEq a b = true) : ordEq b a = true := by
  rw [ordEq_iff] at *; exact h.symm
theorem ordEq_trans {a b c : Nat} (h1 : ordEq a b = true) (h2 : ordEq b c = true) : ordEq a c = true := by
  rw [ordEq_iff] at *; exact h1.trans h2

theorem ordLt_of_ordEq_left {a b c : Nat} (h1 : ordEq a b = true) (h2 : ordLt b c = true) : ordLt a c = true := by
  rw [ordEq_iff] at h1; rw [ordLt_iff] at *; rw [h1]; exact h2
theorem ordLt_of_ordEq_right {a b c : Nat} (h1 : ordLt a b = true) (h2 : ordEq b c = true) : ordLt a c = true := by
  rw [ordEq_iff] at h2; rw [ordLt_iff] at *; rw [← h2]; exact h1

/-- `ordLt` and `ordEq` exclude each other -/
theorem ordLt_ne_ordEq {a b : Nat} (h1 : ordLt a b = true) : ordEq a b = false := by
  cases h : ordEq a b
  · rfl
  · rw [ordEq_iff] at h; rw [ordLt_iff, h] at h1; unfold SF.klt at h1; omega

/-- all NaN patterns are one class, greater than everything else -/
theorem ordLt_nan {a b : Nat} (ha : isNaN a = false) (hb : isNaN b = true) : ordLt a b = true := by
  simp [ordLt, SF.ordLt, isNaN] at *; simp [ha, hb]
theorem ordEq_nan {a b : Nat} (ha : isNaN a = true) (hb : isNaN b = true) : ordEq a b = true := by
  simp [ordEq, SF.ordEq, isNaN] at *; simp [ha, hb]
/-- the order laws of `OrderedFloat<f32>` as one bundle (all of them are proved below: nothing is assumed) -/
structure OrdAx : Prop where
  lt_irrefl : ∀ a, ordLt a a = false
  lt_trans : ∀ a b c, ordLt a b = true → ordLt b c = true → ordLt a c = true
  total : ∀ a b, ordLt a b = true ∨ ordEq a b = true ∨ ordLt b a = true
  eq_refl : ∀ a, ordEq a a = true
  eq_symm : ∀ a b, ordEq a b = true → ordEq b a = true
  eq_trans : ∀ a b c, ordEq a b = true → ordEq b c = true → ordEq a c = true
  lt_of_eq_left : ∀ a b c, ordEq a b = true → ordLt b c = true → ordLt a c = true
  lt_of_eq_right : ∀ a b c, ordLt a b = true → ordEq b c = true → ordLt a c = true
  lt_ne_eq : ∀ a b, ordLt a b = true → ordEq a b = false

theorem ordAx : OrdAx where
  lt_irrefl := ordLt_irrefl
  lt_trans := fun _ _ _ => ordLt_trans
  total := ord_total
  eq_refl := ordEq_refl
  eq_symm := fun _ _ => ordEq_symm
  eq_trans := fun _ _ _ => ordEq_trans
  lt_of_eq_left := fun _ _ _ => ordLt_of_ordEq_left
  lt_of_eq_right := fun _ _ _ => ordLt_of_ordEq_right
  lt_ne_eq := fun _ _ => ordLt_ne_ordEq

example : ordEq zero negZero = true := by decide
example : ordLt inf 0x7fc00000 = true := by decide
example : ordEq 0x7fc00000 0xffc00001 = true := by decide

end F32

namespace Reader

/-- key of a `(score, id)` pair -/
def skey (p : Nat × Nat) : Int × Int × Nat := ((F32.key p.1).1, (F32.key p.1).2, p.2)

/-- lexicographic `≤` of the keys -/
def sle (x y : Int × Int × Nat) : Prop :=
  x.1 < y.1 ∨ (x.1 = y.1 ∧ (x.2.1 < y.2.1 ∨ (x.2.1 = y.2.1 ∧ x.2.2 ≤ y.2.2)))

theorem scoreLe_iff (a b : Nat × Nat) : scoreLe a b = true ↔ sle (skey a) (skey b) := by
  unfold scoreLe sle skey
  simp only [Bool.or_eq_true, Bool.and_eq_true, decide_eq_true_eq]
  rw [F32.ordLt_iff, F32.ordEq_iff]
  unfold SF.klt
  constructor
  · rintro (h | ⟨h, h'⟩)
    · omega
    · rw [h]; omega
  · intro h
    by_cases hk : F32.key a.1 = F32.key b.1
    · right; refine ⟨hk, ?_⟩; rw [hk] at h; omega
    · have : ¬ ((F32.key a.1).1 = (F32.key b.1).1 ∧ (F32.key a.1).2 = (F32.key b.1).2) :=
        fun ⟨x, y⟩ => hk (Prod.ext x y)
      left; omega

theorem scoreLe_refl (a : Nat × Nat) : scoreLe a a = true := by
  rw [scoreLe_iff]; unfold sle; omega

theorem scoreLe_trans (a b c : Nat × Nat) (h1 : scoreLe a b = true) (h2 : scoreLe b c = true) :
    scoreLe a c = true := by
  rw [scoreLe_iff] at *; unfold sle at *; omega

theorem scoreLe_total (a b : Nat × Nat) : (scoreLe a b || scoreLe b a) = true := by
  rw [Bool.or_eq_true, scoreLe_iff, scoreLe_iff]; unfold sle; omega

/-- antisymmetry up to the float equivalence: mutually-`≤` pairs have `ordEq` scores and the same id -/
theorem scoreLe_antisymm (a b : Nat × Nat) (h1 : scoreLe a b = true) (h2 : scoreLe b a = true) :
    F32.ordEq a.1 b.1 = true ∧ a.2 = b.2 := by
  rw [scoreLe_iff] at *; rw [F32.ordEq_iff]; unfold sle skey at *
  refine ⟨Prod.ext ?_ ?_, ?_⟩ <;> simp only at * <;> omega

/-- hence on pairs with distinct ids `scoreLe` is a strict total order -/
theorem scoreLe_antisymm_ids (a b : Nat × Nat) (hne : a.2 ≠ b.2) (h1 : scoreLe a b = true) :
    scoreLe b a = false := by
  cases h : scoreLe b a
  · rfl
  · exact absurd (scoreLe_antisymm a b h1 h).2 hne

end Reader
end Arroy
