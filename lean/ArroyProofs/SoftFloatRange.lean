import ArroyModel.SoftFloat
/-! Range facts about the soft-float model (core Lean only): rounding never crosses a power of two
(`roundPack_le_pow2`), decoding of small positive patterns, and the `[0, 1]` range of `(1 - c) / 2`
for `c` clamped to `[-1, 1]` (cosine distance). -/
namespace Arroy.SF

/-- the last step of `roundPack`: assemble sign, exponent `q` (of the last mantissa bit) and mantissa -/
def finish (f : Fmt) (neg : Bool) (mant : Nat) (q : Int) : Nat :=
  if mant < 2^(f.p - 1) then packBits f neg 0 mant
  else
    if q + (f.bias : Int) + ((f.p : Int) - 1) ≥ (f.emaxField : Int) then infBits f neg
    else packBits f neg (q + (f.bias : Int) + ((f.p : Int) - 1)).toNat (mant - 2^(f.p - 1))

/-- `m / 2^s` rounded to nearest, ties to even -/
def roundMant (m s : Nat) (sticky : Bool) : Nat :=
  if m % 2^s > 2^(s-1) || (m % 2^s == 2^(s-1) && (sticky || m / 2^s % 2 == 1)) then m / 2^s + 1 else m / 2^s

/-- exponent of the last kept bit -/
def qOf (f : Fmt) (m : Nat) (e : Int) : Int := Max.max (e + (bitLen m : Int) - (f.p : Int)) f.qmin

/-- `roundPack` with its pieces named -/
def roundPack' (f : Fmt) (neg : Bool) (m : Nat) (e : Int) (sticky : Bool) : Nat :=
  if m == 0 && !sticky then packBits f neg 0 0 else
  let pr : Nat × Int :=
    if qOf f m e - e ≤ 0 then (m * 2^((qOf f m e - e).natAbs), qOf f m e)
    else if roundMant m (qOf f m e - e).toNat sticky == 2^f.p then (2^(f.p - 1), qOf f m e + 1)
    else (roundMant m (qOf f m e - e).toNat sticky, qOf f m e)
  finish f neg pr.1 pr.2

theorem roundPack_eq' (f : Fmt) (neg : Bool) (m : Nat) (e : Int) (sticky : Bool) :
    roundPack f neg m e sticky = roundPack' f neg m e sticky := by
  unfold roundPack roundPack' finish roundMant qOf
  rfl

theorem roundPack_eq (f : Fmt) (neg : Bool) (m : Nat) (e : Int) (sticky : Bool)
    (h : (m == 0 && !sticky) = false) :
    roundPack f neg m e sticky =
      if qOf f m e - e ≤ 0 then finish f neg (m * 2^((qOf f m e - e).natAbs)) (qOf f m e)
      else if roundMant m (qOf f m e - e).toNat sticky == 2^f.p then finish f neg (2^(f.p - 1)) (qOf f m e + 1)
      else finish f neg (roundMant m (qOf f m e - e).toNat sticky) (qOf f m e) := by
  rw [roundPack_eq']
  unfold roundPack'
  simp only [h, Bool.false_eq_true, if_false]
  split
  · rfl
  · split <;> rfl

/-! ### pieces -/

theorem bitLen_bounds {m : Nat} (hm : 0 < m) : 1 ≤ bitLen m ∧ 2^(bitLen m - 1) ≤ m ∧ m < 2^(bitLen m) := by
  have h0 : m ≠ 0 := by omega
  unfold bitLen
  simp only [h0, if_false]
  exact ⟨by omega, by simpa using Nat.log2_self_le h0, Nat.lt_log2_self⟩

theorem roundMant_le_succ (m s : Nat) (sticky : Bool) : roundMant m s sticky ≤ m / 2^s + 1 := by
  unfold roundMant; split <;> omega

/-- rounding to nearest never crosses a multiple of the rounding unit -/
theorem roundMant_le (m s C : Nat) (h : m ≤ C * 2^s) : roundMant m s false ≤ C := by
  have hP : 0 < 2^s := Nat.two_pow_pos s
  have hH : 0 < 2^(s-1) := Nat.two_pow_pos _
  have hd : m / 2^s ≤ C := by
    apply Nat.le_of_lt_succ
    rw [Nat.div_lt_iff_lt_mul hP, Nat.succ_mul]; omega
  unfold roundMant
  split
  · rename_i hup
    -- rounding up: the remainder is positive, so `m / 2^s < C`
    have hr : 0 < m % 2^s := by
      simp only [Bool.false_or, Bool.or_eq_true, decide_eq_true_eq, Bool.and_eq_true, beq_iff_eq] at hup
      rcases hup with h1 | ⟨h1, _⟩ <;> omega
    have hdm := Nat.div_add_mod m (2^s)
    by_cases hc : m / 2^s = C
    · rw [hc, Nat.mul_comm] at hdm; omega
    · omega
  · exact hd

theorem f32_consts : f32.p = 24 ∧ f32.bias = 127 ∧ f32.emaxField = 255 ∧ f32.qmin = -149 ∧ f32.width = 32 := by
  decide

/-- bit pattern of the positive binary32 with last-bit exponent `q` and mantissa `mant < 2^24` -/
theorem finish_le (mant : Nat) (q K : Int) (hq0 : -149 ≤ q) (hqK : q ≤ K - 23) (hK : K ≤ 127)
    (hm : mant < 2^24) (hm' : q = K - 23 → mant ≤ 2^23) :
    finish f32 false mant q ≤ (K + 127).toNat * 2^23 := by
  unfold finish packBits infBits
  obtain ⟨h1, h2, h3, h4, h5⟩ := f32_consts
  simp only [h1, h2, h3, Bool.false_eq_true, if_false]
  split
  · omega
  · split
    · omega
    · by_cases hc : q = K - 23
      · have := hm' hc; omega
      · have e1 : (q + ((127 : Nat) : Int) + (((24 : Nat) : Int) - 1)).toNat + 1 ≤ (K + 127).toNat := by omega
        have := Nat.mul_le_mul_right (2^23) e1
        omega

/-- rounding never crosses a power of two: a positive exact value `m·2^e ≤ 2^K` (`2^K` a normal
binary32) rounds to a bit pattern not above that of `2^K` -/
theorem roundPack_le_pow2 (m : Nat) (e K : Int) (hm : 0 < m) (heK : e ≤ K) (hmK : m ≤ 2^(K - e).toNat)
    (hK1 : -126 ≤ K) (hK2 : K ≤ 127) :
    roundPack f32 false m e false ≤ (K + 127).toNat * 2^23 := by
  obtain ⟨hn0, hn1, hn2⟩ := bitLen_bounds hm
  obtain ⟨c1, c2, c3, c4, c5⟩ := f32_consts
  have hq : qOf f32 m e = Max.max (e + (bitLen m : Int) - 24) (-149) := by
    unfold qOf; rw [c1, c4]; rfl
  -- `bitLen m - 1 ≤ K - e`
  have hnK : bitLen m - 1 ≤ (K - e).toNat :=
    (Nat.pow_le_pow_iff_right (by decide : 1 < 2)).mp (Nat.le_trans hn1 hmK)
  have hqK : qOf f32 m e ≤ K - 23 := by rw [hq]; omega
  have hq0 : -149 ≤ qOf f32 m e := by rw [hq]; omega
  have hqn : e + (bitLen m : Int) - 24 ≤ qOf f32 m e := by rw [hq]; omega
  have hm0 : (m == 0 && !false) = false := by
    have : m ≠ 0 := by omega
    simp [this]
  rw [roundPack_eq f32 false m e false hm0]
  generalize qOf f32 m e = q at *
  split
  · -- exact: shift left
    rename_i hsh
    have ht : (q - e).natAbs = (e - q).toNat := by omega
    rw [ht]
    apply finish_le _ q K hq0 hqK hK2
    · -- mant < 2^24
      calc m * 2^(e - q).toNat < 2^(bitLen m) * 2^(e - q).toNat :=
            Nat.mul_lt_mul_of_lt_of_le hn2 (Nat.le_refl _) (Nat.two_pow_pos _)
        _ = 2^(bitLen m + (e - q).toNat) := (Nat.pow_add _ _ _).symm
        _ ≤ 2^24 := Nat.pow_le_pow_right (by decide) (by omega)
    · intro hc
      calc m * 2^(e - q).toNat ≤ 2^(K - e).toNat * 2^(e - q).toNat := Nat.mul_le_mul_right _ hmK
        _ = 2^((K - e).toNat + (e - q).toNat) := (Nat.pow_add _ _ _).symm
        _ ≤ 2^23 := Nat.pow_le_pow_right (by decide) (by omega)
  · rename_i hsh
    -- rounding: shift right by `s ≥ 1`
    have hC : m ≤ 2^(K - q).toNat * 2^(q - e).toNat := by
      rw [← Nat.pow_add]
      have : (K - q).toNat + (q - e).toNat = (K - e).toNat := by omega
      rw [this]; exact hmK
    have hr1 := roundMant_le m (q - e).toNat _ hC
    have hr2 := roundMant_le_succ m (q - e).toNat false
    have hdiv : m / 2^(q - e).toNat < 2^24 := by
      rw [Nat.div_lt_iff_lt_mul (Nat.two_pow_pos _), ← Nat.pow_add]
      exact Nat.lt_of_lt_of_le hn2 (Nat.pow_le_pow_right (by decide) (by omega))
    generalize roundMant m (q - e).toNat false = rm at *
    rw [c1]
    split
    · rename_i hcarry
      have hrm : rm = 2^24 := by simpa using hcarry
      have h24 : 24 ≤ (K - q).toNat := by
        apply (Nat.pow_le_pow_iff_right (by decide : 1 < 2)).mp
        rw [← hrm]; exact hr1
      apply finish_le _ (q + 1) K (by omega) (by omega) hK2 (by decide)
      intro _; exact Nat.le_refl _
    · rename_i hcarry
      have hrm : rm ≠ 2^24 := by simpa using hcarry
      apply finish_le _ q K hq0 hqK hK2 (by omega)
      intro hc
      have : (K - q).toNat = 23 := by omega
      rw [this] at hr1; exact hr1

/-- decoding of a non-negative pattern not above that of `2^K` -/
theorem unpack_le_pow2 (r : Nat) (K : Int) (hK1 : -126 ≤ K) (hK2 : K ≤ 127)
    (h : r ≤ (K + 127).toNat * 2^23) :
    ∃ (m' : Nat) (e' : Int), unpack f32 r = .fin false m' e' ∧ -149 ≤ e' ∧ e' ≤ K - 23 ∧
      m' ≤ 2^(K - e').toNat ∧ (m' = 0 ↔ r = 0) := by
  obtain ⟨c1, c2, c3, c4, c5⟩ := f32_consts
  have c6 : f32.ebits = 8 := rfl
  have hex : r / 8388608 ≤ (K + 127).toNat := by omega
  have hex' : r / 8388608 % 256 = r / 8388608 := Nat.mod_eq_of_lt (by omega)
  have hsg : r / 2147483648 % 2 = 0 := by omega
  unfold unpack
  simp only [c1, c2, c3, c4, c5, c6, Nat.reduceSub, Nat.reducePow, hex', hsg]
  have hne : (r / 8388608 == 255) = false := by
    have : r / 8388608 ≠ 255 := by omega
    simpa using this
  simp only [hne, Bool.false_eq_true, if_false]
  by_cases h0 : r / 8388608 = 0
  · refine ⟨r % 8388608, -149, ?_, by omega, by omega, ?_, by omega⟩
    · simp [h0]
    · have : r % 8388608 < 2^23 := Nat.mod_lt _ (by decide)
      exact Nat.le_trans (Nat.le_of_lt this) (Nat.pow_le_pow_right (by decide) (by omega))
  · have hb : (r / 8388608 == 0) = false := by simpa using h0
    refine ⟨r % 8388608 + 8388608, ((r / 8388608 : Nat) : Int) - 127 - (24 - 1), ?_, by omega, by omega, ?_, by omega⟩
    · simp [hb]
    · by_cases hc : r / 8388608 = (K + 127).toNat
      · have hf : r % 8388608 = 0 := by omega
        have : (K - (((r / 8388608 : Nat) : Int) - 127 - (24 - 1))).toNat = 23 := by omega
        rw [this, hf]; decide
      · have : r % 8388608 + 8388608 ≤ 2^24 := by omega
        exact Nat.le_trans this (Nat.pow_le_pow_right (by decide) (by omega))

/-! ### `(1 - c) / 2` for `c ∈ [-1, 1]` -/

theorem unpack_one : unpack f32 F32.one = .fin false 8388608 (-23) := by
  simp [unpack, F32.one, f32, Fmt.width, Fmt.emaxField, Fmt.bias]
theorem unpack_negOne : unpack f32 F32.negOne = .fin true 8388608 (-23) := by
  simp [unpack, F32.negOne, f32, Fmt.width, Fmt.emaxField, Fmt.bias]
theorem unpack_two : unpack f32 F32.two = .fin false 8388608 (-22) := by
  simp [unpack, F32.two, f32, Fmt.width, Fmt.emaxField, Fmt.bias]
theorem unpack_zero : unpack f32 0 = .fin false 0 (-149) := by
  simp [unpack, f32, Fmt.width, Fmt.emaxField, Fmt.qmin, Fmt.bias]

theorem exactAdd_one (nn : Bool) (m : Nat) (e : Int) :
    ∃ (A M : Nat), 2 * A = 2^(1 - Min.min (-23) e).toNat ∧
      exactAdd false 8388608 (-23) (!nn) m e =
        (decide ((A : Int) + (if (!nn) = true then -(M : Int) else (M : Int)) < 0),
         ((A : Int) + (if (!nn) = true then -(M : Int) else (M : Int))).natAbs, Min.min (-23) e) ∧
      exactAdd nn m e false 8388608 (-23) =
        (decide ((if nn = true then -(M : Int) else (M : Int)) + (A : Int) < 0),
         ((if nn = true then -(M : Int) else (M : Int)) + (A : Int)).natAbs, Min.min (-23) e) := by
  refine ⟨8388608 * 2 ^ (-23 - Min.min (-23) e).toNat, m * 2 ^ (e - Min.min (-23) e).toNat, ?_, ?_, ?_⟩
  · have : (1 - Min.min (-23) e).toNat = 24 + (-23 - Min.min (-23) e).toNat := by omega
    rw [this, Nat.pow_add]; omega
  · unfold exactAdd; simp
  · unfold exactAdd; simp [Int.min_comm e (-23)]

/-- `1 - c` for `-1 ≤ c ≤ 1` is a non-negative pattern not above `2.0` -/
theorem one_sub_le (c : Nat) (hn : isNaN f32 c = false) (h1 : lt f32 c F32.negOne = false)
    (h2 : lt f32 F32.one c = false) : sub f32 F32.one c ≤ 128 * 2^23 := by
  unfold lt at h1 h2
  unfold isNaN at hn
  unfold sub
  rw [unpack_one] at *
  rw [unpack_negOne] at h1
  cases hc : unpack f32 c with
  | nan => simp [hc] at hn
  | inf s => rw [hc] at h1 h2; cases s <;> simp [ltV] at h1 h2
  | fin n m e =>
    rw [hc] at h1 h2
    obtain ⟨A, M, hA2, ea1, ea2⟩ := exactAdd_one n m e
    simp only [ltV, negV, addV, Bool.not_true] at h1 h2 ⊢
    rw [ea1] at h2 ⊢
    rw [ea2] at h1
    simp only at h1 h2 ⊢
    have hs : 0 ≤ (A : Int) + (if (!n) = true then -(M : Int) else (M : Int)) ∧
        ((A : Int) + (if (!n) = true then -(M : Int) else (M : Int))).natAbs ≤ 2 * A := by
      cases n <;> simp at h1 h2 ⊢ <;> omega
    generalize (A : Int) + (if (!n) = true then -(M : Int) else (M : Int)) = S at *
    split
    · simp [packBits]
    · rename_i hz
      have hz' : S.natAbs ≠ 0 := by simpa using hz
      have hd : decide (S < 0) = false := by simp; omega
      rw [hd]
      have := roundPack_le_pow2 S.natAbs (Min.min (-23) e) 1 (by omega) (by omega)
        (by rw [← hA2]; exact hs.2) (by decide) (by decide)
      exact this

theorem bitLen_2p23 : bitLen 8388608 = 24 := by decide

/-- halving a non-negative pattern not above `2.0` gives a pattern not above `1.0` -/
theorem div_two_le (r : Nat) (h : r ≤ 128 * 2^23) : div f32 r F32.two ≤ 127 * 2^23 := by
  obtain ⟨m', e', hu, he0, he', hm', hz⟩ := unpack_le_pow2 r 1 (by decide) (by decide) h
  unfold div
  rw [hu, unpack_two]
  simp only [bitLen_2p23]
  have c1 : f32.p = 24 := rfl
  by_cases hm0 : m' = 0
  · simp [hm0, packBits]
  · have hb : (m' == 0) = false := by simpa using hm0
    simp only [c1, hb, Bool.false_eq_true, if_false, Nat.reduceAdd, Nat.reducePow, Nat.reduceBEq]
    have e1 : m' * 2251799813685248 / 8388608 = m' * 2^28 := by omega
    have e2 : (m' * 2251799813685248 % 8388608 != 0) = false := by
      have : m' * 2251799813685248 % 8388608 = 0 := by omega
      simp [this]
    rw [e1, e2]
    have := roundPack_le_pow2 (m' * 2^28) (e' - -22 - ((51 : Nat) : Int)) 0
      (Nat.mul_pos (by omega) (by decide)) (by omega)
      (by
        have : (0 - (e' - -22 - ((51 : Nat) : Int))).toNat = (1 - e').toNat + 28 := by omega
        rw [this, Nat.pow_add]
        exact Nat.mul_le_mul_right _ hm')
      (by decide) (by decide)
    exact this

/-- a pattern not above that of `1.0` is a number in `[0, 1]` -/
theorem le_of_small (d : Nat) (h : d ≤ 127 * 2^23) : le f32 0 d = true ∧ le f32 d F32.one = true := by
  obtain ⟨m', e', hu, he0, he', hm', hz⟩ := unpack_le_pow2 d 0 (by decide) (by decide) h
  unfold le lt isNaN
  rw [hu, unpack_one, unpack_zero]
  have hmin : Min.min (-23) e' = e' := Int.min_eq_right (by omega)
  have hA : (8388608 * 2 ^ (-23 - e').toNat : Nat) = 2^(0 - e').toNat := by
    have : (0 - e').toNat = 23 + (-23 - e').toNat := by omega
    rw [this, Nat.pow_add]
  constructor
  · simp only [ltV, exactAdd]
    generalize (m' * 2 ^ (e' - Min.min e' (-149)).toNat : Nat) = M
    rw [Nat.zero_mul]
    simp
  · simp only [ltV, exactAdd, hmin]
    have : (e' - e').toNat = 0 := by omega
    rw [this, hA, Nat.pow_zero, Nat.mul_one]
    generalize (2 ^ (0 - e').toNat : Nat) = P at *
    simp
    omega

/-- `clamp(-1, 1)` of a non-NaN value lies in `[-1, 1]` -/
theorem clamp_range (x : Nat) (hx : isNaN f32 x = false) :
    isNaN f32 (clamp f32 x F32.negOne F32.one) = false ∧
    lt f32 (clamp f32 x F32.negOne F32.one) F32.negOne = false ∧
    lt f32 F32.one (clamp f32 x F32.negOne F32.one) = false := by
  unfold clamp gt
  cases h1 : lt f32 x F32.negOne
  · cases h2 : lt f32 F32.one x
    · simp only [Bool.false_eq_true, if_false]; exact ⟨hx, h1, h2⟩
    · simp only [Bool.false_eq_true, if_false, if_true]; decide
  · simp only [if_true]; decide

/-- the cosine formula on a non-NaN cosine: `(1 - clamp(x, -1, 1)) / 2 ∈ [0, 1]` -/
theorem cosine_formula_range (x : Nat) (hx : isNaN f32 x = false) :
    le f32 0 (div f32 (sub f32 F32.one (clamp f32 x F32.negOne F32.one)) F32.two) = true ∧
    le f32 (div f32 (sub f32 F32.one (clamp f32 x F32.negOne F32.one)) F32.two) F32.one = true := by
  obtain ⟨a, b, c⟩ := clamp_range x hx
  exact le_of_small _ (div_two_le _ (one_sub_le _ a b c))

/-- a NaN cosine stays NaN -/
theorem cosine_formula_nan (x : Nat) (hx : isNaN f32 x = true) :
    div f32 (sub f32 F32.one (clamp f32 x F32.negOne F32.one)) F32.two = qnan f32 := by
  have hu : unpack f32 x = .nan := by
    unfold isNaN at hx
    cases h : unpack f32 x <;> simp [h] at hx ⊢
  have hc : clamp f32 x F32.negOne F32.one = x := by
    unfold clamp gt lt; rw [hu, unpack_one, unpack_negOne]; simp [ltV]
  rw [hc]
  have hs : sub f32 F32.one x = qnan f32 := by
    unfold sub; rw [hu, unpack_one]; rfl
  rw [hs]
  have hq : unpack f32 (qnan f32) = .nan := by
    simp [unpack, qnan, packBits, f32, Fmt.emaxField]
  unfold div; rw [hq]

end Arroy.SF
